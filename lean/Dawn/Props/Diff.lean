import Dawn.Proofs.DiffTop
/-!
# C16 — diffs are faithful to both values

Property theorems only. `diffDepth` models `diff.DiffDepth`, `diffSliceEdits` the sequence diff `diffSlice`
(the O(NP) search `compose`/`snake`, `recordSeq`, `extend`, the replace merge), `mappingEdits` the two loops of
`diffMapping`, `equalDepth` is `starlark.EqualDepth`, `diffEnv` the rebuild reason of `function.go`. They are
tied to the source by `Dawn/Ties/Diff.lean` and by the correspondence streams `diff.*` of `checks/C16.py`.
-/
namespace Dawn.Diff

/-- C16, empty iff equal: `DiffDepth` answers `nil` exactly when `EqualDepth` (same depth) says the values are
equal; when it says they differ the answer is a diff or the depth error of a nested comparison, never `nil`. -/
theorem C16_empty_iff (d : Nat) (a b : Val) :
    (diffDepth d a b = .ok none ↔ equalDepth d a b = .ok true) ∧
    (equalDepth d a b = .ok false → diffDepth d a b ≠ .ok none) := by
  cases d with
  | zero => simp [diffDepth, diffDepthWith, equalDepth]
  | succ d =>
    simp only [diffDepth, diffDepthWith]
    cases h : equalDepth (d + 1) a b with
    | error e => simp
    | ok r =>
      cases r with
      | true => simp
      | false =>
        simp only [ne_eq, true_implies]
        refine ⟨?_, ?_⟩ <;>
        · split
          · split <;> simp
          · split
            · split <;> simp
            · simp

/-- C16, what "equal" means: within the depth limit and on values without dicts `EqualDepth` is equality of the
values (for dicts it is equality up to the order of insertion, which the correspondence stream `diff.equal`
compares with the implementation); so the diff of two such values is empty exactly when they are the same. -/
theorem C16_empty_iff_same (d : Nat) (a b : Val) (hf : a.dictFree = true) (hh : a.height ≤ d) :
    diffDepth d a b = .ok none ↔ a = b := by
  rw [(C16_empty_iff d a b).1, equalDepth_dictFree d a b hf hh]
  simp only [Except.ok.injEq]
  exact Val.beq_iff_eq a b

/-- C16, sides: a diff reports the two values it was made from, in the order given (the repair of D5). -/
theorem C16_sides (d : Nat) (a b : Val) (x : VDiff) (h : diffDepth d a b = .ok (some x)) :
    x.old = a ∧ x.new = b := by
  cases d with
  | zero => simp [diffDepth, diffDepthWith] at h
  | succ d =>
    simp only [diffDepth, diffDepthWith] at h
    split at h
    · cases h
    · cases h
    · split at h
      · split at h
        · cases h
        · simp only [sliceSides, Bool.false_and, Bool.false_eq_true, ↓reduceIte, Except.ok.injEq,
            Option.some.injEq] at h
          subst h
          exact ⟨rfl, rfl⟩
      · split at h
        · split at h
          · cases h
          · simp only [Except.ok.injEq, Option.some.injEq] at h
            subst h
            exact ⟨rfl, rfl⟩
        · simp only [Except.ok.injEq, Option.some.injEq] at h
          subst h
          exact ⟨rfl, rfl⟩

/-- D5 (regression witness): `diffSlice` as it was built its result from the two sequences *after* exchanging
them (it exchanges them whenever the old one is not shorter): the diff of "abc" and "abd" reported "abd" as the
old value. With the repair it reports "abc". -/
theorem C16_sides_counterexample :
    let abc : Val := .str [97, 98, 99]
    let abd : Val := .str [97, 98, 100]
    (match diffDepthWith defaultRouteSize true compareLimit abc abd with
     | .ok (some x) => x.old.beq abd && x.new.beq abc
     | _ => false) = true ∧
    (match diff abc abd with
     | .ok (some x) => x.old.beq abc && x.new.beq abd
     | _ => false) = true := by
  decide +kernel

/-- C16, faithful edits (sequences), for the sequence diff on lists over any element type, whatever `routeSize`
(so including the restart path): provided the element comparison does not fail (`heq`, in both argument orders
because `diffSlice` may exchange the sequences) and, when replacements are diffed element by element, those
diffs do not fail (`hD`), `diffSlice` returns an edit script and the script reproduces both sequences
(`Recon`): the values of its `common` and `delete` edits and the old sides of its `replace` edits, in order,
are exactly `a`; the values of its `add` edits, the new sides of its `replace` edits and, for `common` edits,
elements found equal to the kept ones, are exactly `b`; every entry of a `replace` is the diff of the pair of
elements at that position (`None` iff that diff is empty, i.e. the elements are equal). -/
theorem C16_faithful {α δ : Type} (eq : α → α → Except Err Bool) (eqb : α → α → Bool)
    (elemDiff : α → α → Except Err (Option δ)) (lit : Option (List α → List α → δ))
    (routeSize : Nat) (hrs : 1 ≤ routeSize) (a b : List α)
    (heq : ∀ x ∈ a, ∀ y ∈ b, eq x y = .ok (eqb x y)) (heq' : ∀ x ∈ b, ∀ y ∈ a, eq x y = .ok (eqb x y))
    (hD : ∀ x ∈ a, ∀ y ∈ b, lit = none → ∃ d, elemDiff x y = .ok d) :
    ∃ edits, diffSliceEdits eq elemDiff lit routeSize a b = .ok edits ∧ Recon eqb elemDiff lit edits a b :=
  diffSliceEdits_spec eq eqb elemDiff lit routeSize hrs a b heq heq' hD

/-- C16, termination and memory safety of the search: the rounds `for p := 0; ; p++` get fuel `m + n + 2`, the
passes `for { … }` fuel `m + n + 1`, the route extraction `len(points) + 1`, every array access is checked —
and none of these bounds is ever hit: the result is never `outOfFuel` and never a Go panic. -/
theorem C16_terminates {α δ : Type} (eq : α → α → Except Err Bool) (eqb : α → α → Bool)
    (elemDiff : α → α → Except Err (Option δ)) (lit : Option (List α → List α → δ))
    (routeSize : Nat) (hrs : 1 ≤ routeSize) (a b : List α)
    (heq : ∀ x ∈ a, ∀ y ∈ b, eq x y = .ok (eqb x y)) (heq' : ∀ x ∈ b, ∀ y ∈ a, eq x y = .ok (eqb x y))
    (hD : ∀ x ∈ a, ∀ y ∈ b, lit = none → ∃ d, elemDiff x y = .ok d) :
    diffSliceEdits eq elemDiff lit routeSize a b ≠ .error .outOfFuel ∧
    diffSliceEdits eq elemDiff lit routeSize a b ≠ .error .indexPanic := by
  obtain ⟨edits, h, _⟩ := diffSliceEdits_spec eq eqb elemDiff lit routeSize hrs a b heq heq' hD
  rw [h]; exact ⟨by simp, by simp⟩

/-- C16 for Starlark values, totality: `DiffDepth` on values no deeper than its depth (and no deeper than the
limit 1000 of `snake`, plus one) returns a diff or `nil` — no depth error, no panic, no fuel shortage. `Diff`
uses depth `CompareLimit = 10`. -/
theorem C16_total (d : Nat) (a b : Val) (ha : a.height ≤ d) (hb : b.height ≤ d) (hd : d ≤ snakeDepth + 1) :
    ∃ r, diffDepth d a b = .ok r :=
  diffDepthWith_total defaultRouteSize (by decide) false d a b ha hb hd

/-- C16 for Starlark values, faithful edits: the sequence diff of two strings, bytes, tuples or lists (any mix)
reproduces the elements of both, with replacements diffed one level down (for two strings or bytes: one literal
diff of the two pieces). -/
theorem C16_faithful_values (d : Nat) (a b : Val) (xs ys : List Val)
    (hxs : a.elems? = some xs) (hys : b.elems? = some ys)
    (ha : a.height ≤ d + 1) (hb : b.height ≤ d + 1) (hd : d ≤ snakeDepth)
    (hne : equalDepth (d + 1) a b = .ok false) :
    ∃ edits, diffDepth (d + 1) a b = .ok (some (.slice a b edits)) ∧
      Recon eqbV (diffDepth d) (litOf a b) edits xs ys := by
  obtain ⟨edits, he, hr⟩ := slice_case defaultRouteSize (by decide) (diffDepth d) d
    (fun x y h1 h2 => diffDepthWith_total defaultRouteSize (by decide) false d x y h1 h2 (by omega))
    a b xs ys hxs hys ha hb hd
  refine ⟨edits, ?_, hr⟩
  simp only [litOf, diffDepth] at he
  simp only [diffDepth, diffDepthWith, hne, hxs, hys, he, sliceSides, Bool.false_and, Bool.false_eq_true, ↓reduceIte]

/-- C16, mappings: `diffMapping` reports an edit exactly for each key added, removed or changed, with the right
kind and content: a key only in the old mapping is a `delete` of its old value, a key only in the new one an
`add` of its new value, a key in both is a `replace` carrying the diff of the two values — unless that diff is
empty (the values are equal), in which case there is no edit for the key; a key in neither has no edit. -/
theorem C16_mapping (f : Val → Val → Except Err (Option VDiff)) (old new : List (Val × Val))
    (es : List (Val × Edit Val VDiff)) (ho : KeysDistinct old) (hn : KeysDistinct new)
    (h : mappingEdits f old new = .ok es) (k : Val) :
    match lookup k old, lookup k new with
    | none, none => editFor k es = none
    | some ov, none => editFor k es = some (k, .delete [ov])
    | none, some nv => editFor k es = some (k, .add [nv])
    | some ov, some nv => (f ov nv = .ok none ∧ editFor k es = none) ∨
                          (∃ d, f ov nv = .ok (some d) ∧ editFor k es = some (k, .replace [some d])) :=
  mappingEdits_spec f old new es ho hn h k

/-- the part `k` of two environments differs: present in one only, or with values that do not compare equal -/
def partChanged (k : Val) (old new : List (Val × Val)) : Bool :=
  match lookup k old, lookup k new with
  | none, none => false
  | some ov, some nv =>
    match equalDepth (envDepth - 1) ov nv with
    | .ok true => false
    | _ => true
  | _, _ => true

/-- C16, rebuild reason: when `diffEnv` reports two environment dicts as changed, the reason it shows names
exactly the parts (keys of `functionEnvKeys`, in that order) whose values differ, joined as
"a", "a and b" or "a, b, and c", followed by " changed"; and when they differ only in a part that is not one of
`functionEnvKeys` (a record written by another version) the reason is the generic "environment changed" — with
the diff (the repair of D28; the code used to panic there). -/
theorem C16_reason (old new : List (Val × Val)) (ho : KeysDistinct old) (hn : KeysDistinct new)
    (r : String) (d : VDiff) (h : diffEnv (some (.dict old)) false (.dict new) = .changed r d) :
    ((functionEnvKeys.filter fun k => partChanged (.str k.toUTF8.toList) old new) = [] ∧ r = "environment changed") ∨
    ((functionEnvKeys.filter fun k => partChanged (.str k.toUTF8.toList) old new) ≠ [] ∧
     ∃ rs, joinReasons (functionEnvKeys.filter fun k => partChanged (.str k.toUTF8.toList) old new) = .ok rs ∧
      r = rs ++ " changed") := by
  have hE : envDepth = (envDepth - 1) + 1 := by decide
  unfold diffEnv at h
  simp only [Bool.false_eq_true, ↓reduceIte] at h
  split at h
  · cases h
  · cases h
  · rw [diffDepth, hE] at h
    simp only [diffDepthWith] at h
    rw [← hE] at h
    rename_i heq
    simp only [heq, Val.elems?] at h
    split at h
    · cases h
    · cases h
    · rename_i o' n' edits hm
      split at hm
      · cases hm
      · rename_i edits' hme
        simp only [Except.ok.injEq, Option.some.injEq, VDiff.mapping.injEq] at hm
        obtain ⟨rfl, rfl, rfl⟩ := hm
        have hfilter : (functionEnvKeys.filter fun k => hasEdit (.str k.toUTF8.toList) edits') =
            functionEnvKeys.filter fun k => partChanged (.str k.toUTF8.toList) old new := by
          apply List.filter_congr
          intro k _
          generalize (Val.str k.toUTF8.toList) = key
          rw [hasEdit_eq]
          have hs := mappingEdits_spec _ old new edits' ho hn hme key
          have hiff := fun ov nv => (C16_empty_iff (envDepth - 1) ov nv).1
          unfold partChanged
          cases hlo : lookup key old <;> cases hln : lookup key new <;>
            simp only [hlo, hln] at hs ⊢
          · simp [hs]
          · simp [hs]
          · simp [hs]
          · rename_i ov nv
            rcases hs with ⟨e1, e2⟩ | ⟨dd, e1, e2⟩
            · have := (hiff ov nv).mp e1
              simp [e2, this]
            · have hne : ¬ equalDepth (envDepth - 1) ov nv = .ok true := by
                intro hc
                have := (hiff ov nv).mpr hc
                rw [diffDepth] at this
                rw [this] at e1
                cases e1
              simp only [e2, Option.isSome_some]
        rw [hfilter] at h
        split at h
        · rename_i hnil
          simp only [EnvResult.changed.injEq] at h
          exact Or.inl ⟨hnil, h.1.symm⟩
        · rename_i hne
          split at h
          · rename_i rs hj
            simp only [EnvResult.changed.injEq] at h
            exact Or.inr ⟨fun e => hne e, rs, hj, h.1.symm⟩
          · cases h
    · cases h

/-- C16, rebuild reason, the remaining outcomes of `diffEnv` (after the repair of D25): a target without a record
has never been run; equal encodings mean up to date, and nothing else does; when the encodings differ but the
two environments compare equal — no part differs by `==`, yet the function can tell them apart: `1` and `1.0`,
`0.0` and `-0.0`, one shared list and two equal lists — or cannot be compared within the depth limit, the
reason is the generic "environment changed" with no diff; a reason that is shown with a diff comes with a mapping
diff, and if that diff touches none of the `functionEnvKeys` the reason is the generic one (with the diff). -/
theorem C16_reason_cases (old new : Val) :
    diffEnv none false new = .neverRun ∧
    diffEnv (some old) true new = .same ∧
    (∀ se, diffEnv (some old) se new = .same → se = true) ∧
    (equalDepth envDepth old new = .ok true → diffEnv (some old) false new = .changedOpaque) ∧
    ((∃ e, equalDepth envDepth old new = .error e) → diffEnv (some old) false new = .changedOpaque) ∧
    (∀ r d, diffEnv (some old) false new = .changed r d →
      equalDepth envDepth old new = .ok false ∧
      ∃ o n edits, d = .mapping o n edits ∧
        ((functionEnvKeys.filter fun k => hasEdit (.str k.toUTF8.toList) edits) = [] → r = "environment changed")) := by
  refine ⟨rfl, rfl, ?_, ?_, ?_, ?_⟩
  · intro se h
    cases se with
    | true => rfl
    | false =>
      simp only [diffEnv, Bool.false_eq_true, ↓reduceIte] at h
      repeat' split at h
      all_goals first | cases h | skip
  · intro h; simp [diffEnv, h]
  · rintro ⟨e, h⟩; simp [diffEnv, h]
  · intro r d h
    simp only [diffEnv, Bool.false_eq_true, ↓reduceIte] at h
    split at h
    · cases h
    · cases h
    · rename_i heq
      refine ⟨heq, ?_⟩
      split at h
      · split at h
        · cases h
        · cases h
        · rename_i o n edits _
          split at h
          · simp only [EnvResult.changed.injEq] at h
            exact ⟨o, n, edits, h.2.symm, fun _ => h.1.symm⟩
          · rename_i hne
            split at h
            · simp only [EnvResult.changed.injEq] at h
              exact ⟨o, n, edits, h.2.symm, fun e => absurd e (fun e' => hne e')⟩
            · cases h
        · cases h
      · cases h
      · cases h

/-! ### non-vacuity: concrete instances (evaluated by the kernel) -/

def vs (s : String) : Val := .str s.toUTF8.toList

/-- the hypotheses of `C16_faithful_values` hold for "abcab" / "acabb" and the script found is
`= a, ~ (b → c), + ab, = a(b)…`: here checked only for shape: a sequence diff with the two values as sides -/
example : (match diff (vs "abcab") (vs "acabb") with
    | .ok (some (.slice o n es)) => o.beq (vs "abcab") && n.beq (vs "acabb") && es.length == 4
    | _ => false) = true := by decide +kernel
example : ((vs "abcab").elems?.isSome && decide ((vs "abcab").height ≤ 9 + 1) && decide ((9 : Nat) ≤ snakeDepth) &&
    (match equalDepth (9 + 1) (vs "abcab") (vs "acabb") with | .ok false => true | _ => false)) = true := by
  decide +kernel
/-- a nested value: a dict inside a list inside a tuple; the diff is a sequence diff whose replace carries a
mapping diff -/
example : (match diff (.tuple [vs "x", .list [.dict [(vs "k", vs "v")]]]) (.tuple [vs "x", .list [.dict [(vs "k", vs "w")]]]) with
    | .ok (some (.slice _ _ [.common _, .replace [some (.slice _ _ [.replace [some (.mapping _ _ [(_, .replace _)])]])]])) => true
    | _ => false) = true := by decide +kernel
/-- equal dicts in another insertion order: no diff -/
example : (match diff (.dict [(vs "a", vs "1"), (vs "b", vs "2")]) (.dict [(vs "b", vs "2"), (vs "a", vs "1")]) with
    | .ok none => true | _ => false) = true := by decide +kernel
/-- the depth limit: `Diff` refuses values nested deeper than `CompareLimit` -/
example : (match diffDepth 2 (.tuple [.tuple [vs "a"]]) (.tuple [.tuple [vs "b"]]) with
    | .error .depth => true | _ => false) = true := by decide +kernel
/-- the restart path: with `routeSize = 1` the search restarts several times and the script is still found -/
example : (match diffDepthWith 1 false 10 (vs "abcabc") (vs "xbxcax") with
    | .ok (some (.slice _ _ es)) => es.length > 0 | _ => false) = true := by decide +kernel
/-- the reason of two environments that differ in their code and in a global -/
example : (match diffEnv (some (.dict [(vs "global values", vs "1"), (vs "code", vs "x"), (vs "names", vs "n")])) false
      (.dict [(vs "global values", vs "2"), (vs "code", vs "y"), (vs "names", vs "n")]) with
    | .changed r _ => r == "global values and code changed" | _ => false) = true := by decide +kernel
example : KeysDistinct [(.str [97], .str [49]), (.str [98], .str [50])] := by
  simp [KeysDistinct]

end Dawn.Diff

import Dawn.Proofs.Cache
/-!
# C20 — `Cache.once` computes each key at most once under concurrency

Property theorems only. `next` is the model of `cache.get`/`cache.once` (/repo/cache.go; tied to the source by
`Dawn/Ties/Cache.lean` and by the trace streams `cache.sched`, `cache.stress` validated by `drv_cache`).
`Reachable s`: `s` is reached by *some* interleaving of *some* family of caller programs — any number of
threads, any keys, any number of calls per thread, every call's callable succeeding with any value or failing.
Ghost observations: `okCalls k` (results of the successful invocations of callables for `k`), `failCalls k`,
`rets` (every return of `once`: thread, key, `some value` or `none` for the callable's error).
-/
namespace Dawn.Cache

/-- C20, at most once: among the invocations that succeed, at most one per key — in every reachable state. -/
theorem C20_once {s : State} (h : Reachable s) (k : Key) : (s.okCalls k).length ≤ 1 := by
  have inv := inv_reachable h
  cases hc : s.okCalls k with
  | nil => simp
  | cons v l => have := (inv.calls_ent k v l hc).1; subst this; simp

/-- C20, same value: any two successful returns of `once` for a key carry the same value, and it is the
result of the one successful invocation, which is what the cache holds. -/
theorem C20_same_value {s : State} (h : Reachable s) {t t' : Tid} {k : Key} {v v' : Val}
    (h1 : (t, k, some v) ∈ s.rets) (h2 : (t', k, some v') ∈ s.rets) :
    v = v' ∧ s.okCalls k = [v] ∧ s.entries k = some v := by
  have inv := inv_reachable h
  have e1 := inv.rets_ent _ _ _ h1
  have e2 := inv.rets_ent _ _ _ h2
  rw [e1] at e2
  exact ⟨by cases e2; rfl, inv.ent_calls _ _ e1, e1⟩

/-- C20, a failing call caches nothing: the cache holds a value for `k` only if a callable *succeeded* for `k`
(with exactly that value) — so as long as every invocation for `k` has failed, however many, `k` is absent;
and `once` returns an error only when a callable for that key has failed. -/
theorem C20_fail_caches_nothing {s : State} (h : Reachable s) (k : Key) :
    (s.okCalls k = [] → s.entries k = none) ∧
    (∀ v, s.entries k = some v → s.okCalls k = [v]) ∧
    (∀ t, (t, k, none) ∈ s.rets → 1 ≤ s.failCalls k) := by
  have inv := inv_reachable h
  refine ⟨?_, inv.ent_calls k, fun t ht => inv.rets_fail t k ht⟩
  intro h0
  cases he : s.entries k with
  | none => rfl
  | some v => have := inv.ent_calls k v he; rw [h0] at this; cases this

/-- the step that fails leaves the cache exactly as it was -/
theorem C20_failing_step_keeps_entries {s s' : State} {t : Tid} {op : Op} {rest : List Op}
    (hp : s.prog t = op :: rest) (hpc : s.pc t = .miss) (hf : op.out = .fail) (hn : next s t = some s') :
    s'.entries = s.entries ∧ s'.pc t = .holding none := by
  simp only [next, hp, hpc, hf] at hn
  cases hn
  simp

/-- C20, the call is made only under the writer lock after a miss: while a thread is at / inside the call,
the lock is write-held, nobody holds a read lock, no other thread is in the critical section, and the
key is absent. -/
theorem C20_call_exclusive {s : State} (h : Reachable s) {t : Tid} {op : Op} {rest : List Op}
    (hp : s.prog t = op :: rest) (hpc : s.pc t = .miss ∨ ∃ v, s.pc t = .callok v) :
    s.writer = true ∧ s.readers = 0 ∧ s.entries op.key = none ∧ ∀ t', inW (s.pc t') = true → t' = t := by
  have inv := inv_reachable h
  have hw : inW (s.pc t) = true := by
    rcases hpc with h | ⟨v, h⟩ <;> simp [h, inW]
  have hwr := inv.wflag t hw
  refine ⟨hwr, ?_, ?_, fun t' ht' => inv.wuniq t' t ht' hw⟩
  · rw [inv.rcount, inv.excl hwr]; rfl
  · rcases hpc with h | ⟨v, h⟩
    · exact inv.miss_none t op rest hp h
    · exact (inv.callok_none t op rest v hp h).1

/-- C20, retry: when every invocation for `k` so far has failed (any number of them), the lock is free and
thread `t` is about to call `once(k, f)` with `f` succeeding with `v`, then that call invokes `f`, returns
`v`, and `v` is cached. -/
theorem C20_retry_possible {s : State} (h : Reachable s) {t : Tid} {k : Key} {v : Val} {rest : List Op}
    (hcalls : s.okCalls k = []) (hw : s.writer = false) (hr : s.readers = 0)
    (hpc : s.pc t = .start) (hp : s.prog t = ⟨k, .ok v⟩ :: rest) :
    ∃ s', Steps s s' ∧ s'.rets = (t, k, some v) :: s.rets ∧ s'.okCalls k = [v] ∧ s'.entries k = some v
      ∧ s'.prog t = rest := by
  have he : s.entries k = none := (C20_fail_caches_nothing h k).1 hcalls
  have hrun : ∃ s', run s [t, t, t, t, t, t, t, t, t] = some s' ∧ s'.rets = (t, k, some v) :: s.rets ∧
      s'.okCalls k = [v] ∧ s'.entries k = some v ∧ s'.prog t = rest := by
    simp [run, next, hp, hpc, hw, hr, he, hcalls, afterGet, afterRecheck]
  obtain ⟨s', h1, h2⟩ := hrun
  exact ⟨s', steps_of_run h1, h2⟩

/-- C20, no deadlock among callers (the callables themselves do not re-enter the cache): in every reachable
state in which some thread still has a call to make or finish, some thread can take a step. -/
theorem C20_deadlock_free {s : State} (h : Reachable s) (t : Tid) (hp : s.prog t ≠ []) :
    ∃ t' s', next s t' = some s' := by
  have inv := inv_reachable h
  -- a thread inside a critical section can always step
  have hold : ∀ t', (inW (s.pc t') = true ∨ inR (s.pc t') = true) → ∃ s', next s t' = some s' := by
    intro t' hin
    have hne : s.prog t' ≠ [] := inv.active t' (by intro h0; simp [h0, inW, inR] at hin)
    cases hpr : s.prog t' with
    | nil => exact absurd hpr hne
    | cons op rest =>
      cases hpc : s.pc t' <;> simp [hpc, inW, inR] at hin <;> simp only [next, hpr, hpc]
      · exact ⟨_, rfl⟩
      · exact ⟨_, rfl⟩
      · exact ⟨_, rfl⟩
      · cases op.out <;> exact ⟨_, rfl⟩
      · exact ⟨_, rfl⟩
      · exact ⟨_, rfl⟩
  cases hw : s.writer with
  | true =>
    obtain ⟨t', ht'⟩ := inv.wsome hw
    exact ⟨t', hold t' (Or.inl ht')⟩
  | false =>
    cases hrs : s.rset with
    | cons t' l =>
      have : inR (s.pc t') = true := (inv.rmem t').2 (by simp [hrs])
      exact ⟨t', hold t' (Or.inr this)⟩
    | nil =>
      have hr0 : s.readers = 0 := by rw [inv.rcount, hrs]; rfl
      cases hpr : s.prog t with
      | nil => exact absurd hpr hp
      | cons op rest =>
        refine ⟨t, ?_⟩
        cases hpc : s.pc t <;> simp only [next, hpr, hpc, hw, hr0]
        · exact ⟨_, rfl⟩
        · exact ⟨_, rfl⟩
        · exact ⟨_, rfl⟩
        · exact ⟨_, rfl⟩
        · exact ⟨_, rfl⟩
        · cases op.out <;> exact ⟨_, rfl⟩
        · exact ⟨_, rfl⟩
        · exact ⟨_, rfl⟩
        · exact ⟨_, rfl⟩

/-- C20, nothing is forgotten: an entry, once present, stays with its value through every later step of every thread —
however many keys the cache holds (the model has no capacity because none may exist: `no_eviction_ok`), and whatever any
other cache does (a cache's state is its own value: `no_shared_state_ok`, `cache_fields_ok`). -/
theorem C20_entries_monotone {s s' : State} (h : Reachable s) (hs : Steps s s') {k : Key} {v : Val}
    (he : s.entries k = some v) : s'.entries k = some v := by
  -- one step of one thread
  have step : ∀ {a b : State} {t : Tid}, Inv a → next a t = some b → a.entries k = some v → b.entries k = some v := by
    intro a b t inv hn hk
    unfold next at hn
    split at hn
    · cases hn
    · rename_i op rest hp
      split at hn
      · split at hn
        · cases hn
        · cases hn; exact hk
      · cases hn; exact hk
      · cases hn; exact hk
      · split at hn
        · cases hn
        · cases hn; exact hk
      · cases hn; exact hk
      · split at hn <;> (cases hn; exact hk)
      · -- the store: the key being stored was absent, so it is not `k`
        rename_i v' hpc
        cases hn
        simp only [upd]
        split
        · rename_i e
          have := (inv.callok_none t op rest v' hp hpc).1
          rw [← e, hk] at this; cases this
        · exact hk
      · cases hn; exact hk
      · cases hn; exact hk
  induction hs with
  | refl => exact he
  | tail hst st ih =>
    obtain ⟨t, ht⟩ := st
    exact step (inv_steps (inv_reachable h) hst) ht ih

/-- C20, freezing does not matter: `Freeze` — which Starlark applies to a module-level cache before any target body
runs — leaves the state as it is, so every theorem above holds for frozen caches exactly as for fresh ones: a frozen
cache still stores what it computes, later callers still get that value without recomputing. (The abstraction rests on
`(*cache).Freeze` being a no-op and on the struct having no further state: `freeze_is_noop_ok`, `cache_fields_ok`.) -/
theorem C20_freeze_irrelevant (s : State) :
    freeze s = s ∧ (Reachable s → Reachable (freeze s)) ∧ (∀ t, next (freeze s) t = next s t) :=
  ⟨rfl, id, fun _ => rfl⟩

/-! ## Non-vacuity: concrete reachable states exhibiting the hypotheses -/

/-- three callers: thread 0 fails for key 0 and retries with 5, thread 1 asks key 0 with 7, thread 2 key 1 failing -/
def exProg : Tid → List Op
  | 0 => [⟨0, .fail⟩, ⟨0, .ok 5⟩]
  | 1 => [⟨0, .ok 7⟩]
  | 2 => [⟨1, .fail⟩]
  | _ => []

/-- thread 0 fails first; thread 1 then computes 7; thread 0's retry and nobody else computes again -/
def exSched : List Tid :=
  [0, 1, 0, 1, 0, 1, 0, 0, 0, 0, 0,       -- both miss on the fast path; 0 locks, misses, fails, unlocks, returns the error
   1, 1, 1, 1, 1, 1,                      -- 1 locks, re-checks (still absent: the failure cached nothing), calls, stores 7
   0, 0, 0, 0,                            -- 0 retries: fast path hit, returns 7 without calling
   2, 2, 2, 2, 2, 2, 2, 2]                -- 2 fails for key 1

theorem run_reachable {prog : Tid → List Op} {sched : List Tid} {s : State}
    (h : run (init prog) sched = some s) : Reachable s := ⟨prog, steps_of_run h⟩

example : ∃ s, Reachable s ∧ s.okCalls 0 = [7] ∧ s.failCalls 0 = 1 ∧ s.failCalls 1 = 1 ∧ s.entries 1 = none ∧
    s.rets = [(2, 1, none), (0, 0, some 7), (1, 0, some 7), (0, 0, none)] := by
  have h : (run (init exProg) exSched).any (fun s => decide (s.okCalls 0 = [7] ∧ s.failCalls 0 = 1 ∧
      s.failCalls 1 = 1 ∧ s.entries 1 = none ∧
      s.rets = [(2, 1, none), (0, 0, some 7), (1, 0, some 7), (0, 0, none)])) = true := by decide
  cases hr : run (init exProg) exSched with
  | none => simp [hr] at h
  | some s => simp [hr] at h; exact ⟨s, run_reachable hr, h⟩

/-- the hypotheses of `C20_retry_possible` and `C20_call_exclusive` are met by reachable states -/
example : ∃ s, Reachable s ∧ s.okCalls 0 = [] ∧ s.failCalls 0 = 1 ∧ s.writer = false ∧ s.readers = 0 ∧
    s.pc 1 = .start ∧ s.prog 1 = [⟨0, .ok 7⟩] := by
  have h : (run (init exProg) [0, 0, 0, 0, 0, 0, 0, 0]).any (fun s => decide (s.okCalls 0 = [] ∧ s.failCalls 0 = 1 ∧
      s.writer = false ∧ s.readers = 0 ∧ s.pc 1 = .start ∧ s.prog 1 = [⟨0, .ok 7⟩])) = true := by decide
  cases hr : run (init exProg) [0, 0, 0, 0, 0, 0, 0, 0] with
  | none => simp [hr] at h
  | some s => simp [hr] at h; exact ⟨s, run_reachable hr, h⟩

example : ∃ s, Reachable s ∧ s.pc 1 = .callok 7 ∧ s.pc 0 = .wlock ∧ next s 0 = none := by
  have h : (run (init exProg) [0, 1, 0, 1, 0, 1, 1, 1, 1]).any (fun s => decide (s.pc 1 = .callok 7 ∧ s.pc 0 = .wlock) &&
      (next s 0).isNone) = true := by decide
  cases hr : run (init exProg) [0, 1, 0, 1, 0, 1, 1, 1, 1] with
  | none => simp [hr] at h
  | some s =>
    simp [hr] at h
    exact ⟨s, run_reachable hr, h.1.1, h.1.2, h.2⟩

end Dawn.Cache

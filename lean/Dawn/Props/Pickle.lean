import Dawn.Proofs.PickleTop
import Dawn.Proofs.PickleFuel
import Dawn.Proofs.PickleCanon
import Dawn.Proofs.PickleEnv
import Dawn.Proofs.PickleStream
import Dawn.Proofs.PickleReuse
/-!
# C07 — the pickle codec round-trips every value exactly;  C15 — decoding arbitrary bytes never crashes

Property theorems only. `encode` / `decode` are the models of `(*Encoder).Encode` / `(*Decoder).Decode`
(`Dawn/Model/Pickle.lean`), tied to `pickle/*.go` by `Dawn/Ties/Pickle.lean` (opcode table, batch size, width
thresholds, the `failure` type, normalised bodies of every modelled function) and by the correspondence streams
`enc` (bytes) and `dec*` (outcome and decoded graph) of `checks/C07.py`, `checks/C15.py`.

A Go value is a `Graph`: a heap of tuples, lists, dicts, sets and host objects plus a root value. The encoder model
accepts a graph only in *canonical* numbering (addresses in the order in which the decoder allocates; the harness
renumbers Go values that way), which is what makes the round trip an equality of graphs rather than an isomorphism.
-/
namespace Dawn.Pickle

/-! ## C07 -/

/-- the host unpickler rebuilds every host object of the graph (the counterpart of "values handled by a host pickler") -/
def HostAccepts (cfg : DecCfg) (g : Heap) : Prop :=
  ∀ (a : Nat) m n args, g[a]? = some (.host m n args) → ∃ fh, cfg.host = some fh ∧ ∀ h b ys, fh h b m n ys = .construct

/-- C07, byte layer: for every opcode, with every payload that fits its field (`Op.wf`: 1-, 2-, 4-, 8-byte integers,
1- and 4-byte lengths, newline-free INT text), reading back what was written yields the same op and leaves the rest. -/
theorem C07_bytes (op : Op) (rest : Bytes) (hw : op.wf) : parseOp (ser op ++ rest) = .op op rest :=
  parseOp_ser op rest hw

/-- C07, integers of every magnitude: the decimal text written for INT reads back as the same integer -/
theorem C07_int_text (i : Int) : parseDecimal (intText i) = some i := parseDecimal_intText i

/-- C07: decoding the encoding of any canonical graph yields exactly that graph — same types, structure, contents,
order and sharing — for graphs of any size (no bound on container sizes, nesting, number of batches), including
cyclic and shared containers and host objects.
Hypotheses, each of which every real Starlark value satisfies (and the driver re-checks on every generated graph):
`keysOK` (dict/set keys hashable and pairwise different by Starlark equality within the comparison depth),
`sizesOK` (strings shorter than 2^32 bytes, fewer than 2^32 objects: the format's 4-byte fields). -/
theorem C07_roundtrip (cfgD : DecCfg) (pickler : Bool) (g : Graph) (bs : Bytes)
    (hb : cfgD.oldBinint2 = false) (hp : cfgD.parseInt = parseDecimal) (hh : HostAccepts cfgD g.heap)
    (hk : g.heap.keysOK = true) (hs : g.sizesOK = true)
    (h : encode { pickler := pickler } g = some bs) : decode cfgD bs = .ok g.heap g.root := by
  simp only [Graph.sizesOK, Bool.and_eq_true, decide_eq_true_eq, List.all_eq_true] at hs
  exact roundtrip_bytes _ rfl g
    ⟨⟨hb, fun i => by rw [hp]; exact parseDecimal_intText i⟩, hh, hk, hs.2, hs.1.1⟩ hs.1.2 bs h

/-- C07 for a stream: several values written by ONE Encoder (`encodeStream`: memo and id counter carried from call to
call, as `Encoder.memo` / `Encoder.next` are) and read back by ONE Decoder with the same number of `Decode` calls
(`decodeStream`: memo, stack and heap carried over) come back as the values written, including the sharing ACROSS the
values — a container of an earlier value that occurs again in a later one is the same object. -/
theorem C07_roundtrip_stream (cfgD : DecCfg) (pickler : Bool) (g : MGraph) (bs : Bytes)
    (hb : cfgD.oldBinint2 = false) (hp : cfgD.parseInt = parseDecimal) (hh : HostAccepts cfgD g.heap)
    (hk : g.heap.keysOK = true) (hl : g.heap.length < 4294967296) (ho : g.heap.all Obj.sizeOK = true)
    (hr : g.roots.all Val.sizeOK = true)
    (h : encodeStream { pickler := pickler } g = some bs) :
    decodeStream cfgD g.roots.length {} bs [] = .ok g.roots g.heap := by
  simp only [List.all_eq_true] at ho hr
  exact roundtrip_stream _ rfl g ⟨⟨hb, fun i => by rw [hp]; exact parseDecimal_intText i⟩, hh, hk, ho, hl⟩ hr bs h

/-- non-vacuity: `l = [1, l]` written, then `"x"`, then `l` again: the third value read back is the first one -/
example : encodeStream {} ⟨[.list [.atom (.int 1), .ref 0]], [.ref 0, .atom (.str [0x78]), .ref 0]⟩ =
    some [0x5d, 0x94, 0x28, 0x4b, 1, 0x68, 0, 0x65, 0x2e, 0x8c, 1, 0x78, 0x2e, 0x68, 0, 0x2e] := by decide
/-- and a Decoder that has NOT seen the first value cannot resolve the reference of the third (the contract is per pair) -/
example : decodeStream {} 1 {} [0x68, 0, 0x2e] [] = .err 0 .invalidId := by decide

/-- C07, consequence: two values that differ never decode to equal values -/
theorem C07_injective (cfgD : DecCfg) (p₁ p₂ : Bool) (g₁ g₂ : Graph) (b₁ b₂ : Bytes)
    (hb : cfgD.oldBinint2 = false) (hp : cfgD.parseInt = parseDecimal)
    (hh₁ : HostAccepts cfgD g₁.heap) (hk₁ : g₁.heap.keysOK = true) (hs₁ : g₁.sizesOK = true)
    (hh₂ : HostAccepts cfgD g₂.heap) (hk₂ : g₂.heap.keysOK = true) (hs₂ : g₂.sizesOK = true)
    (h₁ : encode { pickler := p₁ } g₁ = some b₁) (h₂ : encode { pickler := p₂ } g₂ = some b₂)
    (hd : decode cfgD b₁ = decode cfgD b₂) : g₁ = g₂ := by
  rw [C07_roundtrip cfgD p₁ g₁ b₁ hb hp hh₁ hk₁ hs₁ h₁, C07_roundtrip cfgD p₂ g₂ b₂ hb hp hh₂ hk₂ hs₂ h₂] at hd
  cases g₁; cases g₂
  simp only [Outcome.ok.injEq] at hd
  simp [hd.1, hd.2]

/-- A graph is canonical when the encoder-independent walk of `Dawn/Model/Pickle.lean` (`walkVal`: depth first, lists /
dicts / sets numbered when first met, tuples and host objects when complete, tuples re-walked at every occurrence)
terminates — with whatever fuel — having numbered exactly the whole heap. Termination excludes a host object or tuple
that reaches itself without passing through a list, dict or set (`hostAcyclic`); numbering the whole heap means every
object is reachable from the root. -/
def Graph.Canonical (g : Graph) : Prop :=
  ∃ fuel st, walkVal g.heap fuel ⟨[], 0⟩ g.root = some st ∧ st.next = g.heap.length

/-- C07_total, fuel: the executable test `Graph.canonical`, which walks with `heap.length + 1` fuel, decides
canonicity — a walk that terminates at all never nests deeper than the number of objects it numbers, plus one. -/
theorem C07_canonical_fuel (g : Graph) : g.Canonical ↔ g.canonical = true := by
  constructor
  · rintro ⟨fuel, st, hw, hn⟩
    have := (walkVal_good g.heap fuel _ _ _ hw).2 (g.heap.length + 1) (by simp only [hn]; omega)
    simp [Graph.canonical, this, hn]
  · intro h
    simp only [Graph.canonical] at h
    split at h
    · rename_i st hw
      exact ⟨_, st, hw, by simpa using h⟩
    · cases h

/-- C07_total: every canonical graph is encoded — `Encode` succeeds (with a host `Pickler` installed; with or without
the old batch re-encode), and the model's fixed fuel `heap.length + 1` is enough. -/
theorem C07_total (g : Graph) (rebatch : Bool) (hc : g.canonical = true) :
    ∃ bs, encode { rebatch := rebatch, pickler := true } g = some bs := by
  simp only [Graph.canonical] at hc
  split at hc
  · rename_i st hw
    obtain ⟨es, ops, he, hr⟩ := encVal_of_walk { rebatch := rebatch, pickler := true } rfl g.heap _ _ _ _ ⟨[], 0⟩ hw
      ⟨rfl, fun a => by simp [lookup]⟩
    have hn : es.next = g.heap.length := by rw [hr.next]; simpa using hc
    exact ⟨serAll (ops ++ [.stop]), by simp [encode, encodeOps, he, hn]⟩
  · cases hc

/-- C07, both halves together: a canonical graph with Starlark-valid keys and sizes the format can hold is encoded, and
its encoding decodes to exactly that graph. -/
theorem C07_total_roundtrip (cfgD : DecCfg) (g : Graph)
    (hb : cfgD.oldBinint2 = false) (hp : cfgD.parseInt = parseDecimal) (hh : HostAccepts cfgD g.heap)
    (hc : g.canonical = true) (hk : g.heap.keysOK = true) (hs : g.sizesOK = true) :
    ∃ bs, encode { pickler := true } g = some bs ∧ decode cfgD bs = .ok g.heap g.root := by
  obtain ⟨bs, h⟩ := C07_total g false hc
  exact ⟨bs, h, C07_roundtrip cfgD true g bs hb hp hh hk hs h⟩

/-- the encoder model's fuel is not an input: success with some fuel is success, with the same state and ops, with any
larger fuel (so `encode`, which runs with `heap.length + 1`, agrees with every successful run that used no more). -/
theorem C07_fuel_monotone (cfg : EncCfg) (g : Graph) (fuel extra : Nat) (st : EncSt) (ops : List Op)
    (h : encVal cfg g.heap fuel ⟨[], 0⟩ g.root = some (st, ops)) :
    encVal cfg g.heap (fuel + extra) ⟨[], 0⟩ g.root = some (st, ops) ∧
    (fuel ≤ g.heap.length + 1 → st.next = g.heap.length → encodeOps cfg g = some (ops ++ [.stop])) := by
  refine ⟨encVal_fuel_mono cfg g.heap fuel extra _ _ _ h, fun hle hall => ?_⟩
  have := encVal_fuel_mono cfg g.heap fuel (g.heap.length + 1 - fuel) _ _ _ h
  rw [show fuel + (g.heap.length + 1 - fuel) = g.heap.length + 1 by omega] at this
  simp [encodeOps, this, hall]

/-- C07_ser_injective (for the areas that build on this one): the serialisation of op lists is injective on
well-formed ops, so results about op lists lift to bytes. -/
theorem C07_ser_injective (ops₁ ops₂ : List Op) (h : serAll ops₁ = serAll ops₂) (hw : ∀ op ∈ ops₁ ++ ops₂, op.wf) :
    ops₁ = ops₂ :=
  serAll_injective ops₁ ops₂ (fun o ho => hw o (by simp [ho])) (fun o ho => hw o (by simp [ho])) h

/-- the value `("a", [i % 7 | i < n])`: a list nested inside a tuple -/
def nestedList (n : Nat) : Graph :=
  ⟨[.list ((List.range n).map fun i => .atom (.int (Int.ofNat (i % 7)))), .tuple [.atom (.str [0x61]), .ref 0]], .ref 1⟩

/-- D1 (regression witness): with the old BININT2 arm (`l | h<<16`) the encoding of 256 decodes to 65536, which is
also what the encoding of 65536 decodes to: two different values, one decoded value. -/
theorem C07_binint2_counterexample :
    encode {} ⟨[], .atom (.int 256)⟩ = some [0x4d, 0x00, 0x01, 0x2e] ∧
    decode { oldBinint2 := true } [0x4d, 0x00, 0x01, 0x2e] = .ok [] (.atom (.int 65536)) ∧
    (encode {} ⟨[], .atom (.int 65536)⟩).map (decode { oldBinint2 := true }) = some (.ok [] (.atom (.int 65536))) := by
  decide

/-- D2 (regression witness): with the old batch loop (container re-encoded before every batch after the first) the
value `("a", list of 1001 ints)` decodes to something else — and the repaired encoder round-trips it. -/
theorem C07_batch_counterexample :
    (encode { rebatch := true } (nestedList 1001)).map (decode {}) ≠ some (.ok (nestedList 1001).heap (nestedList 1001).root) ∧
    (encode {} (nestedList 1001)).map (decode {}) = some (.ok (nestedList 1001).heap (nestedList 1001).root) := by
  set_option maxRecDepth 100000 in
  decide +kernel

/-! non-vacuity of `C07_roundtrip`: its hypotheses hold for — a list containing itself and a tuple that contains it;
a dict shared by two tuples, with a NaN and a tuple among its keys; a 2500-element list (three batches) inside a
tuple; a host object whose argument list is shared with a second host object that also refers to the first. -/
def exSelf : Graph := ⟨[.list [.atom (.int 1), .ref 0, .ref 1], .tuple [.atom (.int 2), .ref 0]], .ref 0⟩
def exSharedDict : Graph :=
  ⟨[.dict [(.atom (.float 0x7ff8000000000001), .atom .none), (.ref 1, .atom (.int 70000)), (.atom (.str [0x6b]), .ref 0)],
    .tuple [.atom (.int 1), .atom (.bytes [0, 255])], .tuple [.ref 0], .tuple [.ref 0, .atom (.bool true)], .tuple [.ref 2, .ref 3]], .ref 4⟩
def exHost : Graph :=
  ⟨[.list [.atom (.int (-5))], .tuple [.ref 0], .host [0x6d] [0x41] (.ref 1), .tuple [.ref 0, .ref 2], .host [0x6d] [0x42] (.ref 3),
    .tuple [.ref 4, .ref 2]], .ref 5⟩
def allHost : DecCfg := { host := some fun _ _ _ _ _ => .construct }

example : (encode {} exSelf).isSome = true ∧ exSelf.heap.keysOK = true ∧ exSelf.sizesOK = true := by decide
example : (encode {} exSharedDict).isSome = true ∧ exSharedDict.heap.keysOK = true ∧ exSharedDict.sizesOK = true := by decide
example : (encode {} exHost).isSome = true ∧ exHost.heap.keysOK = true ∧ exHost.sizesOK = true ∧
    decode allHost ((encode {} exHost).getD []) = .ok exHost.heap exHost.root := by decide +kernel
example : HostAccepts allHost exHost.heap := fun _ _ _ _ _ => ⟨_, rfl, fun _ _ _ => rfl⟩
example : (encode {} (nestedList 2500)).isSome = true ∧ (nestedList 2500).heap.keysOK = true ∧ (nestedList 2500).sizesOK = true := by
  set_option maxRecDepth 100000 in decide +kernel
/-- `C07_fuel_monotone`'s hypothesis is met with less fuel than `encode` uses -/
example : (encVal {} exSelf.heap 3 ⟨[], 0⟩ exSelf.root).isSome = true ∧ (encVal {} exSelf.heap 1 ⟨[], 0⟩ exSelf.root).isSome = false := by decide
/-- `C07_total`'s hypothesis: the example graphs are canonical; renumbered, rooted elsewhere, with an unreachable object
or with a tuple that contains itself they are not -/
example : exSelf.canonical = true ∧ exSharedDict.canonical = true ∧ exHost.canonical = true ∧ (nestedList 5).canonical = true := by decide
example : (⟨[.tuple [.atom (.int 2), .ref 1], .list [.atom (.int 1), .ref 1, .ref 0]], .ref 1⟩ : Graph).canonical = false ∧
    (⟨exSelf.heap, .ref 1⟩ : Graph).canonical = false ∧
    (⟨exSelf.heap ++ [.list []], .ref 0⟩ : Graph).canonical = false ∧
    (⟨[.tuple [.ref 0]], .ref 0⟩ : Graph).canonical = false := by decide
/-- the example graphs really are different values with different encodings -/
example : encode {} exSelf ≠ encode {} ⟨exSelf.heap, .ref 1⟩ := by decide

/-! ## C15 -/

/-- the host unpickler, given a well-formed heap and its argument tuple, returns a value or an error, or panics with
a `runtime.Error` — never with a non-error value — and what it returns is well formed (only extends the heap, every
reference in range) -/
def HostSane (cfg : DecCfg) : Prop :=
  ∀ f, cfg.host = some f → ∀ (h : Heap) (a : Nat) m n xs, (∀ o ∈ h, o.closed h.length) → h[a]? = some (.tuple xs) →
    f h a m n xs ≠ .otherPanic ∧ ∀ h' v, f h a m n xs = .result h' v → hostResultOK h h' v = true

/-- C15: for EVERY byte string, `Decode` returns either a value or an error: the loop terminates (each iteration
consumes at least one byte), every partial operation of the decoder is guarded by an explicit failure, and the only
run-time panics (from the host unpickler) are `runtime.Error`s, which `recover().(failure)` turns into errors because
`failure` is the interface type `error` (tie `failure_ok`). It never returns `(nil, nil)` and never hangs. -/
theorem C15_no_crash (cfg : DecCfg) (bs : Bytes) (hf : cfg.failureIsInterface = true) (hh : HostSane cfg) :
    (∃ h v, decode cfg bs = .ok h v) ∨ (∃ k, decode cfg bs = .err k) := by
  have hsafe := decode_safe cfg bs
  simp only [decode]
  cases hr : decodeLoop cfg (bs.length + 1) {} bs with
  | value v h => exact Or.inl ⟨h, v, rfl⟩
  | failure k => exact Or.inr ⟨k, rfl⟩
  | rtPanic => exact Or.inr ⟨.runtimeError, by simp [recoverDecode, hf]⟩
  | otherPanic =>
    rw [hr] at hsafe
    obtain ⟨f, h, a, m, n, xs, h1, hcl, hget, h2⟩ := hsafe
    obtain ⟨s1, s2⟩ := hh f h1 h a m n xs hcl hget
    rcases h2 with h2 | ⟨h', v, h2, h3⟩
    · exact absurd h2 s1
    · rw [s2 h' v h2] at h3; cases h3
  | outOfFuel => rw [hr] at hsafe; exact hsafe.elim

/-- C15 for a Decoder that is used AGAIN: however many times `Decode` is called on one Decoder over any byte string —
after calls that failed (the Decoder keeps the stack as the failing op left it and goes on reading where it stopped;
`failState`, compared with the real Decoder call by call in the streams `decn.*`) as after calls that succeeded —
every call returns a well-formed value or an error; none returns `(nil, nil)`, none hangs. -/
theorem C15_reuse_no_crash (cfg : DecCfg) (n : Nat) (bs : Bytes) (hf : cfg.failureIsInterface = true) (hh : HostSane cfg) :
    ∀ o ∈ decodeCalls cfg n {} bs,
      (∃ h v, o = .ok h v ∧ v.closed h.length ∧ ∀ x ∈ h, x.closed h.length) ∨ (∃ k, o = .err k) := by
  have hno : ¬ HostMisbehaves cfg := by
    rintro ⟨f, h, a, m, nm, xs, h1, hcl, hget, h2⟩
    obtain ⟨s1, s2⟩ := hh f h1 h a m nm xs hcl hget
    rcases h2 with h2 | ⟨h', v, h2, h3⟩
    · exact s1 h2
    · rw [s2 h' v h2] at h3; cases h3
  intro o ho
  have := decodeCalls_safe cfg hf hno n {} bs Closed.init o ho
  cases o with
  | ok h v => exact Or.inl ⟨h, v, rfl, this.1, this.2⟩
  | err k => exact Or.inr ⟨k, rfl⟩
  | nilNoErr => exact this.elim
  | outOfFuel => exact this.elim

/-- what the model (and the real Decoder) answers when called again: after `K 1 .` the value 1; TUPLE2 on the empty
stack fails; TUPLE1 fails; the fourth call reads the final STOP with nothing to return. After `] K 1 N TUPLE2 APPEND` — the
tuple popped, then no list under it — the stack is left EMPTY (`d.pop()` came before the failing test). -/
example : decodeCalls {} 4 {} [0x4b, 1, 0x2e, 0x86, 0x85, 0x2e] =
    [.ok [] (.atom (.int 1)), .err .underflow, .err .underflow, .err .underflow] := by decide
example : (decodeCall {} 9 {} [0x4b, 1, 0x4e, 0x86, 0x61, 0x2e]).2.1.stack = [] ∧
    decodeCalls {} 2 {} [0x4b, 1, 0x4e, 0x86, 0x61, 0x2e] = [.err .underflow, .err .underflow] := by decide

/-- C15, termination alone needs no hypothesis at all -/
theorem C15_terminates (cfg : DecCfg) (bs : Bytes) : decode cfg bs ≠ .outOfFuel := by
  have hsafe := decode_safe cfg bs
  simp only [decode]
  cases hr : decodeLoop cfg (bs.length + 1) {} bs <;> rw [hr] at hsafe <;> simp only [recoverDecode]
  · exact fun h => Outcome.noConfusion h
  · exact fun h => Outcome.noConfusion h
  · split <;> exact fun h => Outcome.noConfusion h
  · exact fun h => Outcome.noConfusion h
  · exact hsafe.elim

/-- C15: a decoded value is well formed — every reference in it, and in every object reachable from it, points to an
allocated object (there is no nil slot: the model's values have none, the decoder pushes only allocated or atomic
values). The `mark` / `global` sentinels may occur in it (DESIGN.md §4: an observation, not a violation).
What the HOST unpickler builds is abstract here (`HostVerdict.construct` stands for "a fresh non-nil value"): that
dawn's `envUnpickler` returns only well-formed values (no typed-nil pointer, nothing whose `String`/`Type`/`Truth`/
`Hash`/`Len`/iteration panics) is the host's obligation; it is checked on the real code by the harness's
well-formedness walker in the streams `dec.env-*` (every single-byte substitution, every truncation and seeded
mutations of a genuine function-environment record, decoded with `envUnpickler`) and by the record-level stream. -/
theorem C15_value_wf (cfg : DecCfg) (bs : Bytes) (h : Heap) (v : Val) (hd : decode cfg bs = .ok h v) :
    v.closed h.length ∧ ∀ o ∈ h, o.closed h.length := by
  have hsafe := decode_safe cfg bs
  simp only [decode] at hd
  cases hr : decodeLoop cfg (bs.length + 1) {} bs <;> rw [hr] at hsafe hd <;> simp only [recoverDecode] at hd
  · simp only [Outcome.ok.injEq] at hd
    obtain ⟨rfl, rfl⟩ := hd
    exact hsafe
  all_goals first | exact Outcome.noConfusion hd | (split at hd <;> exact Outcome.noConfusion hd)

/-- dawn's own host unpickler is sane: `envUnpickler` (model `envHost`, compared with the real function on every case
of the streams `dec.env-*`) never panics with a non-error value — its unchecked type assertions and indexing are
`runtime.Error`s — and what it returns is well formed. -/
theorem C15_env_host_sane : HostSane envCfg := by
  intro f hf h a m n xs hc hg
  simp only [envCfg, Option.some.injEq] at hf
  subst hf
  exact envHost_ok h a m n xs hc hg

/-- C15_env_no_crash: decoding ANY byte string as a persisted function environment (`pickle.NewDecoder(r,
envUnpickler).Decode()`, as `(*function).load` and `functionEnv` do) returns a value or an error — never `(nil, nil)`,
never a hang; every panic inside `envUnpickler` is a `runtime.Error` that `Decode` recovers. So a corrupted record
surfaces as "loading prior function environment: …", never as a crash of the load. -/
theorem C15_env_no_crash (bs : Bytes) : (∃ h v, decodeEnv bs = .ok h v) ∨ (∃ k, decodeEnv bs = .err k) :=
  C15_no_crash envCfg bs rfl C15_env_host_sane

/-- and the decoded environment is well formed, including everything `envUnpickler` built -/
theorem C15_env_value_wf (bs : Bytes) (h : Heap) (v : Val) (hd : decodeEnv bs = .ok h v) :
    v.closed h.length ∧ ∀ o ∈ h, o.closed h.length := C15_value_wf envCfg bs h v hd

/-- non-vacuity: a genuine-shaped environment decodes to the dict `envUnpickler` builds; an association list that is
not made of pairs is a recovered run-time error; a foreign module is an error.
`("dawn","FunctionCode",((n, c, (("p", 1),), (), f), None, b"bc"))` -/
example : decodeEnv [0x8c, 4, 0x64, 0x61, 0x77, 0x6e, 0x8c, 12, 0x46, 0x75, 0x6e, 0x63, 0x74, 0x69, 0x6f, 0x6e, 0x43, 0x6f, 0x64, 0x65, 0x93,
    0x28, 0x4e, 0x4e, 0x8c, 1, 0x70, 0x4b, 1, 0x86, 0x85, 0x29, 0x4e, 0x74, 0x4e, 0x43, 2, 0x62, 0x63, 0x87, 0x81, 0x2e] =
    .ok [.tuple [sv [0x70], .atom (.int 1)], .tuple [.ref 0], .tuple [], .tuple [.atom .none, .atom .none, .ref 1, .ref 2, .atom .none],
         .tuple [.ref 3, .atom .none, .atom (.bytes [0x62, 0x63])], .dict [(sv [0x70], .atom (.int 1))], .dict [],
         .dict [(sv kNames, .atom .none), (sv kConstants, .atom .none), (sv kPredeclared, .ref 5), (sv kUniversal, .ref 6),
                (sv kFunctions, .atom .none), (sv kGlobals, .atom .none), (sv kCode, .atom (.bytes [0x62, 0x63]))]] (.ref 7) := by
  decide
example : decodeEnv [0x8c, 4, 0x64, 0x61, 0x77, 0x6e, 0x8c, 12, 0x46, 0x75, 0x6e, 0x63, 0x74, 0x69, 0x6f, 0x6e, 0x43, 0x6f, 0x64, 0x65, 0x93,
    0x28, 0x4e, 0x4e, 0x4e, 0x85, 0x29, 0x4e, 0x74, 0x4e, 0x4e, 0x87, 0x81, 0x2e] = .err .runtimeError := by decide
example : decodeEnv [0x8c, 1, 0x6d, 0x8c, 1, 0x4e, 0x93, 0x29, 0x81, 0x2e] = .err .hostError := by decide

/-- C15, the excluded point of `C15_no_crash`, decided rather than hidden: `(nil, nil)` comes out exactly when the
host unpickler panics with a non-error value, or — were `failure` a concrete type — on any run-time panic. -/
theorem C15_recover_counterexample :
    let bytes : Bytes := [0x8c, 1, 0x6d, 0x8c, 1, 0x4e, 0x93, 0x29, 0x81, 0x2e]       -- "m" "N" STACK_GLOBAL () NEWOBJ STOP
    decode { host := some fun _ _ _ _ _ => .otherPanic } bytes = .nilNoErr ∧
    decode { host := some fun _ _ _ _ _ => .runtimePanic } bytes = .err .runtimeError ∧
    decode { host := some fun _ _ _ _ _ => .runtimePanic, failureIsInterface := false } bytes = .nilNoErr ∧
    decode { host := some fun _ _ _ _ _ => .construct } bytes = .ok [.tuple [], .host [0x6d] [0x4e] (.ref 0)] (.ref 1) := by
  decide

/-! non-vacuity of `C15_no_crash`: its hypotheses hold for the default configuration and for a host that rejects or
hits a run-time error; both disjuncts occur. -/
example : HostSane {} := fun f h => by simp at h
example : HostSane { host := some fun _ _ _ n _ => if n = [0x21] then .error else if n = [0x3f] then .runtimePanic else .construct } := by
  intro f h hp a m n xs _ _
  simp only [Option.some.injEq] at h
  subst h
  simp only
  refine ⟨?_, fun h' v hv => ?_⟩
  · split
    · exact fun h => HostVerdict.noConfusion h
    · split <;> exact fun h => HostVerdict.noConfusion h
  · split at hv
    · cases hv
    · split at hv <;> cases hv
example : decode {} [0x5d, 0x94, 0x68, 0x00, 0x61, 0x2e] = .ok [.list [.ref 0]] (.ref 0) := by decide   -- l = []; l.append(l)
example : decode {} [0x5d, 0x61, 0x2e] = .err .underflow := by decide
example : decode {} [0x58, 0xff, 0xff, 0xff, 0xff, 0x61] = .err .eof := by decide   -- declared length beyond the input
example : decode {} [0x28, 0x2e] = .ok [] .mark := by decide                          -- the sentinel escapes as a value

/-- C15 for the opcodes of the pickle protocols OUTSIDE this codec's subset (explicit memo slots `BINPUT` `q` /
`LONG_BINPUT` `r`, text-mode ops, frames, object construction, …): a `Decode` call that meets such a byte where an
opcode is expected ends in the error "unimplemented opcode", in every decoder state, leaving the state as it was —
it never yields a value made of never-filled slots and never `(nil, nil)` (seeded change C15-r1 made `q`/`r` opcodes). -/
theorem C15_foreign_opcode (cfg : DecCfg) (fuel : Nat) (ds : DecSt) (b : UInt8) (rest : Bytes) (hb : armOf b = none) :
    decodeCall cfg (fuel + 1) ds (b :: rest) = (.err .badOpcode, ds, rest) := by
  simp [decodeCall, parseOp, hb]

/-- the opcodes in question are outside the subset: BINPUT, LONG_BINPUT, PUT, GET, POP, DUP, PROTO, FRAME, REDUCE, GLOBAL -/
example : [0x71, 0x72, 0x70, 0x67, 0x30, 0x32, 0x80, 0x95, 0x52, 0x63].all (fun b => (armOf b).isNone) = true := by decide

end Dawn.Pickle

import Dawn.Proofs.PickleTop
import Dawn.Proofs.PickleFuel
/-!
# C07 — the pickle codec round-trips every value exactly;  C15 — decoding arbitrary bytes never crashes

Property theorems only. `encode` / `decode` are the models of `(*Encoder).Encode` / `(*Decoder).Decode`
(`Dawn/Model/Pickle.lean`), tied to `pickle/*.go` by `Dawn/Ties/Pickle.lean` (opcode table, batch size, width
thresholds, the `failure` type, normalised bodies of every modelled function) and by the correspondence streams
`enc` (bytes) and `dec*` (outcome and decoded graph) of `checks/C07.py`, `checks/C15.py`.

A Go value is a `Graph`: a heap of tuples, lists, dicts, sets and host objects plus a root value. The encoder model
accepts a graph only in *canonical* numbering (addresses in the order in which the decoder allocates; the harness
renumbers Go values that way), which is what makes the round trip an equality of graphs rather than an isomorphism.
-/
namespace Dawn.Pickle

/-! ## C07 -/

/-- the host unpickler rebuilds every host object of the graph (the counterpart of "values handled by a host pickler") -/
def HostAccepts (cfg : DecCfg) (g : Heap) : Prop :=
  ∀ (a : Nat) m n args, g[a]? = some (.host m n args) → ∃ fh, cfg.host = some fh ∧ ∀ ys, fh m n ys = .construct

/-- C07, byte layer: for every opcode, with every payload that fits its field (`Op.wf`: 1-, 2-, 4-, 8-byte integers,
1- and 4-byte lengths, newline-free INT text), reading back what was written yields the same op and leaves the rest. -/
theorem C07_bytes (op : Op) (rest : Bytes) (hw : op.wf) : parseOp (ser op ++ rest) = .op op rest :=
  parseOp_ser op rest hw

/-- C07, integers of every magnitude: the decimal text written for INT reads back as the same integer -/
theorem C07_int_text (i : Int) : parseDecimal (intText i) = some i := parseDecimal_intText i

/-- C07: decoding the encoding of any canonical graph yields exactly that graph — same types, structure, contents,
order and sharing — for graphs of any size (no bound on container sizes, nesting, number of batches), including
cyclic and shared containers and host objects.
Hypotheses, each of which every real Starlark value satisfies (and the driver re-checks on every generated graph):
`keysOK` (dict/set keys hashable and pairwise different by Starlark equality within the comparison depth),
`sizesOK` (strings shorter than 2^32 bytes, fewer than 2^32 objects: the format's 4-byte fields). -/
theorem C07_roundtrip (cfgD : DecCfg) (pickler : Bool) (g : Graph) (bs : Bytes)
    (hb : cfgD.oldBinint2 = false) (hp : cfgD.parseInt = parseDecimal) (hh : HostAccepts cfgD g.heap)
    (hk : g.heap.keysOK = true) (hs : g.sizesOK = true)
    (h : encode { pickler := pickler } g = some bs) : decode cfgD bs = .ok g.heap g.root := by
  simp only [Graph.sizesOK, Bool.and_eq_true, decide_eq_true_eq, List.all_eq_true] at hs
  exact roundtrip_bytes _ rfl g
    ⟨⟨hb, fun i => by rw [hp]; exact parseDecimal_intText i⟩, hh, hk, hs.2, hs.1.1⟩ hs.1.2 bs h

/-- C07, consequence: two values that differ never decode to equal values -/
theorem C07_injective (cfgD : DecCfg) (p₁ p₂ : Bool) (g₁ g₂ : Graph) (b₁ b₂ : Bytes)
    (hb : cfgD.oldBinint2 = false) (hp : cfgD.parseInt = parseDecimal)
    (hh₁ : HostAccepts cfgD g₁.heap) (hk₁ : g₁.heap.keysOK = true) (hs₁ : g₁.sizesOK = true)
    (hh₂ : HostAccepts cfgD g₂.heap) (hk₂ : g₂.heap.keysOK = true) (hs₂ : g₂.sizesOK = true)
    (h₁ : encode { pickler := p₁ } g₁ = some b₁) (h₂ : encode { pickler := p₂ } g₂ = some b₂)
    (hd : decode cfgD b₁ = decode cfgD b₂) : g₁ = g₂ := by
  rw [C07_roundtrip cfgD p₁ g₁ b₁ hb hp hh₁ hk₁ hs₁ h₁, C07_roundtrip cfgD p₂ g₂ b₂ hb hp hh₂ hk₂ hs₂ h₂] at hd
  cases g₁; cases g₂
  simp only [Outcome.ok.injEq] at hd
  simp [hd.1, hd.2]

/-- C07_total, PARTIAL. Proved: the encoder model's fuel is not an input — if encoding the root succeeds with some
amount of fuel, it succeeds with the same state and the same ops with any larger amount; so `encode` (which runs with
`heap.length + 1`) produces exactly the ops of any successful run with no more fuel than that.
Missing for the full `C07_total` ("every canonical graph without a cycle through host objects only is encoded"):
(i) an independent characterisation of "canonical" (here a graph is canonical iff the encoder's own `a = st.next`
checks pass; the harness's renumbering of Go values is compared with it per input in stream `enc`);
(ii) that `heap.length + 1` fuel always suffices (nesting depth ≤ number of objects); (iii) the excluded point, a host
object that reaches itself through its own arguments, is defect D3 (C08) and is run on the real code there. -/
theorem C07_total_partial (cfg : EncCfg) (g : Graph) (fuel extra : Nat) (st : EncSt) (ops : List Op)
    (h : encVal cfg g.heap fuel ⟨[], 0⟩ g.root = some (st, ops)) :
    encVal cfg g.heap (fuel + extra) ⟨[], 0⟩ g.root = some (st, ops) ∧
    (fuel ≤ g.heap.length + 1 → st.next = g.heap.length → encodeOps cfg g = some (ops ++ [.stop])) := by
  refine ⟨encVal_fuel_mono cfg g.heap fuel extra _ _ _ h, fun hle hall => ?_⟩
  have := encVal_fuel_mono cfg g.heap fuel (g.heap.length + 1 - fuel) _ _ _ h
  rw [show fuel + (g.heap.length + 1 - fuel) = g.heap.length + 1 by omega] at this
  simp [encodeOps, this, hall]

/-- the value `("a", [i % 7 | i < n])`: a list nested inside a tuple -/
def nestedList (n : Nat) : Graph :=
  ⟨[.list ((List.range n).map fun i => .atom (.int (Int.ofNat (i % 7)))), .tuple [.atom (.str [0x61]), .ref 0]], .ref 1⟩

/-- D1 (regression witness): with the old BININT2 arm (`l | h<<16`) the encoding of 256 decodes to 65536, which is
also what the encoding of 65536 decodes to: two different values, one decoded value. -/
theorem C07_binint2_counterexample :
    encode {} ⟨[], .atom (.int 256)⟩ = some [0x4d, 0x00, 0x01, 0x2e] ∧
    decode { oldBinint2 := true } [0x4d, 0x00, 0x01, 0x2e] = .ok [] (.atom (.int 65536)) ∧
    (encode {} ⟨[], .atom (.int 65536)⟩).map (decode { oldBinint2 := true }) = some (.ok [] (.atom (.int 65536))) := by
  decide

/-- D2 (regression witness): with the old batch loop (container re-encoded before every batch after the first) the
value `("a", list of 1001 ints)` decodes to something else — and the repaired encoder round-trips it. -/
theorem C07_batch_counterexample :
    (encode { rebatch := true } (nestedList 1001)).map (decode {}) ≠ some (.ok (nestedList 1001).heap (nestedList 1001).root) ∧
    (encode {} (nestedList 1001)).map (decode {}) = some (.ok (nestedList 1001).heap (nestedList 1001).root) := by
  set_option maxRecDepth 100000 in
  decide +kernel

/-! non-vacuity of `C07_roundtrip`: its hypotheses hold for — a list containing itself and a tuple that contains it;
a dict shared by two tuples, with a NaN and a tuple among its keys; a 2500-element list (three batches) inside a
tuple; a host object whose argument list is shared with a second host object that also refers to the first. -/
def exSelf : Graph := ⟨[.list [.atom (.int 1), .ref 0, .ref 1], .tuple [.atom (.int 2), .ref 0]], .ref 0⟩
def exSharedDict : Graph :=
  ⟨[.dict [(.atom (.float 0x7ff8000000000001), .atom .none), (.ref 1, .atom (.int 70000)), (.atom (.str [0x6b]), .ref 0)],
    .tuple [.atom (.int 1), .atom (.bytes [0, 255])], .tuple [.ref 0], .tuple [.ref 0, .atom (.bool true)], .tuple [.ref 2, .ref 3]], .ref 4⟩
def exHost : Graph :=
  ⟨[.list [.atom (.int (-5))], .tuple [.ref 0], .host [0x6d] [0x41] (.ref 1), .tuple [.ref 0, .ref 2], .host [0x6d] [0x42] (.ref 3),
    .tuple [.ref 4, .ref 2]], .ref 5⟩
def allHost : DecCfg := { host := some fun _ _ _ => .construct }

example : (encode {} exSelf).isSome = true ∧ exSelf.heap.keysOK = true ∧ exSelf.sizesOK = true := by decide
example : (encode {} exSharedDict).isSome = true ∧ exSharedDict.heap.keysOK = true ∧ exSharedDict.sizesOK = true := by decide
example : (encode {} exHost).isSome = true ∧ exHost.heap.keysOK = true ∧ exHost.sizesOK = true ∧
    decode allHost ((encode {} exHost).getD []) = .ok exHost.heap exHost.root := by decide +kernel
example : HostAccepts allHost exHost.heap := fun _ _ _ _ _ => ⟨_, rfl, fun _ => rfl⟩
example : (encode {} (nestedList 2500)).isSome = true ∧ (nestedList 2500).heap.keysOK = true ∧ (nestedList 2500).sizesOK = true := by
  set_option maxRecDepth 100000 in decide +kernel
/-- `C07_total_partial`'s hypothesis is met with less fuel than `encode` uses -/
example : (encVal {} exSelf.heap 3 ⟨[], 0⟩ exSelf.root).isSome = true ∧ (encVal {} exSelf.heap 1 ⟨[], 0⟩ exSelf.root).isSome = false := by decide
/-- the example graphs really are different values with different encodings -/
example : encode {} exSelf ≠ encode {} ⟨exSelf.heap, .ref 1⟩ := by decide

/-! ## C15 -/

/-- the host unpickler returns a value or an error, or panics with a `runtime.Error` — never with a non-error value -/
def HostSane (cfg : DecCfg) : Prop := ∀ f, cfg.host = some f → ∀ m n xs, f m n xs ≠ .otherPanic

/-- C15: for EVERY byte string, `Decode` returns either a value or an error: the loop terminates (each iteration
consumes at least one byte), every partial operation of the decoder is guarded by an explicit failure, and the only
run-time panics (from the host unpickler) are `runtime.Error`s, which `recover().(failure)` turns into errors because
`failure` is the interface type `error` (tie `failure_ok`). It never returns `(nil, nil)` and never hangs. -/
theorem C15_no_crash (cfg : DecCfg) (bs : Bytes) (hf : cfg.failureIsInterface = true) (hh : HostSane cfg) :
    (∃ h v, decode cfg bs = .ok h v) ∨ (∃ k, decode cfg bs = .err k) := by
  have hsafe := decode_safe cfg bs
  simp only [decode]
  cases hr : decodeLoop cfg (bs.length + 1) {} bs with
  | value v h => exact Or.inl ⟨h, v, rfl⟩
  | failure k => exact Or.inr ⟨k, rfl⟩
  | rtPanic => exact Or.inr ⟨.runtimeError, by simp [recoverDecode, hf]⟩
  | otherPanic =>
    rw [hr] at hsafe
    obtain ⟨f, m, n, xs, h1, h2⟩ := hsafe
    exact absurd h2 (hh f h1 m n xs)
  | outOfFuel => rw [hr] at hsafe; exact hsafe.elim

/-- C15, termination alone needs no hypothesis at all -/
theorem C15_terminates (cfg : DecCfg) (bs : Bytes) : decode cfg bs ≠ .outOfFuel := by
  have hsafe := decode_safe cfg bs
  simp only [decode]
  cases hr : decodeLoop cfg (bs.length + 1) {} bs <;> rw [hr] at hsafe <;> simp only [recoverDecode]
  · exact fun h => Outcome.noConfusion h
  · exact fun h => Outcome.noConfusion h
  · split <;> exact fun h => Outcome.noConfusion h
  · exact fun h => Outcome.noConfusion h
  · exact hsafe.elim

/-- C15: a decoded value is well formed — every reference in it, and in every object reachable from it, points to an
allocated object (there is no nil slot: the model's values have none, the decoder pushes only allocated or atomic
values). The `mark` / `global` sentinels may occur in it (DESIGN.md §4: an observation, not a violation).
What the HOST unpickler builds is abstract here (`HostVerdict.construct` stands for "a fresh non-nil value"): that
dawn's `envUnpickler` returns only well-formed values (no typed-nil pointer, nothing whose `String`/`Type`/`Truth`/
`Hash`/`Len`/iteration panics) is the host's obligation; it is checked on the real code by the harness's
well-formedness walker in the streams `dec.env-*` (every single-byte substitution, every truncation and seeded
mutations of a genuine function-environment record, decoded with `envUnpickler`) and by the record-level stream. -/
theorem C15_value_wf (cfg : DecCfg) (bs : Bytes) (h : Heap) (v : Val) (hd : decode cfg bs = .ok h v) :
    v.closed h.length ∧ ∀ o ∈ h, o.closed h.length := by
  have hsafe := decode_safe cfg bs
  simp only [decode] at hd
  cases hr : decodeLoop cfg (bs.length + 1) {} bs <;> rw [hr] at hsafe hd <;> simp only [recoverDecode] at hd
  · simp only [Outcome.ok.injEq] at hd
    obtain ⟨rfl, rfl⟩ := hd
    exact hsafe
  all_goals first | exact Outcome.noConfusion hd | (split at hd <;> exact Outcome.noConfusion hd)

/-- C15, the excluded point of `C15_no_crash`, decided rather than hidden: `(nil, nil)` comes out exactly when the
host unpickler panics with a non-error value, or — were `failure` a concrete type — on any run-time panic. -/
theorem C15_recover_counterexample :
    let bytes : Bytes := [0x8c, 1, 0x6d, 0x8c, 1, 0x4e, 0x93, 0x29, 0x81, 0x2e]       -- "m" "N" STACK_GLOBAL () NEWOBJ STOP
    decode { host := some fun _ _ _ => .otherPanic } bytes = .nilNoErr ∧
    decode { host := some fun _ _ _ => .runtimePanic } bytes = .err .runtimeError ∧
    decode { host := some fun _ _ _ => .runtimePanic, failureIsInterface := false } bytes = .nilNoErr ∧
    decode { host := some fun _ _ _ => .construct } bytes = .ok [.tuple [], .host [0x6d] [0x4e] (.ref 0)] (.ref 1) := by
  decide

/-! non-vacuity of `C15_no_crash`: its hypotheses hold for the default configuration and for a host that rejects or
hits a run-time error; both disjuncts occur. -/
example : HostSane {} := fun f h => by simp at h
example : HostSane { host := some fun _ n _ => if n = [0x21] then .error else if n = [0x3f] then .runtimePanic else .construct } := by
  intro f h m n xs
  simp only [Option.some.injEq] at h
  subst h
  simp only
  split
  · exact fun h => HostVerdict.noConfusion h
  · split <;> exact fun h => HostVerdict.noConfusion h
example : decode {} [0x5d, 0x94, 0x68, 0x00, 0x61, 0x2e] = .ok [.list [.ref 0]] (.ref 0) := by decide   -- l = []; l.append(l)
example : decode {} [0x5d, 0x61, 0x2e] = .err .underflow := by decide
example : decode {} [0x58, 0xff, 0xff, 0xff, 0xff, 0x61] = .err .eof := by decide   -- declared length beyond the input
example : decode {} [0x28, 0x2e] = .ok [] .mark := by decide                          -- the sentinel escapes as a value

end Dawn.Pickle

import Dawn.Props.Loader
import Dawn.Props.Build
/-!
# C06 discharges "for every order in which packages and modules happen to load" of C02

`Dawn/Props/Build.lean` (C01, C02, C03, C13, C14) takes the result of loading a project as an abstract `Build.Tree`
(`defs`: the definition registered under each label, `labels`: what a full load puts into `proj.targets`) and proves its
theorems per tree. Here the tree is obtained from a *terminal state of the loader model* and shown not to depend on the
interleaving of the per-package loader goroutines.

* `D m` is the list of targets (label, definition) module `m` registers when its body is executed (`target(...)`,
  `glob`/source registrations): an abstract parameter. No step of the loader model reads it — what a module registers is
  a function of the module's own file and of the values it `load`s, which are the same in every load
  (`C06_deterministic`: the same modules are executed, once each, with the same results).
* `treeOf D N s`: the targets registered by the modules below `N` that finished without error in `s`, in module order.
  (`proj.targets` is a Go map; its iteration order is not part of the tree. Two modules registering the same label is the
  "duplicate target" load error, outside this link: `lookup` then keeps the first.)
* Scope: acyclic projects all of whose modules can be fetched — the projects that load at all (`C06_acyclic_ok`);
  otherwise `Load` fails and no build takes place (`C06_cycle_reported`, `C06_unfetchable_reported`).
-/
namespace Dawn.Link
open Dawn

/-- the module's body was executed to the end without error -/
def executedOk (s : Loader.State) (m : Loader.Mod) : Bool := s.loaded m && s.result m == .ok

/-- everything the successfully executed modules below `N` registered, in module order -/
def registered (D : Loader.Mod → List (Build.Label × Build.Def)) (N : Nat) (s : Loader.State) :
    List (Build.Label × Build.Def) :=
  ((List.range N).filter (executedOk s)).flatMap D

/-- the `Build.Tree` a finished load leaves behind -/
def treeOf (D : Loader.Mod → List (Build.Label × Build.Def)) (N : Nat) (s : Loader.State) : Build.Tree :=
  { defs := fun l => (registered D N s).lookup l, labels := (registered D N s).map Prod.fst }

/-- two finished loads of the same project executed the same modules successfully -/
theorem executedOk_unique {P : Loader.Project} (hac : Loader.Acyclic P) (hnb : Loader.NoBroken P) {s₁ s₂ : Loader.State}
    (h₁ : Loader.Reachable .fixed P s₁) (h₂ : Loader.Reachable .fixed P s₂)
    (t₁ : Loader.Terminal P s₁) (t₂ : Loader.Terminal P s₂) : executedOk s₁ = executedOk s₂ := by
  funext m
  have := Loader.C06_deterministic hac hnb h₁ h₂ t₁ t₂ m
  simp only [executedOk, this.1, this.2.1]

/-- C06 → C02, the tree is unique: whatever the two interleavings of the loader goroutines were, two complete loads of
the same project (acyclic, every module fetchable) leave the same `Build.Tree`. -/
theorem C06_tree_unique {P : Loader.Project} (hac : Loader.Acyclic P) (hnb : Loader.NoBroken P)
    (D : Loader.Mod → List (Build.Label × Build.Def)) (N : Nat) {s₁ s₂ : Loader.State}
    (h₁ : Loader.Reachable .fixed P s₁) (h₂ : Loader.Reachable .fixed P s₂)
    (t₁ : Loader.Terminal P s₁) (t₂ : Loader.Terminal P s₂) : treeOf D N s₁ = treeOf D N s₂ := by
  simp only [treeOf, registered, executedOk_unique hac hnb h₁ h₂ t₁ t₂]

/-- … and it is the tree of exactly the modules the project reaches: a module below the bound contributes its targets iff
it is the BUILD file of a package or is loaded, directly or indirectly, from one. -/
theorem C06_tree_modules {P : Loader.Project} (hac : Loader.Acyclic P) (hnb : Loader.NoBroken P) {s : Loader.State}
    (h : Loader.Reachable .fixed P s) (ht : Loader.Terminal P s) (m : Loader.Mod) :
    executedOk s m = true ↔ Loader.Reach P m := by
  have a := Loader.C06_acyclic_ok hac hnb h ht
  constructor
  · intro he
    apply Classical.byContradiction
    intro hn
    have := (a.2.2 m hn).1
    simp [executedOk, this] at he
  · intro hr
    simp [executedOk, (a.2.1 m hr).1, a.1 m]

/-- C02, load order independence, in the incremental engine's vocabulary: everything the `Build` model computes from the
loaded project — the evaluation order of a request, a build (`runBuild`: final world, memo, events, executions, steps),
the records a load writes, garbage collection — is the same after any two complete loads of the project. So
`C02_rebuild`, `C02_no_spurious`, `C01_never_stale`, … , which hold for every `Tree`, hold "for every order in which
packages and modules happen to load". -/
theorem C02_load_order_independent {P : Loader.Project} (hac : Loader.Acyclic P) (hnb : Loader.NoBroken P)
    (D : Loader.Mod → List (Build.Label × Build.Def)) (N : Nat) {s₁ s₂ : Loader.State}
    (h₁ : Loader.Reachable .fixed P s₁) (h₂ : Loader.Reachable .fixed P s₂)
    (t₁ : Loader.Terminal P s₁) (t₂ : Loader.Terminal P s₂) :
    (∀ (Pb : Build.Params) (o : Build.Opts) (ord : List Build.Label) (w : Build.World),
      Build.runBuild Pb (treeOf D N s₁) o ord w = Build.runBuild Pb (treeOf D N s₂) o ord w) ∧
    (∀ root, Build.order (treeOf D N s₁) root = Build.order (treeOf D N s₂) root) ∧
    (∀ w, Build.load (treeOf D N s₁) w = Build.load (treeOf D N s₂) w) ∧
    (∀ pi w, Build.gc (treeOf D N s₁) pi w = Build.gc (treeOf D N s₂) pi w) ∧
    (∀ l d, Build.depsOf (treeOf D N s₁) l d = Build.depsOf (treeOf D N s₂) l d) := by
  rw [C06_tree_unique hac hnb D N h₁ h₂ t₁ t₂]
  exact ⟨fun _ _ _ _ => rfl, fun _ => rfl, fun _ => rfl, fun _ _ => rfl, fun _ _ => rfl⟩

/-- any observation whatsoever of the tree -/
theorem C02_load_order_independent_any {α : Sort _} (F : Build.Tree → α) {P : Loader.Project} (hac : Loader.Acyclic P)
    (hnb : Loader.NoBroken P) (D : Loader.Mod → List (Build.Label × Build.Def)) (N : Nat) {s₁ s₂ : Loader.State}
    (h₁ : Loader.Reachable .fixed P s₁) (h₂ : Loader.Reachable .fixed P s₂)
    (t₁ : Loader.Terminal P s₁) (t₂ : Loader.Terminal P s₂) : F (treeOf D N s₁) = F (treeOf D N s₂) := by
  rw [C06_tree_unique hac hnb D N h₁ h₂ t₁ t₂]

/-! ## Non-vacuity: the D4 project, two different interleavings, one tree -/

/-- every module registers one function target named after it, depending on the targets of what it loads -/
def exD : Loader.Mod → List (Build.Label × Build.Def) := fun m =>
  [(m, { kind := .fn, deps := Loader.sharedHelper.loads m, reads := [], gens := [], env := m, always := false, path := 0 })]

example : ∃ s₁ s₂, Loader.Reachable .fixed Loader.sharedHelper s₁ ∧ Loader.Reachable .fixed Loader.sharedHelper s₂ ∧
    Loader.Terminal Loader.sharedHelper s₁ ∧ Loader.Terminal Loader.sharedHelper s₂ ∧
    s₁.ptime 0 ≠ s₂.ptime 0 ∧ (treeOf exD 4 s₁).labels = [0, 1, 2, 3] ∧ treeOf exD 4 s₁ = treeOf exD 4 s₂ := by
  -- goroutine 0 first / goroutine 1 first
  let sch₁ : List Loader.Tid := Loader.sharedHelperSchedule ++ [1, 1, 1, 0, 0, 0, 1, 1, 1, 1, 1, 0, 0, 0, 0]
  let sch₂ : List Loader.Tid := List.replicate 20 1 ++ List.replicate 13 0
  have term : ∀ s, Loader.unfinished Loader.sharedHelper s = false → Loader.Terminal Loader.sharedHelper s := by
    intro s hu t ht
    simp only [Loader.unfinished, List.any_eq_false, List.mem_range, bne_iff_ne, ne_eq, Decidable.not_not] at hu
    exact hu t ht
  have h : ((Loader.run .fixed Loader.sharedHelper (Loader.init Loader.sharedHelper) sch₁).bind fun a =>
      (Loader.run .fixed Loader.sharedHelper (Loader.init Loader.sharedHelper) sch₂).map fun b =>
        !Loader.unfinished Loader.sharedHelper a && !Loader.unfinished Loader.sharedHelper b &&
        decide (a.ptime 0 ≠ b.ptime 0) && decide ((treeOf exD 4 a).labels = [0, 1, 2, 3])) = some true := by decide
  cases h₁ : Loader.run .fixed Loader.sharedHelper (Loader.init Loader.sharedHelper) sch₁ with
  | none => simp [h₁] at h
  | some a =>
    cases h₂ : Loader.run .fixed Loader.sharedHelper (Loader.init Loader.sharedHelper) sch₂ with
    | none => simp [h₁, h₂] at h
    | some b =>
      simp [h₁, h₂] at h
      have r₁ := Loader.steps_of_run h₁
      have r₂ := Loader.steps_of_run h₂
      have ta := term a h.1.1.1
      have tb := term b h.1.1.2
      exact ⟨a, b, r₁, r₂, ta, tb, h.1.2, h.2,
        C06_tree_unique Loader.sharedHelper_acyclic Loader.sharedHelper_noBroken exD 4 r₁ r₂ ta tb⟩

end Dawn.Link

import Dawn.Props.Env
import Dawn.Props.Pickle
import Dawn.Model.Build
/-!
# C08 at the byte level, and what the build engine may assume about a function's fingerprint

`Dawn.Env` (C08) walks a function environment and writes abstract opcodes (`Env.Op`, with the integer / length /
memo-id widths still to be chosen); `Dawn.Pickle` (C07) has the concrete opcodes (`Pickle.Op`, one per byte layout)
and their bytes. This file links the two:

* `tr : Env.Op → Pickle.Op` chooses the layout exactly as `encode.go` does (`Pickle.encInt`, `encStr`, `encBytes`,
  BINGET / LONG_BINGET), is injective, and `Env.ser op = Pickle.ser (tr op)`: the bytes the `env.fp` stream compares
  with the real `functionEnv` are `Pickle.serAll ∘ map tr` of the opcodes of the walk (`fingerprint_eq_pickle`).
* `serAll_injective`: a byte string is the serialisation of at most one list of well-formed opcodes (from `C07_bytes`).
* `C08_bytes_sensitive`, `C08_bytes_deterministic`: C08_sensitive / C08_deterministic for the BYTES.
* `C08_discharges_build_env_hypothesis`: the opaque `Build.Env` value of the incremental-engine model can be taken to
  be (a numbering of) these bytes: equal values ⇔ isomorphic environments.
-/
namespace Dawn.Link

open Dawn

/-! ## opcodes of the walk → opcodes of the codec -/

def tr : Env.Op → Pickle.Op
  | .mark => .mark | .memoize => .memoize | .stop => .stop
  | .binget id => if id < 256 then .binget id else .longBinget id
  | .none => .none | .newtrue => .newtrue | .newfalse => .newfalse
  | .int i => Pickle.encInt i
  | .float b => .binfloat b.toNat
  | .str s => Pickle.encStr s
  | .bytes b => Pickle.encBytes b
  | .emptyList => .emptyList | .append => .append | .appends => .appends
  | .emptyTuple => .emptyTuple | .tuple1 => .tuple1 | .tuple2 => .tuple2 | .tuple3 => .tuple3 | .tuple => .tuple
  | .emptyDict => .emptyDict | .setitems => .setitems | .emptySet => .emptySet | .additems => .additems
  | .stackGlobal => .stackGlobal | .newobj => .newobj

/-- memo ids and string lengths fit the four bytes the format has for them (anything the real encoder can hold in
memory on a 64-bit machine below 4 GiB per string and 2^32 memoised objects) -/
def Small : Env.Op → Prop
  | .binget id => id < 4294967296
  | .str s => s.length < 4294967296
  | .bytes b => b.length < 4294967296
  | _ => True

instance (o : Env.Op) : Decidable (Small o) := by cases o <;> simp only [Small] <;> infer_instance

def SmallOps (ops : List Env.Op) : Prop := ∀ o ∈ ops, Small o

theorem digitsAux_eq : ∀ fuel n, Env.digitsAux fuel n = Pickle.digitsAux fuel n := by
  intro fuel
  induction fuel with
  | zero => intro n; rfl
  | succ f ih => intro n; simp only [Env.digitsAux, Pickle.digitsAux, ih]

theorem natText_eq (n : Nat) : Env.natText n = Pickle.natText n := by
  simp only [Env.natText, Pickle.natText, Pickle.digits, digitsAux_eq]

theorem decimal_eq (i : Int) : Env.decimal i = Pickle.intText i := by
  cases i with
  | ofNat n => simp only [Env.decimal, Pickle.intText, natText_eq]
  | negSucc n => simp only [Env.decimal, Pickle.intText, natText_eq, Pickle.minus]

theorem ofNat_mod (n : Nat) : UInt8.ofNat n = UInt8.ofNat (n % 256) := by
  apply UInt8.toNat_inj.mp
  simp [UInt8.toNat_ofNat']

theorem le32_eq (n : Nat) : Env.le32 n = Pickle.le32 n := by
  simp only [Env.le32, Pickle.le32, Pickle.byte]

theorem le32_mod (n : Nat) : Pickle.le32 (n % 4294967296) = Pickle.le32 n := by
  simp only [Pickle.le32, Pickle.byte]
  have h1 : n % 4294967296 % 256 = n % 256 := by omega
  have h2 : n % 4294967296 / 256 % 256 = n / 256 % 256 := by omega
  have h3 : n % 4294967296 / 65536 % 256 = n / 65536 % 256 := by omega
  have h4 : n % 4294967296 / 16777216 % 256 = n / 16777216 % 256 := by omega
  rw [h1, h2, h3, h4]

/-- the bytes of the walk's opcodes are the codec's bytes of their translation -/
theorem ser_tr (op : Env.Op) : Env.ser op = Pickle.ser (tr op) := by
  cases op with
  | binget id =>
    simp only [Env.ser, tr]
    split
    · simp [Pickle.ser, Pickle.byte, Env.opc, Pickle.opBINGET]; exact ofNat_mod id
    · simp [Pickle.ser, le32_eq, Env.opc, Pickle.opLONG_BINGET]
  | int i =>
    simp only [Env.ser, tr, Pickle.encInt]
    split
    · simp [Pickle.ser, decimal_eq, Env.opc, Pickle.opINT, Pickle.newline]
    · split
      · simp [Pickle.ser, Pickle.byte, Env.opc, Pickle.opBININT1]; exact ofNat_mod _
      · split
        · simp only [Pickle.ser, Pickle.byte, Env.opc, Pickle.opBININT2, List.cons.injEq, true_and, and_true]
          refine ⟨?_, ?_⟩
          · rw [ofNat_mod (i.toNat % 256)]
          · rw [ofNat_mod (i.toNat / 256)]; congr 1; omega
        · simp [Pickle.ser, le32_eq, Env.opc, Pickle.opBININT]
  | float b =>
    simp only [Env.ser, tr, Pickle.ser, Env.le64, Pickle.le64, le32_eq, le32_mod]
    rfl
  | str s =>
    simp only [Env.ser, tr, Env.serString, Pickle.encStr]
    split
    · simp [Pickle.ser, Pickle.byte, Env.opc, Pickle.opSHORT_BINUNICODE]; exact ofNat_mod _
    · simp [Pickle.ser, le32_eq, Env.opc, Pickle.opBINUNICODE]
  | bytes s =>
    simp only [Env.ser, tr, Env.serString, Pickle.encBytes]
    split
    · simp [Pickle.ser, Pickle.byte, Env.opc, Pickle.opSHORT_BINBYTES]; exact ofNat_mod _
    · simp [Pickle.ser, le32_eq, Env.opc, Pickle.opBINBYTES]
  | _ => rfl

theorem serAll_tr (ops : List Env.Op) : Env.serAll ops = Pickle.serAll (ops.map tr) := by
  induction ops with
  | nil => rfl
  | cons o r ih => simp [Env.serAll, Pickle.serAll, ser_tr] at ih ⊢; exact ih

theorem tr_wf (op : Env.Op) (h : Small op) : (tr op).wf := by
  cases op with
  | binget id => simp only [tr]; split <;> simp_all [Pickle.Op.wf, Small]
  | int i =>
    simp only [tr, Pickle.encInt]
    split
    · exact Pickle.intText_wf i
    · split
      · simp only [Pickle.Op.wf]; omega
      · split
        · simp only [Pickle.Op.wf]; omega
        · simp only [Pickle.Op.wf]; omega
  | float b => simp only [tr, Pickle.Op.wf]; exact b.toNat_lt
  | str s => simp only [tr, Pickle.encStr]; split <;> simp_all [Pickle.Op.wf, Small]
  | bytes s => simp only [tr, Pickle.encBytes]; split <;> simp_all [Pickle.Op.wf, Small]
  | _ => simp [tr, Pickle.Op.wf]

theorem intText_injective (i j : Int) (h : Pickle.intText i = Pickle.intText j) : i = j := by
  have hi := Pickle.C07_int_text i
  rw [h, Pickle.C07_int_text j] at hi
  exact (Option.some.inj hi).symm

theorem encInt_injective (i j : Int) (h : Pickle.encInt i = Pickle.encInt j) : i = j := by
  simp only [Pickle.encInt] at h
  split at h <;> split at h
  · exact intText_injective i j (by simpa using h)
  all_goals (try (split at h)) <;> (try (split at h)) <;> (try (split at h)) <;> (try (split at h)) <;>
    simp at h <;> omega

theorem tr_injective (a b : Env.Op) (h : tr a = tr b) : a = b := by
  cases a with
  | int i =>
    cases b with
    | int j => simp only [tr] at h; rw [encInt_injective i j h]
    | _ =>
      simp only [tr, Pickle.encInt, Pickle.encStr, Pickle.encBytes] at h
      repeat' (split at h)
      all_goals simp at h
  | _ =>
    cases b <;> simp only [tr, Pickle.encInt, Pickle.encStr, Pickle.encBytes] at h <;>
      (repeat' (split at h)) <;> (try (simp at h)) <;>
      first
        | rfl
        | (subst h; rfl)
        | (congr 1; exact UInt64.toNat_inj.mp h)

theorem map_tr_injective : ∀ (a b : List Env.Op), a.map tr = b.map tr → a = b
  | [], [], _ => rfl
  | [], _ :: _, h => by simp at h
  | _ :: _, [], h => by simp at h
  | x :: xs, y :: ys, h => by
    simp only [List.map_cons, List.cons.injEq] at h
    rw [tr_injective x y h.1, map_tr_injective xs ys h.2]

/-- the bytes of a walk determine its opcodes -/
theorem serAll_ops_injective (a b : List Env.Op) (ha : SmallOps a) (hb : SmallOps b)
    (h : Env.serAll a = Env.serAll b) : a = b := by
  rw [serAll_tr, serAll_tr] at h
  apply map_tr_injective
  apply Pickle.serAll_injective _ _ _ _ h
  · intro op hop; obtain ⟨o, ho, rfl⟩ := List.mem_map.mp hop; exact tr_wf o (ha o ho)
  · intro op hop; obtain ⟨o, ho, rfl⟩ := List.mem_map.mp hop; exact tr_wf o (hb o ho)

/-! ## C08 for the bytes -/

/-- the bytes of the fingerprint at a given fuel: `pickle.NewEncoder(buf, newEnvPickler()).Encode(f)` -/
def fingerprintBytes (cfg : Env.Cfg) (g : Env.Heap) (fuel : Nat) (root : Env.Val) : Except Env.Err Pickle.Bytes :=
  (Env.encodeOps cfg g fuel root).map fun ops => Pickle.serAll (ops.map tr)

/-- what the `env.fp` stream compares with the real `functionEnv`: the model's `fingerprint` is the codec's
serialisation of the translated opcodes of the walk -/
theorem fingerprint_eq_pickle (cfg : Env.Cfg) (g : Env.Heap) (root : Env.Val) :
    Env.fingerprint cfg g root = fingerprintBytes cfg g (Env.fuelBound g) root := by
  simp only [Env.fingerprint, fingerprintBytes]
  cases Env.encodeOps cfg g (Env.fuelBound g) root with
  | error e => rfl
  | ok ops => simp [Except.map, serAll_tr]

/-- every memo id and string length of the walk fits its four-byte field -/
def SmallWalk (cfg : Env.Cfg) (g : Env.Heap) (fuel : Nat) (root : Env.Val) : Prop :=
  ∀ ops, Env.encodeOps cfg g fuel root = .ok ops → SmallOps ops

/-- C08 "changing any code or value the function references produces an unequal one", for the BYTES: if the
fingerprints of two environments are the same byte string, the environments are isomorphic. -/
theorem C08_bytes_sensitive (g₁ g₂ : Env.Heap) (r₁ r₂ : Env.Val) (f₁ f₂ : Nat) (bs : Pickle.Bytes)
    (s₁ : SmallWalk Env.Cfg.current g₁ f₁ r₁) (s₂ : SmallWalk Env.Cfg.current g₂ f₂ r₂)
    (h₁ : fingerprintBytes Env.Cfg.current g₁ f₁ r₁ = .ok bs) (h₂ : fingerprintBytes Env.Cfg.current g₂ f₂ r₂ = .ok bs) :
    Env.EnvIso g₁ r₁ g₂ r₂ := by
  simp only [fingerprintBytes] at h₁ h₂
  cases e₁ : Env.encodeOps Env.Cfg.current g₁ f₁ r₁ with
  | error e => rw [e₁] at h₁; simp [Except.map] at h₁
  | ok o₁ =>
    cases e₂ : Env.encodeOps Env.Cfg.current g₂ f₂ r₂ with
    | error e => rw [e₂] at h₂; simp [Except.map] at h₂
    | ok o₂ =>
      rw [e₁] at h₁; rw [e₂] at h₂
      simp only [Except.map, Except.ok.injEq] at h₁ h₂
      have : o₁ = o₂ := by
        apply serAll_ops_injective o₁ o₂ (s₁ o₁ e₁) (s₂ o₂ e₂)
        rw [serAll_tr, serAll_tr, h₁, h₂]
      subst this
      exact Env.C08_sensitive g₁ g₂ r₁ r₂ f₁ f₂ o₁ e₁ e₂

/-- C08 "two loads of identical project text produce equal fingerprints", for the BYTES: moving every object to
another address does not change a byte, for every version of the code the model follows. -/
theorem C08_bytes_deterministic (cfg : Env.Cfg) (ρ : Nat → Nat) (hρ : Function.Injective ρ) (g g' : Env.Heap)
    (hr : Env.Renames ρ g g') (fuel : Nat) (root : Env.Val) :
    fingerprintBytes cfg g' fuel (root.rename ρ) = fingerprintBytes cfg g fuel root := by
  simp only [fingerprintBytes, Env.C08_deterministic cfg ρ hρ g g' hr fuel root]

/-- … and for `Env.fingerprint` itself (its fuel is a function of the heap size, which a renaming keeps) -/
theorem C08_fingerprint_deterministic (cfg : Env.Cfg) (ρ : Nat → Nat) (hρ : Function.Injective ρ) (g g' : Env.Heap)
    (hr : Env.Renames ρ g g') (hlen : g'.length = g.length) (root : Env.Val) :
    Env.fingerprint cfg g' (root.rename ρ) = Env.fingerprint cfg g root := by
  rw [fingerprint_eq_pickle, fingerprint_eq_pickle]
  have : Env.fuelBound g' = Env.fuelBound g := by simp [Env.fuelBound, hlen]
  rw [this]
  exact C08_bytes_deterministic cfg ρ hρ g g' hr _ root

/-! ## what the incremental-engine model may assume (`Dawn.Build`)

`Model/Build.lean` abstracts the pickled function environment of a target as an opaque value `Def.env : Build.Env`
(`abbrev Env := Nat`), stores it in the record (`Data.env e`) and decides "environment unchanged" by equality of
these values (`info.data == .env d.env`); its header says "its injectivity is C07/C08". There is no named hypothesis
in `Props/Build.lean` for it (`Fixed` / `SumInj` are about `sha256` and the two repairs): the assumption is built
into the types — *the `Env` value of a definition is a function of its environment that is the same for the same
environment and different for different ones*. `envCode` below is such a function, and
`C08_discharges_build_env_hypothesis` is that assumption, proved. -/

/-- an injective numbering of byte strings (bijective base 257 with digits 1..256) -/
def codeBytes : Pickle.Bytes → Nat
  | [] => 0
  | b :: bs => (b.toNat + 1) + 257 * codeBytes bs

theorem codeBytes_injective : ∀ a b : Pickle.Bytes, codeBytes a = codeBytes b → a = b
  | [], [], _ => rfl
  | [], y :: ys, h => by simp only [codeBytes] at h; omega
  | x :: xs, [], h => by simp only [codeBytes] at h; omega
  | x :: xs, y :: ys, h => by
    simp only [codeBytes] at h
    have hx := x.toNat_lt
    have hy := y.toNat_lt
    have h1 : x.toNat = y.toNat := by omega
    have h2 : codeBytes xs = codeBytes ys := by omega
    rw [UInt8.toNat_inj.mp h1, codeBytes_injective xs ys h2]

/-- the `Build.Env` value of a target whose function has environment `(g, root)`: its fingerprint, numbered -/
def envCode (g : Env.Heap) (root : Env.Val) : Option Build.Env :=
  match fingerprintBytes Env.Cfg.current g (Env.fuelBound g) root with
  | .ok bs => some (codeBytes bs)
  | .error _ => none

/-- The build model's abstraction is sound for the repaired code. For environments whose fingerprint exists
(C08_terminates_ok) and whose memo ids and string lengths fit their fields:
1. equal `Build.Env` values ⇒ isomorphic environments (an edit that changes the environment changes the value, so the
   engine's `info.data == .env d.env` is false and the target re-runs);
2. isomorphic copies of one environment (another load: every object at another address) ⇒ equal values (the engine's
   test is true and the target is up to date). -/
theorem C08_discharges_build_env_hypothesis :
    (∀ (g₁ g₂ : Env.Heap) (r₁ r₂ : Env.Val) (e : Build.Env),
        SmallWalk Env.Cfg.current g₁ (Env.fuelBound g₁) r₁ → SmallWalk Env.Cfg.current g₂ (Env.fuelBound g₂) r₂ →
        envCode g₁ r₁ = some e → envCode g₂ r₂ = some e → Env.EnvIso g₁ r₁ g₂ r₂) ∧
    (∀ (ρ : Nat → Nat) (g g' : Env.Heap) (root : Env.Val), Function.Injective ρ → Env.Renames ρ g g' →
        g'.length = g.length → envCode g' (root.rename ρ) = envCode g root) := by
  refine ⟨?_, ?_⟩
  · intro g₁ g₂ r₁ r₂ e s₁ s₂ h₁ h₂
    simp only [envCode] at h₁ h₂
    cases f₁ : fingerprintBytes Env.Cfg.current g₁ (Env.fuelBound g₁) r₁ with
    | error x => rw [f₁] at h₁; cases h₁
    | ok b₁ =>
      cases f₂ : fingerprintBytes Env.Cfg.current g₂ (Env.fuelBound g₂) r₂ with
      | error x => rw [f₂] at h₂; cases h₂
      | ok b₂ =>
        rw [f₁] at h₁; rw [f₂] at h₂
        simp only [Option.some.injEq] at h₁ h₂
        have : b₁ = b₂ := codeBytes_injective b₁ b₂ (h₁.trans h₂.symm)
        subst this
        exact C08_bytes_sensitive g₁ g₂ r₁ r₂ _ _ b₁ s₁ s₂ f₁ f₂
  · intro ρ g g' root hρ hr hlen
    simp only [envCode]
    have : Env.fuelBound g' = Env.fuelBound g := by simp [Env.fuelBound, hlen]
    rw [this, C08_bytes_deterministic Env.Cfg.current ρ hρ g g' hr]

/-- the hypotheses are satisfiable: the recursive witness of D3 has a `Build.Env` value -/
example : (envCode Env.gFact (.ref 0)).isSome = true := by decide +kernel
example : SmallWalk Env.Cfg.current Env.gFact (Env.fuelBound Env.gFact) (.ref 0) := by
  intro ops h
  have : (match Env.encodeOps Env.Cfg.current Env.gFact (Env.fuelBound Env.gFact) (.ref 0) with
      | .ok o => o.all (fun x => decide (Small x))
      | .error _ => false) = true := by decide +kernel
  rw [h] at this
  intro o ho
  exact of_decide_eq_true (List.all_eq_true.mp this o ho)

end Dawn.Link

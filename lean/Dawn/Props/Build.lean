import Dawn.Proofs.BuildClean
import Dawn.Proofs.BuildDry
import Dawn.Proofs.BuildSim
import Dawn.Proofs.BuildSim2
import Dawn.Proofs.BuildPath
/-!
# C01, C02, C03, C13, C14 — the incremental engine

Property theorems only. The model (`Dawn/Model/Build.lean`) follows `runTarget.Evaluate`, the two `upToDate` functions,
`saveTargetInfo`, `dirSum`, `targetInfoPath` and `GC` as they are after the repairs D8, D9, D18, D22, D29, D32; it is tied to the
source by `Dawn/Ties/Build.lean` and by the correspondence stream `build.history` (every operation of generated
histories, real engine in a fresh process vs `drv_build`).

Standing hypotheses, all explicit:
* `Fixed P`: the repaired engine (`stampRuns`, `marker`, `listCheck`) and an injective `sha256` (`SumInj`).
* `Conforms S t`: the tree a load sees is well declared — a body writes what its function's fingerprint determines and
  reads what its fingerprint *and the lists it is handed through `self`* determine (`Shape.readsOf l env attrs`: a body
  may read `self.sources` in order, whatever a `glob` matched), its output may depend on those lists themselves
  (`Params.out` takes them), what it reads is declared as a dependency, every generated path has one owner, a source
  whose file a live target generates depends on that target (`link`). Before the D32 repair the record did not remember
  the lists, and the theorems had to assume that the code alone determines what a body reads; that gap is closed:
  `C01_removed_dependency_counterexample` (D29) and `C01_reordered_sources_counterexample` (D32) are what went wrong
  without the two tests. What `generates=` lists is still taken to be determined by the code (`Conforms.gens`).
* `Nodup ord ∧ Sorted t [] ord`: the runner hands each target to `Evaluate` once, after its dependencies (C04).
* `Reach P S R w`: `w` is the persisted state after ANY finite history of edits, real builds of any target lists with any
  failing bodies, dry runs, builds or loads killed at any hook point, and garbage collections
  (`Dawn/Proofs/BuildHist.lean`). `R` is the set of labels a collection retired; a tree built afterwards must not
  define them again (`NotRecreated`) — the exclusion C14 itself states: the run counter of D8's repair restarts with
  the record.
-/
namespace Dawn.Build

structure Fixed (P : Params) : Prop where
  stampRuns : P.stampRuns = true
  marker : P.marker = true
  listCheck : P.listCheck = true
  inj : SumInj P

/-- `sha256` modelled by the identity on canonical values is injective: the hypothesis `SumInj` is satisfiable -/
theorem sumInj_id (out) : SumInj { sum := id, out := out } := by
  intro v v' h
  unfold srcData at h
  cases v <;> cases v' <;> simp_all [canon]

/-- the order the runner produces, as lists: each target once, dependencies first -/
def RunnerOrder (t : Tree) (ord : List Label) : Prop := ord.Nodup ∧ Sorted t [] ord

theorem RunnerOrder.ordered {t : Tree} {ord : List Label} (h : RunnerOrder t ord) (P : Params) (o : Opts) (w : World) :
    Ordered P t o (BSt.init w) ord := ordered_init P t o ord w h.1 h.2

/-- no label whose record a collection removed is defined again -/
def NotRecreated (R : Label → Prop) (t : Tree) : Prop := ∀ x, R x → t.defs x = none

/-- every visited label of the final state succeeded -/
def AllOk (s : BSt) (ord : List Label) : Prop := ∀ x ∈ ord, ∃ m, s.memo x = some m ∧ m.ok = true

/-! ## C01 — incremental builds are never stale -/

/-- `x` is current: its record is not marked for re-running, passes the engine's own `upToDate` test against the
files as they are (for a function target: it last completed with exactly the present code and values, and every file
it declares is there; for a source: the recorded sum is the present content's), and lists for every dependency the
stamp that dependency shows now — the content sum of a source, the (fingerprint, run counter) of a function target,
so that no dependency has completed an execution since `x` last did. -/
def Current (P : Params) (t : Tree) (s : BSt) (x : Label) : Prop :=
  ∃ m, s.memo x = some m ∧ Settled P t s x m

/-- C01, first formulation: whatever the persisted state `w` was (ANY history: it is not even assumed reachable), a
real build leaves every target it visited successfully current — in particular, when the requested target succeeded,
every target of its dependency closure. -/
theorem C01_never_stale {P : Params} {S : Shape} {t : Tree} {o : Opts} (hc : Conforms S t) (hdry : o.dry = false)
    (ord : List Label) (hord : RunnerOrder t ord) (w : World) :
    ∀ x m, (runBuild P t o ord w).memo x = some m → m.ok = true → Current P t (runBuild P t o ord w) x := by
  intro x m hx hok
  exact ⟨m, hx, build_settled hc hdry ord _ (sinv_init P t _) (hord.ordered P o _) x m hx hok⟩

/-- C01, invariant form: after any history, every target a real build visited successfully holds exactly what its
body computes from the present files of what it reads, with every declared output present. -/
theorem C01_consistent {P : Params} {S : Shape} {t : Tree} {o : Opts} (hf : Fixed P) (hc : Conforms S t) (hdry : o.dry = false)
    (ord : List Label) (hord : RunnerOrder t ord) {R : Label → Prop} (w : World) (hw : Reach P S R w) (hnr : NotRecreated R t) :
    ∀ l m d, (runBuild P t o ord w).memo l = some m → m.ok = true → t.defs l = some d → d.kind = .fn →
      Consistent P t (runBuild P t o ord w).w l d := by
  obtain ⟨G, di, hr⟩ := reach_dinv hf.inj hf.stampRuns hf.listCheck hf.marker hw
  exact (build_consistent hc hf.inj hf.stampRuns hf.listCheck hdry ord w G di (hord.ordered P o _) (by rw [hr]; exact hnr)).choose_spec.2.2

/-- C01, second formulation: after any history of edits and builds (full, partial, failed, interrupted), the files
generated by a successful incremental build equal those a from-scratch build (no records) of the same tree produces.
`wc` is any record-free state with the same plain (not generated) files; its generated files may be missing or stale. -/
theorem C01_equiv_clean {P : Params} {S : Shape} {t : Tree} {o oc : Opts} (hf : Fixed P) (hc : Conforms S t)
    (hdry : o.dry = false) (hdryc : oc.dry = false) (ord : List Label) (hord : RunnerOrder t ord)
    {R : Label → Prop} (w wc : World) (hw : Reach P S R w) (hnr : NotRecreated R t)
    (hclean : ∀ l, wc.recs l = none) (hsame : ∀ p, Plain t p → wc.files p = w.files p)
    (hokA : AllOk (runBuild P t o ord w) ord) (hokB : AllOk (runBuild P t oc ord wc) ord) :
    ∀ x ∈ ord, ∀ d, t.defs x = some d → d.kind = .fn → ∀ g ∈ d.gens,
      (runBuild P t o ord w).w.files g = (runBuild P t oc ord wc).w.files g := by
  obtain ⟨G, di, hr⟩ := reach_dinv hf.inj hf.stampRuns hf.listCheck hf.marker hw
  exact equiv_clean hc hf.inj hf.stampRuns hf.listCheck hdry hdryc ord w wc G di hclean hsame (hord.ordered P o _) (hord.ordered P oc _)
    hord.2 (by rw [hr]; exact hnr) hokA hokB

/-! ### the defects, as regression witnesses on the old behaviour

A three-label project: source `1` (path 10), `d = 2` reads it and generates 20, `t = 3` reads `d` and generates 21. -/

def exDefs : Label → Option Def
  | 1 => some ⟨.src, [], [], [], false, 0, 10⟩
  | 2 => some ⟨.fn, [1], [1], [20], false, 100, 0⟩
  | 3 => some ⟨.fn, [2], [2], [21], false, 101, 0⟩
  | _ => none

def exTree : Tree := ⟨exDefs, [1, 2, 3]⟩

def exOut : Label → Env → Attrs → List (Label × List (Path × SrcVal)) → Path → Nat :=
  fun l e _ obs g => l + e + g + (obs.map fun o => (o.2.map fun pv => match pv.2 with | .file c => c | _ => 0).sum).sum

def exP : Params := { sum := id, out := exOut }
def exOpts : Opts := ⟨false, false, fun _ => false⟩
def exW0 : World := ⟨fun p => if p = 10 then .file 5 else .missing, fun _ => none, 0, .absent⟩

/-- the repaired engine on the D8 history: the dependent re-runs, the output is the clean build's -/
example :
    let w1 := (runBuild exP exTree exOpts [1, 2, 3] exW0).w
    let w2 : World := { w1 with files := upd w1.files 10 (.file 6) }          -- edit the source
    let w3 := (runBuild exP exTree exOpts [1, 2] w2).w                          -- build exactly `d`
    let b4 := runBuild exP exTree exOpts [1, 2, 3] w3                            -- build the root
    b4.execs = [3] ∧ b4.w.files 21 = (runBuild exP exTree exOpts [1, 2, 3] { w2 with recs := fun _ => none }).w.files 21 := by
  decide

/-- D8: with the stamp the engine used before the repair (the fingerprint alone), after *edit the source; build
exactly `d`; build the root* the dependent `t` is skipped although `d` executed after it: `t`'s output is stale. -/
theorem C01_partial_build_counterexample :
    let P : Params := { exP with stampRuns := false }
    let w1 := (runBuild P exTree exOpts [1, 2, 3] exW0).w
    let w2 : World := { w1 with files := upd w1.files 10 (.file 6) }
    let w3 := (runBuild P exTree exOpts [1, 2] w2).w
    let b4 := runBuild P exTree exOpts [1, 2, 3] w3
    succeeded b4 3 = true ∧ b4.execs = [] ∧
      b4.w.files 21 ≠ (runBuild P exTree exOpts [1, 2, 3] { w2 with recs := fun _ => none }).w.files 21 := by
  decide

/-- D9: with a directory sum that ignores the entries' names (as `dirSum` did), renaming a file inside a source
directory is invisible: nothing executes, while a from-scratch build sees another listing. -/
theorem C01_dir_rename_counterexample :
    let P : Params := { exP with sum := fun v => match v with | .dir es => .dir (es.map fun e => (0, e.2)) | v => v,
                                 out := fun l e _ obs g => l + e + g + (obs.map fun o => (o.2.map fun pv =>
                                   match pv.2 with | .file c => c | .dir es => (es.map fun e => 7 * e.1 + e.2).sum | _ => 0).sum).sum }
    let w0 : World := { exW0 with files := fun p => if p = 10 then .dir [(1, 5)] else .missing }
    let w1 := (runBuild P exTree exOpts [1, 2, 3] w0).w
    let w2 : World := { w1 with files := upd w1.files 10 (.dir [(2, 5)]) }     -- rename entry 1 → 2, same content
    let b3 := runBuild P exTree exOpts [1, 2, 3] w2
    succeeded b3 3 = true ∧ b3.execs = [] ∧
      b3.w.files 20 ≠ (runBuild P exTree exOpts [1, 2, 3] { w2 with recs := fun _ => none }).w.files 20 := by
  decide

/-- D29: `t = 3` reads whatever sources it has (a `glob`, `self.sources`): first the sources `1` and `4`, then — file 11
deleted, same code, same environment — the source `1` alone. -/
def exGlobA : Tree := ⟨fun l => match l with
  | 1 => some ⟨.src, [], [], [], false, 0, 10⟩
  | 4 => some ⟨.src, [], [], [], false, 0, 11⟩
  | 3 => some ⟨.fn, [1, 4], [1, 4], [21], false, 101, 0⟩
  | _ => none, [1, 4, 3]⟩
def exGlobB : Tree := ⟨fun l => match l with
  | 1 => some ⟨.src, [], [], [], false, 0, 10⟩
  | 3 => some ⟨.fn, [1], [1], [21], false, 101, 0⟩
  | _ => none, [1, 3]⟩
def exGlobW0 : World := ⟨fun p => if p = 10 then .file 5 else if p = 11 then .file 7 else .missing, fun _ => none, 0, .absent⟩

/-- D29: before the repair a dependency that went away was not noticed: every remaining dependency is listed
unchanged, so the target is skipped, and its output still reflects the deleted file. -/
theorem C01_removed_dependency_counterexample :
    let P : Params := { exP with depCount := false, listCheck := false }   -- (the D32 repair notices the shorter list as well)
    let w1 := (runBuild P exGlobA exOpts [1, 4, 3] exGlobW0).w
    let w2 : World := { w1 with files := upd w1.files 11 .missing }           -- delete the second source
    let b3 := runBuild P exGlobB exOpts [1, 3] w2
    succeeded b3 3 = true ∧ b3.execs = [] ∧
      b3.w.files 21 ≠ (runBuild P exGlobB exOpts [1, 3] { w2 with recs := fun _ => none }).w.files 21 := by
  decide

/-- the repaired engine on the D29 history: the record lists one dependency more than the target has, the target
re-runs, the output is the clean build's; and the build after that is quiet again -/
example :
    let w1 := (runBuild exP exGlobA exOpts [1, 4, 3] exGlobW0).w
    let w2 : World := { w1 with files := upd w1.files 11 .missing }
    let b3 := runBuild exP exGlobB exOpts [1, 3] w2
    b3.execs = [3] ∧ b3.w.files 21 = (runBuild exP exGlobB exOpts [1, 3] { w2 with recs := fun _ => none }).w.files 21 ∧
      (runBuild exP exGlobB exOpts [1, 3] b3.w).execs = [] := by
  decide

/-- D32: the same two sources in the other order (`sources=["b", "a"]` instead of `["a", "b"]`), same code, same
environment: the body reads `self.sources` in order. -/
def exGlobSwapped : Tree := ⟨fun l => match l with
  | 1 => some ⟨.src, [], [], [], false, 0, 10⟩
  | 4 => some ⟨.src, [], [], [], false, 0, 11⟩
  | 3 => some ⟨.fn, [4, 1], [4, 1], [21], false, 101, 0⟩
  | _ => none, [1, 4, 3]⟩
/-- … and with the first source listed twice -/
def exGlobTwice : Tree := ⟨fun l => match l with
  | 1 => some ⟨.src, [], [], [], false, 0, 10⟩
  | 4 => some ⟨.src, [], [], [], false, 0, 11⟩
  | 3 => some ⟨.fn, [1, 4, 1], [1, 4, 1], [21], false, 101, 0⟩
  | _ => none, [1, 4, 3]⟩

/-- an output that depends on the order in which the body is handed its inputs -/
def exOutOrdered : Label → Env → Attrs → List (Label × List (Path × SrcVal)) → Path → Nat :=
  fun l e _ obs g => l + e + g + (obs.foldl (fun acc o => 10 * acc + (o.2.map fun pv => match pv.2 with | .file c => c | _ => 0).sum) 0)

/-- D32: before the repair the order and the multiplicity of the entries of `sources=` / `deps=` were not part of the
up-to-date test — the record keeps the dependencies as a map — although a body sees them (`self.sources`,
`self.dependencies`): after swapping two entries, or repeating one, the target is skipped and its output differs from
a from-scratch build's. -/
theorem C01_reordered_sources_counterexample :
    let P : Params := { sum := id, out := exOutOrdered, listCheck := false }
    let w1 := (runBuild P exGlobA exOpts [1, 4, 3] exGlobW0).w
    let stale := fun (t' : Tree) =>
      let b := runBuild P t' exOpts [1, 4, 3] w1
      succeeded b 3 = true ∧ b.execs = [] ∧
        b.w.files 21 ≠ (runBuild P t' exOpts [1, 4, 3] { w1 with recs := fun _ => none }).w.files 21
    stale exGlobSwapped ∧ stale exGlobTwice := by
  decide

/-- the repaired engine on the D32 histories: the record remembers other lists than the target has: the target re-runs
(and then holds what its body computes from the lists as they are: `C01_consistent`) -/
example :
    let P : Params := { sum := id, out := exOutOrdered }
    let w1 := (runBuild P exGlobA exOpts [1, 4, 3] exGlobW0).w
    (runBuild P exGlobSwapped exOpts [1, 4, 3] w1).execs = [3] := by
  decide
example :
    let P : Params := { sum := id, out := exOutOrdered }
    let w1 := (runBuild P exGlobA exOpts [1, 4, 3] exGlobW0).w
    (runBuild P exGlobTwice exOpts [1, 4, 3] w1).execs = [3] := by
  decide

/-! ## C02 — no spurious rebuilds -/

/-- C02, the skip decision: a target whose record is not marked, whose own `upToDate` test passes, whose every
dependency was visited unchanged and is listed with its present stamp, and whose record lists nothing besides (`hlen`:
as many entries as dependencies — a dependency that went away is a change, D29), and which remembers no other lists
`deps=` / `sources=` / `generates=` than the target has now (`hattrs`, D32), is skipped (no body, no `Evaluating`). -/
theorem C02_no_spurious {P : Params} {t : Tree} {o : Opts} {s : BSt} {l : Label} {d : Def} (hd : t.defs l = some d)
    (hal : o.always = false)
    (hdeps : ∀ y ∈ depsOf t l d, ∃ m, s.memo y = some m ∧ m.ok = true ∧ m.changed = false ∧
      (loadedInfo s.w l d).deps.lookup y = some m.data)
    (hlen : (loadedInfo s.w l d).deps.length = (depsOf t l d).length)
    (hattrs : attrsOK P d (loadedInfo s.w l d) = true)
    (hup : upToDate P s.w d (loadedInfo s.w l d) = true) (hrr : (loadedInfo s.w l d).rerun = false) :
    (visit P t o s l).execs = s.execs ∧ (visit P t o s l).w = s.w ∧ (visit P t o s l).evs = .upToDate l :: s.evs := by
  simp [visit, hd, plan_skip_of hal hdeps (by simp [hlen]) hattrs hup hrr]

/-- C02, whole builds: rebuilding an unchanged tree executes nothing. After a real build in which every visited target
succeeded — from ANY earlier state — a second build of any dependency-ordered sub-list, in a fresh process (fresh
memo, fresh load), runs no body, performs no persistent effect of the run phase, and reports every target up to date. -/
theorem C02_rebuild {P : Params} {S : Shape} {t : Tree} {o1 o2 : Opts} (hc : Conforms S t) (hna : NoAlways t)
    (hdry : o1.dry = false) (hal : o2.always = false) (ord ord' : List Label) (hord : RunnerOrder t ord) (w : World)
    (hok : AllOk (runBuild P t o1 ord w) ord) (hsub : ∀ x ∈ ord', x ∈ ord) (hdf : DepsFirst t [] ord') :
    let b2 := runBuild P t o2 ord' (runBuild P t o1 ord w).w
    b2.execs = [] ∧ b2.steps = [] ∧ ∀ e ∈ b2.evs, ∃ l, e = .upToDate l := by
  intro b2
  have si : SInv P t (runBuild P t o1 ord w) :=
    build_settled (o := o1) hc hdry ord (BSt.init (load t w)) (sinv_init P t _) (hord.ordered P o1 _)
  have q := rebuild_quiet (P := P) (o2 := o2) hna hal si ord' [] (BSt.init (load t (runBuild P t o1 ord w).w))
    (fun x hx => hok x (hsub x hx)) (fun x hx => by cases hx) hdf
    ⟨(load_sem t _ 0).2.1, fun l => (load_sem t _ l).1, rfl, rfl, (fun e he => by cases he), (fun y hy => by cases hy)⟩
  exact ⟨q.execs, q.steps, q.evs⟩

/-- C02, what a build can see at all: its events, executions and effects are a function of the tree, the files'
*contents* and the (semantic) records of the labels it visits. Timestamps are not part of the state; temporaries, the
index and the records of labels outside `L` (other packages, other closures) are never read. -/
theorem C02_content_only {P : Params} {t : Tree} {o : Opts} {L : List Label} (ord : List Label)
    (hL : ∀ l ∈ ord, (t.defs l).isSome → l ∈ L) {w w' : World} (h : Agree L w w') :
    (runBuild P t o ord w').evs = (runBuild P t o ord w).evs ∧ (runBuild P t o ord w').execs = (runBuild P t o ord w).execs ∧
    (runBuild P t o ord w').steps = (runBuild P t o ord w).steps :=
  let s := runBuild_sim (P := P) (t := t) (o := o) ord hL h
  ⟨s.evs, s.execs, s.steps⟩

/-- C02, timestamp-only touches: the persisted state has no timestamps, and `fileSum` reads content only (tie
`fileSum_ok`): states that differ in nothing but what the model does not contain build identically. -/
theorem C02_touch {P : Params} {t : Tree} {o : Opts} (ord : List Label) {w w' : World}
    (hf : w'.files = w.files) (hr : w'.recs = w.recs) :
    (runBuild P t o ord w').evs = (runBuild P t o ord w).evs ∧ (runBuild P t o ord w').execs = (runBuild P t o ord w).execs :=
  let s := runBuild_sim (P := P) (t := t) (o := o) (L := ord) ord (fun l hl _ => hl) ⟨hf, fun l _ => by rw [hr]⟩
  ⟨s.evs, s.execs⟩

/-- C02, same-content rewrite: writing a file with the bytes it already has changes nothing a build sees. -/
theorem C02_same_content {P : Params} {t : Tree} {o : Opts} (ord : List Label) (w : World) (p : Path) :
    runBuild P t o ord { w with files := upd w.files p (w.files p) } = runBuild P t o ord w := by
  have : upd w.files p (w.files p) = w.files := by funext x; by_cases e : x = p <;> simp [upd, e]
  rw [this]

/-- C02, edits outside the dependency closure: two trees and two states. If the trees agree on the definitions (and
dependency lists, generator link included) of the labels a build visits and of what those read, and the states agree on
the visited labels' records and on the files `F` those labels test, write or read, then the builds are identical —
same events, same executions, same effects. Everything else may differ: other source files, other packages' build
files (other labels' definitions), their records and outputs. -/
theorem C02_outside_closure {P : Params} {t t' : Tree} {o : Opts} {F : Path → Prop} (ord : List Label)
    (hcov : Covers t t' ord F) {w w' : World} (h : Agree2 ord F w w') :
    (runBuild P t' o ord w').evs = (runBuild P t o ord w).evs ∧ (runBuild P t' o ord w').execs = (runBuild P t o ord w).execs ∧
    (runBuild P t' o ord w').steps = (runBuild P t o ord w).steps :=
  let s := runBuild_sim2 (P := P) (o := o) hcov ord (fun _ hl => hl) h
  ⟨s.evs, s.execs, s.steps⟩

/-- `C02_outside_closure` is not vacuous: in the example project, building `d` (order `[1, 2]`) is blind to a new
definition of `t = 3`, to `t`'s record and to `t`'s output file 21. -/
example : Covers exTree ⟨fun l => if l = 3 then some ⟨.fn, [2], [2], [21], false, 999, 0⟩ else exDefs l, [1, 2, 3]⟩ [1, 2]
    (fun p => p = 10 ∨ p = 20) := by
  constructor
  · intro l hl; simp at hl; rcases hl with rfl | rfl <;> rfl
  · intro l hl d hd; simp at hl; rcases hl with rfl | rfl <;> (simp [exTree, exDefs] at hd; subst hd; decide)
  · intro l hl d hd hk; simp at hl; rcases hl with rfl | rfl <;> (simp [exTree, exDefs] at hd; subst hd) <;> first | (left; rfl) | cases hk
  · intro l hl d hd hk g hg; simp at hl
    rcases hl with rfl | rfl <;> (simp [exTree, exDefs] at hd; subst hd)
    · cases hk
    · simp at hg; right; exact hg
  · intro l hl d hd x hx; simp at hl
    rcases hl with rfl | rfl <;> (simp [exTree, exDefs] at hd; subst hd)
    · cases hx
    · simp at hx; subst hx; rfl
  · intro l hl d hd x hx dx hdx; simp at hl
    rcases hl with rfl | rfl <;> (simp [exTree, exDefs] at hd; subst hd)
    · cases hx
    · simp at hx; subst hx
      simp [exTree, exDefs] at hdx; subst hdx
      exact ⟨fun _ => Or.inl rfl, fun hk => by cases hk⟩

/-- C02, across process restarts: the label under which a dependency's stamp is persisted is read back unchanged by a
fresh load, whatever bytes the label consists of (file names need not be valid UTF-8, and JSON replaces invalid bytes):
the escaping of `depStamps` is reversible, so the lookup `info.Dependencies[label]` of `Evaluate` finds what the
previous process stored, and two different labels never share a key. (D27: without the escaping the key of a name
that is not valid UTF-8 did not survive, and its consumer re-executed on every build.) -/
theorem C02_dep_keys_roundtrip (s : List KeyItem) (h : ∀ c, KeyItem.ch c ∈ s → c ≠ 0xFFFD) : unescapeKey (escapeKey s) = s :=
  unescapeKey_escapeKey s h

theorem C02_dep_keys_injective {s t : List KeyItem} (hs : ∀ c, KeyItem.ch c ∈ s → c ≠ 0xFFFD) (ht : ∀ c, KeyItem.ch c ∈ t → c ≠ 0xFFFD)
    (h : escapeKey s = escapeKey t) : s = t := escapeKey_injective hs ht h

/-- `caf\xe9.txt` and `caf\xff.txt` (lossy JSON would store both as `caf�.txt`), and a genuine U+FFFD followed by `e9` -/
example : escapeKey [.ch 99, .raw 0xe9] ≠ escapeKey [.ch 99, .raw 0xff] ∧
    unescapeKey (escapeKey [.repl, .ch 101, .ch 57]) = [.repl, .ch 101, .ch 57] ∧
    escapeKey [.raw 0xe9] = [0xFFFD, 101, 57] := by decide

/-! ## C03 — failed and interrupted builds are recoverable -/

/-- C03, loadable: whatever prefix of its effects a build (or load) completed, every record on disk is the complete
old record or a complete record some `saveTargetInfo` installed by `rename` — never a torn one. (`index.json` is
rewritten in place and can be torn: `C03_index_not_needed`.) -/
theorem C03_loadable (P : Params) (t : Tree) (o : Opts) (ord : List Label) (k : Nat) (w : World) (l : Label) :
    (crashBuild P t o ord k w).recs l = (load t w).recs l ∨
    ∃ r, (crashBuild P t o ord k w).recs l = some r ∧ installs (buildSteps P t o (BSt.init (load t w)) ord) l r := by
  rw [crashBuild_eq]
  rcases applySteps_recs (load t w) ((buildSteps P t o (BSt.init (load t w)) ord).take k) l with h | ⟨r, h, hi⟩
  · exact Or.inl h
  · exact Or.inr ⟨r, h, installs_take hi⟩

/-- C03, no false memory: after any history — including builds and loads killed at ANY hook point — every success
record (`rerun = false`, stamp = a fingerprint `e`) was written by a completed run of that target's body: each
generated file is missing or is exactly what that run wrote, which is the body applied to `e`, to the lists the record
remembers (what the run was handed through `self`) and to what the run observed, and what it observed is what the
stamps the record lists stand for. -/
theorem C03_no_false_memory {P : Params} {S : Shape} (hf : Fixed P) {R : Label → Prop} {w : World} (hw : Reach P S R w) :
    ∃ G : Ghost, ∀ l r e, w.recs l = some r → r.rerun = false → r.data = .env e →
      (∀ g ∈ S.gensOf l e, w.files g = .missing ∨ w.files g = .file (G.hist l r.runs g)) ∧
      ∃ a, r.attrs = some a ∧
      (∀ g ∈ S.gensOf l e, G.hist l r.runs g = P.out l e a ((S.readsOf l e a).map fun x => (x, G.obs l r.runs x)) g) ∧
      (∀ x ∈ S.readsOf l e a, SeenOK P S G r x (G.obs l r.runs x)) := by
  obtain ⟨G, di, _⟩ := reach_dinv hf.inj hf.stampRuns hf.listCheck hf.marker hw
  refine ⟨G, fun l r e h1 h2 h3 => ⟨di.rec_out l r e h1 h2 h3, ?_⟩⟩
  obtain ⟨a, ha⟩ := di.rec_attrs l r e h1 h2 h3
  exact ⟨a, ha, di.rec_hist l r e a h1 h2 h3 ha, di.rec_seen l r e a h1 h2 h3 ha⟩

/-- C03, convergence: a build killed at hook point `k` — any `k` — followed by a successful build produces exactly
the files a from-scratch build of the tree produces, hence (by `C01_equiv_clean` for the uninterrupted twin) the same
files as the uninterrupted build. -/
theorem C03_converges {P : Params} {S : Shape} {t : Tree} {o oc o' : Opts} (hf : Fixed P) (hc : Conforms S t)
    (hdry : o.dry = false) (hdryc : oc.dry = false) (hdry' : o'.dry = false) (ord : List Label) (hord : RunnerOrder t ord)
    {R : Label → Prop} (w wc : World) (hw : Reach P S R w) (hnr : NotRecreated R t) (k : Nat)
    (hclean : ∀ l, wc.recs l = none) (hsame : ∀ p, Plain t p → wc.files p = w.files p)
    (hokA : AllOk (runBuild P t o ord (crashBuild P t o' ord k w)) ord) (hokB : AllOk (runBuild P t oc ord wc) ord) :
    ∀ x ∈ ord, ∀ d, t.defs x = some d → d.kind = .fn → ∀ g ∈ d.gens,
      (runBuild P t o ord (crashBuild P t o' ord k w)).w.files g = (runBuild P t oc ord wc).w.files g := by
  have hcr : Reach P S R (crashBuild P t o' ord k w) := Reach.crash t o' ord k hw hc hdry' (hord.ordered P o' _) hnr
  exact C01_equiv_clean hf hc hdry hdryc ord hord _ wc hcr hnr hclean
    (fun p hp => by rw [hsame p hp, crashBuild_plain P t o' ord k w p hp]) hokA hokB

/-- C03: `index.json` is rewritten in place, so a crash can tear it — a full load never reads it (and an index-only
load that cannot decode it falls back to a full load): builds from states that differ only in the index are identical. -/
theorem C03_index_not_needed {P : Params} {t : Tree} {o : Opts} (ord : List Label) (w : World) (ix : Index) :
    (runBuild P t o ord { w with index := ix }).evs = (runBuild P t o ord w).evs ∧
    (runBuild P t o ord { w with index := ix }).execs = (runBuild P t o ord w).execs ∧
    gc t true { w with index := .torn } = gc t false w := by
  have s := runBuild_sim (P := P) (t := t) (o := o) (L := ord) ord (fun l hl _ => hl) (w := w) (w' := { w with index := ix })
    ⟨rfl, fun _ _ => rfl⟩
  refine ⟨s.evs, s.execs, ?_⟩
  -- a collection does not read the index either: the load rewrites it before the sweep
  unfold gc gcLive load
  simp only [sweep]
  have h1 : loadSteps t { w with index := Index.torn } = loadSteps t w := rfl
  rw [h1]
  have key : ∀ (ss : List Step) (a b : World), a.files = b.files → a.recs = b.recs → a.temps = b.temps →
      (applySteps a ss).files = (applySteps b ss).files ∧ (applySteps a ss).recs = (applySteps b ss).recs := by
    intro ss
    induction ss with
    | nil => intro a b h1 h2 _; exact ⟨h1, h2⟩
    | cons st rest ih =>
      intro a b h1 h2 h3
      simp only [applySteps_cons]
      apply ih
      all_goals (unfold Step.apply; cases st.eff with
        | none => assumption
        | some e => cases e <;> simp [Eff.apply, h1, h2, h3])
  obtain ⟨k1, k2⟩ := key (loadSteps t w) { w with index := Index.torn } w rfl rfl rfl
  have hidx : (applySteps { w with index := Index.torn } (loadSteps t w)).index = (applySteps w (loadSteps t w)).index := by
    have := (load_sem t { w with index := Index.torn } 0).2.2
    have h2 := (load_sem t w 0).2.2
    unfold load at this h2
    rw [h1] at this
    rw [this, h2]
  simp [k1, k2, hidx]

/-- D8, crash form: before the repair, a build killed right after the dependency's record was renamed (here: hook
point 6 of the run phase) and before the dependent ran left the dependent skipped forever. -/
theorem C03_crash_counterexample :
    let P : Params := { exP with stampRuns := false, marker := false }
    let w1 := (runBuild P exTree exOpts [1, 2, 3] exW0).w
    let w2 : World := { w1 with files := upd w1.files 10 (.file 6) }
    let w3 := crashBuild P exTree exOpts [1, 2, 3] 13 w2                         -- dies after d's record, before t's body
    let b4 := runBuild P exTree exOpts [1, 2, 3] w3
    succeeded b4 3 = true ∧ b4.execs = [] ∧
      b4.w.files 21 ≠ (runBuild P exTree exOpts [1, 2, 3] { w2 with recs := fun _ => none }).w.files 21 := by
  decide

/-- D18: without the in-progress marker, *change the code of `d`; die between `d`'s body and its record; revert the
change* leaves `d` skipped with the interrupted run's output (the record from before still matches). -/
theorem C03_crash_in_body_counterexample :
    let P : Params := { exP with marker := false }
    let w1 := (runBuild P exTree exOpts [1, 2, 3] exW0).w
    let t' : Tree := ⟨fun l => if l = 2 then some ⟨.fn, [1], [1], [20], false, 200, 0⟩ else exDefs l, [1, 2, 3]⟩   -- edit d's code
    let w2 := crashBuild P t' exOpts [1, 2, 3] 3 w1                              -- dies after d's body wrote 20
    let b3 := runBuild P exTree exOpts [1, 2, 3] w2                                -- the edit was reverted
    succeeded b3 3 = true ∧ b3.execs = [] ∧
      b3.w.files 20 ≠ (runBuild P exTree exOpts [1, 2, 3] { w2 with recs := fun _ => none }).w.files 20 := by
  decide

/-- the same history on the repaired engine: `d` is re-run and the outputs are the clean build's -/
example :
    let w1 := (runBuild exP exTree exOpts [1, 2, 3] exW0).w
    let t' : Tree := ⟨fun l => if l = 2 then some ⟨.fn, [1], [1], [20], false, 200, 0⟩ else exDefs l, [1, 2, 3]⟩
    let w2 := crashBuild exP t' exOpts [1, 2, 3] 6 w1
    let b3 := runBuild exP exTree exOpts [1, 2, 3] w2
    w2.files 20 ≠ w1.files 20 ∧ b3.execs = [3, 2] ∧
      b3.w.files 20 = (runBuild exP exTree exOpts [1, 2, 3] { w2 with recs := fun _ => none }).w.files 20 := by
  decide

/-! ## C13 — a dry run has no effects and predicts the real build -/

/-- C13: a dry run executes no body and performs no persistent effect of the run phase; the state it leaves is the
state the load that precedes every command leaves: same project files, semantically the same records. -/
theorem C13_no_effects (P : Params) (t : Tree) (o : Opts) (hd : o.dry = true) (ord : List Label) (w : World) :
    (runBuild P t o ord w).execs = [] ∧ (runBuild P t o ord w).steps = [] ∧ (runBuild P t o ord w).w = load t w ∧
    (runBuild P t o ord w).w.files = w.files ∧ ∀ l, semRec ((runBuild P t o ord w).w.recs l) = semRec (w.recs l) := by
  obtain ⟨h1, h2, h3⟩ := build_dry P t o hd ord (BSt.init (load t w))
  refine ⟨h3, h2, h1, ?_, ?_⟩
  · unfold runBuild; rw [h1]; exact (load_sem t w 0).2.1
  · intro l; unfold runBuild; rw [h1]; exact (load_sem t w l).1

/-- C13: a dry run never changes what the next build does. -/
theorem C13_next_build_same {P : Params} {t t' : Tree} {o o' : Opts} (hd : o.dry = true) (ord ord' : List Label) (w : World)
    (L : List Label) (hL : ∀ l ∈ ord', (t'.defs l).isSome → l ∈ L) :
    (runBuild P t' o' ord' (runBuild P t o ord w).w).evs = (runBuild P t' o' ord' w).evs ∧
    (runBuild P t' o' ord' (runBuild P t o ord w).w).execs = (runBuild P t' o' ord' w).execs := by
  obtain ⟨_, _, _, hfiles, hrecs⟩ := C13_no_effects P t o hd ord w
  have s := runBuild_sim (P := P) (t := t') (o := o') ord' hL (w := w) (w' := (runBuild P t o ord w).w) ⟨hfiles, fun l _ => hrecs l⟩
  exact ⟨s.evs, s.execs⟩

/-- C13, prediction: the dry run and the real build of the same tree from the same state (`evaluating` = the labels with
a `TargetEvaluating` event). Every target the real build attempts is reported by the dry run; when the real build
succeeds the two sets are identical; and a target the dry run reports that the real build did not attempt is one
the real build failed without attempting — a target downstream of the failure. -/
theorem C13_predicts {P : Params} {S : Shape} {t : Tree} {o : Opts} (hc : Conforms S t) (hdry : o.dry = false)
    (ord : List Label) (hord : RunnerOrder t ord) (w : World) :
    let real := runBuild P t o ord w
    let dry := runBuild P t { o with dry := true } ord w
    (∀ l, l ∈ evaluating real → l ∈ evaluating dry) ∧
    (AllOk real ord → ∀ l, l ∈ evaluating dry ↔ l ∈ evaluating real) ∧
    (∀ l, l ∈ evaluating dry → l ∉ evaluating real → ∃ m, real.memo l = some m ∧ m.ok = false) := by
  intro real dry
  have rel : DryRel P S t (load t w) real dry :=
    dry_build hc hdry ord _ _ (dryrel_init P S t (load t w)) (hord.ordered P o _)
  refine ⟨?_, ?_, ?_⟩
  · intro l hl
    rw [mem_evaluating] at hl ⊢
    exact rel.sub l hl
  · intro hok l
    constructor
    · intro hl
      rw [mem_evaluating] at hl ⊢
      apply Classical.byContradiction
      intro hn
      obtain ⟨m, hm, hmok⟩ := rel.extra l hl hn
      have hmem : l ∈ ord := by
        rcases build_memo_dom P t o ord (BSt.init (load t w)) l (by
          show real.memo l ≠ none
          rw [hm]; simp) with h | h
        · simp [BSt.init] at h
        · exact h
      obtain ⟨m', hm', hok'⟩ := hok l hmem
      rw [hm] at hm'; cases hm'
      rw [hmok] at hok'; cases hok'
    · intro hl
      rw [mem_evaluating] at hl ⊢
      exact rel.sub l hl
  · intro l hl hn
    rw [mem_evaluating] at hl hn
    exact rel.extra l hl hn

/-- C13, one loaded project, several Runs (library / REPL / watch users; DESIGN §4's fresh-load decision stays for the
history-level theorems above): the flags a Run executes with depend only on ITS options, never on the flags an
earlier Run left on the project. In particular a Run with nil options after a dry run is a real build. -/
theorem C13_options_reset (prev prev' : RunFlags) (o : Option RunFlags) : applyOptions prev o = applyOptions prev' o := by
  cases o <;> rfl

theorem C13_nil_options_real_build (prev : RunFlags) (fails : Label → Bool) :
    (optsOf (applyOptions prev none) fails).dry = false ∧ (optsOf (applyOptions prev none) fails).always = false := ⟨rfl, rfl⟩

/-- non-vacuity: a dry run's flags do not survive -/
example : applyOptions (applyOptions ⟨false, false⟩ (some ⟨true, true⟩)) none = ⟨false, false⟩ := rfl

/-! ## C14 — garbage collection never changes build outcomes -/

/-- C14: `targetInfoPath` is injective on the labels a project holds records for (kind `""` or a kind not spelled
`target`; a non-empty name without `/`), with the model of `url.PathEscape` that the stream `build.path` compares
with the real function: distinct live labels never share a record file. -/
theorem C14_path_injective {l₁ l₂ : LabelS} (h₁ : Storable l₁) (h₂ : Storable l₂)
    (h : targetInfoPath l₁ = targetInfoPath l₂) : l₁ = l₂ := targetInfoPath_injective h₁ h₂ h

/-- D22 (regression witness): before the repair, `dawn gc` after an index-only load kept the labels of the *index*. With
an index that predates the re-creation of `d = 2` the record of the existing target `d` was collected. -/
theorem C14_stale_index_counterexample :
    let w1 := (runBuild exP exTree exOpts [1, 2, 3] exW0).w
    let stale : World := { w1 with index := .good [1, 3] }                 -- the last full load saw a tree without `d`
    (gcOld exTree true stale).recs 2 = none ∧ w1.recs 2 ≠ none ∧ 2 ∈ exTree.labels ∧
    semRec ((gc exTree true stale).recs 2) = semRec (w1.recs 2) := by
  decide

/-- C14: the complete persisted record of every label that exists when the collection runs is kept -/
theorem C14_keeps_live (t : Tree) (pi : Bool) (w : World) (l : Label) (hl : l ∈ gcLive t pi w) :
    semRec ((gc t pi w).recs l) = semRec (w.recs l) := (agree_gc t pi w).recs l hl

/-- C14: the records of labels that no longer exist, and stray temporaries, are removed -/
theorem C14_removes_dead_and_temps (t : Tree) (pi : Bool) (w : World) :
    (gc t pi w).temps = 0 ∧ ∀ l, l ∉ gcLive t pi w → (gc t pi w).recs l = none := by
  unfold gc
  exact ⟨rfl, fun l hl => sweep_recs_dead _ _ l hl⟩

/-- C14: nothing outside the build-state directory changes, and the index is still there -/
theorem C14_confined (t : Tree) (pi : Bool) (w : World) :
    (gc t pi w).files = w.files ∧ (w.index ≠ .absent → (gc t pi w).index ≠ .absent) := by
  refine ⟨(agree_gc t pi w).files, ?_⟩
  unfold gc
  intro _; simp [sweep, (load_sem t w 0).2.2]

/-- C14: the builds that follow a collection execute exactly what they would have executed without it (events,
executions, effects), for every build whose defined labels existed for the collection — i.e. histories that do not
re-create a collected label. -/
theorem C14_transparent {P : Params} {t t' : Tree} {o : Opts} (pi : Bool) (ord : List Label) (w : World)
    (hlive : ∀ l ∈ ord, (t'.defs l).isSome → l ∈ gcLive t pi w) :
    (runBuild P t' o ord (gc t pi w)).evs = (runBuild P t' o ord w).evs ∧
    (runBuild P t' o ord (gc t pi w)).execs = (runBuild P t' o ord w).execs ∧
    (runBuild P t' o ord (gc t pi w)).steps = (runBuild P t' o ord w).steps ∧
    Agree (gcLive t pi w) (runBuild P t' o ord w).w (runBuild P t' o ord (gc t pi w)).w := by
  have s := runBuild_sim (P := P) (t := t') (o := o) ord hlive (agree_gc t pi w)
  exact ⟨s.evs, s.execs, s.steps, s.agree⟩

/-! ## non-vacuity: the hypotheses hold for a concrete project -/

def exShape : Shape where
  kindOf := fun l => if l = 1 then .src else .fn
  pathOf := fun _ => 10
  gensOf := fun l _ => if l = 2 then [20] else if l = 3 then [21] else []
  -- `d` reads the source it names in its code; `t` reads whatever it is handed (`self.dependencies`, in order)
  readsOf := fun l _ a => if l = 2 then [1] else if l = 3 then a.1 else []
  owner := fun p => if p = 20 then some 2 else if p = 21 then some 3 else none
  owned := by
    intro l e g h
    by_cases h2 : l = 2
    · subst h2; simp at h; simp [h]
    · by_cases h3 : l = 3
      · subst h3; simp at h; simp [h]
      · simp [h2, h3] at h
  gensNodup := by
    intro l e
    by_cases h2 : l = 2
    · simp [h2]
    · by_cases h3 : l = 3 <;> simp [h2, h3]

theorem exDefs_cases {l : Label} {d : Def} (h : exDefs l = some d) :
    (l = 1 ∧ d = ⟨.src, [], [], [], false, 0, 10⟩) ∨ (l = 2 ∧ d = ⟨.fn, [1], [1], [20], false, 100, 0⟩) ∨
    (l = 3 ∧ d = ⟨.fn, [2], [2], [21], false, 101, 0⟩) := by
  match l with
  | 0 => simp [exDefs] at h
  | 1 => simp [exDefs] at h; exact Or.inl ⟨rfl, h.symm⟩
  | 2 => simp [exDefs] at h; exact Or.inr (Or.inl ⟨rfl, h.symm⟩)
  | 3 => simp [exDefs] at h; exact Or.inr (Or.inr ⟨rfl, h.symm⟩)
  | n + 4 => simp [exDefs] at h

theorem exConforms : Conforms exShape exTree where
  kind := by
    intro l d h
    rcases exDefs_cases h with ⟨rfl, rfl⟩ | ⟨rfl, rfl⟩ | ⟨rfl, rfl⟩ <;> rfl
  path := by
    intro l d h hk
    rcases exDefs_cases h with ⟨rfl, rfl⟩ | ⟨rfl, rfl⟩ | ⟨rfl, rfl⟩ <;> first | rfl | cases hk
  gens := by
    intro l d h hk
    rcases exDefs_cases h with ⟨rfl, rfl⟩ | ⟨rfl, rfl⟩ | ⟨rfl, rfl⟩ <;> first | rfl | cases hk
  reads := by
    intro l d h hk
    rcases exDefs_cases h with ⟨rfl, rfl⟩ | ⟨rfl, rfl⟩ | ⟨rfl, rfl⟩ <;> first | rfl | cases hk
  readsDeps := by
    intro l d h _ x hx
    rcases exDefs_cases h with ⟨rfl, rfl⟩ | ⟨rfl, rfl⟩ | ⟨rfl, rfl⟩
    · cases hx
    · simp only [List.mem_singleton] at hx; subst hx; decide
    · simp only [List.mem_singleton] at hx; subst hx; decide
  link := by
    intro y dy h hk l ho _
    rcases exDefs_cases h with ⟨rfl, rfl⟩ | ⟨rfl, rfl⟩ | ⟨rfl, rfl⟩
    · simp [exShape] at ho
    · cases hk
    · cases hk

theorem exOrder : RunnerOrder exTree [1, 2, 3] := ⟨by decide, sorted_of_sortedB exTree _ _ (by decide)⟩

theorem exFixed : Fixed exP := ⟨rfl, rfl, rfl, sumInj_id exOut⟩

/-- a reachable state with real content: build, edit the source, build only `d`, a build killed at hook point 9, a collection -/
theorem exReach :
    let w1 := (runBuild exP exTree exOpts [1, 2, 3] exW0).w
    let w2 : World := { w1 with files := upd w1.files 10 (.file 6) }
    let w3 := (runBuild exP exTree exOpts [1, 2] w2).w
    Reach exP exShape (fun x => False ∨ x ∉ exTree.labels) (gc exTree true (crashBuild exP exTree exOpts [1, 2, 3] 9 w3)) := by
  intro w1 w2 w3
  have hno : ∀ x, False → exTree.defs x = none := fun _ h => absurd h id
  have h0 : Reach exP exShape (fun _ => False) exW0 := Reach.init _ (fun _ => rfl)
  have h1 : Reach exP exShape (fun _ => False) w1 := Reach.build exTree exOpts [1, 2, 3] h0 exConforms rfl (exOrder.ordered _ _ _) hno
  have h2 : Reach exP exShape (fun _ => False) w2 := Reach.edit h1 ⟨rfl, fun p => by
    by_cases e : p = 10
    · right; right; subst e; rfl
    · left; simp [w2, upd, e]⟩
  have ho12 : RunnerOrder exTree [1, 2] := ⟨by decide, sorted_of_sortedB exTree _ _ (by decide)⟩
  have h3 : Reach exP exShape (fun _ => False) w3 := Reach.build exTree exOpts [1, 2] h2 exConforms rfl (ho12.ordered _ _ _) hno
  exact Reach.gc exTree true (Reach.crash exTree exOpts [1, 2, 3] 9 h3 exConforms rfl (exOrder.ordered _ _ _) hno)

/-- after that history (collection included) the example tree still defines no retired label -/
example : NotRecreated (fun x => False ∨ x ∉ exTree.labels) exTree := by
  intro x hx
  rcases hx with h | h
  · exact absurd h id
  · cases hd : exTree.defs x with
    | none => rfl
    | some d => rcases exDefs_cases hd with ⟨rfl, _⟩ | ⟨rfl, _⟩ | ⟨rfl, _⟩ <;> exact absurd (by decide) h

/-- the hypotheses of `C01_equiv_clean` / `C03_converges` are met by that history, and the build after it succeeds -/
example :
    let w1 := (runBuild exP exTree exOpts [1, 2, 3] exW0).w
    let w2 : World := { w1 with files := upd w1.files 10 (.file 6) }
    let w3 := (runBuild exP exTree exOpts [1, 2] w2).w
    let w4 := crashBuild exP exTree exOpts [1, 2, 3] 9 w3
    let b := runBuild exP exTree exOpts [1, 2, 3] w4
    succeeded b 3 = true ∧ b.execs = [3] ∧ w4.temps = 1 := by decide

/-- `//a/b:t1` and `source://:s.t` -/
example : Storable ⟨[], [97, 47, 98], [116, 49]⟩ ∧ Storable ⟨[115, 111, 117, 114, 99, 101], [], [115, 46, 116]⟩ := by
  constructor <;> constructor <;> decide

example : NoAlways exTree := by
  intro l d h
  rcases exDefs_cases h with ⟨rfl, rfl⟩ | ⟨rfl, rfl⟩ | ⟨rfl, rfl⟩ <;> rfl

example : DepsFirst exTree [] [1, 2, 3] := by
  refine ⟨?_, ?_, ?_, trivial⟩ <;> intro d h <;> simp [exTree, exDefs] at h <;> subst h <;> decide

end Dawn.Build

import Dawn.Proofs.Build
/-!
# C01, C02, C03, C13, C14 — the incremental engine

Property theorems only (statements + non-vacuity examples); the lemmas are in `Dawn/Proofs/Build*.lean`.
-/
namespace Dawn.Build

end Dawn.Build

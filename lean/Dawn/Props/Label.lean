import Dawn.Proofs.Label
import Dawn.Proofs.LabelPath
import Dawn.Proofs.LabelTip
/-!
# C12 — labels are canonical, stable identities confined to the project

Property theorems only. The functions named `…Go` are the models of `label.Parse`, `Clean`, `Join`, `New`,
`(*Label).RelativeTo`, `repoSourcePath`, `sourceLabel` as the Go text is written: every `s[i]` and `s[lo:hi]`
is an explicit operation whose out-of-range outcome is `Out.panic`, loops carry fuel (`Out.fuel`). They are
tied to the source by `Dawn/Ties/Label.lean` and by the correspondence streams `label.*`. `print` is
`(*Label).String`. Strings are byte lists (see `Dawn/Model/Label.lean` for why).
-/
namespace Dawn.Label

/-- C12 "parsing never crashes on any string": for every byte string `Parse` returns a label or an error —
no index or slice expression of `Parse`, `Clean` or `lazybuf` is ever out of range, and the loops of `Clean`
terminate within their fuel. The same holds for `Clean`, `Join`, `New` and `RelativeTo` on all arguments. -/
theorem C12_total (s : Bytes) :
    (parseGo s).returns = true ∧ (cleanGo s).returns = true ∧
    (∀ elems, (joinGo elems).returns = true) ∧
    (∀ k p g n, (newGo k p g n).returns = true) ∧
    (∀ l pkg, (relativeToGo l pkg).returns = true) := by
  refine ⟨?_, ?_, ?_, ?_, ?_⟩
  · rw [parseGo_eq]; exact returns_ofExcept _
  · rw [cleanGo_eq]; exact returns_ofExcept _
  · intro elems; rw [joinGo_eq]; split
    · rfl
    · exact returns_ofExcept _
  · intro k p g n
    unfold newGo
    split
    · rfl
    split
    · rfl
    rw [cleanGo_eq]
    cases clean g with
    | error e => rfl
    | ok pkg =>
      simp only [ofExcept_ok, Out.ok_bind]
      split
      · rfl
      split <;> rfl
  · intro l pkg
    unfold relativeToGo
    split
    · rfl
    · rw [joinGo_eq]
      split
      · rfl
      · cases cleanSpec (joinBuf [] [pkg, l.pkg]) <;> rfl

/-- C12 round trip: every label accepted by `Parse` that has a name or has no kind prints to a string that
parses back to the identical label. -/
theorem C12_roundtrip (s : Bytes) (l : Label) (h : parseGo s = .ok l) (hside : l.name ≠ [] ∨ l.kind = []) :
    parseGo (print l) = .ok l :=
  parseGo_ok.mpr (parse_print (parse_wf (parseGo_ok.mp h)) hside)

/-- C12 canonicity: two accepted labels (each with a name or without a kind) print equal exactly when they
are equal. -/
theorem C12_canonical (s₁ s₂ : Bytes) (l₁ l₂ : Label) (h₁ : parseGo s₁ = .ok l₁) (h₂ : parseGo s₂ = .ok l₂)
    (hs₁ : l₁.name ≠ [] ∨ l₁.kind = []) (hs₂ : l₂.name ≠ [] ∨ l₂.kind = []) :
    print l₁ = print l₂ ↔ l₁ = l₂ := by
  constructor
  · intro hp
    have r₁ := C12_roundtrip s₁ l₁ h₁ hs₁
    have r₂ := C12_roundtrip s₂ l₂ h₂ hs₂
    rw [hp, r₂] at r₁
    cases r₁; rfl
  · intro h; rw [h]

/-- C12 "this also holds after resolving the label against a package": whatever package (any byte string) an
accepted label is resolved against, the result round-trips, and resolved labels print canonically. -/
theorem C12_relative (s pkg : Bytes) (l l' : Label) (h : parseGo s = .ok l) (hr : relativeToGo l pkg = .ok l')
    (hside : l'.name ≠ [] ∨ l'.kind = []) :
    parseGo (print l') = .ok l' :=
  parseGo_ok.mpr (parse_print (relativeTo_wf (parse_wf (parseGo_ok.mp h)) hr).1 hside)

theorem C12_relative_canonical (s₁ s₂ p₁ p₂ : Bytes) (l₁ l₂ r₁ r₂ : Label)
    (h₁ : parseGo s₁ = .ok l₁) (h₂ : parseGo s₂ = .ok l₂)
    (hr₁ : relativeToGo l₁ p₁ = .ok r₁) (hr₂ : relativeToGo l₂ p₂ = .ok r₂)
    (hs₁ : r₁.name ≠ [] ∨ r₁.kind = []) (hs₂ : r₂.name ≠ [] ∨ r₂.kind = []) :
    print r₁ = print r₂ ↔ r₁ = r₂ := by
  constructor
  · intro hp
    have q₁ := C12_relative s₁ p₁ l₁ r₁ h₁ hr₁ hs₁
    have q₂ := C12_relative s₂ p₂ l₂ r₂ h₂ hr₂ hs₂
    rw [hp, q₂] at q₁
    cases q₁; rfl
  · intro h; rw [h]

/-- labels the system itself constructs with `New` (always with an empty project: `sourceLabel`, `arg`) are
identities of the same kind: they round-trip through their printed form. -/
theorem C12_new_roundtrip (k g n : Bytes) (l : Label) (h : newGo k [] g n = .ok l) (hside : n ≠ [] ∨ k = []) :
    parseGo (print l) = .ok l := by
  obtain ⟨hwf, hk, hn⟩ := new_wf h
  exact parseGo_ok.mpr (parse_print hwf (by rw [hk, hn]; exact hside))

/-! ## source and generated-file paths -/

/-- C12 "source and generated-file paths always resolve to locations inside the project root": whatever
`repoSourcePath` returns has no `..` element, and joined below any absolute root (`filepath.Join(root, q)` is
`path.Clean(root + "/" + q)`) its elements extend the elements of the cleaned root: the location is lexically
under the root. `pathComps p` are the elements of `path.Clean(p)`. -/
theorem C12_confined (pkg sp q : Bytes) (h : repoSourcePathGo pkg sp = .ok q) :
    dotdot ∉ split slash q ∧
    ∀ root, pathIsAbs root = true → pathComps root <+: pathComps (root ++ slash :: q) := by
  have hsp : sp ≠ [] := by
    intro h'; subst h'; simp [repoSourcePathGo] at h
  cases habs : pathIsAbs sp with
  | true =>
    rw [rsp_abs pkg sp habs] at h
    split at h
    · cases h
    · rename_i hacc
      simp only [Out.ok.injEq] at h
      subst h
      exact accepted_confined sp hacc
  | false =>
    by_cases hlen : 2 ≤ pkg.length
    · rw [rsp_rel pkg sp hsp habs hlen] at h
      split at h
      · cases h
      · rename_i hacc
        simp only [Out.ok.injEq] at h
        subst h
        exact accepted_confined _ hacc
    · rw [rsp_short pkg sp hsp habs (by omega)] at h
      cases h


/-- C12 "a path that would escape it is rejected": for a relative source path resolved from the package `//p2`,
`repoSourcePath` fails with "outside of the project root" exactly when walking the elements of `p2/sp`
(`escapesFrom`: a depth counter, independent of the stack model of `path.Clean`) steps above the project root at
some point; otherwise it returns the cleaned path. -/
theorem C12_escape_rejected (p2 sp : Bytes) (hsp : sp ≠ []) (hrel : pathIsAbs sp = false) (hp2 : pathIsAbs p2 = false) :
    (repoSourcePathGo (slash :: slash :: p2) sp = .err .outsideRoot ↔
      escapesFrom 0 (split slash (joinBuf [] [p2, sp])) = true) ∧
    (escapesFrom 0 (split slash (joinBuf [] [p2, sp])) = false →
      repoSourcePathGo (slash :: slash :: p2) sp = .ok (pathClean (joinBuf [] [p2, sp]))) := by
  have hrsp := rsp_rel (slash :: slash :: p2) sp hsp hrel (by simp)
  simp only [List.drop_succ_cons, List.drop_zero] at hrsp
  have hhead : decide ((joinBuf [] [p2, sp]).head? = some slash) = false := by
    rw [joinBuf_two p2 sp hsp]
    apply decide_eq_false
    split
    · simpa [pathIsAbs] using hrel
    · rename_i hne
      cases p2 with
      | nil => exact absurd rfl hne
      | cons x t => simpa [pathIsAbs] using hp2
  obtain ⟨hok, hsl⟩ := pathStack_ok (joinBuf [] [p2, sp])
  obtain ⟨ns, k, hst, hns, _⟩ := hok
  have hclean : pathClean (joinBuf [] [p2, sp]) = render false (ns ++ List.replicate k dotdot) := by
    rw [pathClean_eq, hst, hhead]
  have hesc : k > 0 ↔ escapesFrom 0 (split slash (joinBuf [] [p2, sp])) = true := by
    have h1 := (dotdot_mem_stack ns k hns).symm
    have h2 := esc_fold (split slash (joinBuf [] [p2, sp])) [] 0 nil_normal
    simp only [List.replicate_zero, List.append_nil, List.length_nil, Nat.lt_irrefl, false_or, gt_iff_lt] at h2
    have h3 : pathStack (joinBuf [] [p2, sp]) = (split slash (joinBuf [] [p2, sp])).foldl (pstep false) [] := by
      unfold pathStack; rw [hhead]
    rw [h1, ← hst, h3]
    exact h2
  rw [hst] at hsl
  have hrej := rejected_iff ns k hns hsl
  rw [← hclean] at hrej
  constructor
  · rw [hrsp]
    constructor
    · intro h
      split at h
      · rename_i hr; exact hesc.mp (hrej.mp hr)
      · cases h
    · intro h
      rw [if_pos (hrej.mpr (hesc.mpr h))]
  · intro h
    rw [hrsp, if_neg]
    intro hr
    have := hesc.mp (hrej.mp hr)
    rw [h] at this
    cases this


/-- `repoSourcePath` and `sourceLabel` return (a path / label or an error) whenever the package has at least the
two bytes of `//` — every caller passes a module's package — or the source path is absolute. -/
theorem C12_source_path_total (pkg sp : Bytes) (h : 2 ≤ pkg.length ∨ pathIsAbs sp = true) :
    (repoSourcePathGo pkg sp).returns = true := by
  by_cases hsp : sp = []
  · subst hsp; rfl
  cases habs : pathIsAbs sp with
  | true => rw [rsp_abs_ok pkg sp habs]; rfl
  | false =>
    have hlen : 2 ≤ pkg.length := by
      rcases h with h | h
      · exact h
      · rw [habs] at h; cases h
    rw [rsp_rel pkg sp hsp habs hlen]
    split <;> rfl

/-- the hypothesis is needed: `pkg[2:]` with a package shorter than two bytes and a relative path is a run-time
panic in Go (replayed on the real code by the stream `label.rsp`; no caller can pass such a package). -/
theorem C12_short_package_counterexample : repoSourcePathGo [] [97] = .panic ∧ repoSourcePathGo [47] [97] = .panic := by
  decide

/-- the label `sourceLabel` makes for a source file (`sources=`, `glob`) is an identity like any other: when it
has a name it round-trips through its printed form (it is re-parsed as a dependency of the target). -/
theorem C12_source_label_roundtrip (pkg sp : Bytes) (l : Label) (h : sourceLabelGo pkg sp = .ok l)
    (hname : l.name ≠ []) : parseGo (print l) = .ok l := by
  obtain ⟨g, n, hn⟩ := sourceLabel_cases pkg sp l h
  obtain ⟨hwf, hk, hnm⟩ := new_wf hn
  exact parseGo_ok.mpr (parse_print hwf (Or.inl hname))

/-- … and `sourceLabel` returns whenever `repoSourcePath` does -/
theorem C12_source_label_total (pkg sp : Bytes) (h : 2 ≤ pkg.length ∨ pathIsAbs sp = true) :
    (sourceLabelGo pkg sp).returns = true := by
  have hr := C12_source_path_total pkg sp h
  unfold sourceLabelGo
  cases hq : repoSourcePathGo pkg sp with
  | ok q =>
    simp only [Out.ok_bind]
    have hnew : ∀ g n, (newGo sourceKind [] g n).returns = true := fun g n => (C12_total []).2.2.2.1 _ _ _ _
    cases hl : lastIndexByte slash q with
    | none => exact hnew _ _
    | some ls =>
      simp only
      have hlt := (lastIndexByte_some hl).1
      rw [slice_zero (Nat.le_of_lt hlt), slice_to_end (Nat.succ_le_of_lt hlt)]
      exact hnew _ _
  | err e => rfl
  | panic => rw [hq] at hr; cases hr
  | fuel => rw [hq] at hr; cases hr

/-- the observation of DESIGN.md §5 (not a violation: the property exempts labels with a kind and no name): a
source path that cleans to the project root gives `source://`, which prints as `source://`; re-parsing that
returns (a label or an error) but not the same label. -/
theorem C12_source_root_observation :
    sourceLabelGo [47, 47, 97] [47] = .ok ⟨sourceKind, [], [47, 47], []⟩ ∧
    (parseGo (print ⟨sourceKind, [], [47, 47], []⟩)).returns = true ∧
    parseGo (print ⟨sourceKind, [], [47, 47], []⟩) ≠ .ok ⟨sourceKind, [], [47, 47], []⟩ := by
  decide

/-! ## build records (`targetInfoPath`) -/

/-- C12 "stable identities": the path of the build record of a label determines the label. `TipOK`: the labels a
project keeps records for — no project part, a kind without `/` that is not spelled `target`, an absolute
package, a non-empty name without `/` (names `.` and `..` included: the name is concatenated with `/` and escaped,
never joined as a path element). `work` is any work directory. -/
theorem C12_record_path_injective (work : Bytes) (l₁ l₂ : Label) (h₁ : TipOK l₁) (h₂ : TipOK l₂)
    (h : targetInfoPathGo work l₁ = targetInfoPathGo work l₂) : l₁ = l₂ :=
  tip_injective work l₁ l₂ h₁ h₂ h

/-- … and every record lies exactly two levels below the work directory: `work / kind+"s" / escaped(pkg/name)` -/
theorem C12_record_path_below (work : Bytes) : ∃ base, ∀ l, TipOK l →
    ∃ p, targetInfoPathGo work l = .ok p ∧ pathComps p = base ++ [tipDir l, tipSeg l] :=
  tip_below work

/-- each condition of `TipOK` is needed (observations on the unchanged code, outside what a project stores side by
side): the kinds `""` and `target` share a directory; the names `""` and `BUILD.dawn` share a record; the project
part is ignored. Work directory `/w`, package `//a`, name `n`. -/
theorem C12_record_path_counterexamples :
    targetInfoPathGo [47, 119] ⟨[], [], [47, 47, 97], [110]⟩ = targetInfoPathGo [47, 119] ⟨defaultKind, [], [47, 47, 97], [110]⟩ ∧
    targetInfoPathGo [47, 119] ⟨[], [], [47, 47, 97], []⟩ = targetInfoPathGo [47, 119] ⟨[], [], [47, 47, 97], defaultTarget⟩ ∧
    targetInfoPathGo [47, 119] ⟨[], [], [47, 47, 97], [110]⟩ = targetInfoPathGo [47, 119] ⟨[], [112], [47, 47, 97], [110]⟩ := by
  decide

/-! non-vacuity: `//docs:.`, `//docs/api:..` and `//:docs` are storable and have three different records
(`/w/targets/docs%2F.`, `/w/targets/docs%2Fapi%2F..`, `/w/targets/%2Fdocs`) -/
example : TipOK ⟨[], [], [47, 47, 100, 111, 99, 115], [46]⟩ := ⟨rfl, by decide, by decide, by decide, by decide, by decide⟩
example : targetInfoPathGo [47, 119] ⟨[], [], [47, 47, 100, 111, 99, 115], [46]⟩ = .ok [47, 119, 47, 116, 97, 114, 103, 101, 116, 115, 47, 100, 111, 99, 115, 37, 50, 70, 46] ∧
    targetInfoPathGo [47, 119] ⟨[], [], [47, 47, 100, 111, 99, 115, 47, 97, 112, 105], [46, 46]⟩ = .ok [47, 119, 47, 116, 97, 114, 103, 101, 116, 115, 47, 100, 111, 99, 115, 37, 50, 70, 97, 112, 105, 37, 50, 70, 46, 46] ∧
    targetInfoPathGo [47, 119] ⟨[], [], [47, 47], [100, 111, 99, 115]⟩ = .ok [47, 119, 47, 116, 97, 114, 103, 101, 116, 115, 47, 37, 50, 70, 100, 111, 99, 115] := by decide

/-- The side condition is necessary (the exemption in the property text): `k:p:` is accepted with kind `k`,
package `p` and no name, prints as `k:p`, and that is the label with package `k` and name `p`. -/
theorem C12_kind_without_name_counterexample :
    parseGo [107, colon, 112, colon] = .ok ⟨[107], [], [112], []⟩ ∧
    print ⟨[107], [], [112], []⟩ = [107, colon, 112] ∧
    parseGo [107, colon, 112] = .ok ⟨[], [], [107], [112]⟩ := by decide

/-! non-vacuity: concrete accepted labels with every field present, relative and absolute
(byte lists: `k:proj/x//a/b:n`, `a//b///c`, `b/c:n` against `//a`, and four rejected strings) -/
example : parseGo [107, 58, 112, 114, 111, 106, 47, 120, 47, 47, 97, 47, 98, 58, 110] = .ok ⟨[107], [112, 114, 111, 106, 47, 120], [47, 47, 97, 47, 98], [110]⟩ := by decide
example : parseGo [97, 47, 47, 98, 47, 47, 47, 99] = .ok ⟨[], [97], [47, 47, 98, 47, 99], []⟩ := by decide
example : relativeToGo ⟨[], [], [98, 47, 99], [110]⟩ [47, 47, 97] = .ok ⟨[], [], [47, 47, 97, 47, 98, 47, 99], [110]⟩ ∧
    print ⟨[], [], [47, 47, 97, 47, 98, 47, 99], [110]⟩ = [47, 47, 97, 47, 98, 47, 99, 58, 110] := by decide
example : parseGo [97, 47, 46, 47, 98] = .err .pkgDot ∧ parseGo [47, 97] = .err .absSingle ∧
    parseGo [97, 58, 98, 47, 99] = .err .nameSlash ∧ parseGo [120, 58, 121, 58, 122, 58, 119] = .err .pkgColon := by decide

/-! non-vacuity of the path theorems: `//a/b` + `../x` is accepted as `a/x`; `//a` + `../../x` escapes and is
rejected; `/../x` (absolute) is accepted as `/x` -/
example : repoSourcePathGo [47, 47, 97, 47, 98] [46, 46, 47, 120] = .ok [97, 47, 120] := by decide
example : repoSourcePathGo [47, 47, 97] [46, 46, 47, 46, 46, 47, 120] = .err .outsideRoot ∧
    escapesFrom 0 (split slash (joinBuf [] [[97], [46, 46, 47, 46, 46, 47, 120]])) = true := by decide
example : repoSourcePathGo [47, 47, 97] [47, 46, 46, 47, 120] = .ok [47, 120] := by decide
example : pathComps [47, 114] <+: pathComps ([47, 114] ++ slash :: [97, 47, 120]) := by decide

end Dawn.Label

import Dawn.Model.Loader
/-!
# C06 — module loading is once-only, terminating and cycle-safe   (work in progress: breadth-first skeleton)
-/
namespace Dawn.Loader

/-- two packages (modules 0, 1 = their BUILD files) load the helper 2 = `//lib:h.dawn`, which loads 3 = `:h2.dawn` -/
def sharedHelper : Project :=
  { loads := fun m => match m with | 0 => [2] | 1 => [2] | 2 => [3] | _ => [], roots := [0, 1] }

/-- goroutine 0 starts loading the helper and gets as far as publishing `h.loading = h2`; goroutine 1 finds the helper
in the registry, locks `h.m` in `wait`, reads `h.loading = h2 ≠ waiter` and calls `h.getLoading()`; goroutine 0 loads
`h2` and then needs `h.m` for `h.setLoading(nil)` -/
def sharedHelperSchedule : List Tid := [0, 0, 0, 0, 0, 0, 0, 0, 0, 0, 1, 1, 1, 1, 1, 1, 1, 0, 0, 0]

/-- D4 (regression witness): with `module.wait` as written, an *acyclic* project reaches a state in which no loader
goroutine can move and neither has returned — `Load` hangs. -/
theorem C06_shared_helper_counterexample :
    ∃ s, Reachable .asWritten sharedHelper s ∧ stuck .asWritten sharedHelper s = true ∧
      unfinished sharedHelper s = true ∧ s.pc 1 = .walk 2 (some 3) ∧ s.mlock 2 = some 1 ∧ s.pc 0 = .unset .ok := by
  have h : (run .asWritten sharedHelper (init sharedHelper) sharedHelperSchedule).any (fun s =>
      stuck .asWritten sharedHelper s && unfinished sharedHelper s && decide (s.pc 1 = .walk 2 (some 3)) &&
      decide (s.mlock 2 = some 1) && decide (s.pc 0 = .unset .ok)) = true := by decide
  cases hr : run .asWritten sharedHelper (init sharedHelper) sharedHelperSchedule with
  | none => simp [hr] at h
  | some s =>
    simp [hr] at h
    exact ⟨s, steps_of_run hr, h.1.1.1.1, h.1.1.1.2, h.1.1.2, h.1.2, h.2⟩

end Dawn.Loader

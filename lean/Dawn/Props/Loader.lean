import Dawn.Proofs.LoaderDeadlock
import Dawn.Proofs.LoaderProgress
import Dawn.Model.LoaderReload
/-!
# C06 — module loading is once-only, terminating and cycle-safe

Property theorems only. `next .fixed` is the model of `Project.loadModule` / `(*module).{setLoading,getLoading,wait,
done,load}` after the repair of D4 (tied to the source by `Dawn/Ties/Loader.lean` and by the trace streams
`loader.sched`, `loader.stress` validated by `drv_loader`); `next .asWritten` is the code before the repair, kept for
the regression witness. `Reachable .fixed P s`: some interleaving of the per-package loader goroutines of project `P`
(any load graph `P.loads`, any list of packages `P.roots`) reaches `s`. `Terminal P s`: every goroutine has returned
(`Load` goes on to collect the modules' errors). `execs m` counts the `ModuleLoading` events of `m`.
-/
namespace Dawn.Loader

/-! ## the defect (D4) -/

/-- two packages (modules 0, 1 = their BUILD files) load the helper 2 = `//lib:h.dawn`, which loads 3 = `:h2.dawn` -/
def sharedHelper : Project :=
  { loads := fun m => match m with | 0 => [2] | 1 => [2] | 2 => [3] | _ => [], roots := [0, 1] }

/-- goroutine 0 starts loading the helper and gets as far as publishing `h.loading = h2`; goroutine 1 finds the helper
in the registry, locks `h.m` in `wait`, reads `h.loading = h2 ≠ waiter` and calls `h.getLoading()`; goroutine 0 loads
`h2` and then needs `h.m` for `h.setLoading(nil)` -/
def sharedHelperSchedule : List Tid := [0, 0, 0, 0, 0, 0, 0, 0, 0, 0, 1, 1, 1, 1, 1, 1, 1, 0, 0, 0]

/-- D4 (regression witness): with `module.wait` as written, an *acyclic* project reaches a state in which no loader
goroutine can move and neither has returned — `Load` hangs. -/
theorem C06_shared_helper_counterexample :
    ∃ s, Reachable .asWritten sharedHelper s ∧ stuck .asWritten sharedHelper s = true ∧
      unfinished sharedHelper s = true ∧ s.pc 1 = .walk 2 (some 3) ∧ s.mlock 2 = some 1 ∧ s.pc 0 = .unset .ok := by
  have h : (run .asWritten sharedHelper (init sharedHelper) sharedHelperSchedule).any (fun s =>
      stuck .asWritten sharedHelper s && unfinished sharedHelper s && decide (s.pc 1 = .walk 2 (some 3)) &&
      decide (s.mlock 2 = some 1) && decide (s.pc 0 = .unset .ok)) = true := by decide
  cases hr : run .asWritten sharedHelper (init sharedHelper) sharedHelperSchedule with
  | none => simp [hr] at h
  | some s =>
    simp [hr] at h
    exact ⟨s, steps_of_run hr, h.1.1.1.1, h.1.1.1.2, h.1.1.2, h.1.2, h.2⟩

/-- two packages (modules 0, 1) load module 2 of a project that is not in the build list -/
def twoOnUnfetchable : Project :=
  { loads := fun m => match m with | 0 => [2] | 1 => [2] | _ => [], roots := [0, 1], broken := fun m => m == 2 }

/-- goroutine 0 registers the module, fails to set up its environment and returns the error *without* `done()`;
goroutine 1 then finds the module in the registry and waits for it -/
def twoOnUnfetchableSchedule : List Tid := [0, 0, 0, 0, 0, 0, 0, 0, 0, 0, 0, 1, 1, 1, 1, 1, 1, 1, 1, 1]

/-- D24 (regression witness): with `module.load` as written, a module whose environment cannot be set up stays in the
registry unfinished, and the second goroutine that loads it sleeps for ever: `Load` hangs. -/
theorem C06_unfetchable_counterexample :
    ∃ s, Reachable .asWritten twoOnUnfetchable s ∧ stuck .asWritten twoOnUnfetchable s = true ∧
      unfinished twoOnUnfetchable s = true ∧ s.pc 0 = .finished ∧ s.pc 1 = .sleep 2 ∧
      s.registry 2 = true ∧ s.loaded 2 = false := by
  have h : (run .asWritten twoOnUnfetchable (init twoOnUnfetchable) twoOnUnfetchableSchedule).any (fun s =>
      stuck .asWritten twoOnUnfetchable s && unfinished twoOnUnfetchable s && decide (s.pc 0 = .finished) &&
      decide (s.pc 1 = .sleep 2) && s.registry 2 && !s.loaded 2) = true := by decide
  cases hr : run .asWritten twoOnUnfetchable (init twoOnUnfetchable) twoOnUnfetchableSchedule with
  | none => simp [hr] at h
  | some s =>
    simp [hr] at h
    exact ⟨s, steps_of_run hr, h.1.1.1.1.1, h.1.1.1.1.2, h.1.1.1.2, h.1.1.2, h.1.2, h.2⟩

/-! ## regression witnesses for the condition variable -/

/-- three packages (0, 1, 2) load the same helper 3 -/
def threeOnHelper : Project :=
  { loads := fun m => match m with | 0 => [3] | 1 => [3] | 2 => [3] | _ => [], roots := [0, 1, 2] }

/-- goroutine 0 starts executing the helper; goroutines 1 and 2 find it, walk, and go to sleep on its condition
variable; goroutine 0 finishes the helper; everybody who can runs to the end -/
def threeOnHelperSchedule : List Tid :=
  [0, 0, 0, 0, 0, 0, 0, 1, 1, 1, 1, 1, 1, 1, 1, 1, 2, 2, 2, 2, 2, 2, 2, 2, 2, 0, 0, 0, 0, 0, 0, 1, 1, 1, 1, 1]

/-- `Signal` instead of `Broadcast` in `done` (regression witness): only the head of the notify list is woken; the
second sleeper stays on the list of a module that is loaded, and `Load` hangs. -/
theorem C06_signal_counterexample :
    ∃ s, Reachable .signalDone threeOnHelper s ∧ stuck .signalDone threeOnHelper s = true ∧
      unfinished threeOnHelper s = true ∧ s.pc 2 = .sleep 3 ∧ s.asleep 3 = [2] ∧ s.loaded 3 = true := by
  have h : (run .signalDone threeOnHelper (init threeOnHelper) threeOnHelperSchedule).any (fun s =>
      stuck .signalDone threeOnHelper s && unfinished threeOnHelper s && decide (s.pc 2 = .sleep 3) &&
      decide (s.asleep 3 = [2]) && s.loaded 3) = true := by decide
  cases hr : run .signalDone threeOnHelper (init threeOnHelper) threeOnHelperSchedule with
  | none => simp [hr] at h
  | some s =>
    simp [hr] at h
    exact ⟨s, steps_of_run hr, h.1.1.1.1, h.1.1.1.2, h.1.1.2, h.1.2, h.2⟩

/-- the same schedule under the real code (`Broadcast`): everybody returns -/
example : ∃ s, Reachable .fixed threeOnHelper s ∧ Terminal threeOnHelper s := by
  have h : (run .fixed threeOnHelper (init threeOnHelper)
      (threeOnHelperSchedule ++ [2, 2, 2, 2, 2])).any (fun s => !unfinished threeOnHelper s) = true := by decide
  cases hr : run .fixed threeOnHelper (init threeOnHelper) (threeOnHelperSchedule ++ [2, 2, 2, 2, 2]) with
  | none => simp [hr] at h
  | some s =>
    simp only [hr, Option.any_some, Bool.not_eq_eq_eq_not, Bool.not_true] at h
    refine ⟨s, steps_of_run hr, fun t ht => ?_⟩
    simp only [unfinished, List.any_eq_false, List.mem_range, bne_iff_ne, ne_eq, Decidable.not_not] at h
    exact h t ht

/-- two packages (0, 1) load the same helper 2 -/
def twoOnHelper : Project :=
  { loads := fun m => match m with | 0 => [2] | 1 => [2] | _ => [], roots := [0, 1] }

/-- goroutine 1 tests `!m.loaded` (true) without the mutex; goroutine 0 finishes the helper and broadcasts to an empty
list; goroutine 1 then locks and calls `Wait` -/
def twoOnHelperSchedule : List Tid := [0, 0, 0, 0, 0, 0, 0, 1, 1, 1, 1, 1, 1, 1, 1, 1, 0, 0, 0, 0, 0, 0, 1]

/-- unlocked `if !m.loaded { Lock; Wait }` instead of `Lock; for !m.loaded { Wait }` (regression witness): the
wake-up that happens between the test and the `Wait` is lost; the goroutine sleeps on a loaded module for ever. -/
theorem C06_lost_wakeup_counterexample :
    ∃ s, Reachable .unlockedCheck twoOnHelper s ∧ stuck .unlockedCheck twoOnHelper s = true ∧
      unfinished twoOnHelper s = true ∧ s.pc 1 = .sleep 2 ∧ s.asleep 2 = [1] ∧ s.loaded 2 = true := by
  have h : (run .unlockedCheck twoOnHelper (init twoOnHelper) twoOnHelperSchedule).any (fun s =>
      stuck .unlockedCheck twoOnHelper s && unfinished twoOnHelper s && decide (s.pc 1 = .sleep 2) &&
      decide (s.asleep 2 = [1]) && s.loaded 2) = true := by decide
  cases hr : run .unlockedCheck twoOnHelper (init twoOnHelper) twoOnHelperSchedule with
  | none => simp [hr] at h
  | some s =>
    simp [hr] at h
    exact ⟨s, steps_of_run hr, h.1.1.1.1, h.1.1.1.2, h.1.1.2, h.1.2, h.2⟩

/-! ## the repaired loader -/

/-- C06, once-only: in every reachable state every module file has been executed at most once, however many modules
load it and whatever the interleaving. -/
theorem C06_once {P : Project} {s : State} (h : Reachable .fixed P s) (m : Mod) : s.execs m ≤ 1 :=
  (inv2_reachable h).execs_le m

/-- a module is executed only after it was put into the registry by the executing goroutine, and a module that has
finished loading was executed exactly once -/
theorem C06_once_loaded {P : Project} {s : State} (h : Reachable .fixed P s) (m : Mod) :
    (s.loaded m = true → s.execs m = 1) ∧ (s.registry m = false → s.execs m = 0) :=
  ⟨(inv2_reachable h).loaded_execs m, (inv2_reachable h).unreg m⟩

/-- C06, no false cycle: in an acyclic project (all of whose modules can be fetched) no goroutine ever obtains a
cyclic-dependency verdict or any other error, and no module ever fails — in every reachable state. -/
theorem C06_no_false_cycle {P : Project} (hac : Acyclic P) (hnb : NoBroken P) {s : State} (h : Reachable .fixed P s) :
    (∀ t r, (s.pc t = .unset r ∨ s.pc t = .fin r) → r = .ok) ∧ ∀ m, s.result m = .ok :=
  have nf := nofail_reachable hac hnb h
  ⟨fun t r hr => hr.elim (nf.no_unset t r) (nf.no_fin t r), nf.no_failed⟩

/-- when all goroutines have returned and nothing failed, everything reachable from a package is loaded -/
theorem terminal_closure {P : Project} {s : State} (h : Reachable .fixed P s) (ht : Terminal P s)
    (hnf : ∀ m, s.loaded m = true → s.result m = .ok) : ∀ m, Reach P m → okLoaded s m := by
  have inv5 := inv5_reachable h
  have hroot : ∀ r ∈ P.roots, okLoaded s r := by
    intro r hr
    obtain ⟨t, htl, hget⟩ := List.getElem_of_mem hr
    have h1 : P.roots[t]? = some r := by rw [List.getElem?_eq_getElem htl, hget]
    have hl := inv5.root_done t r h1 (Or.inl (ht t htl))
    exact ⟨hl, hnf r hl⟩
  have hpath : ∀ a b, Path P a b → okLoaded s a → okLoaded s b := by
    intro a b p
    induction p with
    | edge e => intro ha; exact (inv5.ok_closed _ ha _ e).1
    | cons e _ ih => intro ha; exact ih (inv5.ok_closed _ ha _ e).1
  intro m ⟨r, hr, hm⟩
  rcases hm with rfl | hp
  · exact hroot r hr
  · exact hpath r m hp (hroot r hr)

/-- C06, acyclic graphs load successfully: when every goroutine of an acyclic project has returned, no module has
failed, every module reachable from a package — helpers shared by several packages and the modules they load
included — has been loaded, executed exactly once, and nothing else has been executed. -/
theorem C06_acyclic_ok {P : Project} (hac : Acyclic P) (hnb : NoBroken P) {s : State} (h : Reachable .fixed P s)
    (ht : Terminal P s) :
    (∀ m, s.result m = .ok) ∧ (∀ m, Reach P m → s.loaded m = true ∧ s.execs m = 1) ∧
    (∀ m, ¬ Reach P m → s.loaded m = false ∧ s.execs m = 0) := by
  have nf := nofail_reachable hac hnb h
  refine ⟨nf.no_failed, ?_, ?_⟩
  · intro m hm
    have := terminal_closure h ht (fun m _ => nf.no_failed m) m hm
    exact ⟨this.1, (inv2_reachable h).loaded_execs m this.1⟩
  · intro m hm
    have hreg : s.registry m = false := by
      cases hr : s.registry m with
      | false => rfl
      | true => exact absurd ((inv4_reachable h).reg_reach m hr) hm
    refine ⟨?_, (inv2_reachable h).unreg m hreg⟩
    cases hl : s.loaded m with
    | false => rfl
    | true => rw [(inv1_reachable h).loaded_reg m hl] at hreg; cases hreg

/-- C06, deterministic result: any two complete loads of the same acyclic project — whatever the two interleavings —
end with the same modules loaded, none failed, and the same execution counts; the project's targets and flags are
those the loaded modules define, hence the same. -/
theorem C06_deterministic {P : Project} (hac : Acyclic P) (hnb : NoBroken P) {s₁ s₂ : State}
    (h₁ : Reachable .fixed P s₁) (h₂ : Reachable .fixed P s₂) (t₁ : Terminal P s₁) (t₂ : Terminal P s₂) (m : Mod) :
    s₁.loaded m = s₂.loaded m ∧ s₁.result m = s₂.result m ∧ s₁.execs m = s₂.execs m := by
  have a₁ := C06_acyclic_ok hac hnb h₁ t₁
  have a₂ := C06_acyclic_ok hac hnb h₂ t₂
  refine ⟨?_, by rw [a₁.1 m, a₂.1 m], ?_⟩
  · by_cases hm : Reach P m
    · rw [(a₁.2.1 m hm).1, (a₂.2.1 m hm).1]
    · rw [(a₁.2.2 m hm).1, (a₂.2.2 m hm).1]
  · by_cases hm : Reach P m
    · rw [(a₁.2.1 m hm).2, (a₂.2.1 m hm).2]
    · rw [(a₁.2.2 m hm).2, (a₂.2.2 m hm).2]

/-- when all goroutines have returned and a reachable module lies on a cycle of `load` statements, some module failed -/
theorem terminal_cycle_fails {P : Project} {s : State} (h : Reachable .fixed P s) (ht : Terminal P s)
    (hc : ∃ m, Reach P m ∧ Path P m m) : ∃ m, s.loaded m = true ∧ s.result m ≠ .ok := by
  apply Classical.byContradiction
  intro hno
  have hnf : ∀ m, s.loaded m = true → s.result m = .ok := by
    intro m hl
    apply Classical.byContradiction
    intro hf
    exact hno ⟨m, hl, hf⟩
  obtain ⟨m, hm, hp⟩ := hc
  have inv5 := inv5_reachable h
  have hok := terminal_closure h ht hnf m hm
  -- completion times strictly decrease along load edges of successfully loaded modules
  have hdec : ∀ a b, Path P a b → okLoaded s a → okLoaded s b ∧ s.ftime b < s.ftime a := by
    intro a b p
    induction p with
    | edge e => intro ha; exact inv5.ok_closed _ ha _ e
    | cons e _ ih =>
      intro ha
      have h1 := inv5.ok_closed _ ha _ e
      have h2 := ih h1.1
      exact ⟨h2.1, Nat.lt_trans h2.2 h1.2⟩
  exact absurd (hdec m m hp hok).2 (Nat.lt_irrefl _)

/-- C06, cycles are reported: if a module reachable from a package lies on a cycle of `load` statements (and every
module can be fetched), then whenever all goroutines have returned some module has failed with the
cyclic-dependency error — the only error there is — and `Load` returns it. (That the goroutines do return is
`C06_deadlock_free`.) -/
theorem C06_cycle_reported {P : Project} (hnb : NoBroken P) {s : State} (h : Reachable .fixed P s) (ht : Terminal P s)
    (hc : ∃ m, Reach P m ∧ Path P m m) :
    (∃ m, s.loaded m = true ∧ s.result m = .cyc) ∧ ∀ m, s.result m ≠ .err := by
  have oc := onlycyc_reachable hnb h
  obtain ⟨m, hl, hr⟩ := terminal_cycle_fails h ht hc
  refine ⟨⟨m, hl, ?_⟩, oc.no_err⟩
  have := oc.no_err m
  cases hres : s.result m <;> simp_all

/-- D24 side: a reachable module whose environment cannot be set up makes the load fail (instead of hanging): when all
goroutines have returned that module is finished, with its error, and was "executed" once. -/
theorem C06_unfetchable_reported {P : Project} {s : State} (h : Reachable .fixed P s) (ht : Terminal P s)
    {b : Mod} (hb : Reach P b) (hbr : P.broken b = true) : ∃ m, s.loaded m = true ∧ s.result m ≠ .ok := by
  apply Classical.byContradiction
  intro hno
  have hnf : ∀ m, s.loaded m = true → s.result m = .ok := by
    intro m hl
    apply Classical.byContradiction
    intro hf
    exact hno ⟨m, hl, hf⟩
  have hok := terminal_closure h ht hnf b hb
  have := (invB_reachable h).res b hok.1 hbr
  rw [hok.2] at this
  cases this

/-- C06, no deadlock: in every reachable state in which some loader goroutine has not returned, some goroutine can
take a step — for every load graph (acyclic or cyclic, shared helpers, self-loads), any number of packages and every
interleaving. No set of goroutines ever waits for each other in a circle: the one that published its `loading`
pointer last would have found the cycle in its chain walk. Together with `C06_cycle_reported` / `C06_acyclic_ok`:
`Load` does not hang, it returns the cyclic-dependency error or succeeds. (Termination additionally needs weak fairness
for a chain walk that spins round a cycle two other goroutines are about to un-publish; see DESIGN.md section 4.) -/
theorem C06_deadlock_free {P : Project} {s : State} (h : Reachable .fixed P s) (hu : ¬ Terminal P s) :
    ∃ t s', next .fixed P s t = some s' := by
  apply Classical.byContradiction
  intro hno
  have hstuck : ∀ t, next .fixed P s t = none := by
    intro t
    cases hn : next .fixed P s t with
    | none => rfl
    | some s' => exact absurd ⟨t, s', hn⟩ hno
  have : ∃ t, s.pc t ≠ .finished := by
    apply Classical.byContradiction
    intro hall
    exact hu (fun t _ => Classical.byContradiction fun hne => hall ⟨t, hne⟩)
  obtain ⟨t0, ht0⟩ := this
  exact no_stuck h hstuck t0 ht0

/-- C06, no lost wake-up: the notify list of a module's condition variable holds only goroutines asleep on that module
while it is unfinished, and a goroutine asleep on a finished module has been taken off the list (so it can run): `done`
sets `loaded` and then broadcasts to everybody on the list, `wait` tests `!m.loaded` and joins the list in one critical
section and re-tests after every wake-up. -/
theorem C06_no_lost_wakeup {P : Project} {s : State} (h : Reachable .fixed P s) :
    (∀ d t, t ∈ s.asleep d → s.pc t = .sleep d ∧ s.loaded d = false) ∧
    (∀ t d, s.pc t = .sleep d → s.loaded d = true → t ∉ s.asleep d ∧ ∃ s', next .fixed P s t = some s') := by
  have invA := invA_reachable h
  have lf := lockFree_reachable h
  refine ⟨invA.listed, fun t d hpc hl => ?_⟩
  have hnot : t ∉ s.asleep d := fun hin => by
    have := (invA.listed d t hin).2; rw [hl] at this; cases this
  refine ⟨hnot, ?_⟩
  simp [next, hpc, hnot, lf.1, hl]

/-- the blocked states of the fixed loader are exactly the condition waits — still on the notify list — on
unfinished modules -/
theorem C06_blocked_only_in_wait {P : Project} {s : State} (h : Reachable .fixed P s) {t : Tid}
    (hn : next .fixed P s t = none) : s.pc t = .finished ∨ ∃ d, s.pc t = .sleep d ∧ s.loaded d = false :=
  stuck_thread (lockFree_reachable h) (inv1_reachable h) (invA_reachable h) hn

/-! ### termination

`C06_deadlock_free` says some goroutine can always move; the three theorems below say that moves cannot go on for ever,
except for one kind: `mu P N` is a natural-number measure that every step other than a chain-walk read strictly decreases
(and a chain-walk read leaves unchanged); a chain walk that no other goroutine disturbs ends within `N` reads unless the
`loading` fields contain a cycle; and such a cycle is never stable — the goroutine that published last on it is enabled
and is between publishing and un-publishing its pointer, its own walk leads back to itself and ends with the
cyclic-dependency verdict, after which it clears the pointer. So under weak fairness of the Go scheduler (every
continuously enabled goroutine eventually runs) every execution of `Load` is finite: the only way not to decrease `mu`
for ever is a by-standing walk spinning round a cycle whose detector is never scheduled. The fairness step itself is not
formalised (DESIGN.md section 4). -/

/-- C06, progress: every step of every goroutine other than a chain-walk read (`loading = loading.getLoading()`)
strictly decreases the measure `mu P N` — for every project whose reachable modules are below `N`. -/
theorem C06_progress {P : Project} {N : Nat} (hb : Bounded P N) {s s' : State} {t : Tid} (h : Reachable .fixed P s)
    (hn : next .fixed P s t = some s') (hw : ¬ isWalkRead s t) : mu P N s' < mu P N s :=
  progress_fstep hb (inv1_reachable h) (inv4_reachable h) (invA_reachable h)
    (fstep_of_next (lockFree_reachable h) hn) hw

/-- a chain-walk read leaves the measure as it is -/
theorem C06_walk_read_keeps_measure {P : Project} {N : Nat} {s s' : State} {t : Tid} (h : Reachable .fixed P s)
    (hn : next .fixed P s t = some s') (hw : isWalkRead s t) : mu P N s' = mu P N s := by
  obtain ⟨d, c, hpc, htop⟩ := hw
  have st := fstep_of_next (lockFree_reachable h) hn
  have ht := fstep_tid (inv1_reachable h) st
  have hm := (lockFree_reachable h).1
  simp only [next, hpc, htop, ↓reduceIte, hm, Option.isSome_none, Bool.false_eq_true, Option.some.injEq] at hn
  subst hn
  exact walk_read_mu ht hpc

/-- C06, a quiescent walk is short: `k` consecutive chain-walk reads of one goroutine, with no step of any other goroutine
in between, are at most `N` — unless the `loading` fields contain a cycle (the fairness case, `C06_cycle_detector`). -/
theorem C06_walk_bounded_when_quiescent {P : Project} {N : Nat} (hb : Bounded P N) {s s' : State} {t : Tid} {k : Nat}
    (h : Reachable .fixed P s) (hk : SoloReads t s k s') : k ≤ N ∨ PtrCycle s :=
  walk_bounded hb h hk

/-- C06, a cycle of `loading` fields is being detected: the goroutine whose top frame published last on the cycle is
entering `wait`, on its chain walk, or about to clear its pointer — never in the condition wait — and can take a step. -/
theorem C06_cycle_detector {P : Project} {s : State} (h : Reachable .fixed P s) (hc : PtrCycle s) :
    ∃ u f rest d, s.stack u = f :: rest ∧ s.loading f.mod = some d ∧
      (s.pc u = .enter d ∨ (∃ cur, s.pc u = .walk d cur) ∨ ∃ r, s.pc u = .unset r) ∧
      ∃ s', next .fixed P s u = some s' :=
  cycle_detector h hc

/-! ### more than one load on a `Project` -/

/-- C06, a reload is a fresh load: whatever state the previous load of the `Project` ended in (finished, failed, with
modules registered, loaded or failed) and whether or not the tree was edited in between, the loader state at the start
of `Reload`'s load is the initial state of the (new) tree — empty registry, nothing loaded, executed or published,
nobody asleep. Hence every theorem above, stated for `Reachable .fixed P'`, holds for every load of a session; in
particular each module file is executed at most once *per load*, a stale error or a stale registration of an earlier
load cannot be observed, and the targets and flags of a reload are those of a fresh `Load` of the tree as it is then
(`C06_deterministic`). The abstraction rests on `proj.modules` being re-created before the goroutines start
(`reloadResets`, tied to the source). -/
theorem C06_reload_is_fresh_load (P' : Project) (old : State) :
    reload P' old = init P' ∧ Reachable .fixed P' (reload P' old) ∧ "modules" ∈ reloadResets ∧
    ∀ m, (reload P' old).registry m = false ∧ (reload P' old).loaded m = false ∧ (reload P' old).execs m = 0 ∧
      (reload P' old).result m = .ok ∧ (reload P' old).loading m = none ∧ (reload P' old).asleep m = [] :=
  ⟨rfl, .refl _, by decide, fun _ => ⟨rfl, rfl, rfl, rfl, rfl, rfl⟩⟩

/-- … so the execution counts of a load never include those of an earlier load on the same `Project` -/
theorem C06_once_per_load {P' : Project} (old : State) {s : State}
    (h : Steps .fixed P' (reload P' old) s) (m : Mod) : s.execs m ≤ 1 :=
  C06_once h m

/-! ## Non-vacuity -/

theorem sharedHelper_bounded : Bounded sharedHelper 4 := by
  have hp : ∀ a b, Path sharedHelper a b → b < 4 := by
    intro a b p
    induction p with
    | @edge a b e =>
      match a with
      | 0 => simp [sharedHelper] at e; subst e; decide
      | 1 => simp [sharedHelper] at e; subst e; decide
      | 2 => simp [sharedHelper] at e; subst e; decide
      | n + 3 => simp [sharedHelper] at e
    | cons _ _ ih => exact ih
  intro m ⟨r, hr, h⟩
  simp only [sharedHelper, List.mem_cons, List.not_mem_nil, or_false] at hr
  rcases h with rfl | h
  · rcases hr with rfl | rfl <;> decide
  · exact hp r m h

/-- the measure is a number, and the steps of the D4 schedule decrease it: 109 at the start -/
example : mu sharedHelper 4 (init sharedHelper) = 109 := by decide


theorem acyclic_of_rank {P : Project} (rank : Mod → Nat) (h : ∀ a b, b ∈ P.loads a → rank b < rank a) : Acyclic P := by
  intro m _ hp
  have : ∀ a b, Path P a b → rank b < rank a := by
    intro a b p
    induction p with
    | edge e => exact h _ _ e
    | cons e _ ih => exact Nat.lt_trans ih (h _ _ e)
  exact absurd (this m m hp) (Nat.lt_irrefl _)

/-- the D4 project is acyclic … -/
theorem sharedHelper_noBroken : NoBroken sharedHelper := fun _ _ => rfl

theorem sharedHelper_acyclic : Acyclic sharedHelper := by
  refine acyclic_of_rank (fun m => match m with | 0 => 3 | 1 => 3 | 2 => 2 | _ => 0) ?_
  intro a b hb
  match a with
  | 0 => simp [sharedHelper] at hb; subst hb; decide
  | 1 => simp [sharedHelper] at hb; subst hb; decide
  | 2 => simp [sharedHelper] at hb; subst hb; decide
  | n + 3 => simp [sharedHelper] at hb

/-- … and the repaired loader completes the very schedule that hangs the code as written, and then finishes: a
reachable terminal state with all four modules loaded once -/
example : ∃ s, Reachable .fixed sharedHelper s ∧ Terminal sharedHelper s ∧
    (∀ m, m < 4 → s.loaded m = true ∧ s.execs m = 1) := by
  have h : (run .fixed sharedHelper (init sharedHelper)
      (sharedHelperSchedule ++ [1, 1, 1, 0, 0, 0, 1, 1, 1, 1, 1, 0, 0, 0, 0])).any (fun s =>
      !unfinished sharedHelper s && (List.range 4).all fun m => s.loaded m && s.execs m == 1) = true := by decide
  cases hr : run .fixed sharedHelper (init sharedHelper)
      (sharedHelperSchedule ++ [1, 1, 1, 0, 0, 0, 1, 1, 1, 1, 1, 0, 0, 0, 0]) with
  | none => simp [hr] at h
  | some s =>
    simp only [hr, Option.any_some, Bool.and_eq_true, Bool.not_eq_eq_eq_not, Bool.not_true, List.all_eq_true,
      List.mem_range, beq_iff_eq] at h
    refine ⟨s, steps_of_run hr, ?_, fun m hm => h.2 m hm⟩
    intro t ht
    have := h.1
    simp only [unfinished, List.any_eq_false, List.mem_range, bne_iff_ne, ne_eq, Decidable.not_not] at this
    exact this t ht

/-- chain-walk reads exist: in the D4 situation goroutine 1 (waiter `1`) stands on `3 = h.loading` and reads on -/
example : ∃ s, Reachable .fixed sharedHelper s ∧ isWalkRead s 1 ∧ SoloReads 1 s 1 (setPc s 1 (.walk 2 (s.loading 3))) := by
  have h : (run .fixed sharedHelper (init sharedHelper) [0, 0, 0, 0, 0, 0, 0, 0, 0, 0, 1, 1, 1, 1, 1, 1, 1]).any (fun s =>
      decide (s.pc 1 = .walk 2 (some 3)) && decide (top s 1 = some 1)) = true := by decide
  cases hr : run .fixed sharedHelper (init sharedHelper) [0, 0, 0, 0, 0, 0, 0, 0, 0, 0, 1, 1, 1, 1, 1, 1, 1] with
  | none => simp [hr] at h
  | some s =>
    simp [hr] at h
    have htop : top s 1 ≠ some 3 := by rw [h.2]; decide
    exact ⟨s, steps_of_run hr, ⟨2, 3, h.1, htop⟩, .succ h.1 htop (.zero _)⟩

/-- the hypothesis of `C06_deadlock_free`: reachable states with goroutines still running exist (the initial one) -/
example : Reachable .fixed sharedHelper (init sharedHelper) ∧ ¬ Terminal sharedHelper (init sharedHelper) := by
  refine ⟨.refl _, fun h => ?_⟩
  have := h 0 (by decide)
  simp [init, sharedHelper] at this

/-- the hypotheses of `C06_unfetchable_reported` are met, and the repaired loader finishes on that project: module 2
ends with the environment error, executed once, and both packages fail with it -/
example : Reach twoOnUnfetchable 2 ∧ twoOnUnfetchable.broken 2 = true :=
  ⟨⟨0, by simp [twoOnUnfetchable], Or.inr (.edge (by simp [twoOnUnfetchable]))⟩, rfl⟩

example : ∃ s, Reachable .fixed twoOnUnfetchable s ∧ Terminal twoOnUnfetchable s ∧ s.loaded 2 = true ∧
    s.result 2 = .err ∧ s.execs 2 = 1 ∧ s.result 0 = .err ∧ s.result 1 = .err := by
  have h : (run .fixed twoOnUnfetchable (init twoOnUnfetchable)
      [0, 0, 0, 0, 0, 0, 0, 0, 0, 0, 0, 0, 1, 1, 1, 1, 1, 1, 1, 1, 1, 1, 1, 1]).any (fun s =>
      !unfinished twoOnUnfetchable s && s.loaded 2 && s.result 2 == .err && s.execs 2 == 1 && s.result 0 == .err &&
      s.result 1 == .err) = true := by decide
  cases hr : run .fixed twoOnUnfetchable (init twoOnUnfetchable)
      [0, 0, 0, 0, 0, 0, 0, 0, 0, 0, 0, 0, 1, 1, 1, 1, 1, 1, 1, 1, 1, 1, 1, 1] with
  | none => simp [hr] at h
  | some s =>
    simp only [hr, Option.any_some, Bool.and_eq_true, Bool.not_eq_eq_eq_not, Bool.not_true, beq_iff_eq] at h
    refine ⟨s, steps_of_run hr, ?_, h.1.1.1.1.2, h.1.1.1.2, h.1.1.2, h.1.2, h.2⟩
    intro t ht
    have := h.1.1.1.1.1
    simp only [unfinished, List.any_eq_false, List.mem_range, bne_iff_ne, ne_eq, Decidable.not_not] at this
    exact this t ht

/-- a cyclic project: package 0 loads 1, 1 loads 2, 2 loads 3, 3 loads 1 (the three-module cycle that the code as
written cannot report) -/
def threeCycle : Project :=
  { loads := fun m => match m with | 0 => [1] | 1 => [2] | 2 => [3] | 3 => [1] | _ => [], roots := [0] }

example : ∃ m, Reach threeCycle m ∧ Path threeCycle m m :=
  ⟨1, ⟨0, by simp [threeCycle], Or.inr (.edge (by simp [threeCycle]))⟩,
    .cons (b := 2) (by simp [threeCycle]) (.cons (b := 3) (by simp [threeCycle]) (.edge (by simp [threeCycle])))⟩

def threeCycleSchedule : List Tid :=
  [0, 0, 0, 0, 0, 0, 0, 0, 0, 0, 0, 0, 0, 0, 0, 0, 0, 0, 0, 0, 0, 0, 0, 0, 0, 0, 0, 0, 0, 0]

/-- … and on the way the `loading` fields do contain a cycle (1 → 2 → 3 → 1), with the goroutine about to enter `wait` -/
example : ∃ s, Reachable .fixed threeCycle s ∧ PtrCycle s ∧ s.pc 0 = .enter 1 := by
  have h : (run .fixed threeCycle (init threeCycle) (threeCycleSchedule.take 18)).any (fun s =>
      decide (ptrAt s 1 3 = some 1) && decide (s.pc 0 = .enter 1)) = true := by decide
  cases hr : run .fixed threeCycle (init threeCycle) (threeCycleSchedule.take 18) with
  | none => simp [hr] at h
  | some s =>
    simp [hr] at h
    exact ⟨s, steps_of_run hr, ⟨1, 3, by decide, h.1⟩, h.2⟩

/-- the repaired loader reaches a terminal state on it, with the cycle's modules failed -/
example : ∃ s, Reachable .fixed threeCycle s ∧ Terminal threeCycle s ∧ s.loaded 1 = true ∧ s.result 1 = .cyc := by
  have h : (run .fixed threeCycle (init threeCycle) threeCycleSchedule).any (fun s =>
      !unfinished threeCycle s && s.loaded 1 && s.result 1 == .cyc) = true := by decide
  cases hr : run .fixed threeCycle (init threeCycle) threeCycleSchedule with
  | none => simp [hr] at h
  | some s =>
    simp only [hr, Option.any_some, Bool.and_eq_true, Bool.not_eq_eq_eq_not, Bool.not_true] at h
    refine ⟨s, steps_of_run hr, ?_, h.1.2, by simpa using h.2⟩
    intro t ht
    have := h.1.1
    simp only [unfinished, List.any_eq_false, List.mem_range, bne_iff_ne, ne_eq, Decidable.not_not] at this
    exact this t ht

end Dawn.Loader

import Dawn.Proofs.RunnerMisc
/-!
# C04, C05, C09 — the parallel target runner (`runner/runner.go`)

Property theorems only. The model is `Dawn/Model/Runner.lean`: an interleaving transition system over all
dependency graphs (`deps`, arbitrary: diamonds, shared subgraphs, self-loops, overlapping cycles), unknown
(`known`) and failing (`bodyOk`) targets, every parallelism limit `cap`, and every schedule — a theorem about
all `Reachable P s` is a theorem about all interleavings. It is tied to the source by `Dawn/Ties/Runner.lean`
(synchronisation skeletons and order facts regenerated from the working tree) and by trace refinement: every
execution of the real goroutines recorded under the controlled scheduler is replayed step by step through
`step` by `drv_runner` (streams `runner.rand`, `runner.pct`, `runner.model`, `runner.dfs`), and the final
states of free-running builds are checked against the conclusions below (`runner.stress.*`).
-/
namespace Dawn.Runner

/-- a one-target graph used by the `example`s that need parameters before the theorems -/
def diamondLike : Params where
  deps := fun _ => []
  known := fun _ => true
  bodyOk := fun _ => true
  cap := 1
  root := 0

/-! ## C04 — each target runs at most once, after its dependencies -/

/-- C04: `LoadTarget` and `Evaluate` are called at most once per label, however many dependents ask. -/
theorem C04_at_most_once {P : Params} {s : State} (hr : Reachable P s) (l : Label) :
    s.loads l ≤ 1 ∧ s.evals l ≤ 1 := by
  have inv := hr.inv
  refine ⟨?_, inv.evals l⟩
  rw [inv.loads l]
  unfold expLoads
  cases s.pc l with
  | none => simp
  | some p => simp only; split <;> omega

/-- C04: a target that continues past its dependency request (`EvaluateTargets` returned without the cycle
    error: program counters `enter2 (some hs)`, `evalRest (some hs)`) finds every requested dependency finished,
    and the outcome it was handed for each is that dependency's recorded outcome. -/
theorem C04_deps_first {P : Params} {s : State} (hr : Reachable P s) (l : Label) (hs : List Err)
    (hp : s.pc l = some (.enter2 (some hs)) ∨ s.pc l = some (.evalRest (some hs))) :
    (∀ d ∈ P.deps l, (s.status d).final = true) ∧ hs = (P.deps l).map s.err := by
  rcases hp with hp | hp
  · have := hr.inv2 l _ hp; exact ⟨this.2, this.1⟩
  · have := hr.inv2 l _ hp; exact ⟨this.2, this.1⟩

/-- C04: while a target is still collecting its dependencies' results, the part collected so far is already
    the recorded outcome of finished dependencies (a dependent never overtakes a dependency). -/
theorem C04_deps_first_during_wait {P : Params} {s : State} (hr : Reachable P s) (l : Label)
    (todo : List Label) (hs : List Err) (hp : s.pc l = some (.waitDeps todo hs)) :
    ∃ pre, P.deps l = pre ++ todo ∧ hs = pre.map s.err ∧ ∀ d ∈ pre, (s.status d).final = true := by
  obtain ⟨pre, h1, h2, h3, _⟩ := hr.inv2 l _ hp
  exact ⟨pre, h1, h2, h3⟩

/-- C04 "actual outcome": a finished target's status and error never change again, so what a dependent was
    handed remains the dependency's outcome for the rest of the build. -/
theorem C04_outcome_stable {P : Params} {s s' : State} {t : Tid} (hr : Reachable P s)
    (h : step P s t = some s') (d : Label) (hf : (s.status d).final = true) :
    s'.status d = s.status d ∧ s'.err d = s.err d :=
  (step_stable hr.inv h d).1 hf

/-- C04: the outcome recorded for a finished target is the one its graph position dictates: the loader's error
    for an unknown target; failure for a target that was handed the cycle error (C05 governs, DESIGN.md §4);
    otherwise all its dependencies have finished and it failed iff one of them failed or its own body did. -/
theorem C04_outcome {P : Params} {s : State} (hr : Reachable P s) (l : Label)
    (hf : (s.status l).final = true) : OutcomeSpec P s l (s.status l) (s.err l) :=
  hr.outcome l hf

/-- C04 as an order: the labels in the order in which their outcome was computed (`State.order`: the failed load of
    an unknown target, the rest of `Evaluate` of a known one) contain no label twice, and every known target that was
    not handed the cycle error comes after all of its dependencies. (`Dawn/Props/LinkRunnerBuild.lean` turns this into
    the hypothesis `RunnerOrder` of the incremental engine's theorems.) -/
theorem C04_evaluation_order {P : Params} {s : State} (hr : Reachable P s) :
    s.order.Nodup ∧ DepsFirst P s.cyc [] s.order ∧
      ∀ l, l ∈ s.order ↔ ∃ p, s.pc l = some p ∧ p.afterRest = true :=
  ⟨hr.invO.nodup, hr.invO.first, hr.invO.mem⟩

/-- C04: the build's result is the requested target's result (and that target has finished). -/
theorem C04_result {P : Params} {s : State} (hr : Reachable P s) (e : Err) (hd : s.main = .done e) :
    e = s.err P.root ∧ (s.status P.root).final = true :=
  hr.inv.mainD e (Or.inr hd)

/-! ## C09 — the parallelism limit is respected and slots are conserved -/

/-- C09: free slots plus slot holders is the limit, in every reachable state: slots are neither leaked nor
    released more often than acquired. -/
theorem C09_conserved {P : Params} {s : State} (hr : Reachable P s) :
    s.capacity + (holders s).length = P.cap :=
  hr.inv.slots

/-- C09: never more targets executing (being loaded or running their bodies) than the limit; the executing
    targets are exactly the slot holders, so a target waiting for dependencies holds no slot. -/
theorem C09_limit {P : Params} {s : State} (hr : Reachable P s) :
    (executingSet s).length ≤ P.cap ∧ executingSet s = holders s ∧
      ∀ l p, s.pc l = some p → p.executing = false → s.holds l = false := by
  have inv := hr.inv
  refine ⟨?_, executing_eq_holders inv, ?_⟩
  · rw [executing_eq_holders inv]; have := inv.slots; omega
  · intro l p hp hx; rw [inv.holds_of hp, hx]

/-- C09: when `Run` has returned every slot has been given back. -/
theorem C09_all_returned {P : Params} {s : State} (hr : Reachable P s) (e : Err) (hd : s.main = .done e) :
    s.capacity = P.cap := by
  have inv := hr.inv
  have hall := run_waits_all hr e hd
  have : holders s = [] := by
    unfold holders
    apply List.filter_eq_nil_iff.mpr
    intro l hl
    obtain ⟨p, hp⟩ : ∃ p, s.pc l = some p := by
      cases h : s.pc l with
      | none => exact absurd h ((inv.reg l).mp hl)
      | some p => exact ⟨p, rfl⟩
    have := hall l p hp
    subst this
    simp [inv.holds_of hp, PC.executing]
  have hs := inv.slots
  rw [this] at hs
  simpa using hs

/-- C09 "a build completes even with a limit of one": with a single slot no reachable unfinished state is stuck
    (the instance `cap = 1` of `C05_deadlock_free`; progress towards completion is `C05_progress`). -/
theorem C09_completes_with_limit_one {P : Params} (h1 : P.cap = 1) {s : State} (hr : Reachable P s)
    (hnd : s.isDone = false) : ∃ t s', step P s t = some s' :=
  deadlock_free (by omega) hr hnd

/-! ## C05 — builds terminate: cycles are reported, never deadlock -/

/-- C05 / C09 "a build completes even with a limit of one": for every limit ≥ 1, every reachable state in
    which `Run` has not returned has an enabled step — no deadlock, whatever the graph and the schedule. -/
theorem C05_deadlock_free {P : Params} (hcap : 1 ≤ P.cap) {s : State} (hr : Reachable P s)
    (hnd : s.isDone = false) : ∃ t s', step P s t = some s' :=
  deadlock_free hcap hr hnd

/-- the hypothesis `1 ≤ cap` is needed: with no slot at all the first target can never enter the gate -/
example : ∃ s, Reachable { diamondLike with cap := 0 } s ∧ s.isDone = false ∧
    ∀ t, step { diamondLike with cap := 0 } s t = none := by
  refine ⟨_, Reachable.step .main .init rfl, rfl, ?_⟩
  intro t
  cases t with
  | main => rfl
  | tgt l =>
    by_cases h : l = 0
    · subst h; rfl
    · simp [step, startTarget, init, diamondLike, upd, h]

/-- C05: the only states without an enabled step are the finished ones: `Run` has returned and every target
    goroutine has ended. -/
theorem C05_quiescent {P : Params} (hcap : 1 ≤ P.cap) {s : State} (hr : Reachable P s)
    (hstuck : ∀ t, step P s t = none) : s.isDone = true ∧ ∀ l p, s.pc l = some p → p = .done :=
  stuck_all_done hcap hr hstuck

/-! ### the gate with `cond.Wait` / `cond.Signal` made explicit

`GState` / `gstep` (`Dawn/Model/Runner.lean`) refine the model: a thread that finds the gate full goes to sleep and can
move again only after an `exit` has signalled it (`Signal` wakes the longest waiter; no spurious wake-ups), then re-tests
the capacity. Every refined step is a step of the core model or leaves it unchanged, so C04, C09 and the cycle theorems
hold of `g.core` for every `GReachable P g`; termination needs its own proof, because a free slot no longer enables a
sleeper. -/

/-- refinement: the core of a reachable refined state is reachable in the core model -/
theorem signal_refines {P : Params} {g : GState} (h : GReachable P g) : Reachable P g.core := h.core

/-- C05 / C09 with `Signal` semantics: no reachable unfinished state is stuck, for every limit ≥ 1 — a sleeper is never
    left behind with a slot free, because `exit` signals on every release (invariant `InvG.wake`: while anybody sleeps,
    the free slots are at most the threads standing at the gate awake). -/
theorem C05_deadlock_free_signal {P : Params} (hcap : 1 ≤ P.cap) {g : GState} (hr : GReachable P g)
    (hnd : g.core.isDone = false) : ∃ t g', gstep P g t = some g' :=
  g_deadlock_free hcap hr hnd

theorem C05_quiescent_signal {P : Params} (hcap : 1 ≤ P.cap) {g : GState} (hr : GReachable P g)
    (hstuck : ∀ t, gstep P g t = none) : g.core.isDone = true ∧ ∀ l p, g.core.pc l = some p → p = .done :=
  g_stuck_all_done hcap hr hstuck

/-- C09: nobody sleeps in `gate.enter` while a slot is free and nobody who could take it is on the way -/
theorem C09_no_lost_wakeup {P : Params} {g : GState} (hr : GReachable P g) (hq : g.gateQ ≠ []) :
    g.core.capacity ≤ (g.core.registry.filter (awake g)).length :=
  hr.invG.wake hq

/-- a root with four leaves, limit two -/
def fan4 : Params where
  deps := fun l => match l with | 0 => [1, 2, 3, 4] | _ => []
  known := fun _ => true
  bodyOk := fun _ => true
  cap := 2
  root := 0

/-- 1 and 2 take the two slots, 3 and 4 go to sleep, 1 and 2 release back to back, then everybody else runs alone -/
def fan4Sched : List Tid :=
  [.main] ++ List.replicate 14 (.tgt 0) ++ [.tgt 1, .tgt 2, .tgt 3, .tgt 4] ++ List.replicate 3 (.tgt 1) ++
  List.replicate 3 (.tgt 2) ++ List.replicate 12 (.tgt 3) ++ List.replicate 8 (.tgt 1) ++ List.replicate 8 (.tgt 2) ++
  List.replicate 3 (.tgt 0)

/-- Regression witness (seeded change "signal only when the first slot frees"): with `exit` signalling only on the
    transition 0 → 1, an ACYCLIC build with limit two reaches a state in which `Run` has not returned and no thread
    can move: target 4 sleeps in `gate.enter` with both slots free. `C05_deadlock_free_signal` fails for that gate. -/
theorem C05_signal_only_when_first_slot_frees_counterexample :
    ∃ g, GReachableV true fan4 g ∧ g.core.isDone = false ∧ g.asleep 4 = true ∧ g.core.capacity = 2 ∧
      (threads g.core).all (fun t => (gstepV true fan4 g t).isNone) = true := by
  have h : ∃ g, grunSched true fan4 (ginit fan4) fan4Sched = some g ∧ g.core.isDone = false ∧ g.asleep 4 = true ∧
      g.core.capacity = 2 ∧ (threads g.core).all (fun t => (gstepV true fan4 g t).isNone) = true := by
    decide +kernel
  obtain ⟨g, h1, h2⟩ := h
  exact ⟨g, greachableV_of_grunSched _ .init h1, h2⟩

/-- under the code's gate (`exit` always signals) the same schedule leaves target 4 awake and able to take a slot -/
example : ((grunSched false fan4 (ginit fan4) fan4Sched).map fun g =>
    (g.asleep 4, (gstepV false fan4 g (.tgt 4)).isSome)) = some (false, true) := by decide +kernel

/-- `0 → 1`, limit one -/
def chain2 : Params where
  deps := fun l => match l with | 0 => [1] | _ => []
  known := fun _ => true
  bodyOk := fun _ => true
  cap := 1
  root := 0

def chain2Sched : List Tid := [.main, .tgt 0, .tgt 0, .tgt 0, .tgt 0, .tgt 0, .tgt 0, .tgt 0, .tgt 0, .tgt 1, .tgt 1, .tgt 1, .tgt 1, .tgt 1, .tgt 1, .tgt 1, .tgt 1, .tgt 1, .tgt 1, .tgt 0, .tgt 0, .tgt 0, .tgt 1, .tgt 1, .tgt 0]

theorem ureachable_of_urunSched {P : Params} (ts : List Tid) {u0 u : UState} (h0 : UReachable P u0)
    (h : urunSched P u0 ts = some u) : UReachable P u := by
  induction ts generalizing u0 with
  | nil => simp [urunSched] at h; subst h; exact h0
  | cons t ts ih =>
    simp only [urunSched] at h
    split at h
    next u1 hu1 => exact ih (UReachable.step t h0 hu1) h
    · cases h

/-- Regression witness (seeded change: atomic capacity, `gate.exit` no longer takes the gate's mutex). With the
    capacity test and `cond.Wait` two steps (`ustep`), limit ONE and the chain `0 → 1`: target 0, coming back from its
    dependency wait, sees the gate full (1 still holds the slot); 1 releases and signals — nobody waits yet; 0 then
    waits, for ever, next to a free slot. `C09_no_lost_wakeup` and `C09_completes_with_limit_one` fail for that gate;
    they hold for the code because test-and-sleep is one critical section that `exit` has to enter too
    (`Ties/RunnerGate.lean`: `skel_enter_ok`, `skel_exit_ok`). -/
theorem C09_unlocked_exit_counterexample :
    ∃ u, UReachable chain2 u ∧ u.g.core.isDone = false ∧ u.g.asleep 0 = true ∧ u.g.core.capacity = 1 ∧
      (threads u.g.core).all (fun t => (ustep chain2 u t).isNone) = true := by
  have h : ∃ u, urunSched chain2 (uinit chain2) chain2Sched = some u ∧ u.g.core.isDone = false ∧
      u.g.asleep 0 = true ∧ u.g.core.capacity = 1 ∧
      (threads u.g.core).all (fun t => (ustep chain2 u t).isNone) = true := by
    decide +kernel
  obtain ⟨u, h1, h2⟩ := h
  exact ⟨u, ureachable_of_urunSched _ .init h1, h2⟩

/-! ### the status wait with `cond.Wait` / `cond.Broadcast` made explicit

`WState` / `wstep` refine the gate-level model once more: a dependent (or the caller of `Run`) that finds the target
running goes to sleep in `t.c.Wait()` and moves again only after that target's `run` has set the status and
`Broadcast`; every woken waiter re-tests. Every refined step is a `gstep` or leaves the gate-level state unchanged
(for every `WMode`), so C04, C09 and the cycle theorems hold of `w.g.core`. -/

/-- refinement: the gate-level state and the core of a reachable status-wait-level state are reachable -/
theorem status_wait_refines {mode : WMode} {P : Params} {w : WState} (h : WReachableV mode P w) :
    GReachable P w.g ∧ Reachable P w.g.core := ⟨h.g, h.core⟩

/-- C04 at the level of the condition variable: a thread sleeps in `wait()` only while the target it waits for is
    still running — no dependent is left asleep on a finished dependency (both exits of `run` broadcast). -/
theorem C04_no_lost_wakeup_status {P : Params} {w : WState} (hr : WReachable P w) (t : Tid)
    (hs : w.wsleep t = true) : ∃ d, sleepsOn P w.g.core t = some d ∧ w.g.core.status d = .running :=
  hr.invW t hs

/-- C04 `deps_first` holds of the refined model (through the refinement) -/
theorem C04_deps_first_broadcast {P : Params} {w : WState} (hr : WReachable P w) (l : Label) (hs : List Err)
    (hp : w.g.core.pc l = some (.enter2 (some hs)) ∨ w.g.core.pc l = some (.evalRest (some hs))) :
    (∀ d ∈ P.deps l, (w.g.core.status d).final = true) ∧ hs = (P.deps l).map w.g.core.err :=
  C04_deps_first hr.core l hs hp

/-- C05 with `Wait`/`Broadcast` (and `Wait`/`Signal` at the gate) explicit: no reachable unfinished state is stuck -/
theorem C05_deadlock_free_broadcast {P : Params} (hcap : 1 ≤ P.cap) {w : WState} (hr : WReachable P w)
    (hnd : w.g.core.isDone = false) : ∃ t w', wstep P w t = some w' :=
  w_deadlock_free hcap hr hnd

theorem C05_quiescent_broadcast {P : Params} (hcap : 1 ≤ P.cap) {w : WState} (hr : WReachable P w)
    (hstuck : ∀ t, wstep P w t = none) :
    w.g.core.isDone = true ∧ ∀ l p, w.g.core.pc l = some p → p = .done :=
  w_stuck_all_done hcap hr hstuck

/-- `0 → 1`, target 1 unknown, limit one -/
def unknownDep : Params where
  deps := fun l => match l with | 0 => [1] | _ => []
  known := fun l => l != 1
  bodyOk := fun _ => true
  cap := 1
  root := 0

def unknownDepSched : List Tid := [.main, .main, .tgt 0, .tgt 0, .tgt 0, .tgt 0, .tgt 0, .tgt 0, .tgt 0, .tgt 0, .tgt 0, .tgt 1, .tgt 1, .tgt 1, .tgt 1, .tgt 1]

/-- Regression witness (seeded change: the `LoadTarget`-error exit of `run` unlocks without `Broadcast`): target 0 goes
    to sleep waiting for the unknown target 1, target 1 fails to load and stores its status without waking anybody;
    0 and the caller of `Run` sleep for ever although 1 has finished. `C04_no_lost_wakeup_status` and
    `C05_deadlock_free_broadcast` fail for that code. -/
theorem C04_exit_without_broadcast_counterexample :
    ∃ w, WReachableV .noBroadcastOnLoadFailure unknownDep w ∧ w.g.core.isDone = false ∧
      w.wsleep (.tgt 0) = true ∧ w.g.core.status 1 = .failed ∧
      (threads w.g.core).all (fun t => (wstepV .noBroadcastOnLoadFailure unknownDep w t).isNone) = true := by
  have h : ∃ w, wrunSched .noBroadcastOnLoadFailure unknownDep (winit unknownDep) unknownDepSched = some w ∧
      w.g.core.isDone = false ∧ w.wsleep (.tgt 0) = true ∧ w.g.core.status 1 = .failed ∧
      (threads w.g.core).all (fun t => (wstepV .noBroadcastOnLoadFailure unknownDep w t).isNone) = true := by
    decide +kernel
  obtain ⟨w, h1, h2⟩ := h
  exact ⟨w, wreachableV_of_wrunSched _ .init h1, h2⟩

/-- the diamond with room for everybody (limit four) -/
def diamond4 : Params where
  deps := fun l => match l with | 0 => [1, 2] | 1 => [3] | 2 => [3] | _ => []
  known := fun _ => true
  bodyOk := fun _ => true
  cap := 4
  root := 0

def diamondSignalSched : List Tid := [.main, .main, .tgt 0, .tgt 0, .tgt 0, .tgt 0, .tgt 0, .tgt 0, .tgt 0, .tgt 0, .tgt 0, .tgt 0, .tgt 0, .tgt 1, .tgt 1, .tgt 1, .tgt 1, .tgt 1, .tgt 1, .tgt 1, .tgt 1, .tgt 1, .tgt 2, .tgt 2, .tgt 2, .tgt 2, .tgt 2, .tgt 2, .tgt 2, .tgt 2, .tgt 2, .tgt 3, .tgt 3, .tgt 3, .tgt 3, .tgt 3, .tgt 3, .tgt 3, .tgt 3, .tgt 3, .tgt 3, .tgt 1, .tgt 1, .tgt 1, .tgt 1, .tgt 1, .tgt 0, .tgt 0, .tgt 1, .tgt 1, .tgt 3, .tgt 3]

/-- Regression witness (`Signal` instead of `Broadcast`): in the diamond both 1 and 2 sleep waiting for 3; when 3
    finishes only the longer sleeper is woken, 2 sleeps for ever on a finished target and the build never ends. -/
theorem C04_signal_instead_of_broadcast_counterexample :
    ∃ w, WReachableV .signal diamond4 w ∧ w.g.core.isDone = false ∧
      w.wsleep (.tgt 2) = true ∧ (w.g.core.status 3).final = true ∧
      (threads w.g.core).all (fun t => (wstepV .signal diamond4 w t).isNone) = true := by
  have h : ∃ w, wrunSched .signal diamond4 (winit diamond4) diamondSignalSched = some w ∧
      w.g.core.isDone = false ∧ w.wsleep (.tgt 2) = true ∧ (w.g.core.status 3).final = true ∧
      (threads w.g.core).all (fun t => (wstepV .signal diamond4 w t).isNone) = true := by
    decide +kernel
  obtain ⟨w, h1, h2⟩ := h
  exact ⟨w, wreachableV_of_wrunSched _ .init h1, h2⟩

/-- under the code (`Broadcast` on both exits) the same two schedules leave nobody asleep on a finished target -/
example : ((wrunSched .broadcast unknownDep (winit unknownDep) unknownDepSched).map fun w =>
    (w.wsleep (.tgt 0), (wstep unknownDep w (.tgt 0)).isSome)) = some (false, true) := by decide +kernel
example : ((wrunSched .broadcast diamond4 (winit diamond4) (diamondSignalSched.take 45)).map fun w =>
    (w.wsleep (.tgt 1), w.wsleep (.tgt 2))) = some (false, false) := by decide +kernel

/-- C05 (D17 repaired): when `Run` returns, every started target has ended — the build is over. -/
theorem C05_run_waits_all {P : Params} {s : State} (hr : Reachable P s) (e : Err) (hd : s.main = .done e) :
    ∀ l p, s.pc l = some p → p = .done :=
  run_waits_all hr e hd

/-- C05: a waiting set is published only while its owner is between `waiting.Swap(&targets)` and the (deferred)
    `waiting.Swap(nil)`; in particular a target that has finished — also one that reported a cycle — has withdrawn it,
    so no later cycle walk can read a stale set (a leftover self-loop would be walked for ever). -/
theorem C05_unpublished_when_done {P : Params} {s : State} (hr : Reachable P s) (l : Label)
    (hf : (s.status l).final = true) : s.waiting l = none := by
  have inv := hr.inv
  obtain ⟨p, hp⟩ := inv.pc_of_not_idle (l := l) (by intro c; rw [c] at hf; cases hf)
  have hpf : p.final = true := by
    cases h : p.final with
    | true => rfl
    | false => rw [inv.running_of hp h] at hf; cases hf
  rw [inv.waiting_of hp]
  cases p <;> simp_all [PC.final, PC.published]

/-- … and exactly the threads inside that window are published -/
theorem C05_published_iff {P : Params} {s : State} (hr : Reachable P s) (l : Label) :
    (s.waiting l).isSome = true ↔ ∃ p, s.pc l = some p ∧ p.published = true := by
  have inv := hr.inv
  cases hp : s.pc l with
  | none => have := inv.waiting l; rw [hp] at this; simp [this, expWaiting]
  | some p => rw [inv.waiting_of hp]; cases h : p.published <;> simp [h]

/-- C05: on a graph whose part reachable from the requested target is acyclic, no cyclic-dependency error is
    ever found or handed to anyone. -/
theorem C05_no_false_cycle {P : Params} (hac : ∀ x, ReachRT P P.root x → ¬ Path P x x)
    {s : State} (hr : Reachable P s) (l : Label) :
    s.cyc l = false ∧ ∀ p, s.pc l = some p → p.cycFound = false := by
  have i3 := hr.inv3
  constructor
  · cases hc : s.cyc l with
    | false => rfl
    | true =>
      have hp := i3.cyc l hc
      obtain ⟨q, hq, _⟩ := hr.inv.cyc l hc
      exact absurd hp (hac l (i3.reach l (by rw [hq]; simp)))
  · intro p hp
    cases hf : p.cycFound with
    | false => rfl
    | true => exact absurd (i3.found l p hp hf) (hac l (i3.reach l (by rw [hp]; simp)))

/-- C05: a cyclic-dependency error is only ever handed to a target that lies on a cycle. -/
theorem C05_cycle_error_on_cycle {P : Params} {s : State} (hr : Reachable P s) (l : Label)
    (hc : s.cyc l = true) : Path P l l ∧ ReachRT P P.root l := by
  obtain ⟨q, hq, _⟩ := hr.inv.cyc l hc
  exact ⟨hr.inv3.cyc l hc, hr.inv3.reach l (by rw [hq]; simp)⟩

/-- C05: if the targets reachable from the requested one contain a cycle (a self-dependency included), a build
    that has finished has failed, and a cyclic-dependency error was reported to some target. -/
theorem C05_cycle_reported {P : Params} (x : Label) (hx : ReachRT P P.root x) (hcyc : Path P x x)
    {s : State} (hr : Reachable P s) (e : Err) (hd : s.main = .waitAll e ∨ s.main = .done e) :
    e ≠ .none ∧ ∃ l, s.cyc l = true := by
  obtain ⟨he, hroot⟩ := hr.inv.mainD e hd
  constructor
  · intro hn
    rw [hn] at he
    -- a successful root would make the whole reachable graph succeed in dependency order
    have hxs : (s.status x).final = true ∧ s.err x = .none := by
      rcases hx with rfl | hp
      · exact ⟨hroot, he.symm⟩
      · obtain ⟨h1, h2, _⟩ := succeeded_along_path hr hp hroot he.symm
        exact ⟨h1, h2⟩
    obtain ⟨_, _, h3⟩ := succeeded_along_path hr hcyc hxs.1 hxs.2
    omega
  · apply Classical.byContradiction
    intro hno
    have hnc : ∀ l, s.cyc l = false := by
      intro l
      cases h : s.cyc l with
      | false => rfl
      | true => exact absurd ⟨l, h⟩ hno
    have hxf : (s.status x).final = true := by
      rcases hx with rfl | hp
      · exact hroot
      · exact (final_along_path hr.inv4 hnc hp hroot).1
    have := (final_along_path hr.inv4 hnc hcyc hxf).2
    omega

/-- C05, termination: on a finite graph (`nodes` contains the requested target and is closed under dependencies)
    every step other than a read of the cycle walk strictly decreases the measure `mu` (the number of such steps
    the threads still have to take). With `C05_deadlock_free` this is termination under weak fairness: a walk
    read can repeat only while two *other* targets are between publishing and un-publishing a cycle, and each of
    them is enabled (DESIGN.md §4); fairness itself is an assumption about the Go scheduler. -/
theorem C05_progress {P : Params} {nodes : List Label} (hroot : P.root ∈ nodes)
    (hclosed : ∀ l ∈ nodes, ∀ d ∈ P.deps l, d ∈ nodes)
    {s s' : State} {t : Tid} (hr : Reachable P s) (h : step P s t = some s') :
    (∃ l d rest, t = .tgt l ∧ s.pc l = some (.walk (d :: rest)) ∧ d ≠ l) ∨ mu P nodes s' < mu P nodes s :=
  progress hroot hclosed hr h

/-! ## non-vacuity: concrete graphs, schedules and reachable states -/

/-- a diamond `0 → 1, 2 → 3`, limit one -/
def diamond : Params where
  deps := fun l => match l with | 0 => [1, 2] | 1 => [3] | 2 => [3] | _ => []
  known := fun _ => true
  bodyOk := fun _ => true
  cap := 1
  root := 0

/-- `0 ⇄ 1`, limit one -/
def twoCycle : Params where
  deps := fun l => match l with | 0 => [1] | 1 => [0] | _ => []
  known := fun _ => true
  bodyOk := fun _ => true
  cap := 1
  root := 0

/-- a complete schedule of the diamond recorded from the real runner under the controlled scheduler -/
def diamondSched : List Tid :=
  [.main, .tgt 0, .tgt 0, .tgt 0, .tgt 0, .tgt 0, .tgt 0, .tgt 1, .tgt 1, .tgt 1, .tgt 1, .tgt 2, .tgt 1, .tgt 1,
   .tgt 1, .tgt 0, .tgt 0, .tgt 2, .tgt 2, .tgt 0, .tgt 2, .tgt 3, .tgt 3, .tgt 1, .tgt 2, .tgt 0, .tgt 0, .tgt 2,
   .tgt 2, .tgt 3, .tgt 3, .tgt 3, .tgt 2, .tgt 3, .tgt 3, .tgt 3, .tgt 3, .tgt 3, .tgt 2, .tgt 1, .tgt 1, .tgt 2,
   .tgt 3, .tgt 1, .tgt 3, .tgt 1, .tgt 1, .tgt 0, .tgt 1, .tgt 2, .tgt 1, .tgt 2, .tgt 2, .tgt 0, .tgt 2, .tgt 0,
   .tgt 0, .tgt 2, .tgt 0, .tgt 0, .main, .tgt 0, .tgt 0, .main]

/-- a complete schedule of `0 ⇄ 1` recorded from the real runner: target 1 finds the cycle -/
def twoCycleSched : List Tid :=
  [.main, .tgt 0, .tgt 0, .tgt 0, .tgt 0, .tgt 0, .tgt 0, .tgt 0, .tgt 1, .tgt 1, .tgt 0, .tgt 1, .tgt 1, .tgt 1,
   .tgt 1, .tgt 1, .tgt 1, .tgt 1, .tgt 1, .tgt 1, .tgt 1, .tgt 0, .tgt 0, .tgt 1, .tgt 1, .tgt 0, .tgt 0, .tgt 0,
   .main, .tgt 0, .tgt 0, .main]

def obs (s : State) : List Status × Option Err × Nat × List Bool × List Nat :=
  ((List.range 4).map s.status, s.result, s.capacity, (List.range 4).map s.cyc, (List.range 4).map s.evals)

/-- the diamond builds: all four targets evaluated once, success, the slot is back (hypotheses of
    `C04_result`, `C09_all_returned`, `C05_run_waits_all`, `C05_no_false_cycle` are satisfiable) -/
example : (runSched (step diamond) (init diamond) diamondSched).map obs =
    some ([.succeeded, .succeeded, .succeeded, .succeeded], some .none, 1, [false, false, false, false], [1, 1, 1, 1]) := by
  decide

example : ∃ s, Reachable diamond s ∧ s.main = .done .none := by
  have h : ∃ s, runSched (step diamond) (init diamond) diamondSched = some s ∧ s.main = .done .none := by
    decide +kernel
  obtain ⟨s, h1, h2⟩ := h
  exact ⟨s, reachable_of_runSched _ .init h1, h2⟩

/-- the two-cycle build fails and reports the cycle (hypotheses of `C05_cycle_reported` are satisfiable) -/
example : (runSched (step twoCycle) (init twoCycle) twoCycleSched).map obs =
    some ([.failed, .failed, .idle, .idle], some .depFailed, 1, [false, true, false, false], [1, 1, 0, 0]) := by
  decide

example : ReachRT twoCycle twoCycle.root 0 ∧ Path twoCycle 0 0 :=
  ⟨Or.inl rfl, .cons (b := 1) (by decide) (.single (by decide))⟩

/-- the diamond is acyclic: hypothesis of `C05_no_false_cycle` -/
example : ∀ x, ReachRT diamond diamond.root x → ¬ Path diamond x x := by
  -- every edge of the diamond goes to a strictly larger label
  have edge_lt : ∀ a b, b ∈ edges diamond a → a < b := by
    intro a b h
    match a with
    | 0 => simp [edges, diamond] at h; rcases h with rfl | rfl <;> decide
    | 1 => simp [edges, diamond] at h; subst h; decide
    | 2 => simp [edges, diamond] at h; subst h; decide
    | n + 3 => simp [edges, diamond] at h
  have mono : ∀ a b, Path diamond a b → a < b := by
    intro a b h
    induction h with
    | single h1 => exact edge_lt _ _ h1
    | cons h1 _ ih => exact Nat.lt_trans (edge_lt _ _ h1) ih
  intro x _ h
  exact Nat.lt_irrefl _ (mono x x h)

/-- the diamond's node set is closed: hypotheses of `C05_progress`; its measure starts at 75 and ends at 0 -/
example : diamond.root ∈ [0, 1, 2, 3] ∧ ∀ l ∈ [0, 1, 2, 3], ∀ d ∈ diamond.deps l, d ∈ [0, 1, 2, 3] := by decide

example : mu diamond [0, 1, 2, 3] (init diamond) = 75 ∧
    (runSched (step diamond) (init diamond) diamondSched).map (mu diamond [0, 1, 2, 3]) = some 0 := by decide

/-! ## regression witness for D17 (`Run` returned as soon as the requested target had finished) -/

/-- `0 ⇄ 1` under the code before the repair: target 0 finds the cycle, fails, `Run` returns — target 1 is
    still running. (Replayed on the implementation: `corpus/C05/D17-run-returns-early.json`.) -/
def d17Sched : List Tid :=
  [.main, .tgt 0, .tgt 0, .tgt 0, .tgt 0, .tgt 0, .tgt 1, .tgt 1, .tgt 1, .tgt 1, .tgt 1, .tgt 1,
   .tgt 0, .tgt 0, .tgt 0, .tgt 0, .tgt 0, .tgt 0, .tgt 0, .main]

theorem C05_run_returns_early_counterexample :
    ∃ s, ReachableOld twoCycle s ∧ s.isDone = true ∧ s.status 1 = .running := by
  have h : ∃ s, runSched (stepOld twoCycle) (init twoCycle) d17Sched = some s ∧ s.isDone = true ∧
      s.status 1 = .running := by
    decide +kernel
  obtain ⟨s, h1, h2, h3⟩ := h
  exact ⟨s, reachableOld_of_runSched _ .init h1, h2, h3⟩

/-- the same schedule under the repaired `Run`: it does not return here (it is blocked in `running.Wait()`) -/
example : ((runSched (step twoCycle) (init twoCycle) d17Sched).map fun s => (s.isDone, s.live)) = some (false, 2) := by
  decide

end Dawn.Runner

import Dawn.Proofs.LineWriter
/-!
# C18 — build events and target output follow a well-formed protocol

Property theorems only. `Dawn.LineWriter.write`/`flush` model `(*lineWriter).Write`/`Flush` (lineWriter.go),
`Dawn.Events.evaluate` models the event emissions of `runTarget.Evaluate` (target.go) and
`Dawn.Events.projectRun` the tail of `Project.Run` (project.go). They are tied to the source by
`Dawn/Ties/LineWriter.lean` and by the correspondence streams `lw.*`, `ev.*` of `checks/C18.py`.
-/
namespace Dawn.LineWriter

/-- C18, output delivery. The theorem is about ONE writer receiving ONE sequence of `Write` calls (the line
writer has no lock). That hypothesis is established by the code, not assumed silently: a target body's stdout
and stderr are the identical writer and every builtin that runs a process passes the two on unwrapped, so `os/exec`
and the shell interpreter copy from a single pipe in a single goroutine — tie `single_writer_ok` in
`Dawn/Ties/LineWriter.lean`, and the harness runs real processes writing to both streams (stream `ev.output`,
judge `process-lines`, and the race detector in the thorough tier).

Whatever the chunking of the writes, a fresh writer followed by `Flush` delivers
exactly the lines of the concatenated output, in order, each once (the final partial line included), and
ends with an empty builder. -/
theorem C18_lines (chunks : List Bytes) :
    (run [] (chunks.map Op.write ++ [Op.flush])).2 = splitLines chunks.flatten ∧
    (run [] (chunks.map Op.write ++ [Op.flush])).1 = [] := by
  have h := run_writes_spec [] chunks []
  simp only [List.append_nil] at h
  obtain ⟨f1, f2⟩ := flush_spec (run [] (chunks.map Op.write)).1
  simp only [run] at *
  rw [runWith_append]
  simp only [runWith, List.append_nil]
  refine ⟨?_, f2⟩
  rw [splitLines, h, f1]

/-- C18, chunking independence, stated directly: two ways of cutting the same output deliver the same lines. -/
theorem C18_lines_chunking (c₁ c₂ : List Bytes) (h : c₁.flatten = c₂.flatten) :
    (run [] (c₁.map Op.write ++ [Op.flush])).2 = (run [] (c₂.map Op.write ++ [Op.flush])).2 := by
  rw [(C18_lines c₁).1, (C18_lines c₂).1, h]

/-- C18, lines are delivered as soon as they are complete: while the body is still writing (no flush yet) the
lines already delivered plus the pending partial line account for exactly what has been written. -/
theorem C18_lines_incremental (chunks : List Bytes) :
    splitLines chunks.flatten =
      (run [] (chunks.map Op.write)).2 ++ linesFrom (run [] (chunks.map Op.write)).1 [] := by
  have h := run_writes_spec [] chunks []
  simpa [splitLines] using h

/-- C18, reuse (the repair of D10): after `Flush` the writer is a fresh one — whatever was done before, the
builder is empty, so a second run on the same loaded project starts from the state `newLineWriter` gives. -/
theorem C18_reuse (line : Bytes) (ops ops' : List Op) :
    (run line (ops ++ [Op.flush])).1 = [] ∧
    run line (ops ++ [Op.flush] ++ ops') =
      ((run [] ops').1, (run line (ops ++ [Op.flush])).2 ++ (run [] ops').2) := by
  have h1 : (run line (ops ++ [Op.flush])).1 = [] := by
    simp only [run]
    rw [runWith_append]
    simp only [runWith]
    exact (flush_spec _).2
  refine ⟨h1, ?_⟩
  simp only [run] at *
  rw [runWith_append, h1]

/-- two builds in a row on one writer: each delivers exactly its own lines -/
theorem C18_two_runs (c₁ c₂ : List Bytes) :
    (run [] (c₁.map Op.write ++ [Op.flush] ++ (c₂.map Op.write ++ [Op.flush]))).2 =
      splitLines c₁.flatten ++ splitLines c₂.flatten := by
  rw [(C18_reuse [] (c₁.map Op.write) (c₂.map Op.write ++ [Op.flush])).2]
  simp only [(C18_lines c₁).1, (C18_lines c₂).1]

/-- D10 (regression witness): with `Flush` as it was (no `Reset`), a partial line left by the first run is
delivered again, glued to the first line of the second run. -/
theorem C18_reuse_counterexample :
    let a : Bytes := [97]            -- "a"
    let b : Bytes := [98, 10]        -- "b\n"
    (runOld [] [.write a, .flush, .write b, .flush]).2 = [[97], [97, 98]] ∧
    splitLines a ++ splitLines b = [[97], [98]] ∧
    (runOld [] [.write a, .flush]).1 ≠ [] := by
  simp [runOld, runWith, write, cutNL, flushOld, nl, splitLines, linesFrom]

/-! non-vacuity: concrete chunkings, including a newline at a chunk boundary and an empty chunk -/
example : (run [] ([[97, 10, 98], [], [99, 10], [10, 100]].map Op.write ++ [Op.flush])).2
    = [[97], [98, 99], [], [100]] := by simp [run, runWith, write, cutNL, flush, nl]
example : splitLines [97, 10, 98, 99, 10, 10, 100] = [[97], [98, 99], [], [100]] := by decide
example : (run [] ([[97], [10], [98]].map Op.write)) = ([98], [[97]]) := by simp [run, runWith, write, cutNL, nl]

end Dawn.LineWriter

namespace Dawn.Events

/-- the first dependency that did not succeed, if any -/
def firstFailed : List Dep → Option Dep
  | [] => none
  | .ok :: ds => firstFailed ds
  | d :: _ => some d

theorem firstFailed_ne_ok (ds : List Dep) : firstFailed ds ≠ some .ok := by
  induction ds with
  | nil => simp [firstFailed]
  | cons d ds ih => cases d <;> simp [firstFailed, ih]

theorem depLoop_eq (ds : List Dep) :
    depLoop ds = match firstFailed ds with
      | none => none
      | some .other => some []
      | some _ => some [.failed] := by
  induction ds with
  | nil => rfl
  | cons d ds ih => cases d <;> simp [depLoop, firstFailed, ih]

/-- C18, shape: the events a target reports for itself are one of the five allowed sequences, each exactly
under its side condition (DESIGN.md §4): nothing iff its first failed dependency failed for a reason other
than being missing or cyclic; a lone `failed` iff that dependency is missing or cyclic, or the up-to-date
check itself failed; `upToDate` iff the skip test held; otherwise `evaluating` followed by exactly one of
`succeeded` / `failed`. `Evaluate` returns an error exactly when it reported `failed` or nothing. -/
theorem C18_shape (f : Facts) :
    let evs := (evaluate f).1
    (evs = [] ∨ evs = [.upToDate] ∨ evs = [.evaluating, .succeeded] ∨ evs = [.evaluating, .failed] ∨ evs = [.failed]) ∧
    (evs = [] ↔ firstFailed f.deps = some .other) ∧
    (evs = [.failed] ↔ firstFailed f.deps = some .missing ∨ firstFailed f.deps = some .cyclic ∨
                        (firstFailed f.deps = none ∧ f.upToDateErr = true)) ∧
    (evs = [.upToDate] ↔ firstFailed f.deps = none ∧ f.upToDateErr = false ∧ f.skip = true) ∧
    (evs = [.evaluating, .succeeded] ↔ firstFailed f.deps = none ∧ f.upToDateErr = false ∧ f.skip = false ∧
                        (f.dryRun = true ∨ ((f.isTarget = false ∨ f.preSaveOk = true) ∧ f.bodyOk = true ∧ f.saveOk = true))) ∧
    (evs = [.evaluating, .failed] ↔ firstFailed f.deps = none ∧ f.upToDateErr = false ∧ f.skip = false ∧
                        f.dryRun = false ∧
                        ((f.isTarget = true ∧ f.preSaveOk = false) ∨ f.bodyOk = false ∨ f.saveOk = false)) ∧
    ((evaluate f).2 = true ↔ evs = [] ∨ evs = [.failed] ∨ evs = [.evaluating, .failed]) := by
  intro evs
  simp only [evs, evaluate, depLoop_eq]
  cases hff : firstFailed f.deps with
  | some d =>
    have := firstFailed_ne_ok f.deps
    cases d <;> simp_all
  | none =>
    cases f.upToDateErr <;> cases f.skip <;> cases f.dryRun <;> cases f.isTarget <;> cases f.preSaveOk <;>
      cases f.bodyOk <;> cases f.saveOk <;> simp

/-- C18: `evaluating` is reported exactly when the body runs, or would run were this not a dry run; it is
reported at most once and before any other event of the target; and in a real build it is reported iff the
body is called — unless the in-progress record a function target writes first cannot be written (an I/O fault:
the target then fails before its body). -/
theorem C18_eval_iff (f : Facts) :
    (.evaluating ∈ (evaluate f).1 ↔ bodyWouldRun f = true) ∧
    ((evaluate f).1.count .evaluating ≤ 1) ∧
    (.evaluating ∈ (evaluate f).1 → (evaluate f).1.head? = some .evaluating) ∧
    (bodyRuns f = true ↔ .evaluating ∈ (evaluate f).1 ∧ f.dryRun = false ∧ (f.isTarget = true → f.preSaveOk = true)) := by
  simp only [evaluate, bodyWouldRun, bodyRuns, depLoop_eq]
  cases hff : firstFailed f.deps with
  | some d =>
    have := firstFailed_ne_ok f.deps
    cases d <;> simp_all
  | none =>
    cases f.upToDateErr <;> cases f.skip <;> cases f.dryRun <;> cases f.isTarget <;> cases f.preSaveOk <;>
      cases f.bodyOk <;> cases f.saveOk <;> simp

/-- C18: a target that fails — for whatever reason, reported or not — is an `other` failure to its dependents,
so (being their first failed dependency) it makes them report nothing; a target that did not fail is `ok`. -/
theorem C18_downstream (f : Facts) :
    depOf false (some (evaluate f)) = (if (evaluate f).2 then Dep.other else Dep.ok) ∧
    ∀ g : Facts, g.deps = [depOf false (some (evaluate f))] → (evaluate f).2 = true → evaluate g = ([], true) := by
  constructor
  · simp only [depOf, Bool.false_eq_true, ↓reduceIte]
    cases h : (evaluate f) with
    | mk a b => cases b <;> simp
  · intro g hg he
    have hd : depOf false (some (evaluate f)) = .other := by
      simp only [depOf, Bool.false_eq_true, ↓reduceIte]
      cases h : (evaluate f) with
      | mk a b => rw [h] at he; simp only at he; subst he; rfl
    rw [hd] at hg
    simp [evaluate, hg, depLoop]

/-- C18, output inside the window: when the body of a target runs and writes `chunks` (any chunking), what the
target delivers is `evaluating`, then exactly the lines of the concatenated output, each once and in order, then
exactly one of `succeeded` / `failed` — and the writer is left empty for the next build; when the body does not
run (up to date, dry run, failed dependency or up-to-date check) no line is delivered at all. -/
theorem C18_output (f : Facts) (chunks : List (List UInt8)) :
    (bodyRuns f = true →
      ∃ last, (last = Ev.succeeded ∨ last = Ev.failed) ∧
        evaluateOut f [] chunks =
          ([Out.ev .evaluating] ++ (LineWriter.splitLines chunks.flatten).map Out.print ++ [Out.ev last],
           (evaluate f).2, [])) ∧
    (bodyRuns f = false →
      evaluateOut f [] chunks = ((evaluate f).1.map Out.ev, (evaluate f).2, []) ∧
      ∀ o ∈ (evaluateOut f [] chunks).1, ∀ l, o ≠ Out.print l) := by
  constructor
  · intro hb
    have hl := LineWriter.C18_lines chunks
    simp only [evaluateOut, hb, ↓reduceIte, hl.1, hl.2]
    simp only [evaluate, bodyRuns, depLoop_eq] at hb ⊢
    cases hff : firstFailed f.deps with
    | some d => cases d <;> simp [hff] at hb
    | none =>
      simp only [hff] at hb ⊢
      cases h1 : f.upToDateErr <;> cases h2 : f.skip <;> cases h3 : f.dryRun <;> cases h4 : f.isTarget <;>
        cases h5 : f.preSaveOk <;> simp [h1, h2, h3, h4, h5] at hb ⊢ <;>
        cases f.bodyOk <;> cases f.saveOk <;> simp
  · intro hb
    simp only [evaluateOut, hb, Bool.false_eq_true, ↓reduceIte, true_and]
    intro o ho l
    obtain ⟨e, _, rfl⟩ := List.mem_map.mp ho
    simp

/-- C18: run-done is delivered exactly once, after every event of the run (in particular after the requested
target's last event), and carries the error `Run` returns, which is the requested target's result. -/
theorem C18_rundone {L : Type} [DecidableEq L] (body : List (RunEv L) × Bool)
    (hbody : ∀ e ∈ body.1, ∀ err, e ≠ .runDone err) :
    let r := projectRun body
    r.2 = body.2 ∧
    r.1.getLast? = some (.runDone body.2) ∧
    (r.1.filter (fun e => match e with | .runDone _ => true | _ => false)) = [.runDone body.2] ∧
    r.1.dropLast = body.1 := by
  intro r
  simp only [r, projectRun, List.getLast?_append, List.getLast?_singleton, List.filter_append,
    List.dropLast_concat, true_and]
  refine ⟨by simp, ?_⟩
  have : body.1.filter (fun e => match e with | .runDone _ => true | _ => false) = [] := by
    rw [List.filter_eq_nil_iff]
    intro e he
    cases e with
    | runDone err => exact absurd rfl (hbody _ he err)
    | target _ _ => simp
    | print _ _ => simp
  rw [this]
  simp

/-! non-vacuity: each allowed shape is produced by concrete facts -/
def sample : Facts := { deps := [.ok, .ok], upToDateErr := false, always := false, depsUpToDate := true,
                        upToDate := true, rerun := false, dryRun := false, isTarget := true, preSaveOk := true,
                        bodyOk := true, saveOk := true }
example : evaluate sample = ([.upToDate], false) := by decide
example : evaluate { sample with upToDate := false } = ([.evaluating, .succeeded], false) := by decide
example : evaluate { sample with rerun := true, bodyOk := false } = ([.evaluating, .failed], true) := by decide
example : evaluate { sample with upToDate := false, saveOk := false } = ([.evaluating, .failed], true) := by decide
example : evaluate { sample with upToDate := false, preSaveOk := false } = ([.evaluating, .failed], true) := by decide
example : bodyRuns { sample with upToDate := false, preSaveOk := false } = false := by decide
example : evaluate { sample with deps := [.ok, .missing, .other] } = ([.failed], true) := by decide
example : evaluate { sample with deps := [.ok, .cyclic] } = ([.failed], true) := by decide
example : evaluate { sample with deps := [.other, .missing] } = ([], true) := by decide
example : evaluate { sample with always := true, dryRun := true, bodyOk := false } = ([.evaluating, .succeeded], false) := by decide
example : (projectRun (L := Nat) ([.target 1 .evaluating, .print 1 [97], .target 1 .failed], true)).1.getLast? =
    some (.runDone true) := by decide

end Dawn.Events

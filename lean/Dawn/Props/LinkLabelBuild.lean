import Dawn.Props.Label
import Dawn.Props.Build
/-!
# One `targetInfoPath`, two models: the link between `Dawn.Label` (C12) and `Dawn.Build` (C14)

`project.go:targetInfoPath` and `url.PathEscape` are modelled twice, by hand: in `Dawn/Model/Label.lean`
(`targetInfoPathGo`, `pathEscape`; theorems `C12_record_path_injective`, `C12_record_path_below`) and in
`Dawn/Model/Build.lean` (`targetInfoPath`, `pathEscape`; theorem `C14_path_injective`). This file proves that they are
the same function, so that neither can drift without this module ceasing to build:

* the Build model keeps a label as `(kind, package without its leading "//", name)` and answers the pair
  `(directory, file name)` below `.dawn/build`; the Label model keeps the whole `label.Label` (with project, package
  *with* `//`) and answers the full path `filepath.Join(work, directory, file name)`, i.e. it also models the cleaning
  that `filepath.Join` performs. `toLabel` / `ofLabel` translate.
* `C12_path_escape_models_agree`: the two models of `url.PathEscape` are equal on every byte string.
* `C12_target_info_path_models_agree`: for every Build label, Build's pair is `(tipDir, tipSeg)` of the translated
  label, and the Label model's path is `path.Clean(work + "/" + dir + "/" + file)` of exactly that pair.
* the injectivity theorems follow from one another through the link (`C14_path_injective_from_C12`,
  `C12_record_path_injective_from_C14`).

One difference, which is about what is *claimed*, not about the functions: Build's `Storable` does not exclude a `/`
inside the kind, because its model stops before `filepath.Join`. With such kinds the real path is not injective
(`link_kind_with_slash_counterexample`: the kinds `a` and `x/../a` — the real function, run on both, answers
`…/as/p%2Fn` twice). No kind the system uses contains a `/` (`label.New` rejects it); the Label model's `TipOK`
states that condition, and the corollary below carries it.
-/
namespace Dawn.Link
open Dawn

/-- a Build label as a `label.Label` of the project itself -/
def toLabel (l : Build.LabelS) : Label.Label := ⟨l.kind, [], [Label.slash, Label.slash] ++ l.pkg, l.name⟩

/-- the Build view of a label (meaningful for absolute packages) -/
def ofLabel (l : Label.Label) : Build.LabelS := ⟨l.kind, l.pkg.drop 2, l.name⟩

theorem ofLabel_toLabel (l : Build.LabelS) : ofLabel (toLabel l) = l := by
  cases l; rfl

set_option maxRecDepth 100000 in
theorem escape_byte_agree (c : UInt8) :
    ((if Build.shouldEscape c then [37, Build.upperHex (c >>> 4), Build.upperHex (c &&& 15)] else [c]) ==
      (if Label.pathEscapeKeeps c then [c] else [37, Label.hexUpper (c.toNat / 16), Label.hexUpper (c.toNat % 16)])) = true :=
  Label.forall_byte (fun c => (if Build.shouldEscape c then [37, Build.upperHex (c >>> 4), Build.upperHex (c &&& 15)] else [c]) ==
      (if Label.pathEscapeKeeps c then [c] else [37, Label.hexUpper (c.toNat / 16), Label.hexUpper (c.toNat % 16)])) (by decide) c

/-- the two models of `url.PathEscape` are the same function -/
theorem C12_path_escape_models_agree (s : List UInt8) : Build.pathEscape s = Label.pathEscape s := by
  induction s with
  | nil => rfl
  | cons c s ih =>
    have hc := escape_byte_agree c
    simp only [beq_iff_eq] at hc
    have step : Build.pathEscape (c :: s) =
        (if Build.shouldEscape c then [37, Build.upperHex (c >>> 4), Build.upperHex (c &&& 15)] else [c]) ++ Build.pathEscape s := by
      simp only [Build.pathEscape]
      split <;> rfl
    rw [step, hc, ih]
    unfold Label.pathEscape
    rw [List.flatMap_cons]

/-- Build's `(directory, file name)` is the Label model's `(tipDir, tipSeg)` of the translated label -/
theorem build_path_eq_tip (l : Build.LabelS) :
    Build.targetInfoPath l = (Label.tipDir (toLabel l), Label.tipSeg (toLabel l)) := by
  obtain ⟨k, g, n⟩ := l
  unfold Build.targetInfoPath Label.tipDir Label.tipSeg toLabel
  simp only [C12_path_escape_models_agree]
  have hk : (if (k == []) = true then Build.kindTarget else k) = (if k = [] then Label.defaultKind else k) := by
    by_cases h : k = []
    · subst h; rfl
    · have : (k == []) = false := by simpa using h
      simp [this, h]
  have hn : (if (n == []) = true then Build.nameBuild else n) = (if n = [] then Label.defaultTarget else n) := by
    by_cases h : n = []
    · subst h; rfl
    · have : (n == []) = false := by simpa using h
      simp [this, h]
  simp only [hk, hn]
  rfl

/-- the two models of `targetInfoPath` agree: the Label model's path is `filepath.Join(work, dir, file)` of the pair the
Build model answers, for every Build label and every work directory -/
theorem C12_target_info_path_models_agree (work : List UInt8) (l : Build.LabelS) :
    Label.targetInfoPathGo work (toLabel l) =
      .ok (Label.pathClean (work ++ [Label.slash] ++ (Build.targetInfoPath l).1 ++ [Label.slash] ++ (Build.targetInfoPath l).2)) := by
  rw [build_path_eq_tip]
  exact Label.tip_eq work (toLabel l) (by simp [toLabel, Label.hasPrefixSS])

/-- a storable Build label whose kind has no `/` is a storable label of the Label model -/
theorem tipOK_of_storable {l : Build.LabelS} (h : Build.Storable l) (hk : Label.slash ∉ l.kind) : Label.TipOK (toLabel l) :=
  ⟨rfl, hk, h.kind, by simp [toLabel, Label.hasPrefixSS], h.name, h.noSlash⟩

theorem storable_of_tipOK {l : Label.Label} (h : Label.TipOK l) : Build.Storable (ofLabel l) :=
  ⟨h.kindTarget, h.name, h.nameSlash⟩

/-- sanity corollary: C14's injectivity from C12's, through the link (for kinds without `/`, the condition C12 states) -/
theorem C14_path_injective_from_C12 {l₁ l₂ : Build.LabelS} (h₁ : Build.Storable l₁) (h₂ : Build.Storable l₂)
    (k₁ : Label.slash ∉ l₁.kind) (k₂ : Label.slash ∉ l₂.kind)
    (h : Build.targetInfoPath l₁ = Build.targetInfoPath l₂) : l₁ = l₂ := by
  have hp : Label.targetInfoPathGo [] (toLabel l₁) = Label.targetInfoPathGo [] (toLabel l₂) := by
    rw [C12_target_info_path_models_agree, C12_target_info_path_models_agree, h]
  have := Label.C12_record_path_injective [] _ _ (tipOK_of_storable h₁ k₁) (tipOK_of_storable h₂ k₂) hp
  rw [← ofLabel_toLabel l₁, ← ofLabel_toLabel l₂, this]

/-- … and C12's from C14's: equal full paths have equal `(dir, file)` pairs (the stack argument of
`Proofs/LabelTip.lean`), which are Build's pairs, whose injectivity is `C14_path_injective` -/
theorem C12_record_path_injective_from_C14 (work : List UInt8) (l₁ l₂ : Label.Label) (h₁ : Label.TipOK l₁) (h₂ : Label.TipOK l₂)
    (h : Label.targetInfoPathGo work l₁ = Label.targetInfoPathGo work l₂) : l₁ = l₂ := by
  rw [Label.tip_eq work l₁ h₁.pkgAbs, Label.tip_eq work l₂ h₂.pkgAbs] at h
  simp only [Label.Out.ok.injEq] at h
  obtain ⟨hd, hs⟩ := Label.tip_injective_core work _ _ _ _ (Label.tipDir_normal l₁ h₁.kindSlash) (Label.tipSeg_normal l₁)
    (Label.tipDir_normal l₂ h₂.kindSlash) (Label.tipSeg_normal l₂) h
  have e₁ : toLabel (ofLabel l₁) = l₁ := by
    obtain ⟨k, p, g, n⟩ := l₁
    have := (Label.hasPrefixSS_length h₁.pkgAbs).2
    have hp := h₁.project
    simp only at this hp
    simp only [toLabel, ofLabel, hp]
    rw [List.cons_append, List.cons_append, List.nil_append, ← this]
  have e₂ : toLabel (ofLabel l₂) = l₂ := by
    obtain ⟨k, p, g, n⟩ := l₂
    have := (Label.hasPrefixSS_length h₂.pkgAbs).2
    have hp := h₂.project
    simp only at this hp
    simp only [toLabel, ofLabel, hp]
    rw [List.cons_append, List.cons_append, List.nil_append, ← this]
  have hb : Build.targetInfoPath (ofLabel l₁) = Build.targetInfoPath (ofLabel l₂) := by
    rw [build_path_eq_tip, build_path_eq_tip, e₁, e₂, hd, hs]
  have := Build.C14_path_injective (storable_of_tipOK h₁) (storable_of_tipOK h₂) hb
  rw [← e₁, ← e₂, this]

/-- where the claims differ: Build's `Storable` admits kinds with a `/`; its pairs for the kinds `a` and `x/../a` differ
(so `C14_path_injective` calls the labels distinguishable) while the path the real code computes — the Label model's,
which includes `filepath.Join`'s cleaning — is the same for both. Package `//p`, name `n`, work directory `/w`. -/
theorem link_kind_with_slash_counterexample :
    let l₁ : Build.LabelS := ⟨[97], [112], [110]⟩
    let l₂ : Build.LabelS := ⟨[120, 47, 46, 46, 47, 97], [112], [110]⟩
    Build.Storable l₁ ∧ Build.Storable l₂ ∧ Build.targetInfoPath l₁ ≠ Build.targetInfoPath l₂ ∧
    Label.targetInfoPathGo [47, 119] (toLabel l₁) = Label.targetInfoPathGo [47, 119] (toLabel l₂) := by
  refine ⟨⟨by decide, by decide, by decide⟩, ⟨by decide, by decide, by decide⟩, by decide, by decide⟩

/-! non-vacuity: the label `//docs:.` of kind `source` in both representations, and its record -/
example : Build.Storable ⟨[115, 111, 117, 114, 99, 101], [100, 111, 99, 115], [46]⟩ := ⟨by decide, by decide, by decide⟩
example : Build.targetInfoPath ⟨[115, 111, 117, 114, 99, 101], [100, 111, 99, 115], [46]⟩ =
    ([115, 111, 117, 114, 99, 101, 115], [100, 111, 99, 115, 37, 50, 70, 46]) := by decide
example : Label.targetInfoPathGo [47, 119] (toLabel ⟨[115, 111, 117, 114, 99, 101], [100, 111, 99, 115], [46]⟩) =
    .ok [47, 119, 47, 115, 111, 117, 114, 99, 101, 115, 47, 100, 111, 99, 115, 37, 50, 70, 46] := by decide

end Dawn.Link

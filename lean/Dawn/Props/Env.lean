import Dawn.Proofs.Env
import Dawn.Proofs.EnvTerm
import Dawn.Proofs.EnvClosed
import Dawn.Proofs.EnvRename
import Dawn.Proofs.EnvCompare
import Dawn.Proofs.EnvIso
/-!
# C08 — every target function can be fingerprinted, deterministically

Property theorems only. `encVal` / `encodeOps` / `fingerprint` model the walk of `pickle.Encoder` over a function's
environment with the host pickler of `function.go` (tied to the source by `Dawn/Ties/Env.lean` and by the
correspondence stream `env.fp`: the model's bytes for the graph read off the real `*starlark.Function` are the
bytes the real `functionEnv` produces); `equalDepth` / `diffEnvOld` / `diffEnvFixed` model the use `upToDate`
makes of it (streams `env.eq`, `env.decide`). `Cfg.current` is the repaired tree, `Cfg.original` the tree as found.
-/
namespace Dawn.Env

/-! ## termination -/

/-- C08, "computing its environment fingerprint terminates": for EVERY finite heap — functions, function code and
builtins that reach themselves included; there is no acyclicity hypothesis on host objects — the repaired
traversal with the stated fuel does not run out of fuel. `TuplesOrdered` says that a tuple's elements exist
before the tuple (tuples are immutable), which is how the harness numbers every graph it extracts. -/
theorem C08_terminates (cfg : Cfg) (hfix : cfg.fixed = true) (g : Heap) (hto : TuplesOrdered g) (root : Val) :
    encodeOps cfg g (fuelBound g) root ≠ .error .outOfFuel := by
  have hU : U g {} ≤ 2 * g.length := by
    simp only [U, unmemo, unseen]
    have h1 := List.countP_le_length (p := fun a => (lookup ({} : EncSt).memo a).isNone) (l := List.range g.length)
    have h2 := List.countP_le_length (p := fun a => decide (a ∉ ({} : EncSt).seen)) (l := List.range g.length)
    simp only [List.length_range] at h1 h2
    omega
  have hmu : mu g {} root < fuelBound g := by
    have h1 := Nat.mul_le_mul_right (g.length + 1) hU
    have h2 := rank_le g root
    simp only [mu, fuelBound]
    have : (2 * g.length + 1) * (g.length + 1) = 2 * g.length * (g.length + 1) + (g.length + 1) := by
      rw [Nat.add_mul, Nat.one_mul]
    omega
  have := (encVal_good cfg hfix g hto (fuelBound g) {} root hmu).1
  simp only [encodeOps]
  split
  · next e heq => intro h; simp at h; subst h; exact this heq
  · intro h; simp at h

/-- … "without error": on a closed heap of picklable values the repaired traversal returns the opcodes. -/
theorem C08_terminates_ok (cfg : Cfg) (hfix : cfg.fixed = true) (hm : cfg.mandatory = true) (g : Heap)
    (hto : TuplesOrdered g) (hc : Closed g) (hp : Picklable g) (root : Val) (hr : ValClosed g root) :
    ∃ ops, encodeOps cfg g (fuelBound g) root = .ok ops := by
  have h1 := C08_terminates cfg hfix g hto root
  have h2 := encVal_onlyFuel cfg hm g hc hp (fuelBound g) {} root hr
  simp only [encodeOps] at h1 ⊢
  cases h : encVal cfg g (fuelBound g) {} root with
  | error e =>
    have := h2 e h
    subst this
    rw [h] at h1
    exact absurd rfl h1
  | ok p => exact ⟨_, rfl⟩

/-- the recursive witness of D3 satisfies the hypotheses and is walked by the repaired pickler:
`fact → code → globals → ("fact", fact)` ends in the marker `("dawn","Recursive",("fact", 0))` -/
example : tuplesOrdered gFact = true := by decide +kernel
example : (match encodeOps Cfg.current gFact (fuelBound gFact) (.ref 0) with
    | .ok ops => ops.contains (.str nameRecursive) && ops.contains (.int 0)
    | .error _ => false) = true := by decide +kernel

/-- D3 (regression witness): with the stateless pickler of the original code the walk of a function that calls
itself does not return, whatever the fuel — in the real process a fatal Go stack overflow. -/
theorem C08_recursive_counterexample : ∀ fuel, encodeOps Cfg.original gFact fuel (.ref 0) = .error .outOfFuel := by
  intro fuel
  simp only [encodeOps, encVal_gFact]

/-! ## determinism -/

/-- C08, "two loads of identical project text produce equal fingerprints": the opcodes (hence the bytes) are a
function of the graph up to the addresses of its objects. If `g'` is `g` with every object moved from `a` to
`ρ a` (two loads of the same text: isomorphic graphs at different Go addresses, built in whatever order the
packages were loaded), the walk of `g'` from `ρ root` writes exactly what the walk of `g` from `root` writes,
for every version of the code the model follows. -/
theorem C08_deterministic (cfg : Cfg) (ρ : Nat → Nat) (hρ : Function.Injective ρ) (g g' : Heap)
    (hr : Renames ρ g g') (fuel : Nat) (root : Val) :
    encodeOps cfg g' fuel (root.rename ρ) = encodeOps cfg g fuel root := by
  have h := encVal_rename hρ cfg g g' hr fuel {} root
  have h0 : (({} : EncSt).rename ρ) = {} := rfl
  rw [h0] at h
  simp only [encodeOps, h]
  cases encVal cfg g fuel {} root with
  | error e => rfl
  | ok p => rfl

/-- a concrete instance: a shared list, a cycle and a recursive function, laid out at permuted addresses -/
def gDet : Heap :=
  [.func sFact (.ref 1) (.ref 1) (.ref 2), .tuple [], .code sFact (.ref 3) (.ref 4) [1, 2] (.ref 1),
   .list [.ref 3, .atom (.int 7)], .tuple [.ref 5], .tuple [.atom (.str sFact), .ref 0]]
def ρDet : Nat → Nat := fun a => if a < 6 then 5 - a else a
def gDet' : Heap := (gDet.map (Obj.rename ρDet)).reverse
example : Function.Injective ρDet := by
  intro a b h; simp only [ρDet] at h; split at h <;> split at h <;> omega
example : (List.range 8).all (fun a => gDet'[ρDet a]? == (gDet[a]?).map (Obj.rename ρDet)) = true := by decide +kernel
example : (match encodeOps Cfg.current gDet' 100 (.ref 5), encodeOps Cfg.current gDet 100 (.ref 0) with
    | .ok x, .ok y => x == y && x.length > 20
    | _, _ => false) = true := by decide +kernel

/-! ## sensitivity -/

/-- C08, "changing any code or value the function references produces an unequal one": for the repaired code
(`Cfg.current`, which `Ties/Env.lean` ties to the tree) the opcodes determine the environment. If the walks of two
graphs write the same opcodes, the graphs are isomorphic below their roots (`EnvIso`): there is a one-to-one relation
between the addresses of their lists, dicts, sets and host objects under which the roots are similar and related
objects have the same kind, the same payload (target label, builtin name and receiver, bytecode, signature) and
similar children; tuples, which the encoder never memoises, are compared element by element. Contrapositive: any
edit that makes the environment non-isomorphic to what it was — another constant, element, global, default, free
variable, callee body, helper, signature, builtin, or another sharing / cycle structure — changes the opcodes.
With `C08_deterministic` (isomorphic ⇒ equal opcodes): the opcodes are equal exactly for isomorphic environments.
Proof: `serT_injective` (the stack machine of the decoder reads every stream in one way), `encVal_toTerm`,
`lockstep`. The byte layer (`ser`: opcodes to bytes) is theorem C07_bytes of area Pickle. -/
theorem C08_sensitive (g₁ g₂ : Heap) (r₁ r₂ : Val) (f₁ f₂ : Nat) (ops : List Op)
    (h₁ : encodeOps Cfg.current g₁ f₁ r₁ = .ok ops) (h₂ : encodeOps Cfg.current g₂ f₂ r₂ = .ok ops) :
    EnvIso g₁ r₁ g₂ r₂ :=
  iso_of_equal_ops g₁ g₂ r₁ r₂ f₁ f₂ ops h₁ h₂

/-- the contrapositive, as the property words it -/
theorem C08_sensitive_contrapositive (g₁ g₂ : Heap) (r₁ r₂ : Val) (f₁ f₂ : Nat) (ops₁ ops₂ : List Op)
    (h₁ : encodeOps Cfg.current g₁ f₁ r₁ = .ok ops₁) (h₂ : encodeOps Cfg.current g₂ f₂ r₂ = .ok ops₂)
    (hd : ¬ EnvIso g₁ r₁ g₂ r₂) : ops₁ ≠ ops₂ :=
  fun e => hd (C08_sensitive g₁ g₂ r₁ r₂ f₁ f₂ ops₁ h₁ (e ▸ h₂))

/-- the hypotheses are satisfiable with different heaps: the permuted copy of `gDet` above has the same opcodes, so
it is isomorphic to `gDet` — here the isomorphism is `a ↦ 5 - a` -/
example : EnvIso gDet' (.ref 5) gDet (.ref 0) := by
  have h : ∃ ops, encodeOps Cfg.current gDet' 100 (.ref 5) = .ok ops ∧ encodeOps Cfg.current gDet 100 (.ref 0) = .ok ops := by
    have hd := C08_deterministic Cfg.current ρDet (by
      intro a b h; simp only [ρDet] at h; split at h <;> split at h <;> omega) gDet gDet' (by
      intro a
      by_cases ha : a < 8
      · have : (List.range 8).all (fun a => gDet'[ρDet a]? == (gDet[a]?).map (Obj.rename ρDet)) = true := by decide +kernel
        have := (List.all_eq_true.mp this) a (List.mem_range.mpr ha)
        simpa using this
      · have h1 : gDet[a]? = none := by
          apply List.getElem?_eq_none; simp [gDet]; omega
        have h2 : gDet'[ρDet a]? = none := by
          have hr : ρDet a = a := by simp only [ρDet]; split <;> omega
          apply List.getElem?_eq_none; rw [hr]; simp [gDet', gDet]; omega
        rw [h1, h2]; rfl) 100 (.ref 0)
    have hv : (Val.ref 0).rename ρDet = .ref 5 := by simp [Val.rename, ρDet]
    rw [hv] at hd
    cases h0 : encodeOps Cfg.current gDet 100 (.ref 0) with
    | error e =>
      have : (match encodeOps Cfg.current gDet 100 (.ref 0) with | .ok _ => true | .error _ => false) = true := by
        decide +kernel
      rw [h0] at this; cases this
    | ok ops => exact ⟨ops, by rw [hd, h0], rfl⟩
  obtain ⟨ops, h1, h2⟩ := h
  exact C08_sensitive _ _ _ _ _ _ ops h1 h2

/-- distinct atoms are written differently (the base case of the above) -/
theorem C08_sensitive_atoms : ∀ a b : Atom, encAtom a = encAtom b → a = b := by
  intro a b h
  cases a with
  | bool x => cases b with
    | bool y => cases x <;> cases y <;> simp [encAtom] at h ⊢
    | _ => cases x <;> simp [encAtom] at h
  | _ => cases b with
    | bool y => cases y <;> simp [encAtom] at h
    | _ => simp [encAtom] at h ⊢ <;> exact h

/-- two builtins that differ only in their name: `h = len` and `h = str` as the global of the same function -/
def gBuiltin (name : Bytes) : Heap :=
  [.func sFact (.ref 2) (.ref 2) (.ref 1), .code sFact (.ref 2) (.ref 5) [1] (.ref 2), .tuple [],
   .builtin name (.atom .none), .tuple [.atom (.str sV), .ref 3], .tuple [.ref 4]]
def sLen : Bytes := "len".toUTF8.toList
def sStr : Bytes := "str".toUTF8.toList

def sameOps (x y : Except Err (List Op)) : Bool :=
  match x, y with
  | .ok a, .ok b => a == b
  | _, _ => false

/-- D20 (regression witness): the original rule `Builtin → ()` gives `h = len` and `h = str` one fingerprint … -/
theorem C08_builtin_counterexample :
    sameOps (encodeOps Cfg.original (gBuiltin sLen) 50 (.ref 0)) (encodeOps Cfg.original (gBuiltin sStr) 50 (.ref 0)) = true := by
  decide +kernel
/-- … the repaired rule `Builtin → (name, receiver)` tells them apart -/
example : sameOps (encodeOps Cfg.current (gBuiltin sLen) 50 (.ref 0)) (encodeOps Cfg.current (gBuiltin sStr) 50 (.ref 0)) = false := by
  decide +kernel

/-- `def g(*args)` and `def g(args)`: same bytecode, same defaults, different signature tuple (6 / 7) -/
def gSig (varargs : Bool) : Heap :=
  [.func sFact (.ref 2) (.ref 2) (.ref 1), .code sFact (.ref 2) (.ref 2) [1] (.ref 4), .tuple [],
   .tuple [.atom (.str sV)], .tuple [.ref 3, .atom (.int 0), .atom (.bool varargs), .atom (.bool false)]]

/-- D21 (regression witness): without the signature the two functions have one fingerprint … -/
theorem C08_signature_counterexample :
    sameOps (encodeOps Cfg.original (gSig true) 50 (.ref 0)) (encodeOps Cfg.original (gSig false) 50 (.ref 0)) = true := by
  decide +kernel
example : sameOps (encodeOps Cfg.current (gSig true) 50 (.ref 0)) (encodeOps Cfg.current (gSig false) 50 (.ref 0)) = false := by
  decide +kernel

/-- `def h(x, *, key)`: the defaults hold the `mandatory` placeholder -/
def gMandatory : Heap :=
  [.func sFact (.ref 4) (.ref 2) (.ref 1), .code sFact (.ref 2) (.ref 2) [1] (.ref 2), .tuple [],
   .mandatory, .tuple [.ref 5], .tuple [.atom (.str sV), .ref 3]]

/-- D19 (regression witness): the original pickler has no case for the placeholder, `Encode` fails … -/
theorem C08_mandatory_counterexample :
    (match encodeOps Cfg.original gMandatory 50 (.ref 0) with
     | .error .cannotPickle => true
     | _ => false) = true := by decide +kernel
example : sameOps (encodeOps Cfg.current gMandatory 50 (.ref 0)) (encodeOps Cfg.current gMandatory 50 (.ref 0)) = true := by
  decide +kernel

/-- two lambdas in progress with the same name: `c = a` versus `c = b` inside `a → b → c`. The ordinal in the
marker tells them apart (a marker that carried only the name would not). -/
def sLambda : Bytes := "lambda".toUTF8.toList
def gLambda (c : Nat) : Heap :=
  [.func sLambda (.ref 4) (.ref 4) (.ref 1), .code sLambda (.ref 4) (.ref 6) [1] (.ref 4),      -- a, refers to b
   .func sLambda (.ref 4) (.ref 4) (.ref 3), .code sLambda (.ref 4) (.ref 8) [2] (.ref 4),      -- b, refers to c
   .tuple [], .tuple [.atom (.str sV), .ref 2], .tuple [.ref 5],
   .tuple [.atom (.str sV), .ref c], .tuple [.ref 7]]
example : sameOps (encodeOps Cfg.current (gLambda 0) 50 (.ref 0)) (encodeOps Cfg.current (gLambda 2) 50 (.ref 0)) = false := by
  decide +kernel

/-! ## the use of the fingerprint: `upToDate` / `diffEnv` -/

/-- what `diffEnv` relied on before the repair: on an environment that is acyclic and shallower than the limit
`EqualDepth` never fails, whatever it is compared with, and the environment is equal to itself. -/
theorem C08_compare (g h : Heap) (x y : Val) (n : Nat) (hs : Shallow g n x) (hn : n ≤ compareLimit) :
    (∃ b, equalDepth g h compareLimit x y = .ok b) ∧
    (DictsDistinct g → equalDepth g g compareLimit x x = .ok true) :=
  ⟨equalDepth_ok g h hs compareLimit y hn, fun hk => equalDepth_refl g hk hs compareLimit hn⟩

/-- a decoded environment `{"global values": {"V": [1, (2, "x")]}}` satisfies the hypotheses -/
def gPlain : Heap :=
  [.dict [(.atom (.str sGlobalValues), .ref 1)], .dict [(.atom (.str sV), .ref 2)],
   .list [.atom (.int 1), .ref 3], .tuple [.atom (.int 2), .atom (.str sV)]]
example : Shallow gPlain 5 (.ref 0) := by
  refine .dict 4 0 _ rfl ?_
  intro p hp; simp at hp; subst hp
  refine .dict 3 1 _ rfl ?_
  intro p hp; simp at hp; subst hp
  refine .list 2 2 _ rfl ?_
  intro x hx; simp at hx
  rcases hx with rfl | rfl
  · exact .atom 1 _
  · refine .tuple 1 3 _ rfl ?_
    intro x hx; simp at hx
    rcases hx with rfl | rfl <;> exact .atom 0 _

/-- D16 (regression witness): the excluded point. On `V = []; V.append(V)` the comparison of the environment
with itself exceeds every depth limit, and the original `diffEnv` turns that into a build error on every later
build of the unchanged project. -/
theorem C08_cyclic_compare_counterexample :
    (∀ limit, equalDepth gCyc gCyc limit (.ref 0) (.ref 0) = .error .depthExceeded) ∧
    (∀ data, ∃ msg, diffEnvOld (some ⟨data, gCyc, .ref 0⟩) ⟨data, gCyc, .ref 0⟩ = .buildError msg) := by
  refine ⟨equalDepth_gCyc, fun data => ?_⟩
  simp only [diffEnvOld, equalDepth_gCyc]
  exact ⟨_, rfl⟩

/-- the repaired `diffEnv`: equal encodings are up to date — no structural comparison is made, so depth and cycles
do not matter -/
theorem C08_equal_encodings_up_to_date (old new : EnvRec) (h : old.data = new.data) :
    diffEnvFixed (some old) new = .upToDate := by
  simp [diffEnvFixed, h]

/-- … and ONLY equal encodings are: for a target that has a record, the repaired `diffEnv` answers "up to date"
exactly when the stored and the fresh encoding are the same bytes. With `C08_bytes_deterministic` (an unchanged
environment has the same bytes in every load) and `C08_bytes_sensitive` (the same bytes only for isomorphic
environments) this is: up to date ⇔ the environment did not change. (The use of the fingerprint; property C01.) -/
theorem C08_up_to_date_iff_equal_encodings (old new : EnvRec) :
    diffEnvFixed (some old) new = .upToDate ↔ old.data = new.data := by
  constructor
  · intro h
    simp only [diffEnvFixed] at h
    split at h
    · assumption
    · split at h <;> cases h
  · exact C08_equal_encodings_up_to_date old new

/-- no outcome of the comparison is a build error any more -/
theorem C08_no_compare_error (old : Option EnvRec) (new : EnvRec) : ∀ msg, diffEnvFixed old new ≠ .buildError msg := by
  intro msg
  simp only [diffEnvFixed]
  split
  · simp
  · split
    · simp
    · split <;> simp

/-- the decoded environments of `X = 1` and of `X = 1.0`: `{"global values": {"V": 1}}` / `{… 1.0}` in one heap -/
def gOneFloat : Heap :=
  [.dict [(.atom (.str sGlobalValues), .ref 1)], .dict [(.atom (.str sV), .atom (.int 1))],
   .dict [(.atom (.str sGlobalValues), .ref 3)], .dict [(.atom (.str sV), .atom (.float 0x3ff0000000000000))]]

/-- D25 (regression witness): `1` and `1.0` are written differently (BININT1 / BINFLOAT), so the fingerprints differ,
but `EqualDepth` calls the decoded environments equal and the `diffEnv` of the D16 repair answered "up to date": a
target that prints `X` was not re-run after `X = 1` was edited to `X = 1.0`. -/
theorem C08_equal_but_distinct_counterexample :
    serAll (encAtom (.int 1)) ≠ serAll (encAtom (.float 0x3ff0000000000000)) ∧
    diffEnvD16 (some ⟨serAll (encAtom (.int 1)), gOneFloat, .ref 0⟩) ⟨serAll (encAtom (.float 0x3ff0000000000000)), gOneFloat, .ref 2⟩
      = .upToDate ∧
    diffEnvFixed (some ⟨serAll (encAtom (.int 1)), gOneFloat, .ref 0⟩) ⟨serAll (encAtom (.float 0x3ff0000000000000)), gOneFloat, .ref 2⟩
      = .rerun "environment changed" := by
  refine ⟨by decide +kernel, by decide +kernel, by decide +kernel⟩

example : diffEnvFixed (some ⟨[1], gCyc, .ref 0⟩) ⟨[1], gCyc, .ref 0⟩ = .upToDate := by decide +kernel
example : diffEnvFixed (some ⟨[0], gCyc, .ref 0⟩) ⟨[1], gCyc, .ref 0⟩ = .rerun "environment changed" := by
  simp [diffEnvFixed, equalDepth_gCyc]

/-- D28 (regression witness): environments that differ only in a part `functionEnvKeys` does not list — the record
carries an extra key `"zzz"`, or files the signature under `"signature"` — made the original reason computation slice
an empty list with `[:-1]`: a Go panic that kills the build. The repaired one reports the generic reason. -/
theorem C08_unknown_part_counterexample :
    reasonForOld ["zzz"] = none ∧ reasonForOld ["signature"] = none ∧
    reasonFor ["zzz"] = "environment changed" ∧ reasonFor ["signature", "zzz"] = "environment changed" := by
  refine ⟨by decide +kernel, by decide +kernel, by decide +kernel, by decide +kernel⟩

/-- the repaired reason is defined for every diff, and names the known parts in the order of `functionEnvKeys` -/
theorem C08_reason_total (diffKeys : List String) :
    (reasonForOld diffKeys).isSome = true → reasonForOld diffKeys = some (reasonFor diffKeys) := by
  simp only [reasonForOld, reasonFor]
  cases envKeys.filter (diffKeys.contains ·) with
  | nil => simp [joinReasonOld]
  | cons a r => simp [joinReasonOld]

example : reasonFor ["code", "names"] = "names and code changed" := by decide +kernel
example : reasonFor ["parameters", "global values", "constant values"] = "constant values, global values, and parameters changed" := by
  decide +kernel

end Dawn.Env

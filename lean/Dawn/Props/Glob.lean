import Dawn.Proofs.Glob
/-!
# C17 — glob sets match exactly the union of their patterns

Property theorems only. `compileGlobs` is the model of `util.CompileGlobs` (tied to the source by
`Dawn/Ties/Glob.lean` and by the correspondence streams `glob.tree`, `glob.text`, `glob.match`);
`Matches` is `regexp.MatchString` on the emitted expression; `globMatch` is the documented meaning of a
pattern, written independently of regular expressions.
-/
namespace Dawn.Glob

/-- C17, one pattern: the compiled set of a single pattern accepts exactly the paths the pattern matches whole. -/
theorem C17_one (g : List Char) (ts : List Tok) (r : RE) (p : List Char)
    (hl : lex g = .ok ts) (hc : compileGlobs [g] = .ok r) :
    matchString r p = true ↔ globMatch ts p := by
  simp only [compileGlobs, lexAll, hl, Except.map] at hc
  cases hc
  rw [matchString_iff]
  simp only [compileSet, List.isEmpty_cons, Bool.false_eq_true, ↓reduceIte, List.map, altAll]
  rw [Matches_anchored]
  simp only [M, M_compileToks]

/-- C17, any number (≥ 1) of patterns: the set accepts a path iff some pattern matches the whole path. -/
theorem C17_union (gs : List (List Char)) (tss : List (List Tok)) (r : RE) (p : List Char)
    (hne : gs ≠ []) (hl : lexAll gs = .ok tss) (hc : compileGlobs gs = .ok r) :
    matchString r p = true ↔ ∃ ts ∈ tss, globMatch ts p := by
  simp only [compileGlobs, hl, Except.map] at hc
  cases hc
  have hne' : tss.isEmpty = false := by
    cases gs with
    | nil => exact absurd rfl hne
    | cons g gs =>
      simp only [lexAll] at hl
      split at hl
      · cases hl
      · cases h : lexAll gs with
        | error e => simp [h, Except.map] at hl
        | ok v => simp [h, Except.map] at hl; subst hl; rfl
  rw [matchString_iff]
  simp only [compileSet, hne', Bool.false_eq_true, ↓reduceIte]
  rw [Matches_anchored, M_altAll]
  simp only [List.mem_map]
  constructor
  · rintro ⟨_, ⟨ts, hts, rfl⟩, h⟩
    exact ⟨ts, hts, (M_compileToks ts _ _ _).mp h⟩
  · rintro ⟨ts, hts, h⟩
    exact ⟨_, ⟨ts, hts, rfl⟩, (M_compileToks ts _ _ _).mpr h⟩

/-- C17 for every list, empty or not: the only thing an empty set accepts is the empty path. -/
theorem C17_set_general (tss : List (List Tok)) (p : List Char) :
    matchString (compileSet tss) p = true ↔ (tss = [] ∧ p = []) ∨ ∃ ts ∈ tss, globMatch ts p := by
  rw [matchString_iff]
  cases tss with
  | nil =>
    simp only [compileSet, List.isEmpty_nil, ↓reduceIte]
    rw [Matches_anchored]
    simp [M]
  | cons t tss =>
    simp only [compileSet, List.isEmpty_cons, Bool.false_eq_true, ↓reduceIte]
    rw [Matches_anchored, M_altAll]
    simp only [List.mem_map, reduceCtorEq, false_and, false_or]
    constructor
    · rintro ⟨_, ⟨ts, hts, rfl⟩, h⟩
      exact ⟨ts, hts, (M_compileToks ts _ _ _).mp h⟩
    · rintro ⟨ts, hts, h⟩
      exact ⟨_, ⟨ts, hts, rfl⟩, (M_compileToks ts _ _ _).mpr h⟩

/-- `glob(include, exclude)` selects exactly the files matched whole by some include pattern and by no exclude
pattern — for every pair of lists, including empty ones, because a file's relative path is never empty. -/
theorem C17_select (inc exc : List (List Tok)) (files : List (List Char)) (hne : ∀ f ∈ files, f ≠ [])
    (p : List Char) :
    p ∈ globSelect (compileSet inc) (compileSet exc) files ↔
      p ∈ files ∧ (∃ ts ∈ inc, globMatch ts p) ∧ ¬ ∃ ts ∈ exc, globMatch ts p := by
  simp only [globSelect, List.mem_filter, Bool.and_eq_true, Bool.not_eq_true', ← Bool.not_eq_true,
    C17_set_general]
  constructor
  · rintro ⟨hf, hi, he⟩
    have hp := hne p hf
    refine ⟨hf, ?_, ?_⟩
    · rcases hi with ⟨_, h⟩ | h
      · exact absurd h hp
      · exact h
    · intro h; exact he (Or.inr h)
  · rintro ⟨hf, hi, he⟩
    refine ⟨hf, Or.inr hi, ?_⟩
    rintro (⟨_, h⟩ | h)
    · exact hne p hf h
    · exact he h

/-- Ignore lists (`Project.loadPackage`): a package directory loads iff no pattern of the (non-empty) ignore
list matches the path of the directory or of one of its ancestors, the project root (`""`) included. -/
theorem C17_ignore (tss : List (List Tok)) (hne : tss ≠ []) (dirs : List (List Char)) :
    packageLoaded (some (compileSet tss)) dirs = true ↔
      ∀ pre ∈ prefixes dirs, ¬ ∃ ts ∈ tss, globMatch ts (joinPath pre) := by
  simp only [packageLoaded, List.all_eq_true, Bool.not_eq_true', ← Bool.not_eq_true, C17_set_general]
  constructor
  · intro h pre hpre hm; exact h pre hpre (Or.inr hm)
  · intro h pre hpre hm
    rcases hm with ⟨he, _⟩ | hm
    · exact hne he
    · exact h pre hpre hm

example : packageLoaded (some (compileSet [[.ch 'v']])) ["v".toList, "x".toList] = false ∧
    packageLoaded (some (compileSet [[.ch 'v']])) ["w".toList, "v".toList] = true := by decide

/-- The excluded point of `C17_union`, decided rather than hidden: an empty set compiles to `^(?:)$`,
which accepts the empty path and nothing else (no caller can present the empty path; see DESIGN.md §4). -/
theorem C17_empty_set (p : List Char) : matchString (compileSet []) p = true ↔ p = [] := by
  rw [matchString_iff]
  simp only [compileSet, List.isEmpty_nil, ↓reduceIte]
  rw [Matches_anchored]
  simp [M]

/-- the executable specification used by the driver is the specification -/
theorem C17_spec_exec (ts : List Tok) (p : List Char) : globMatchB ts p = true ↔ globMatch ts p :=
  globMatchB_iff ts p

/-- every character other than `\`, `*`, `?` is a literal: a pattern without metacharacters matches exactly itself -/
theorem C17_literal (g : List Char) (h : ∀ c ∈ g, c ≠ '\\' ∧ c ≠ '*' ∧ c ≠ '?') :
    lex g = .ok (g.map Tok.ch) ∧ ∀ p, globMatch (g.map Tok.ch) p ↔ p = g := by
  induction g with
  | nil => exact ⟨rfl, fun p => by simp [globMatch]⟩
  | cons c g ih =>
    have hc := h c List.mem_cons_self
    obtain ⟨ih1, ih2⟩ := ih (fun d hd => h d (List.mem_cons_of_mem _ hd))
    constructor
    · have : lex (c :: g) = (lex g).map (Tok.ch c :: ·) := by
        rw [lex] <;> intros <;> simp_all
      rw [this, ih1]; rfl
    · intro p
      simp only [List.map, globMatch, ih2]
      constructor
      · rintro ⟨s₂, rfl, rfl⟩; rfl
      · rintro rfl; exact ⟨g, rfl, rfl⟩

/-- an escaped metacharacter is that character, literally -/
theorem C17_escaped (c : Char) (hc : c ∈ escapable) (rest : List Char) :
    lex ('\\' :: c :: rest) = (lex rest).map (Tok.ch c :: ·) := by
  simp [lex, hc]

/-- `CompileGlobs` rejects exactly: a trailing backslash, or a backslash before a non-metacharacter -/
theorem C17_escape_rejected (c : Char) (hc : c ∉ escapable) (rest : List Char) :
    lex ['\\'] = .error .trailingEscape ∧ lex ('\\' :: c :: rest) = .error .badEscape := by
  simp [lex, hc]

/-- D6 (regression witness): in the shape the code emitted before the repair, `^(*.go)|(*.md)$`, alternation
binds loosest, and the set accepts `a.go/x` although neither pattern does. -/
theorem C17_anchor_counterexample :
    let g1 := [Tok.star, .ch '.', .ch 'g', .ch 'o']
    let g2 := [Tok.star, .ch '.', .ch 'm', .ch 'd']
    let old := RE.alt (.seq .bol (.cap (compileToks g1))) (.seq (.cap (compileToks g2)) .eol)
    Matches old "a.go/x".toList ∧ ¬ (∃ ts ∈ [g1, g2], globMatch ts "a.go/x".toList) := by
  intro g1 g2 old
  constructor
  · rw [← matchString_iff]; decide
  · simp only [List.mem_cons, List.not_mem_nil, or_false, exists_eq_or_imp, exists_eq_left, ← globMatchB_iff]
    decide

/-! non-vacuity: the hypotheses of `C17_union` are met by concrete, non-trivial sets -/
example : lexAll ["*.go".toList, "src/**/?.md".toList, "a\\*b[".toList] =
    .ok [[.star, .ch '.', .ch 'g', .ch 'o'],
         [.ch 's', .ch 'r', .ch 'c', .ch '/', .dstar, .ch '/', .q, .ch '.', .ch 'm', .ch 'd'],
         [.ch 'a', .ch '*', .ch 'b', .ch '[']] := by decide
example : ∃ r, compileGlobs ["*.go".toList, "*.md".toList] = .ok r ∧
    matchString r "x/a.md".toList = false ∧ matchString r "a.md".toList = true := ⟨_, rfl, by decide, by decide⟩

example : globSelect (compileSet [[.dstar]]) (compileSet [[.ch 'v'], [.star, .ch '.', .ch 'o']])
    ["v/x".toList, "a.o".toList, "d/a.o".toList, "v".toList] = ["v/x".toList, "d/a.o".toList] := by decide

end Dawn.Glob

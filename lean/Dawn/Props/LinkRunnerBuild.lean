import Dawn.Props.Runner
import Dawn.Proofs.RunnerOrder
import Dawn.Props.Build
/-!
# C04 discharges the hypothesis of the incremental engine's theorems

`Dawn/Props/Build.lean` (C01, C02, C03, C13, C14) takes the runner's guarantee as the hypothesis
`Build.RunnerOrder t ord`: the list `ord` of visited labels has no duplicates and every defined label comes after all of
`Build.depsOf` it. Here that hypothesis is proved of the order in which the real runner's model computes outcomes.

* The order is the ghost list `State.order` of `Dawn/Model/Runner.lean` (`State.evalOrder`): a label is appended by the
  step that computes its outcome — the failed `LoadTarget` of an unknown target, the rest of `Evaluate` (`evalRest`: in
  dawn the up-to-date test and the body, i.e. `Build.visit`) of a known one. No guard and no other variable reads it.
  It orders *completions of the dependency request*, not starts: a dependent is appended after its dependencies because
  `C04_deps_first` holds when it passes `evalRest`.
* Adapter (`Adapts t P`): for every label the loaded project defines, `LoadTarget` succeeds (`known`) and the labels
  `runTarget.Evaluate` passes to `EvaluateTargets` are `Build.depsOf` (`Target.dependencies()` after `link`). Labels the
  project does not define are unconstrained on both sides (`Build.Sorted` asks nothing of them; the runner appends them
  when their load fails). `paramsOf` is the canonical instance.
* Scope: builds in which no cyclic-dependency error is handed out — in particular every build of a project whose graph
  reachable from the requested target is acyclic (`C05_no_false_cycle`). A target that is handed the cycle error does not
  wait for its dependencies (runner.go:155-160), so no dependency order exists for it; `C05_cycle_reported` governs.
-/
namespace Dawn.Link
open Dawn

/-- the evaluation order of a run of the runner's model -/
def _root_.Dawn.Runner.State.evalOrder (s : Runner.State) : List Runner.Label := s.order

/-- the runner's parameters describe the loaded project `t` -/
structure Adapts (t : Build.Tree) (P : Runner.Params) : Prop where
  known : ∀ l d, t.defs l = some d → P.known l = true
  deps  : ∀ l d, t.defs l = some d → P.deps l = Build.depsOf t l d

/-- the canonical adapter: what `Project.LoadTarget` and `Target.dependencies()` answer for a loaded project -/
def paramsOf (t : Build.Tree) (bodyOk : Runner.Label → Bool) (cap : Nat) (root : Runner.Label) : Runner.Params where
  deps := fun l => match t.defs l with | some d => Build.depsOf t l d | none => []
  known := fun l => (t.defs l).isSome
  bodyOk := bodyOk
  cap := cap
  root := root

theorem adapts_paramsOf (t : Build.Tree) (bodyOk : Runner.Label → Bool) (cap : Nat) (root : Runner.Label) :
    Adapts t (paramsOf t bodyOk cap root) where
  known := by intro l d h; simp [paramsOf, h]
  deps := by intro l d h; simp [paramsOf, h]

theorem sorted_of_depsFirst {t : Build.Tree} {P : Runner.Params} (ha : Adapts t P) {c : Runner.Label → Bool} :
    ∀ (ord seen : List Runner.Label), (∀ x ∈ ord, c x = false) → Runner.DepsFirst P c seen ord →
      Build.Sorted t seen ord := by
  intro ord
  induction ord with
  | nil => intro _ _ _; trivial
  | cons x rest ih =>
    intro seen hc h
    refine ⟨?_, ih (seen ++ [x]) (fun y hy => hc y (List.mem_cons_of_mem _ hy)) h.2⟩
    intro d hd y hy
    rw [← ha.deps x d hd] at hy
    exact h.1 (ha.known x d hd) (hc x (by simp)) y hy

/-- C04 ⇒ `RunnerOrder`, every reachable state: in any state of any run in which no cyclic-dependency error has been
    handed out, the outcomes computed so far were computed in an order the engine's theorems accept. -/
theorem C04_runner_order_prefix {t : Build.Tree} {P : Runner.Params} (ha : Adapts t P) {s : Runner.State}
    (hr : Runner.Reachable P s) (hnc : ∀ l, s.cyc l = false) : Build.RunnerOrder t s.evalOrder :=
  ⟨hr.invO.nodup, sorted_of_depsFirst ha _ _ (fun x _ => hnc x) hr.invO.first⟩

/-- **C04 discharges the runner hypothesis.** When `Run` has returned from a build of an acyclic reachable graph, the
    evaluation order is a `Build.RunnerOrder`; it consists of exactly the targets the build started, and the requested
    target is among them (so `C01_never_stale` etc. apply with `ord := s.evalOrder`). -/
theorem C04_discharges_runner_order {t : Build.Tree} {P : Runner.Params} (ha : Adapts t P)
    (hac : ∀ x, Runner.ReachRT P P.root x → ¬ Runner.Path P x x)
    {s : Runner.State} (hr : Runner.Reachable P s) (e : Runner.Err) (hd : s.main = .done e) :
    Build.RunnerOrder t s.evalOrder ∧ (∀ l, l ∈ s.evalOrder ↔ s.pc l ≠ none) ∧ P.root ∈ s.evalOrder := by
  have hnc : ∀ l, s.cyc l = false := fun l => (Runner.C05_no_false_cycle hac hr l).1
  have hall := Runner.C05_run_waits_all hr e hd
  have hmem : ∀ l, l ∈ s.evalOrder ↔ s.pc l ≠ none := by
    intro l
    show l ∈ s.order ↔ _
    rw [hr.invO.mem l]
    constructor
    · rintro ⟨p, hp, _⟩; rw [hp]; simp
    · intro h
      cases hp : s.pc l with
      | none => exact absurd hp h
      | some p => have := hall l p hp; subst this; exact ⟨_, rfl, rfl⟩
  refine ⟨C04_runner_order_prefix ha hr hnc, hmem, (hmem _).mpr ?_⟩
  exact hr.inv.mainW (by rw [hd]; simp)

/-- the same for a build that did hand out no cycle error although the graph may be cyclic elsewhere -/
theorem C04_discharges_runner_order_of_no_cycle_error {t : Build.Tree} {P : Runner.Params} (ha : Adapts t P)
    {s : Runner.State} (hr : Runner.Reachable P s) (hnc : ∀ l, s.cyc l = false) (e : Runner.Err)
    (_hd : s.main = .done e) : Build.RunnerOrder t s.evalOrder :=
  C04_runner_order_prefix ha hr hnc

/-! ## non-vacuity: the Build area's example project run through the runner's model -/

/-- the runner's parameters for the engine's example tree (`Build.exTree`), limit one, requested target 3 -/
def exParams : Runner.Params := paramsOf Build.exTree (fun _ => true) 1 3

example : Adapts Build.exTree exParams := adapts_paramsOf _ _ _ _

/-- a complete schedule of that build -/
def exSched : List Runner.Tid :=
  [.main, .tgt 3, .tgt 3, .tgt 3, .tgt 3, .tgt 3, .tgt 3, .tgt 3, .tgt 3, .tgt 2, .tgt 2, .tgt 2, .tgt 2, .tgt 2, .tgt 2, .tgt 2, .tgt 2, .tgt 1, .tgt 1, .tgt 1, .tgt 1, .tgt 1, .tgt 1, .tgt 1, .tgt 1, .tgt 1, .tgt 1, .tgt 2, .tgt 2, .tgt 1, .tgt 2, .tgt 2, .tgt 2, .tgt 3, .tgt 3, .tgt 2, .tgt 3, .tgt 3, .tgt 3, .main, .tgt 3, .tgt 3, .tgt 2, .tgt 1, .main]

/-- the runner's model builds the example project in the order `[1, 2, 3]` — the very list the engine's example
    (`Build.exOrder : RunnerOrder exTree [1, 2, 3]`) feeds to `runBuild` -/
example : (Runner.runSched (Runner.step exParams) (Runner.init exParams) exSched).map
    (fun s => (s.evalOrder, s.result)) = some ([1, 2, 3], some .none) := by decide

/-- the example graph is acyclic (edges go to smaller labels), so `C04_discharges_runner_order` applies to it -/
example : ∀ x, Runner.ReachRT exParams exParams.root x → ¬ Runner.Path exParams x x := by
  have edge_lt : ∀ a b, b ∈ Runner.edges exParams a → b < a := by
    intro a b h
    match a with
    | 0 => simp [Runner.edges, exParams, paramsOf, Build.exTree, Build.exDefs] at h
    | 1 => simp [Runner.edges, exParams, paramsOf, Build.exTree, Build.exDefs, Build.depsOf, Build.generatorOf] at h
    | 2 => simp [Runner.edges, exParams, paramsOf, Build.exTree, Build.exDefs, Build.depsOf] at h; subst h; decide
    | 3 => simp [Runner.edges, exParams, paramsOf, Build.exTree, Build.exDefs, Build.depsOf] at h; subst h; decide
    | n + 4 => simp [Runner.edges, exParams, paramsOf, Build.exTree, Build.exDefs] at h
  have mono : ∀ a b, Runner.Path exParams a b → b < a := by
    intro a b h
    induction h with
    | single h1 => exact edge_lt _ _ h1
    | cons h1 _ ih => exact Nat.lt_trans ih (edge_lt _ _ h1)
  intro x _ h
  exact Nat.lt_irrefl _ (mono x x h)

end Dawn.Link

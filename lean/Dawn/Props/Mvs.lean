import Dawn.Proofs.MvsSpec
/-!
# C10 — the resolved build list is the minimal-version-selection solution

Property theorems only. `BuildList` is the model of dawn's `mvs.BuildList` (`internal/mvs/get.go`) on top of the
model of `github.com/pgavlin/mvs`'s `buildList` (tied to the sources by `Dawn/Ties/Mvs.lean` and by the
correspondence streams `mvs.buildlist`, `mvs.semver`); `UReach` is reachability through requirements in the
universe, written without reference to any algorithm; `Ver.le` is semantic-version precedence.
The download cache is not an input of the model: `Env.summary` is what a fetched `dawn.toml` says, however it was
obtained (the harness compares cold, disk-warm and memory-warm resolvers on the code).
-/
namespace Dawn.Mvs

/-- C10, exactness: a project is in the resolved build list, at version `v`, iff `v` is the highest version of that
project demanded by any requirement reachable from the project file. Any graph shape; `fuel` only has to be enough
for the exploration to finish (otherwise the model answers `Err.fuel`, never a list). -/
theorem C10_exact (e : Env) (c : Config) (fuel : Nat) (bl : List Mod)
    (hwf : WellFormed e (c.map (·.2))) (h : BuildList fuel e c = .ok bl) (p : String) (v : Ver) (hp : p ≠ "") :
    (⟨p, v⟩ : Mod) ∈ bl ↔
      UReach e (c.map (·.2)) ⟨p, v⟩ ∧ ∀ w, UReach e (c.map (·.2)) ⟨p, w⟩ → Ver.le w v := by
  unfold BuildList buildList at h
  rw [buildListWith_exact h]
  have hr : ∀ w, Reach (dawnReqs e (c.map (·.2))) .none rootMod ⟨p, w⟩ ↔ UReach e (c.map (·.2)) ⟨p, w⟩ := by
    intro w
    rw [reach_dawn_iff hwf]
    constructor
    · rintro (h1 | h1)
      · simp only [rootMod, Mod.mk.injEq] at h1; exact absurd h1.1 hp
      · exact h1
    · exact Or.inr
  constructor
  · rintro ⟨_, h1, h2⟩
    exact ⟨(hr v).mp h1, fun w hw => h2 w ((hr w).mpr hw)⟩
  · rintro ⟨h1, h2⟩
    exact ⟨okReq_ver_ne_none (ureach_ok hwf h1), (hr v).mpr h1, fun w hw => h2 w ((hr w).mp hw)⟩

/-- the one other entry of the list is the main project itself (`"" ↦ ""`, dropped when build lists are compared, §4) -/
theorem C10_root_entry (e : Env) (c : Config) (fuel : Nat) (bl : List Mod)
    (hwf : WellFormed e (c.map (·.2))) (h : BuildList fuel e c = .ok bl) (v : Ver) :
    (⟨"", v⟩ : Mod) ∈ bl ↔ v = .root := by
  unfold BuildList buildList at h
  rw [buildListWith_exact h]
  have hr : ∀ w, Reach (dawnReqs e (c.map (·.2))) .none rootMod ⟨"", w⟩ ↔ w = .root := by
    intro w
    rw [reach_dawn_iff hwf]
    constructor
    · rintro (h1 | h1)
      · simp only [rootMod, Mod.mk.injEq, true_and] at h1; exact h1
      · exact absurd rfl (ureach_ok hwf h1).1
    · rintro rfl; exact Or.inl rfl
  constructor
  · rintro ⟨_, h1, _⟩; exact (hr v).mp h1
  · rintro rfl
    exact ⟨by simp, (hr _).mpr rfl, fun w hw => by rw [(hr w).mp hw]; exact Ver.le_refl _⟩

/-- C10, each once: no project appears twice in the build list (a fortiori not at two versions). Several major
versions of one project are different paths (`p` and `p@v2`) and may both appear. -/
theorem C10_once (e : Env) (c : Config) (fuel : Nat) (bl : List Mod) (h : BuildList fuel e c = .ok bl) :
    (bl.map (·.path)).Nodup :=
  buildListWith_nodup h

/-- C10, order independence: two project files that list the same requirements (in any order, under any names, with
repetitions) against universes whose `dawn.toml` files declare the same requirements in any order resolve to the
SAME list — whatever the order in which the worklist was processed and whatever fuel each run had. -/
theorem C10_order (e1 e2 : Env) (c1 c2 : Config) (f1 f2 : Nat) (bl1 bl2 : List Mod)
    (hroots : ∀ m, m ∈ c1.map (·.2) ↔ m ∈ c2.map (·.2))
    (hsum : ∀ n, (e1.summary n).isSome = (e2.summary n).isSome ∧
      ∀ s1 s2, e1.summary n = some s1 → e2.summary n = some s2 → ∀ m, m ∈ s1.reqs ↔ m ∈ s2.reqs)
    (h1 : BuildList f1 e1 c1 = .ok bl1) (h2 : BuildList f2 e2 c2 = .ok bl2) : bl1 = bl2 := by
  unfold BuildList buildList at h1 h2
  have hedges : ∀ n m, m ∈ edges (dawnReqs e1 (c1.map (·.2))) .none n ↔ m ∈ edges (dawnReqs e2 (c2.map (·.2))) .none n := by
    intro n m
    rw [edges_plain, edges_plain]
    by_cases hv : n.ver ≠ .none
    · rw [if_pos hv, if_pos hv]
      simp only [dawnReqs]
      by_cases hp : n.path = ""
      · simp only [hp, ↓reduceIte, Option.getD_some]; exact hroots m
      · simp only [hp, ↓reduceIte]
        obtain ⟨hs1, hs2⟩ := hsum n
        cases ha : e1.summary n with
        | none =>
          cases hb : e2.summary n with
          | none => simp
          | some s2 => rw [ha, hb] at hs1; simp at hs1
        | some s1 =>
          cases hb : e2.summary n with
          | none => rw [ha, hb] at hs1; simp at hs1
          | some s2 => simp only [Option.map_some, Option.getD_some]; exact hs2 s1 s2 ha hb m
    · simp [hv]
  apply buildListWith_ext h1 h2
  intro m
  obtain ⟨p, v⟩ := m
  rw [buildListWith_exact h1, buildListWith_exact h2]
  have hr : ∀ x, Reach (dawnReqs e1 (c1.map (·.2))) .none rootMod x ↔ Reach (dawnReqs e2 (c2.map (·.2))) .none rootMod x :=
    fun x => ⟨reach_congr (fun n m => (hedges n m).mp), reach_congr (fun n m => (hedges n m).mpr)⟩
  constructor
  · rintro ⟨a, b, d⟩; exact ⟨a, (hr _).mp b, fun w hw => d w ((hr _).mpr hw)⟩
  · rintro ⟨a, b, d⟩; exact ⟨a, (hr _).mpr b, fun w hw => d w ((hr _).mp hw)⟩

/-! ### non-vacuity: a universe with a diamond, a cycle and two majors of one project -/

namespace Example

def v (a b c : Nat) : Ver := .sv ⟨a, b, c, []⟩

/-- a v1.0.0 → b, c ; b → d v1.0.0, d@v2 v2.0.0 ; c → d v1.1.0 ; d v1.1.0 → a v1.0.0 (a cycle) -/
def summary : Mod → Option Summary
  | ⟨"a", .sv ⟨1, 0, 0, []⟩⟩ => some ⟨"", [⟨"b", v 1 0 0⟩, ⟨"c", v 1 0 0⟩]⟩
  | ⟨"b", .sv ⟨1, 0, 0, []⟩⟩ => some ⟨"", [⟨"d", v 1 0 0⟩, ⟨"d@v2", v 2 0 0⟩]⟩
  | ⟨"c", .sv ⟨1, 0, 0, []⟩⟩ => some ⟨"", [⟨"d", v 1 1 0⟩]⟩
  | ⟨"d", .sv ⟨1, 0, 0, []⟩⟩ => some ⟨"", []⟩
  | ⟨"d", .sv ⟨1, 1, 0, []⟩⟩ => some ⟨"", [⟨"a", v 1 0 0⟩]⟩
  | ⟨"d@v2", .sv ⟨2, 0, 0, []⟩⟩ => some ⟨"", []⟩
  | _ => .none

/-- the same files with every requirement list written in the other order -/
def summary' : Mod → Option Summary
  | ⟨"a", .sv ⟨1, 0, 0, []⟩⟩ => some ⟨"", [⟨"c", v 1 0 0⟩, ⟨"b", v 1 0 0⟩]⟩
  | ⟨"b", .sv ⟨1, 0, 0, []⟩⟩ => some ⟨"", [⟨"d@v2", v 2 0 0⟩, ⟨"d", v 1 0 0⟩]⟩
  | m => summary m

def env : Env := ⟨"r", summary, [], "main", fun _ _ => .none⟩
def env' : Env := ⟨"r", summary', [], "main", fun _ _ => .none⟩
def cfg : Config := [("a", ⟨"a", v 1 0 0⟩)]

/-- the hypotheses of `C10_exact` / `C10_once` / `C10_order` hold here, and the answer is the expected one -/
example : BuildList 50 env cfg =
    .ok [rootMod, ⟨"a", v 1 0 0⟩, ⟨"b", v 1 0 0⟩, ⟨"c", v 1 0 0⟩, ⟨"d", v 1 1 0⟩, ⟨"d@v2", v 2 0 0⟩] := by rfl

example : BuildList 50 env' cfg = BuildList 50 env cfg := by rfl

/-- too little fuel is reported as such, not as a list -/
example : BuildList 3 env cfg = .error .fuel := by rfl

end Example

end Dawn.Mvs

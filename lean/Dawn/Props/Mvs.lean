import Dawn.Proofs.MvsFuel
import Dawn.Proofs.MvsRef
/-!
# C10 — the resolved build list is the minimal-version-selection solution

Property theorems only. `BuildList` is the model of dawn's `mvs.BuildList` (`internal/mvs/get.go`) on top of the
model of `github.com/pgavlin/mvs`'s `buildList` (tied to the sources by `Dawn/Ties/Mvs.lean` and by the
correspondence streams `mvs.buildlist`, `mvs.semver`); `UReach` is reachability through requirements in the
universe, written without reference to any algorithm; `Ver.le` is semantic-version precedence.
The download cache is not an input of the model: `Env.summary` is what a fetched `dawn.toml` says, however it was
obtained (the harness compares cold, disk-warm and memory-warm resolvers on the code).
-/
namespace Dawn.Mvs

/-- C10, exactness: a project is in the resolved build list, at version `v`, iff `v` is the highest version of that
project demanded by any requirement reachable from the project file. Any graph shape; `fuel` only has to be enough
for the exploration to finish (otherwise the model answers `Err.fuel`, never a list). -/
theorem C10_exact (e : Env) (c : Config) (fuel : Nat) (bl : List Mod)
    (hwf : WellFormed e (c.map (·.2))) (h : BuildList fuel e c = .ok bl) (p : String) (v : Ver) (hp : p ≠ "") :
    (⟨p, v⟩ : Mod) ∈ bl ↔
      UReach e (c.map (·.2)) ⟨p, v⟩ ∧ ∀ w, UReach e (c.map (·.2)) ⟨p, w⟩ → Ver.le w v := by
  unfold BuildList buildList at h
  rw [buildListWith_exact h]
  have hr : ∀ w, Reach (dawnReqs e (c.map (·.2))) .none rootMod ⟨p, w⟩ ↔ UReach e (c.map (·.2)) ⟨p, w⟩ := by
    intro w
    rw [reach_dawn_iff hwf]
    constructor
    · rintro (h1 | h1)
      · simp only [rootMod, Mod.mk.injEq] at h1; exact absurd h1.1 hp
      · exact h1
    · exact Or.inr
  constructor
  · rintro ⟨_, h1, h2⟩
    exact ⟨(hr v).mp h1, fun w hw => h2 w ((hr w).mpr hw)⟩
  · rintro ⟨h1, h2⟩
    exact ⟨okReq_ver_ne_none (ureach_ok hwf h1), (hr v).mpr h1, fun w hw => h2 w ((hr w).mp hw)⟩

/-- the one other entry of the list is the main project itself (`"" ↦ ""`, dropped when build lists are compared, §4) -/
theorem C10_root_entry (e : Env) (c : Config) (fuel : Nat) (bl : List Mod)
    (hwf : WellFormed e (c.map (·.2))) (h : BuildList fuel e c = .ok bl) (v : Ver) :
    (⟨"", v⟩ : Mod) ∈ bl ↔ v = .root := by
  unfold BuildList buildList at h
  rw [buildListWith_exact h]
  have hr : ∀ w, Reach (dawnReqs e (c.map (·.2))) .none rootMod ⟨"", w⟩ ↔ w = .root := by
    intro w
    rw [reach_dawn_iff hwf]
    constructor
    · rintro (h1 | h1)
      · simp only [rootMod, Mod.mk.injEq, true_and] at h1; exact h1
      · exact absurd rfl (ureach_ok hwf h1).1
    · rintro rfl; exact Or.inl rfl
  constructor
  · rintro ⟨_, h1, _⟩; exact (hr v).mp h1
  · rintro rfl
    exact ⟨by simp, (hr _).mpr rfl, fun w hw => by rw [(hr w).mp hw]; exact Ver.le_refl _⟩

/-- C10, each once: no project appears twice in the build list (a fortiori not at two versions). Several major
versions of one project are different paths (`p` and `p@v2`) and may both appear. -/
theorem C10_once (e : Env) (c : Config) (fuel : Nat) (bl : List Mod) (h : BuildList fuel e c = .ok bl) :
    (bl.map (·.path)).Nodup :=
  buildListWith_nodup h

/-- C10, order independence: two project files that list the same requirements (in any order, under any names, with
repetitions) against universes whose `dawn.toml` files declare the same requirements in any order resolve to the
SAME list — whatever the order in which the worklist was processed and whatever fuel each run had. -/
theorem C10_order (e1 e2 : Env) (c1 c2 : Config) (f1 f2 : Nat) (bl1 bl2 : List Mod)
    (hroots : ∀ m, m ∈ c1.map (·.2) ↔ m ∈ c2.map (·.2))
    (hsum : ∀ n, (e1.summary n).isSome = (e2.summary n).isSome ∧
      ∀ s1 s2, e1.summary n = some s1 → e2.summary n = some s2 → ∀ m, m ∈ s1.reqs ↔ m ∈ s2.reqs)
    (h1 : BuildList f1 e1 c1 = .ok bl1) (h2 : BuildList f2 e2 c2 = .ok bl2) : bl1 = bl2 := by
  unfold BuildList buildList at h1 h2
  have hedges : ∀ n m, m ∈ edges (dawnReqs e1 (c1.map (·.2))) .none n ↔ m ∈ edges (dawnReqs e2 (c2.map (·.2))) .none n := by
    intro n m
    rw [edges_plain, edges_plain]
    by_cases hv : n.ver ≠ .none
    · rw [if_pos hv, if_pos hv]
      simp only [dawnReqs]
      by_cases hp : n.path = ""
      · simp only [hp, ↓reduceIte, Option.getD_some]; exact hroots m
      · simp only [hp, ↓reduceIte]
        obtain ⟨hs1, hs2⟩ := hsum n
        cases ha : e1.summary n with
        | none =>
          cases hb : e2.summary n with
          | none => simp
          | some s2 => rw [ha, hb] at hs1; simp at hs1
        | some s1 =>
          cases hb : e2.summary n with
          | none => rw [ha, hb] at hs1; simp at hs1
          | some s2 => simp only [Option.map_some, Option.getD_some]; exact hs2 s1 s2 ha hb m
    · simp [hv]
  apply buildListWith_ext h1 h2
  intro m
  obtain ⟨p, v⟩ := m
  rw [buildListWith_exact h1, buildListWith_exact h2]
  have hr : ∀ x, Reach (dawnReqs e1 (c1.map (·.2))) .none rootMod x ↔ Reach (dawnReqs e2 (c2.map (·.2))) .none rootMod x :=
    fun x => ⟨reach_congr (fun n m => (hedges n m).mp), reach_congr (fun n m => (hedges n m).mpr)⟩
  constructor
  · rintro ⟨a, b, d⟩; exact ⟨a, (hr _).mp b, fun w hw => d w ((hr _).mpr hw)⟩
  · rintro ⟨a, b, d⟩; exact ⟨a, (hr _).mpr b, fun w hw => d w ((hr _).mp hw)⟩

/-- C10, the exploration terminates (fuel sufficiency): in a finite universe `U` of modules that contains the main
project and is closed under requirements, `BuildList` answers — a list or an error, never `Err.fuel` — as soon as the
fuel exceeds `1 + Σ_{n ∈ U} (1 + number of requirements of n)`. Together with `C10_exact` this is total correctness. -/
theorem C10_fuel (e : Env) (c : Config) (U : List Mod) (hroot : rootMod ∈ U)
    (hU : ∀ n ∈ U, ∀ m ∈ edges (dawnReqs e (c.map (·.2))) .none n, m ∈ U) (fuel : Nat)
    (hf : 1 + (U.map fun n => 1 + (edges (dawnReqs e (c.map (·.2))) .none n).length).sum ≤ fuel) :
    BuildList fuel e c ≠ .error .fuel :=
  buildListWith_fuel _ _ rootMod U hroot hU fuel hf

/-! ### non-vacuity: a universe with a diamond, a cycle and two majors of one project -/

namespace Example

def v (a b c : Nat) : Ver := .sv ⟨a, b, c, []⟩

/-- a v1.0.0 → b, c ; b → d v1.0.0, d@v2 v2.0.0 ; c → d v1.1.0 ; d v1.1.0 → a v1.0.0 (a cycle) -/
def summary : Mod → Option Summary
  | ⟨"a", .sv ⟨1, 0, 0, []⟩⟩ => some ⟨"", [⟨"b", v 1 0 0⟩, ⟨"c", v 1 0 0⟩]⟩
  | ⟨"b", .sv ⟨1, 0, 0, []⟩⟩ => some ⟨"", [⟨"d", v 1 0 0⟩, ⟨"d@v2", v 2 0 0⟩]⟩
  | ⟨"c", .sv ⟨1, 0, 0, []⟩⟩ => some ⟨"", [⟨"d", v 1 1 0⟩]⟩
  | ⟨"d", .sv ⟨1, 0, 0, []⟩⟩ => some ⟨"", []⟩
  | ⟨"d", .sv ⟨1, 1, 0, []⟩⟩ => some ⟨"", [⟨"a", v 1 0 0⟩]⟩
  | ⟨"d@v2", .sv ⟨2, 0, 0, []⟩⟩ => some ⟨"", []⟩
  | _ => .none

/-- the same files with every requirement list written in the other order -/
def summary' : Mod → Option Summary
  | ⟨"a", .sv ⟨1, 0, 0, []⟩⟩ => some ⟨"", [⟨"c", v 1 0 0⟩, ⟨"b", v 1 0 0⟩]⟩
  | ⟨"b", .sv ⟨1, 0, 0, []⟩⟩ => some ⟨"", [⟨"d@v2", v 2 0 0⟩, ⟨"d", v 1 0 0⟩]⟩
  | m => summary m

def env : Env := ⟨"r", summary, [], "main", fun _ _ => .none⟩
def env' : Env := ⟨"r", summary', [], "main", fun _ _ => .none⟩
def cfg : Config := [("a", ⟨"a", v 1 0 0⟩)]

/-- the hypotheses of `C10_exact` / `C10_once` / `C10_order` hold here, and the answer is the expected one -/
example : BuildList 50 env cfg =
    .ok [rootMod, ⟨"a", v 1 0 0⟩, ⟨"b", v 1 0 0⟩, ⟨"c", v 1 0 0⟩, ⟨"d", v 1 1 0⟩, ⟨"d@v2", v 2 0 0⟩] := by rfl

example : BuildList 50 env' cfg = BuildList 50 env cfg := by rfl

/-- too little fuel is reported as such, not as a list -/
example : BuildList 3 env cfg = .error .fuel := by rfl

/-- the hypotheses of `C10_fuel`: the seven modules above are a closed universe; the bound is 1 + 7 + 7 edges = 15 -/
def U : List Mod :=
  [rootMod, ⟨"a", v 1 0 0⟩, ⟨"b", v 1 0 0⟩, ⟨"c", v 1 0 0⟩, ⟨"d", v 1 0 0⟩, ⟨"d", v 1 1 0⟩, ⟨"d@v2", v 2 0 0⟩]
example : BuildList 15 env cfg ≠ .error .fuel := C10_fuel env cfg U (by decide) (by decide) 15 (by decide)

end Example

/-!
# C11 — requirement edits keep the requirement graph consistent

`Get`, `Tidy`, `UpgradeAll` are the models of dawn's functions of the same names (`internal/mvs/get.go`), all three
`transformReqs` around an operation of `github.com/pgavlin/mvs` followed by `ReqList`; tied to the sources by
`Dawn/Ties/MvsEdit.lean` and by the correspondence stream `mvs.edit`. Hypotheses that recur:
`WellFormed e roots` — what `LoadConfigBytes` guarantees of every project file (paths non-empty, versions canonical);
`(c.map (·.1)).Nodup` — a project file is a map: no name twice. `fuel` arguments only have to be large enough for the
runs that are assumed to succeed (partial correctness; `Err.fuel` is an outcome of the model, not an answer).
-/

/-- C11, tidy: the requirements `Tidy` returns resolve to the same build list as the original ones — the very same
list, whatever fuel each run had. -/
theorem C11_tidy (e : Env) (c c' : Config) (fuel fuel0 fuel' : Nat) (bl bl' : List Mod)
    (hwf : WellFormed e (c.map (·.2))) (ht : Tidy fuel e c = .ok c')
    (hbl : BuildList fuel0 e c = .ok bl) (hbl' : BuildList fuel' e c' = .ok bl') : bl' = bl :=
  tidy_preserves e c c' fuel fuel0 fuel' bl bl' hwf ht hbl hbl'

/-- C11, upgrading one project (`get p@q` with any query that resolves to `version`, when the current build list does
not have `p` above `version`: add, no-op or upgrade): the new requirements' build list has `p` at the resolved version
or above, and every project of the old build list at its old version or above. Nothing is lowered, nothing disappears. -/
theorem C11_upgrade (e : Env) (c c' : Config) (q : String) (fuel fuel' : Nat) (bl bl' : List Mod) (version : Mod)
    (hwf : WellFormed e (c.map (·.2))) (hget : Get fuel e c q = .ok c') (hbl : BuildList fuel e c = .ok bl)
    (hres : resolveVersionQuery e bl (parseVersionQuery q) = .ok version) (hver : okReq version)
    (hup : ∀ cur ∈ bl, cur.path = version.path → semverCompare cur.ver version.ver ≠ .gt)
    (hbl' : BuildList fuel' e c' = .ok bl') :
    (∃ v, (⟨version.path, v⟩ : Mod) ∈ bl' ∧ Ver.le version.ver v) ∧
    (∀ m ∈ bl, ∃ v, (⟨m.path, v⟩ : Mod) ∈ bl' ∧ Ver.le m.ver v) :=
  get_upgrade hwf hget hbl hres hver hup hbl'

/-- C11, upgrading one project, exact form: "contains the resolved version" holds literally — the new build list has
`p` at exactly the resolved version — whenever the resolved version does not itself (transitively) require a newer
version of `p`. (When it does, `C11_upgrade` still gives "at or above"; that case is the known finding D15b.) -/
theorem C11_upgrade_exact (e : Env) (c c' : Config) (q : String) (fuel fuel' : Nat) (bl bl' : List Mod) (version : Mod)
    (hwf : WellFormed e (c.map (·.2))) (hget : Get fuel e c q = .ok c') (hbl : BuildList fuel e c = .ok bl)
    (hres : resolveVersionQuery e bl (parseVersionQuery q) = .ok version) (hver : okReq version)
    (hup : ∀ cur ∈ bl, cur.path = version.path → semverCompare cur.ver version.ver ≠ .gt)
    (hself : ∀ w, UReach e [version] ⟨version.path, w⟩ → Ver.le w version.ver)
    (hbl' : BuildList fuel' e c' = .ok bl') : version ∈ bl' :=
  get_upgrade_exact hwf hget hbl hres hver hup hself hbl'

/-- C11, upgrading all projects: every project of the old build list is in the new one at the version `Reqs.Upgrade`
resolves for it (its newest tag of the same major version) or above, and at its old version or above. -/
theorem C11_upgrade_all (e : Env) (c c' : Config) (fuel fuel' : Nat) (bl bl' : List Mod)
    (hwf : WellFormed e (c.map (·.2))) (htags : ∀ t ∈ e.tags, okReq t)
    (h : UpgradeAll fuel e c = .ok c') (hbl : BuildList fuel e c = .ok bl) (hbl' : BuildList fuel' e c' = .ok bl') :
    ∀ m ∈ bl, ∃ v, (⟨m.path, v⟩ : Mod) ∈ bl' ∧ Ver.le m.ver v ∧ ∀ u, upgradeLatest e m = some u → Ver.le u.ver v :=
  upgradeAll_dominates hwf htags h hbl hbl'

/-- C11, names (every edit is `transformReqs` around an operation that returned `nv`): no name is used twice; a project
that is still required keeps each of its names; every entry of the result is an old name still on its old project, or
a (single, by the first clause unique) name for a project that had none. -/
theorem C11_names (e : Env) (c c' : Config) (tx : List Mod → Except Err (List Mod)) (nv : List Mod)
    (h : transformReqs e c tx = .ok c') (htx : tx (c.map (·.2)) = .ok nv) (hnd : (c.map (·.1)).Nodup) :
    (c'.map (·.1)).Nodup ∧
    (∀ n r, (n, r) ∈ c → (∃ v ∈ nv, v.path = r.path ∧ v.path ≠ "") → ∃ v, (n, v) ∈ c' ∧ v.path = r.path) ∧
    (∀ n v, (n, v) ∈ c' → (∃ r, (n, r) ∈ c ∧ r.path = v.path) ∨ (v ∈ nv ∧ ¬ ∃ o ∈ c, o.2.path = v.path)) :=
  transformReqs_names h htx hnd

/-- C11, repeating tidy changes nothing -/
theorem C11_idem_tidy (e : Env) (c c' c'' : Config) (fuel fuel' : Nat)
    (hwf : WellFormed e (c.map (·.2))) (hnames : (c.map (·.1)).Nodup)
    (h1 : Tidy fuel e c = .ok c') (h2 : Tidy fuel' e c' = .ok c'') : c'' = c' :=
  tidy_idem hwf hnames h1 h2

/-- C11, repeating upgrade-all changes nothing -/
theorem C11_idem_upgrade_all (e : Env) (c c' c'' : Config) (fuel fuel' : Nat)
    (hwf : WellFormed e (c.map (·.2))) (htags : ∀ t ∈ e.tags, okReq t) (hnames : (c.map (·.1)).Nodup)
    (h1 : UpgradeAll fuel e c = .ok c') (h2 : UpgradeAll fuel' e c' = .ok c'') : c'' = c' :=
  upgradeAll_idem hwf htags hnames h1 h2

/-- C11, repeating `get p@q`: if the first call landed — the build list of its result has `p` at the version the query
resolves to — the second call returns the file unchanged. (The excluded case is the known findings D15 / D15b: a call
that could not land is followed by a call that takes another branch.) -/
theorem C11_get_idem (e : Env) (c c' : Config) (q : String) (fuel0 fuel : Nat) (bl' : List Mod) (version : Mod)
    (hnames : (c.map (·.1)).Nodup) (hget : Get fuel0 e c q = .ok c')
    (hwf' : WellFormed e (c'.map (·.2))) (hbl' : BuildList fuel e c' = .ok bl')
    (hres : resolveVersionQuery e bl' (parseVersionQuery q) = .ok version) (hver : okReq version)
    (hland : version ∈ bl') : Get fuel e c' q = .ok c' :=
  get_landed_noop hwf' (transformReqs_sorted hget hnames) hbl' hres hver hland

/-- C11, downgrading, first half (kept as a lemma of `C11_downgrade`, which closes the gap named here). Proved: when `get p@q` is a downgrade (the current build list has `p` above the resolved
version), the project file it writes resolves to exactly the build list `mvs.Downgrade` computed — the file and the
algorithm agree, names and all (`C11_names`). NOT proved (the gap): that this list has `p` at or below the resolved
version and nothing above its old version; that is the exclusion-closure invariant of `add`/`exclude` in `mvs.Downgrade`
(a module is kept only if nothing it transitively requires exceeds the downgraded maxima), checked on the implementation
by the judge of `bin/check C11` (kinds `get-downgrade-above`) and by the correspondence stream `mvs.edit`. -/
theorem C11_downgrade_partial (e : Env) (c c' : Config) (q : String) (fuel fuel' : Nat) (bl bl' : List Mod) (version : Mod)
    (hwf : WellFormed e (c.map (·.2))) (htags : ∀ t ∈ e.tags, okReq t)
    (hget : Get fuel e c q = .ok c') (hbl : BuildList fuel e c = .ok bl)
    (hres : resolveVersionQuery e bl (parseVersionQuery q) = .ok version) (hver : okReq version)
    (hdown : ∃ cur ∈ bl, cur.path = version.path ∧ semverCompare cur.ver version.ver = .gt)
    (hbl' : BuildList fuel' e c' = .ok bl') :
    ∃ bld, mvsDowngrade fuel (dawnReqs e (c.map (·.2))) (previous e) rootMod version = .ok bld ∧ bl' = bld :=
  get_downgrade hwf htags hget hbl hres hver hdown hbl'

/-- C11, downgrading, at full strength: when `get p@q` is a downgrade, the build list of the project file it writes has
`p` at or below the resolved version — or does not have `p` at all. (`C11_downgrade_partial`: that build list is the list
`mvs.Downgrade` computed; `mvsDowngrade_at_or_below`: the exclusion closure of `add`/`exclude` keeps out of that list
everything that, transitively, requires `p` above the resolved version.) -/
theorem C11_downgrade (e : Env) (c c' : Config) (q : String) (fuel fuel' : Nat) (bl bl' : List Mod) (version : Mod)
    (hwf : WellFormed e (c.map (·.2))) (htags : ∀ t ∈ e.tags, okReq t)
    (hget : Get fuel e c q = .ok c') (hbl : BuildList fuel e c = .ok bl)
    (hres : resolveVersionQuery e bl (parseVersionQuery q) = .ok version) (hver : okReq version)
    (hdown : ∃ cur ∈ bl, cur.path = version.path ∧ semverCompare cur.ver version.ver = .gt)
    (hbl' : BuildList fuel' e c' = .ok bl') :
    ∀ w, (⟨version.path, w⟩ : Mod) ∈ bl' → Ver.le w version.ver := by
  obtain ⟨bld, hd, rfl⟩ := C11_downgrade_partial e c c' q fuel fuel' bl bl' version hwf htags hget hbl hres hver hdown hbl'
  exact mvsDowngrade_at_or_below hd hver.1

/-- C11, the downgrade loop terminates: when `Previous` answers `"none"` or a strictly smaller version out of a finite
set `vs` (to which the versions the downgrade names belong), the loop `for excluded[r]` of `mvs.Downgrade` ends after at
most `|vs| + 1` iterations (given that the bounded recursion `add` has enough fuel, a separate matter). -/
theorem C11_downgrade_terminates (fuel : Nat) (rq : Reqs) (prev : Mod → Option Mod) (maxv : Sel) (vs : List Ver)
    (hadd : ∀ st p, (add fuel rq maxv st p).isSome)
    (hprev : ∀ r p, prev r = some p → p.ver = .none ∨ (p.ver ∈ vs ∧ cmpVersion p.ver r.ver = .lt))
    (hmax : ∀ p v, maxv.lookup p = some v → v ∈ vs) (n : Nat) (st : DState) (r : Mod) (hn : vs.length < n) :
    stepDown fuel rq prev maxv n st r ≠ .error .fuel := by
  apply stepDown_terminates fuel rq prev maxv vs hadd hprev hmax
  exact Nat.lt_of_le_of_lt (List.length_filter_le _ _) hn

/-- `Reqs.Previous` as it is now satisfies the hypothesis of `C11_downgrade_terminates` with `vs` = the tagged versions -/
theorem C11_previous_decreases (e : Env) (r p : Mod) (hr : r.path ≠ "") (hrv : r.ver ≠ .root) (h : previous e r = some p) :
    p.ver = .none ∨ (p.ver ∈ e.tags.map (·.ver) ∧ cmpVersion p.ver r.ver = .lt) :=
  previous_decreases e r p hr hrv h

/-- D13 (fixed; regression witness): the old `Reqs.Previous`, asked for the version before `""`, answers `""`, and the
loop `for excluded[r]` that has reached such a module never ends, whatever the number of iterations. -/
theorem C11_previous_counterexample (fuel : Nat) (rq : Reqs) (e : Env) (maxv : Sel) (p : String) (hp : p ≠ "")
    (hloc : located e p = true) (st : DState)
    (hex : (⟨p, .root⟩ : Mod) ∈ st.excluded) (hadded : (⟨p, .root⟩ : Mod) ∈ st.added) (n : Nat) :
    previousD13 e ⟨p, .root⟩ = some ⟨p, .root⟩ ∧
    stepDown fuel rq (previousD13 e) maxv n st ⟨p, .root⟩ = .error .fuel :=
  ⟨previousD13_fixpoint e p hp hloc, stepDown_D13_spins fuel rq e maxv p hp hloc st hex hadded n⟩

/-- C11, queries by ref: what `resolveRefQuery` (modelled over an abstract commit history: refs, revisions, the order
`History()` walks ancestors, the tagged revisions — several tags may sit on one revision) resolves to is a version of the
queried project. Let `t` be the tag the search stops at: the tag of the CLOSEST tagged ancestor (the first revision in
history order that carries a tag of the project's major line) and, among the tags of that revision, the GREATEST version
(`repo.Versions()` is sorted by version; the code takes the last match). Then the answer is `t` itself when that ancestor
is the revision the ref names, and otherwise sorts strictly ABOVE `t` — asking for a revision that descends from a tag is
never a step below that tag, and a commit tagged v1.0.0-rc.1 and v1.0.0 is v1.0.0. -/
theorem C11_ref_resolution (h : History) (major path ref revId : String) (rev : Revision) (m : Mod)
    (hsorted : h.tagRevs.Pairwise fun a b => Ver.le a.1.ver b.1.ver)
    (href : h.refs ref = some revId) (hrev : h.revision revId = some rev)
    (hres : resolveRefQuery h major path ref = .ok m) :
    m.path = path ∧
    ∀ t tr, closestTag h major path (h.ancestors revId) = some (t, tr) →
      (∀ t' ∈ h.tagRevs, t'.1.path = path → majorVersionMatch major t'.1.ver = true → t'.2 = tr → Ver.le t'.1.ver t.ver) ∧
      (tr = rev.id → m = t) ∧ (tr ≠ rev.id → ∀ s, t.ver = .sv s → cmpVersion t.ver m.ver = .lt) := by
  obtain ⟨h1, h2⟩ := resolveRefQuery_spec href hrev hres
  refine ⟨h1, fun t tr ht => ⟨?_, h2 t tr ht⟩⟩
  exact closestTag_greatest hsorted ht

/-! ### total correctness: fuel sufficiency in finite universes (the C11 counterpart of `C10_fuel`)

`U` is any finite list of modules that contains the main project and is closed under requirements; `deg` counts a
module's requirements. With these, the partial-correctness theorems above become total for `Tidy` and `UpgradeAll`; and for
`get` (`C11_fuel_get`: one universe and one bound for its three branches). -/

/-- `Tidy` answers — requirements or an error, never `Err.fuel` — once the fuel exceeds `1 + |U| + Σ_{n∈U} (2 + deg n)` -/
theorem C11_fuel_tidy (e : Env) (c : Config) (U : List Mod) (hroot : rootMod ∈ U)
    (hU : ∀ n ∈ U, ∀ l, (dawnReqs e (c.map (·.2))).required n = some l → ∀ m ∈ l, m ∈ U) (fuel : Nat)
    (hf : 1 + U.length + (U.map fun n => 2 + deg (dawnReqs e (c.map (·.2))) n).sum ≤ fuel) :
    Tidy fuel e c ≠ .error .fuel :=
  transformReqs_fuel (req_fuel _ rootMod U hroot hU fuel hf)

/-- `UpgradeAll` answers once the fuel exceeds both the bound of its exploration (requirement and upgrade edges) and
the bound of `ReqList` -/
theorem C11_fuel_upgrade_all (e : Env) (c : Config) (U : List Mod) (hroot : rootMod ∈ U)
    (hU : ∀ n ∈ U, ∀ l, (dawnReqs e (c.map (·.2))).required n = some l → ∀ m ∈ l, m ∈ U)
    (hU' : ∀ n ∈ U, ∀ m ∈ edges (dawnReqs e (c.map (·.2))) (some (upAllFn e)) n, m ∈ U) (fuel : Nat)
    (hf1 : 1 + (U.map fun n => 1 + (edges (dawnReqs e (c.map (·.2))) (some (upAllFn e)) n).length).sum ≤ fuel)
    (hf2 : 1 + U.length + (U.map fun n => 2 + deg (dawnReqs e (c.map (·.2))) n).sum ≤ fuel) :
    UpgradeAll fuel e c ≠ .error .fuel :=
  transformReqs_fuel (op_reqList_fuel _ _ (some (upAllFn e)) rootMod U hroot hU hU' fuel hf1 hf2)

/-- C11, `get` as a total function: in ONE finite universe `U` that contains the main project, is closed under requirements,
contains whatever the query can resolve to (together with the placeholder `p@none` that `mvs.Upgrade` adds for a project
that is not yet required) and whatever `Reqs.Previous` answers for its modules other than the main project (strictly decreasing or `"none"`), `Get`
never answers `Err.fuel` once the fuel reaches `getBound` = 1 + Σ_{n∈U} (3 + |U| + 2·deg n) — whichever branch it takes
(add, no-op, upgrade with its overridden exploration, downgrade with `add`, the loop `for excluded[r]` and its two
re-resolutions, and the final `ReqList`). With this, `C11_upgrade`, `C11_upgrade_exact`, `C11_downgrade`, `C11_names` and
`C11_get_idem` are statements about a function that answers. -/
theorem C11_fuel_get (fuel : Nat) (e : Env) (c : Config) (q : String) (U : List Mod) (hroot : rootMod ∈ U)
    (hU : ∀ n ∈ U, ∀ l, (dawnReqs e (c.map (·.2))).required n = some l → ∀ m ∈ l, m ∈ U)
    (hres : ∀ bl version, resolveVersionQuery e bl (parseVersionQuery q) = .ok version →
      version ∈ U ∧ (⟨version.path, .none⟩ : Mod) ∈ U)
    (hprev : ∀ r p, r ∈ U → r.path ≠ "" → previous e r = some p → p.ver = .none ∨ (cmpVersion p.ver r.ver = .lt ∧ p ∈ U))
    (hf : getBound (dawnReqs e (c.map (·.2))) U ≤ fuel) :
    Get fuel e c q ≠ .error .fuel :=
  Get_fuel fuel e c q U hroot hU hres hprev hf

/-- `mvs.Downgrade`'s recursion `add` answers once the fuel reaches `Σ_{n∈U} (3 + 2·deg n)` -/
theorem C11_fuel_add (rq : Reqs) (maxv : Sel) (U : List Mod)
    (hU : ∀ n ∈ U, ∀ l, rq.required n = some l → ∀ m ∈ l, m ∈ U) (fuel : Nat)
    (hf : (U.map fun n => 3 + 2 * deg rq n).sum ≤ fuel) (st : DState) (m : Mod) (hm : m ∈ U) :
    (add fuel rq maxv st m).isSome :=
  add_fuel rq maxv U hU fuel hf st m hm

/-- `ReqList` answers once the fuel exceeds `1 + |list| + Σ_{n∈U} (2 + deg n)` -/
theorem C11_fuel_reqList (rq : Reqs) (main : Mod) (list U : List Mod) (hmain : main ∈ U) (hlist : ∀ m ∈ list, m ∈ U)
    (hU : ∀ n ∈ U, ∀ l, rq.required n = some l → ∀ m ∈ l, m ∈ U) (fuel : Nat)
    (hf : 1 + list.length + (U.map fun n => 2 + deg rq n).sum ≤ fuel) :
    reqList fuel rq main list ≠ .error .fuel :=
  reqList_fuel rq main list U hmain hlist hU fuel hf

/-- the loop `for excluded[r]` of `mvs.Downgrade`, total: with candidates drawn from `U` (what `Previous` answers and the
versions the downgrade names stay in `U`), `Previous` strictly decreasing within the finite set `vs`, and fuel for `add`
as in `C11_fuel_add`, the loop never answers `Err.fuel` when allowed more than `|vs|` iterations -/
theorem C11_fuel_downgrade_loop (fuel : Nat) (rq : Reqs) (prev : Mod → Option Mod) (maxv : Sel) (vs : List Ver) (U : List Mod)
    (hU : ∀ n ∈ U, ∀ l, rq.required n = some l → ∀ m ∈ l, m ∈ U)
    (hf : (U.map fun n => 3 + 2 * deg rq n).sum ≤ fuel)
    (hprev : ∀ r p, r ∈ U → prev r = some p → p.ver = .none ∨ (p.ver ∈ vs ∧ cmpVersion p.ver r.ver = .lt ∧ p ∈ U))
    (hmax : ∀ p v, maxv.lookup p = some v → v ∈ vs)
    (hadj : ∀ r p v, r ∈ U → prev r = some p → maxv.lookup r.path = some v → (⟨p.path, v⟩ : Mod) ∈ U)
    (n : Nat) (st : DState) (r : Mod) (hr : r ∈ U) (hn : vs.length < n) :
    stepDown fuel rq prev maxv n st r ≠ .error .fuel := by
  apply stepDown_terminates_on (· ∈ U) fuel rq prev maxv vs
    (fun st p hp => add_fuel rq maxv U hU fuel hf st p hp) hprev hmax hadj n st r hr
  exact Nat.lt_of_le_of_lt (List.length_filter_le _ _) hn

/-! ### non-vacuity and the concrete witnesses of D13, D14, D15 -/

namespace Example

def R := "github.com/v/u"
def A := "github.com/v/u/a"
def B := "github.com/v/u/b"
def P0 := "github.com/v/u/p0"
def P1 := "github.com/v/u/p1"

/-- D13's universe: a v1.1.0 → b v1.2.0; b v1.1.0; b v1.2.0; b v1.3.0 -/
def summary13 : Mod → Option Summary
  | ⟨"github.com/v/u/a", .sv ⟨1, 1, 0, []⟩⟩ => some ⟨"", [⟨B, v 1 2 0⟩]⟩
  | ⟨"github.com/v/u/b", .sv ⟨1, 1, 0, []⟩⟩ => some ⟨"", []⟩
  | ⟨"github.com/v/u/b", .sv ⟨1, 2, 0, []⟩⟩ => some ⟨"", []⟩
  | ⟨"github.com/v/u/b", .sv ⟨1, 3, 0, []⟩⟩ => some ⟨"lib", []⟩
  | _ => .none

def env13 : Env := ⟨R, summary13, [⟨B, v 1 1 0⟩, ⟨A, v 1 1 0⟩, ⟨B, v 1 2 0⟩, ⟨B, v 1 3 0⟩], "main", fun _ _ => .none⟩
def cfg13 : Config := [("a", ⟨A, v 1 1 0⟩), ("b", ⟨B, v 1 2 0⟩)]

/-- `get` with the old `Reqs.Previous` -/
def GetD13 (fuel : Nat) (e : Env) (c : Config) (query : String) : Except Err Config :=
  transformReqs e c fun root => get fuel e (previousD13 e) root (parseVersionQuery query)

/-- the hypotheses of `C11_fuel_tidy` on D13's universe: five modules, closed; the bound is 1 + 5 + (5·2 + 3 edges) = 19 -/
def U13 : List Mod := [rootMod, ⟨A, v 1 1 0⟩, ⟨B, v 1 1 0⟩, ⟨B, v 1 2 0⟩, ⟨B, v 1 3 0⟩]
example : Tidy 19 env13 cfg13 ≠ .error .fuel := C11_fuel_tidy env13 cfg13 U13 (by decide) (by decide) 19 (by decide)

/-- the hypotheses of `C11_fuel_get` on D13's universe and failing input (a downgrade): the five modules, plus the
placeholder `b@none`; the bound is 1 + 6·(3 + 6) + 2·3 = 61 -/
def U13g : List Mod := U13 ++ [⟨B, .none⟩]
example : Get 61 env13 cfg13 "github.com/v/u/b@v1.1.0" ≠ .error .fuel := by
  have hprev : ∀ r ∈ U13g, (match previous env13 r with
      | some p => decide (r.path = "" ∨ p.ver = .none ∨ (cmpVersion p.ver r.ver = .lt ∧ p ∈ U13g))
      | .none => true) = true := by decide
  apply C11_fuel_get 61 env13 cfg13 _ U13g (by decide) (by decide) _
    (fun r p hr hne hp => by
      have := hprev r hr
      rw [hp] at this
      rcases (by simpa using this : r.path = "" ∨ p.ver = .none ∨ (cmpVersion p.ver r.ver = .lt ∧ p ∈ U13g)) with h1 | h1
      · exact absurd h1 hne
      · exact h1) (by decide)
  intro bl version h
  have key : resolveVersionQuery env13 bl (parseVersionQuery "github.com/v/u/b@v1.1.0") = .ok ⟨B, v 1 1 0⟩ := by rfl
  rw [key] at h
  cases h
  exact ⟨by decide, by decide⟩

/-- D13 on its failing input: the fixed model drops `a`, which has no older tag, and lands on b v1.1.0 … -/
example : Get 30 env13 cfg13 "github.com/v/u/b@v1.1.0" = .ok [("b", ⟨B, v 1 1 0⟩)] := by rfl
/-- … the old one does not return -/
example : GetD13 30 env13 cfg13 "github.com/v/u/b@v1.1.0" = .error .fuel := by rfl

/-- hypotheses of `C11_downgrade_partial` (same input): the current list has b v1.2.0, the query resolves b v1.1.0 -/
example : BuildList 30 env13 cfg13 = .ok [rootMod, ⟨A, v 1 1 0⟩, ⟨B, v 1 2 0⟩] := by rfl
example : resolveVersionQuery env13 [rootMod, ⟨A, v 1 1 0⟩, ⟨B, v 1 2 0⟩] (parseVersionQuery "github.com/v/u/b@v1.1.0") =
    .ok ⟨B, v 1 1 0⟩ := by rfl

/-- hypotheses of `C11_tidy`, `C11_idem_tidy`: b is implied by a -/
example : Tidy 30 env13 cfg13 = .ok [("a", ⟨A, v 1 1 0⟩)] := by rfl
example : Tidy 30 env13 [("a", ⟨A, v 1 1 0⟩)] = .ok [("a", ⟨A, v 1 1 0⟩)] := by rfl
example : WellFormed env13 (cfg13.map (·.2)) := by
  refine ⟨?_, ?_⟩
  · intro m hm
    simp only [cfg13, List.map_cons, List.map_nil, List.mem_cons, List.not_mem_nil, or_false] at hm
    rcases hm with rfl | rfl <;> exact ⟨by decide, _, rfl⟩
  · intro n s hs m hm
    unfold env13 summary13 at hs
    dsimp only at hs
    split at hs <;> cases hs <;> simp at hm
    subst hm; exact ⟨by decide, _, rfl⟩

/-- hypotheses of `C11_upgrade`, `C11_upgrade_all`, `C11_get_idem`: an upgrade by range query that lands -/
example : Get 30 env13 cfg13 "github.com/v/u/b@>v1.2.0" = .ok [("a", ⟨A, v 1 1 0⟩), ("b", ⟨B, v 1 3 0⟩)] := by rfl
example : Get 30 env13 [("a", ⟨A, v 1 1 0⟩), ("b", ⟨B, v 1 3 0⟩)] "github.com/v/u/b@>v1.2.0" =
    .ok [("a", ⟨A, v 1 1 0⟩), ("b", ⟨B, v 1 3 0⟩)] := by rfl
example : UpgradeAll 30 env13 cfg13 = .ok [("a", ⟨A, v 1 1 0⟩), ("b", ⟨B, v 1 3 0⟩)] := by rfl
/-- a new project gets its configured name; an existing name `lib` forces the suffix -/
example : Get 30 env13 [("lib", ⟨A, v 1 1 0⟩)] "github.com/v/u/b@v1.3.0" =
    .ok [("lib", ⟨A, v 1 1 0⟩), ("lib-1", ⟨B, v 1 3 0⟩)] := by rfl

/-- D14 (fixed; regression witness): with two names for one path the old first loop of `transformReqs` depended on the
order of the returned list (map iteration order in Go) and could lower the project … -/
theorem C11_alias_counterexample :
    firstLoopD14 [("n0", ⟨P0, v 1 4 0⟩), ("n1", ⟨P0, v 1 2 0⟩)] [⟨P1, v 1 4 0⟩, ⟨P0, v 1 4 0⟩, ⟨P0, v 1 2 0⟩] =
      [("n0", ⟨P0, v 1 2 0⟩), ("n1", ⟨P0, v 1 2 0⟩)] ∧
    firstLoopD14 [("n0", ⟨P0, v 1 4 0⟩), ("n1", ⟨P0, v 1 2 0⟩)] [⟨P1, v 1 4 0⟩, ⟨P0, v 1 2 0⟩, ⟨P0, v 1 4 0⟩] =
      [("n0", ⟨P0, v 1 4 0⟩), ("n1", ⟨P0, v 1 4 0⟩)] := by
  constructor <;> rfl

/-- … the present one leaves every alias on its own requirement, in either order -/
example : ∀ nv ∈ [[⟨P1, v 1 4 0⟩, ⟨P0, v 1 4 0⟩, ⟨P0, v 1 2 0⟩], [⟨P1, v 1 4 0⟩, ⟨P0, v 1 2 0⟩, ⟨P0, v 1 4 0⟩]],
    ([("n0", ⟨P0, v 1 4 0⟩), ("n1", ⟨P0, v 1 2 0⟩)] : Config).filterMap
      (fun nr => (pickFor nr.2 nv .none).map fun w => (nr.1, w)) = [("n0", ⟨P0, v 1 4 0⟩), ("n1", ⟨P0, v 1 2 0⟩)] := by
  decide

/-- a history: commit 1 tagged p v1.0.0, commit 2 tagged p v1.4.0, commit 3 untagged; `main` names 3, `rel` names 2 -/
def hist33 : History :=
  { refs := fun r => if r = "main" then some "3" else if r = "rel" then some "2" else .none
    revision := fun id => some ⟨id, "1970010100" ++ (if id = "3" then "0500" else "0320"), id⟩
    ancestors := fun id => if id = "3" then ["3", "2", "1"] else if id = "2" then ["2", "1"] else ["1"]
    tagRevs := [(⟨P0, v 1 0 0⟩, "1"), (⟨P0, v 1 4 0⟩, "2")] }

/-- hypotheses of `C11_ref_resolution`: the branch ahead of the newest tag resolves above it, the branch at the tag to the tag -/
example : resolveRefQuery hist33 "" P0 "main" = .ok ⟨P0, .sv ⟨1, 4, 1, [.num 0, .str "19700101000500-3".toList]⟩⟩ := by rfl
example : resolveRefQuery hist33 "" P0 "rel" = .ok ⟨P0, v 1 4 0⟩ := by rfl

/-- two tags of one project on one commit (v1.0.0-rc.1 and v1.0.0 on commit 2, listed in version order): the greatest wins -/
def hist2 : History :=
  { refs := fun r => if r = "rel" then some "2" else .none
    revision := fun id => some ⟨id, "19700101000320", id⟩
    ancestors := fun id => if id = "2" then ["2", "1"] else ["1"]
    tagRevs := [(⟨P0, .sv ⟨0, 9, 0, []⟩⟩, "2"), (⟨P0, .sv ⟨1, 0, 0, [.str "rc".toList, .num 1]⟩⟩, "2"), (⟨P0, v 1 0 0⟩, "2")] }
example : resolveRefQuery hist2 "" P0 "rel" = .ok ⟨P0, v 1 0 0⟩ := by rfl
example : hist2.tagRevs.Pairwise fun a b => Ver.le a.1.ver b.1.ver := by decide

/-- D33 (fixed; regression witness): the search that did not stop at the first tagged ancestor based the pseudo-version
on the OLDEST tag — below the tag the revision descends from — and did not recognise a tagged revision -/
theorem C11_ref_counterexample :
    resolveRefQueryD33 hist33 "" P0 "main" = .ok ⟨P0, .sv ⟨1, 0, 1, [.num 0, .str "19700101000500-3".toList]⟩⟩ ∧
    cmpVersion (.sv ⟨1, 0, 1, [.num 0, .str "19700101000500-3".toList]⟩) (v 1 4 0) = .lt ∧
    resolveRefQueryD33 hist33 "" P0 "rel" = .ok ⟨P0, .sv ⟨1, 0, 1, [.num 0, .str "19700101000320-2".toList]⟩⟩ := by
  refine ⟨by rfl, by decide, by rfl⟩

/-- D15's universe: p0 v1.1.0 → p1 v1.2.0; p0 v1.2.0; p1 v1.1.0; p1 v1.2.0 -/
def summary15 : Mod → Option Summary
  | ⟨"github.com/v/u/p0", .sv ⟨1, 1, 0, []⟩⟩ => some ⟨"", [⟨P1, v 1 2 0⟩]⟩
  | ⟨"github.com/v/u/p0", .sv ⟨1, 2, 0, []⟩⟩ => some ⟨"", []⟩
  | ⟨"github.com/v/u/p1", .sv ⟨1, 1, 0, []⟩⟩ => some ⟨"", []⟩
  | ⟨"github.com/v/u/p1", .sv ⟨1, 2, 0, []⟩⟩ => some ⟨"", []⟩
  | _ => .none

def env15 : Env := ⟨R, summary15, [⟨P0, v 1 1 0⟩, ⟨P1, v 1 1 0⟩, ⟨P0, v 1 2 0⟩, ⟨P1, v 1 2 0⟩], "main", fun _ _ => .none⟩

/-- D15 (known finding): the excluded case of `C11_get_idem` is real — the downgrade cannot land on p0 v1.1.0 (it needs
p1 v1.2.0, newer than the current list), drops p0 and its name, and the second call adds p0 back. -/
theorem C11_get_idem_counterexample :
    Get 30 env15 [("n0", ⟨P0, v 1 2 0⟩), ("n1", ⟨P1, v 1 1 0⟩)] "github.com/v/u/p0@v1.1.0" = .ok [("n1", ⟨P1, v 1 1 0⟩)] ∧
    Get 30 env15 [("n1", ⟨P1, v 1 1 0⟩)] "github.com/v/u/p0@v1.1.0" =
      .ok [("n1", ⟨P1, v 1 1 0⟩), ("p0", ⟨P0, v 1 1 0⟩)] := by
  constructor <;> rfl

end Example

end Dawn.Mvs

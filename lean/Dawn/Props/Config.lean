import Dawn.Proofs.Config
/-!
# C19 — project configuration round-trips through its file format

Property theorems only. `emit` is the model of `WriteConfigFile` (with go-toml v2's value encoder as used),
`parseSub` the model of `LoadConfigBytes` on the sub-language `emit` produces; both are tied to the source by
`Dawn/Ties/Config.lean` and by the correspondence streams `config.*`.
-/
namespace Dawn.Config

/-- C19: writing a valid configuration and loading it back yields the same configuration — for every project
name, project version and ignore entry (any byte strings: quotes, backslashes, control bytes, non-ASCII, empty),
every requirement name (including the empty one and names that need quoting), every canonical version and clean
path. `c.valid`: requirement versions canonical semver, requirement paths fixed points of `CleanPath`, the entries
of the requirements map listed in ascending order of their distinct names. -/
theorem C19_roundtrip (c : Config) (h : c.valid = true) : parseSub (emit c) = .ok c :=
  parseSub_emitWith mustQuote c h (fun _ _ hq => mustQuote_false hq)

/-- C19: writing the loaded configuration again produces identical bytes. -/
theorem C19_stable (c c' : Config) (h : c.valid = true) (hl : parseSub (emit c) = .ok c') : emit c' = emit c := by
  rw [C19_roundtrip c h] at hl
  cases hl; rfl

/-- what goes wrong without the repair of D12, in general: the old quoting rule is correct for every
configuration without an empty requirement name … -/
theorem C19_roundtrip_old_rule (c : Config) (h : c.valid = true) (hne : ∀ r ∈ c.reqs, r.key ≠ []) :
    parseSub (emitOld c) = .ok c := by
  refine parseSub_emitWith mustQuoteOld c h (fun r hr hq => ⟨hne r hr, ?_⟩)
  have := @mustQuote_false r.key (by
    simp only [mustQuote, decide_eq_false_iff_not, not_or]
    exact ⟨hne r hr, by simpa [mustQuoteOld] using hq⟩)
  exact this.2

/-! ## `dawn get` and `dawn tidy` -/

/-- C19 "rewriting dawn.toml during get and tidy therefore loses nothing but comments and layout": the commands
load the file (giving some configuration `c`), replace the requirements by what the resolver returned (`r`) and write the result
(`rewrite`, tied to cmd/dawn/get.go and tidy.go by `Dawn/Ties/Config.lean` and run against the real commands by the
stream `config.rewrite`). Whatever the old file was, the new file loads, and what it loads agrees with the old
configuration on name, version and ignore list and has exactly the requirements `r` — provided `r` is valid
(canonical versions, clean paths, listed in key order; the old requirements do not matter). -/
theorem C19_rewrite_preserves (c : Config) (r : List Req) (hr : (rewrite c r).valid = true) :
    ∃ c', parseSub (emit (rewrite c r)) = .ok c' ∧
      c'.name = c.name ∧ c'.version = c.version ∧ c'.ignore = c.ignore ∧ c'.reqs = r :=
  ⟨rewrite c r, C19_roundtrip _ hr, rfl, rfl, rfl, rfl⟩

/-- the same about the files: the file the commands write loads to the old configuration with the new requirements -/
theorem C19_rewrite_file (text out : Bytes) (c : Config) (r : List Req) (hl : parseSub text = .ok c)
    (hs : sortedKeys r = true) (hr : (rewrite c r).valid = true) (hw : rewriteFile text r = .ok out) :
    parseSub out = .ok { c with reqs := r } := by
  unfold rewriteFile at hw
  rw [hl, sortReqs_sorted r hs] at hw
  cases hw
  exact C19_roundtrip _ hr

/-! ## `CleanPath` -/

/-- `CleanPath` is **not** idempotent in general: a version suffix `@v1` (or `@v0`, or an empty one) is dropped, and
what is left can again end in such a suffix. `a@v1@v1` cleans to `a@v1`, which cleans to `a`. (Reproduced on the
real code; such a path is not "in clean form", so it is outside C19's quantifier: a finding, not a violation.) -/
theorem C19_cleanpath_idem_counterexample :
    cleanPath [97, 64, 118, 49, 64, 118, 49] = [97, 64, 118, 49] ∧
    cleanPath [97, 64, 118, 49] = [97] ∧ cleanPath [97] = [97] := by decide

/-- C19_cleanpath_idem, the part that holds: `CleanPath(p)` is a fixed point of `CleanPath` — i.e. in the clean
form C19 quantifies over — whenever `p` carries a version suffix that is kept (`@v2`, `@v3`, …) or contains no `@`
at all. Missing from full idempotence: exactly the paths whose suffix is dropped (`@v0`, `@v1`, `@`) while the
rest still contains an `@` in its last element (the counterexample above). -/
theorem C19_cleanpath_idem_partial (p : Bytes)
    (h : keptVersion (splitPathVersion p).2 ∨ (64 : UInt8) ∉ p) :
    cleanPath (cleanPath p) = cleanPath p := by
  rcases h with h | h
  · exact cleanPath_fixed_of_kept p h
  · exact cleanPath_fixed_of_no_at p h

/-- the configuration of D12: one requirement whose name is the empty string (`x`, `v1.0.0`) -/
def emptyNameConfig : Config := ⟨[], [], [], [⟨[], [120], [118, 49, 46, 48, 46, 48]⟩]⟩

/-- D12 (regression witness): with the quoting rule as it was, a valid configuration with an empty requirement
name is written as ` = {path = 'x', version = 'v1.0.0'}`, which is not in the language `LoadConfigBytes`
accepts; with the repaired rule it is written `'' = {…}` and loads back. -/
theorem C19_empty_name_counterexample :
    emptyNameConfig.valid = true ∧
    emitOld emptyNameConfig = tHeader ++ nl ++ [32, 61, 32, 123] ++ kPath ++ [32, 61, 32, 39, 120, 39, 44, 32] ++ kVersion ++
      [32, 61, 32, 39, 118, 49, 46, 48, 46, 48, 39, 125, 10] ∧
    parseSub (emitOld emptyNameConfig) = .error .outside ∧
    parseSub (emit emptyNameConfig) = .ok emptyNameConfig := by decide

/-! non-vacuity: a valid configuration with every feature (name `it's`, version, two ignore entries one of which
needs a basic string, three requirements: empty name, quoted name `a b`, bare name `b`; a pseudo-version and an
`@v2` path) -/
def sampleConfig : Config :=
  ⟨[105, 116, 39, 115], [118, 49], [[42, 46, 103, 111], [9, 10, 127]],
   [⟨[], [120, 47, 121], [118, 48, 46, 49, 46, 48, 45, 112, 114, 101, 46, 49]⟩,
    ⟨[97, 32, 98], [46], [118, 49, 46, 50, 46, 51]⟩,
    ⟨[98], [97, 47, 98, 64, 118, 50], [118, 50, 46, 48, 46, 48]⟩]⟩

example : sampleConfig.valid = true := by decide
example : parseSub (emit sampleConfig) = .ok sampleConfig := by decide
example : validate ⟨[], [], [], [⟨[107], [97], [118, 49]⟩]⟩ = .error .badVersion := by decide

/-! requirement paths whose last element has an `@` that is not followed by a major version are in clean form:
`x@dev`, `user@host/x`, `x@v03`, `a@b@c` (valid, and they round-trip); `x@v1` and `x@` are not -/
example : (⟨[], [], [], [⟨[97], [120, 64, 100, 101, 118], [118, 49, 46, 48, 46, 48]⟩,
    ⟨[98], [117, 115, 101, 114, 64, 104, 111, 115, 116, 47, 120], [118, 49, 46, 48, 46, 48]⟩,
    ⟨[99], [120, 64, 118, 48, 51], [118, 49, 46, 48, 46, 48]⟩,
    ⟨[100], [97, 64, 98, 64, 99], [118, 49, 46, 48, 46, 48]⟩]⟩ : Config).valid = true := by decide
example : cleanPath [120, 64, 118, 49] = [120] ∧ cleanPath [120, 64] = [120] ∧
    cleanPath [120, 64, 100, 101, 118] = [120, 64, 100, 101, 118] := by decide

/-! non-vacuity of `C19_rewrite_preserves`: the sample file, rewritten with one requirement `lib → x@dev v1.0.0` -/
example : ∃ c', parseSub (emit (rewrite sampleConfig [⟨[108, 105, 98], [120, 64, 100, 101, 118], [118, 49, 46, 48, 46, 48]⟩])) = .ok c' ∧
    c'.name = sampleConfig.name ∧ c'.ignore = sampleConfig.ignore ∧ c'.reqs.length = 1 :=
  ⟨rewrite sampleConfig [⟨[108, 105, 98], [120, 64, 100, 101, 118], [118, 49, 46, 48, 46, 48]⟩], by decide, rfl, rfl, rfl⟩

end Dawn.Config

"""C14 — Garbage collection never changes build outcomes (target.go, function.go, sourceFile.go, project.go, project_index.go)."""
import build_common

RULE = ('histories with target / source removals and additions and `gc` (index-only load, as `dawn gc`, or full load) at arbitrary points, stray temporaries left by crashes; a label whose record was collected is never re-created. Judge: gc changes nothing outside .dawn/build; the decoded record of every live label is unchanged; no record of a dead label and no temporary remains; index.json stays; the twin history without the collections executes the same bodies with the same results in every build. Correspondence as for C01, plus targetInfoPath value by value on random labels (kinds, packages and names over reserved, escaped and non-ASCII bytes). A share of the histories (2 in 5) run in a project whose root is opened through a symbolic link or whose .dawn is a symbolic link to a directory elsewhere. Round 2: stray files and directories are dropped into .dawn/build/temp before collections and interrupted record saves leave real temporaries; same-process sequences Load -> Run... -> GC (-> Run) on ONE project object (fresh and after an earlier build): every record a Run of the process wrote is still a success record after GC, and a fresh build afterwards executes nothing. Round 3: (a) template gc-broken: a collection (index-preferring load) while the BUILD.dawn of a package, mostly a sub-package, ends in a syntax error, then the file is repaired and the tree is built again — the collection must fail without touching a record, or keep every record of what exists after the repair; (b) about one project in seven declares MODE = parse_flag("mode", default="std") in the root package and names one or two root-package targets "<name>_" + MODE; every load of such a history (builds, gc, index loads, fingerprint loads) is given --mode=alt, so a load that forgets the arguments sees other targets. Round 4: about one project in three has two targets of one package whose names are a proper prefix of one another (`t3`, `t3_docs`); template prefix-gc: build both, remove the shorter one, collect: its record has to go.')


def run(c):
    return build_common.run_prop(c, "C14", RULE)


def replay(c, case):
    return build_common.replay(c, "C14", case.get("input", case))

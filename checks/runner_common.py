"""Shared code of the runner checks C04, C05, C09 (runner/runner.go).

One harness run serves a property: the real goroutines are serialised by the hook-driven controlled scheduler
(random / PCT / model-supplied / exhaustive-with-sleep-sets schedules), every recorded trace is replayed step
by step through the Lean model by drv_runner (trace refinement), the final states of free-running builds
(child pinned with taskset to 1, 2, 16 CPUs) are checked against the theorems' conclusions by the driver, and
the property's own predicate is judged on the implementation by the harness.

A trace that the model rejects is attributed to the property whose mechanism the rejected event belongs to, so
that a gate defect does not raise an alarm for C04 and vice versa.
"""
import json
import os
import re
import subprocess
import time

import vcheck

OVERLAY = {"runner/zz_verif_harness.go": "hook.go",
           "cmd/verif_runner/main.go": "main.go",
           "cmd/verif_runner/sched.go": "sched.go",
           "cmd/verif_runner/project.go": "project.go"}

# which property's mechanism an event kind belongs to
EVENT_PROPERTY = {
    "enter": "C09", "exit": "C09", "block:gate": "C09",
    "start": "C04", "load": "C04", "eval": "C04", "waited": "C04", "rest": "C04", "set": "C04", "wait": "C04",
    "block:wait": "C04", "block:mwait": "C04",
    "pub": "C05", "read": "C05", "self": "C05", "walked": "C05", "unpub": "C05", "leave": "C05", "waitall": "C05",
    "block:mwaitall": "C05", "return": "C05", "end": "C05",
}
# which fields of the final summary a property compares
SUMMARY_KEYS = {"C04": ("res", "st", "err", "loads", "evals", "order"), "C05": ("res", "st", "cyc", "pub"), "C09": ("free",)}

RULE = ("graphs: 17 fixed shapes (single, unknown root, self-loop, chain, duplicate label, 2-cycle through the root, "
        "self-loop below the root, inner cycle, diamond with failing / unknown shared dependency, two dependents on a "
        "cycle, overlapping cycles, cycle back to the root, fan-out, shared subgraph, bystanders of a cycle) x limits "
        "1,2,3, plus seeded random graphs of 1-6 nodes (back edges and self-loops in a third of them, 1/12 unknown, "
        "1/8 failing) x limits 1-3, each under random and PCT schedules; model-supplied schedules = paths of the "
        "model's breadth-first tree for every graph of <= 2 nodes (thorough: <= 3 nodes) and the fixed shapes of <= 4 "
        "nodes, limits 1,2; exhaustive interleavings with sleep sets (thorough: all fixed shapes of <= 3 nodes, depth "
        "bound 40+45n); free-running builds of random graphs of <= 14 (thorough 40) nodes and fan-in graphs (2-16 siblings "
        "requesting the same 1-4 targets at the same moment) on 1, 2, 16 CPUs; the same fixed shapes and random graphs of "
        "<= 9 nodes rendered as BUILD.dawn files and built through dawn.Project (events judged). "
        "A case is one execution; distinct by (graph, schedule).")


def harness(c):
    return c.go_harness("runner", OVERLAY, "./cmd/verif_runner", tags="verif")


def shapes():
    """the fixed shapes of the harness that have at most 4 nodes (deps, known, body)"""
    def mk(deps, unknown=(), failing=()):
        n = len(deps)
        return deps, ["0" if i in unknown else "1" for i in range(n)], ["0" if i in failing else "1" for i in range(n)]
    return [mk([[]]), mk([[]], unknown=[0]), mk([[0]]), mk([[1], []]), mk([[1, 1], []]), mk([[1], [0]]),
            mk([[1], [1]]), mk([[1], [2], [1]]), mk([[1, 2], [3], [3], []]), mk([[1, 2], [3], [3], []], failing=[3]),
            mk([[1, 2], [3], [3], []], unknown=[3]), mk([[1, 2], [2], [1]]), mk([[1], [2, 3], [1], [1]]),
            mk([[1, 2], [2, 0], []]), mk([[1, 2, 3], [], [], []], failing=[2]), mk([[1, 2], [2], [3], [2]])]


def params(deps, known, body, cap):
    ds = "/".join(".".join(str(x) for x in d) if d else "-" for d in deps)
    return "%d;%d;0;%s;%s;%s" % (len(deps), cap, ds, "".join(known), "".join(body))


def all_graphs(n):
    """every graph on n nodes whose dependency lists are duplicate-free subsets in increasing order"""
    subsets = [[j for j in range(n) if m >> j & 1] for m in range(1 << n)]
    out = [[]]
    for _ in range(n):
        out = [g + [s] for g in out for s in subsets]
    return out


def model_schedules(c, drv, path):
    """ask the model for schedules: paths of its breadth-first tree (shortest traces to its states)"""
    quick = c.tier != "thorough"
    reqs = []
    for n in ([1, 2] if quick else [1, 2, 3]):
        for deps in all_graphs(n):
            for cap in (1, 2):
                reqs.append((params(deps, ["1"] * n, ["1"] * n, cap), 3000 if quick else 2500, 4 if quick else 6))
    for deps, known, body in shapes():
        for cap in (1, 2):
            reqs.append((params(deps, known, body, cap), 4000 if quick else 20000, 6 if quick else 40))
    lines = ["sched %s %d %d" % r for r in reqs]
    t = time.time()
    outs = c.run_driver(drv, lines)
    states = complete = nsched = stuck = 0
    with open(path, "w") as f:
        for (p, _, _), o in zip(reqs, outs):
            if not o.startswith("ok "):
                c.broken.append("driver sched " + p + ": " + o[:100])
                continue
            kv = dict(x.split("=", 1) for x in o[3:].split(" ") if "=" in x)
            states += int(kv.get("states", 0))
            complete += int(kv.get("complete", 0))
            stuck += int(kv.get("stuck", 0))
            for sch in kv.get("scheds", "").split(";"):
                if sch:
                    f.write("%s %s\n" % (p, sch))
                    nsched += 1
    c.coverage["model_exploration"] = {"graphs": len(reqs), "states_visited": states, "graphs_explored_completely": complete,
                                       "stuck_unfinished_states_in_the_model": stuck,
                                       "schedules_supplied": nsched, "seconds": round(time.time() - t, 1)}
    if stuck:
        c.broken.append("the model has %d reachable stuck states (contradicts C05_deadlock_free)" % stuck)
    return nsched


def corpus_cases():
    """past failures of the three runner properties (the schedules are run against every one of them)"""
    out = []
    for pid in ("C04", "C05", "C09"):
        d = os.path.join(vcheck.VERIF, "corpus", pid)
        if os.path.isdir(d):
            for fn in sorted(os.listdir(d)):
                if fn.endswith(".json"):
                    with open(os.path.join(d, fn)) as f:
                        out.append(json.load(f))
    return out


def tie_diagnosis(c):
    """a tie theorem that fails stops the whole Ties module: say which extracted facts differ from the snapshot"""
    import re

    def defs(path):
        try:
            src = open(path).read()
        except OSError:
            return {}
        return {m.group(1): m.group(2).strip() for m in
                re.finditer(r"^def (\w+) : [^\n]*:=\n(.*?)(?=^def |^end )", src, re.S | re.M)}
    ext = defs(os.path.join(vcheck.LEAN, "Dawn", "Extracted", "Runner.lean"))
    exp = defs(os.path.join(vcheck.LEAN, "Dawn", "Ties", "RunnerExpected.lean"))
    diff = sorted(k for k in set(ext) | set(exp) if ext.get(k) != exp.get(k))
    c.coverage["extracted_facts_that_differ_from_the_snapshot"] = diff
    if diff:
        c.log("tie 1: extracted facts that differ from the model's snapshot: " + ", ".join(diff))


def parse(out):
    pairs, viols, stats = {}, [], {}
    for line in out.split("\n"):
        f = line.split("\t")
        if f[0] == "C" and len(f) == 4:
            pairs.setdefault(f[1], []).append((f[2], f[3]))
        elif f[0] == "V" and len(f) > 1:
            try:
                viols.append(json.loads(f[1]))
            except ValueError:
                pass  # a child killed by the watchdog in the middle of a line
        elif f[0] == "S" and len(f) > 1:
            try:
                stats = json.loads(f[1])
            except ValueError:
                pass
    return pairs, viols, stats


def project(pid, summary):
    kv = dict(x.split("=", 1) for x in summary.replace(",", " ").split(" ") if "=" in x)
    return " ".join("%s=%s" % (k, kv.get(k, "?")) for k in SUMMARY_KEYS[pid])


def event_property(ev):
    """`3/read:1:0` -> C05"""
    kind = ev.split("/", 1)[-1]
    f = kind.split(":")
    if f[0] == "block":
        return EVENT_PROPERTY.get("block:" + (f[1] if len(f) > 1 else ""), "C05")
    return EVENT_PROPERTY.get(f[0], "C05")


def refine(c, pid, stream, drv, ps):
    """trace refinement for one stream: every recorded trace must be a run of the model with the same outcome"""
    ins = [p[0] for p in ps]
    outs = c.run_driver(drv, ins) if ins else []
    st = c.coverage["streams"].setdefault(stream, {"cases": 0, "disagreements": 0, "foreign_rejections": 0,
                                                   "outcome_histogram": {}})
    dis = []
    if len(outs) != len(ins):
        dis.append({"input": "(driver output length)", "go": str(len(ins)), "model": str(len(outs))})
    for (i, g), m in zip(ps, outs):
        c.coverage["evaluations"] += 1
        c._distinct.add(hash((stream, i)))
        st["cases"] += 1
        if g.startswith("ok ") and m.startswith("ok "):
            gp, mp = project(pid, g[3:]), project(pid, m[3:])
            k = gp.split(" ")[0]
            st["outcome_histogram"][k] = st["outcome_histogram"].get(k, 0) + 1
            if gp != mp:
                dis.append({"input": i, "go": gp, "model": mp})
            else:
                c.coverage["traces_validated_against_impl"] += 1
        elif m.startswith("fail "):
            f = m.split(" ", 3)
            owner = event_property(f[2]) if len(f) > 2 else "C05"
            at = re.search(r"model thread \d+ is at ([a-z])(\S*)", m)
            if at and at.group(1) in "adil":
                owner = "C09"  # the model's thread is at a gate operation the implementation skipped or moved
            elif at and (at.group(1) in "fhm" or (at.group(1) == "e" and at.group(2) == "")
                         or (at.group(1) == "g" and at.group(2).startswith("|"))):
                owner = "C05"  # ... at the publication, the cycle walk, the un-publication or running.Done()
            if not g.startswith("ok "):
                owner = "C05"  # the implementation itself did not finish (deadlock / stuck)
            if owner == pid or (not g.startswith("ok ") and pid == "C09" and "block:gate" in i.rsplit(",", 3)[-1]):
                dis.append({"input": i, "go": g, "model": m})
            else:
                st["foreign_rejections"] += 1
        elif not g.startswith("ok "):
            if pid == "C05":
                dis.append({"input": i, "go": g, "model": m})
            else:
                st["foreign_rejections"] += 1
        else:
            dis.append({"input": i, "go": g, "model": m})
    st["disagreements"] += len(dis)
    if ps and len(c.coverage["samples"]) < 8:
        mid = ps[len(ps) // 2]
        c.coverage["samples"].append({"stream": stream, "input": mid[0][:400], "output": mid[1][:200]})
    if dis:
        c.broken.append("correspondence " + stream)
        st["first_disagreements"] = dis[:5]
        c.log("correspondence %s: %d disagreements, first: %s" % (stream, len(dis), json.dumps(dis[0])[:800]))
    else:
        c.log("correspondence %s: %d traces are runs of the model (%d rejected for another property's mechanism)"
              % (stream, len(ps), st["foreign_rejections"]))


def final_states(c, pid, stream, drv, ps):
    """free-running builds: the final state satisfies the conclusions of the theorems (driver op `final`)"""
    ins = [p[0] for p in ps]
    outs = c.run_driver(drv, ins) if ins else []
    st = c.coverage["streams"].setdefault(stream, {"cases": 0, "disagreements": 0, "outcome_histogram": {}})
    dis = []
    mine = {"C04": ("outcome", "loaded", "evaluated", "result", "idle", "running", "started"),
            "C05": ("cycle", "waiting sets", "running"), "C09": ("slots",)}[pid]
    for (i, g), m in zip(ps, outs):
        c.coverage["evaluations"] += 1
        c._distinct.add(hash((stream, i)))
        st["cases"] += 1
        k = i.split(" ")[-1].split(",")[0]
        st["outcome_histogram"][k] = st["outcome_histogram"].get(k, 0) + 1
        if m != "ok" and any(w in m for w in mine):
            dis.append({"input": i, "go": g, "model": m})
    st["disagreements"] += len(dis)
    if ps and len(c.coverage["samples"]) < 10:
        c.coverage["samples"].append({"stream": stream, "input": ps[0][0][:400], "output": "ok"})
    if dis:
        c.broken.append("correspondence " + stream)
        st["first_disagreements"] = dis[:5]
        c.log("final states %s: %d disagreements, first: %s" % (stream, len(dis), json.dumps(dis[0])[:800]))
    else:
        c.log("final states %s: %d satisfy the theorems' conclusions" % (stream, len(ps)))


def run(c, pid, assumptions):
    c.assumptions += assumptions + [
        "the Go scheduler is weakly fair (a bystander's cycle walk can spin while two other targets are inside their "
        "publish / un-publish window; DESIGN.md section 4); the controlled scheduler falls back to random choices after "
        "300+150n steps",
        "getTarget's LoadOrStore and the following start() are one step of the model (LoadOrStore commutes with every "
        "other operation)",
        "the client of the runner calls EvaluateTargets exactly once per Evaluate, as runTarget.Evaluate does"]
    c.coverage["rule"] = RULE
    if not c.prove():
        tie_diagnosis(c)
    exe = harness(c)
    drv = c.driver("drv_runner")
    if not exe or not drv:
        return c
    sched_file = os.path.join(vcheck.BUILD, "runner-sched-%s-%d.txt" % (pid, os.getpid()))
    corpus_file = os.path.join(vcheck.BUILD, "runner-corpus-%s-%d.txt" % (pid, os.getpid()))
    try:
        model_schedules(c, drv, sched_file)
        with open(corpus_file, "w") as f:
            for case in corpus_cases():
                i = case.get("input", {})
                if i.get("mode") == "schedule":
                    f.write("%s %s\n" % (i["params"], i["schedule"]))
        t = time.time()
        p = subprocess.run([exe, "-seed", str(c.seed), "-tier", c.tier, "-sched", sched_file, "-corpus", corpus_file],
                           stdout=subprocess.PIPE, timeout=1500)
        c.log("harness: %.1fs, exit %d" % (time.time() - t, p.returncode))
    finally:
        for fn in (sched_file, corpus_file):
            if os.path.exists(fn):
                os.remove(fn)
    pairs, viols, stats = parse(p.stdout.decode("utf-8", "replace"))
    if p.returncode != 0:
        c.broken.append("harness exited %d" % p.returncode)
    c.coverage["harness_stats"] = stats
    for stream, ps in sorted(pairs.items()):
        if stream.startswith("runner.stress"):
            final_states(c, pid, stream, drv, ps)
        elif stream.startswith("runner.project"):
            # judge only: the runner under its real client dawn.Project / runTarget.Evaluate (events observed)
            c.count(stream, len(ps), distinct_keys=[p[0] for p in ps], sample={"graph": ps[0][0]} if ps else None)
        else:
            refine(c, pid, stream, drv, ps)
    mine = [v for v in viols if v.get("property") == pid]
    c.count("runner.judge." + pid, stats.get("executions", 0),
            sample={"judge": JUDGES[pid], "executions": stats.get("executions", 0)},
            hist=stats.get("histogram", {}))
    for v in mine:
        c.violation("%s: %s" % (v["kind"], v["detail"]), {"input": v["input"], "kind": v["kind"]})
    return c


JUDGES = {
    "C04": "LoadTarget and Evaluate counted <= 1 per label; at return from EvaluateTargets every requested dependency has "
           "finished and each Result carries that dependency's own error value and Target; Run returns the requested "
           "target's error",
    "C05": "no execution ends with all goroutines blocked (controlled) or exceeds the watchdog (free-running); a "
           "cyclic-dependency error is reported iff the reachable graph has a cycle, and then Run fails; when Run returns "
           "every started target has finished",
    "C09": "targets inside LoadTarget/Evaluate and outside EvaluateTargets never exceed the limit; gate capacity stays in "
           "[0, limit] at every gate operation and equals the limit after the build; no deadlock with an exhausted gate",
}


def replay(c, pid, case):
    exe = harness(c)
    drv = c.driver("drv_runner")
    if not exe:
        return 2
    p = subprocess.run([exe, "-seed", str(c.seed), "-replay", json.dumps(case["input"])], stdout=subprocess.PIPE,
                       timeout=600)
    out = p.stdout.decode("utf-8", "replace")
    print(out)
    pairs, viols, _ = parse(out)
    bad = [v for v in viols if v.get("property") == pid]
    if drv:
        for stream, ps in pairs.items():
            if stream.startswith("runner.stress") or stream.startswith("runner.project"):
                continue
            for (i, g), m in zip(ps, c.run_driver(drv, [x[0] for x in ps])):
                print("model: " + m)
                if not (g.startswith("ok ") and m.startswith("ok ") and project(pid, g[3:]) == project(pid, m[3:])):
                    bad.append({"kind": "trace-not-a-run-of-the-model"})
    if bad:
        print("VIOLATION property=%s replay=(given)" % pid)
        return 1
    return 0

"""C09 — the parallelism limit is respected and slots are conserved (runner/runner.go)."""
import runner_common


def run(c):
    return runner_common.run(c, "C09", [
        "under the controlled scheduler the limit is set to 1, 2 or 3 through the run.init hook; that the limit is "
        "runtime.NumCPU() is tie 1 (gate_is_numcpu) and the free-running stream, whose child process is pinned to 1, 2 "
        "and 16 CPUs"])


def replay(c, case):
    return runner_common.replay(c, "C09", case)

"""C07 — the pickle codec round-trips every value exactly (pickle/encode.go, pickle/decode.go)."""
import pickle_common as pc


def run(c):
    c.assumptions += [
        "strings/bytes shorter than 2^32 bytes and fewer than 2^32 memoised objects (the format's 4-byte fields; Go truncates silently beyond)",
        "dict/set keys: Starlark key equality is modelled exactly (int/float aliases, NaN, ±0, tuples to depth 10); two keys "
        "whose comparison exceeds the depth limit and that differ structurally are assumed to hash differently (32-bit hash)",
        "host objects are (module, name, args) triples pickled by a stateless Pickler and rebuilt by the Unpickler; they hash by identity",
        "tuple identity is not observable (DESIGN.md §4): every tuple occurrence is its own object in the canonical graph",
        "one Encoder is read back by one Decoder that has seen the same prefix of the stream: both keep their memo across calls (the "
        "contract read off the code: no Encode / Decode call resets it)",
        "big.Int.MarshalText/UnmarshalText are modelled on canonical decimal text only (compared per input in streams enc/dec)",
    ]
    c.coverage["rule"] = (
        "directed graphs: every integer boundary 2^k±{0,1,2} for k in {0,8,16,31,32,63,64} both signs and two 200-digit numbers, "
        "alone and nested; special and random floats; str/bytes of length 0,1,255,256,257,65535,65536; tuple/list/dict/set of "
        "size 0,1,2,3,4,5,999,1000,1001,2001 at 7 nesting positions (root, in tuple, in list, dict value, repeated in a 5-tuple, "
        "host args, list in list); >255 memoised objects; big in big; self loops, diamonds, cross-container cycles, shared and "
        "cyclic host objects; the cycle family: each of list / dict-by-value / dict-by-key / set reaching ITSELF through every chain of "
        "0..2 further nodes out of list, dict value, dict key, set element, tuple, host args (58 chains Starlark accepts, rooted at the "
        "container and at a tuple holding it twice); every Encode/Decode under a watchdog in a supervised worker with a 32 MB stack "
        "limit (endless recursion or a hang becomes a violation with the value as replay); plus seeded random graphs (depth<=5, sharing probability 1/4). Exhaustive: all 65536 BININT2 "
        "payloads, all programs of two implemented opcodes. A case is non-trivial when Go's answer is ok; distinct by driver input.")
    c.prove()
    exe = pc.harness(c)
    drv = c.driver("drv_pickle")
    if exe:
        pc.corpus(c, exe, "C07")
        pairs, viols, stats = pc.run_harness(c, exe, ["-prop", "C07", "-seed", str(c.seed), "-tier", c.tier], 3000)
        c.coverage["harness_stats"] = stats
        if drv:
            for stream, ps in sorted(pairs.items()):
                pc.correspond(c, stream, drv, ps)
        enc = pairs.get("enc", [])
        c.coverage["canonical_checked"] = {
            "what": "for every graph of stream enc the driver evaluated Graph.canonical (encoder-independent walk, C07_total), "
                    "heap.keysOK and sizesOK before encoding; a graph failing any of them answers not-canonical / "
                    "outside-hypotheses and shows up as a disagreement of stream enc",
            "graphs": len(enc), "encoded_by_go": sum(1 for _, g in enc if g.startswith("ok ")),
            "go_error_no_pickler": sum(1 for _, g in enc if g == "err"),
            "by_class": {k[6:]: v for k, v in stats.items() if k.startswith("class.") and not k.startswith("class.cycle-")},
            "cycle_family_graphs": sum(v for k, v in stats.items() if k.startswith("class.cycle-"))}
        c.count("stream.judge", stats.get("stream.cases", 0),
                sample={"judge": "2..n values (the elements of every generated tuple; seeded random streams of 2-4 values drawn from one pool "
                                 "of shareable containers) written by ONE Encoder into one buffer and read back by ONE Decoder: the canonical "
                                 "dump of the values read, with sharing across values, equals that of the values written (also compared "
                                 "with the model: streams encs / decs, theorem C07_roundtrip_stream)", "streams": stats.get("stream.cases", 0)},
                hist={k: v for k, v in stats.items() if k.startswith("stream.")})
        c.count("wfault.judge", stats.get("wfault.cases", 0),
                sample={"judge": "implementation only (the model has no writer errors): a writer that fails exactly its k-th Write "
                                 "(returning 0 or a short count) and accepts the others, for every k of every encoding with at most "
                                 "40 (thorough 120) writes: Encode returns an error, or what reached the writer decodes to the value",
                        "cases": stats.get("wfault.cases", 0)},
                hist={k: v for k, v in stats.items() if k.startswith("wfault.")})
        c.count("stateful.judge", stats.get("stateful.cases", 0),
                sample={"judge": "implementation only (the model's pickler is stateless): a stateful host Pickler that answers "
                                 "(\"rec\", name, ()) for a value it is asked about a second time, on values where a host object reaches "
                                 "itself through a list / tuple / dict in its arguments and is followed by a list and a dict memoised "
                                 "afterwards and referenced again: the decoded value has exactly the expected structure and sharing",
                        "cases": stats.get("stateful.cases", 0)})
        c.count("rt.judge", stats.get("rt.judged", 0),
                sample={"judge": "canonical dump of Decode(Encode(v)) == canonical dump of v (types, contents, order, aliasing of "
                                 "containers and host objects)", "evaluations": stats.get("rt.judged", 0)},
                hist={k: v for k, v in stats.items() if k.startswith(("class.", "heap."))})
        pc.report(c, viols)
    return c


def replay(c, case):
    return pc.replay(c, case, "C07")

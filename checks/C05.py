"""C05 — builds terminate: dependency cycles are reported, never deadlock (runner/runner.go)."""
import runner_common


def run(c):
    return runner_common.run(c, "C05", [
        "termination = deadlock freedom (C05_deadlock_free, C05_quiescent: the only states without an enabled step are "
        "the finished ones) + C05_progress (every step except a read of the cycle walk decreases a measure) + weak "
        "fairness of the Go scheduler, which is an assumption: infinite fair executions are not formalised",
        "graphs are finite: the labels reachable from the requested target form a finite set"])


def replay(c, case):
    return runner_common.replay(c, "C05", case)

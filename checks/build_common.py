"""Shared by C01, C02, C03, C13, C14 — the incremental engine (one model, one harness, one driver)."""
import glob
import hashlib
import json
import os
import subprocess
import tempfile

import vcheck

OVERLAY = {"cmd/verif_build/main.go": "main.go", "cmd/verif_build/child.go": "child.go", "cmd/verif_build/proj.go": "proj.go",
           "cmd/verif_build/hist.go": "hist.go", "cmd/verif_build/gen.go": "gen.go", "cmd/verif_build/multirun.go": "multirun.go", "verif_build_export.go": "export.go"}

ASSUMPTIONS = [
    "every build follows a fresh load in a fresh process (DESIGN.md §4); target bodies are deterministic and read only the files of "
    "the dependencies they declare (the harness bodies are written that way)",
    "sha256 is injective (hypothesis SumInj of the theorems, never an axiom); the fingerprint of a function environment is an injective "
    "`env` value (that is C07/C08); the runner visits every target once, after its dependencies (that is C04; hypothesis of the theorems, "
    "and the model is handed the order the real runner produced when a crash makes the order matter)",
    "rename is atomic and a completed rename is durable; a crash is simulated by os.Exit at a hook point, so no torn write inside one "
    "write(2) is explored; OS errors other than a missing file are not modelled",
    "generated files are only ever deleted by the user, never edited (their presence is the input C01 names)",
    "a label whose record a collection removed is not re-created afterwards (C14's own exclusion; the run counter of D8's repair restarts at 0)",
]


def harness(c):
    return c.go_harness("build", OVERLAY, "./cmd/verif_build", tags="verif")


def parse(out):
    pairs, viols, stats = {}, [], {}
    for line in out.split("\n"):
        f = line.split("\t")
        if f[0] == "C" and len(f) == 4:
            pairs.setdefault(f[1], []).append((f[2], f[3]))
        elif f[0] == "V":
            viols.append(json.loads(f[1]))
        elif f[0] == "S":
            stats = json.loads(f[1])
    return pairs, viols, stats


def run_harness(exe, args, timeout):
    p = subprocess.run([exe] + args, stdout=subprocess.PIPE, stderr=subprocess.PIPE, timeout=timeout)
    return p.returncode, p.stdout.decode("utf-8", "replace"), p.stderr.decode("utf-8", "replace")


def nontrivial(i, o):
    return i.split(" ")[0] in ("build", "crash", "crashload", "gc", "path", "sum", "opts", "key")


def report(c, prop, v, origin):
    hist = v["input"]
    nops = len(hist.get("ops") or []) + len(hist.get("runs") or [])
    what = "%s (%s, op %d of a %d-op history on a %d-target project): %s" % (
        v["kind"], origin, v["op"], nops, len(hist["proj"]["tgts"]), v["detail"])
    c.violation(what, {"input": v["input"], "kind": v["kind"], "op": v["op"], "detail": v["detail"]})


def replay_file(c, exe, drv, prop, path, stream):
    case = json.load(open(path))
    hist = case.get("input", case)
    with tempfile.NamedTemporaryFile("w", suffix=".json", delete=False) as f:
        json.dump(hist, f)
    try:
        rc, out, err = run_harness(exe, ["-prop", prop, "-replay", "@" + f.name], 600)
    finally:
        os.unlink(f.name)
    pairs, viols, stats = parse(out)
    if rc != 0:
        c.broken.append("harness exited %d on %s: %s" % (rc, os.path.basename(path), err[-300:]))
    return pairs, viols, stats


def run_prop(c, prop, rule):
    c.assumptions += ASSUMPTIONS
    c.coverage["rule"] = rule
    c.prove()
    exe = harness(c)
    drv = c.driver("drv_build")
    if not exe:
        return c
    # 1. corpus: minimised past failures, always first
    corpus = sorted(glob.glob(os.path.join(vcheck.VERIF, "corpus", prop, "*.json")))
    npairs = []
    for path in corpus:
        pairs, viols, stats = replay_file(c, exe, drv, prop, path, "build.corpus")
        for s, ps in pairs.items():
            npairs += ps
        for v in viols:
            report(c, prop, v, "corpus " + os.path.basename(path))
    if drv and npairs:
        c.correspond("build.corpus", drv, npairs, nontrivial=nontrivial)
    c.count("build.corpus.judge", len(corpus), sample={"corpus_files": [os.path.basename(p) for p in corpus]})
    # 2. generated histories
    rc, out, err = run_harness(exe, ["-prop", prop, "-seed", str(c.seed), "-tier", c.tier], 3000)
    pairs, viols, stats = parse(out)
    if rc != 0:
        c.broken.append("harness exited %d: %s" % (rc, err[-500:]))
    c.coverage["harness_stats"] = stats
    if drv:
        for stream, ps in sorted(pairs.items()):
            c.correspond(stream, drv, ps, nontrivial=nontrivial)
    hist = {k: v for k, v in stats.items() if isinstance(v, (int, float))}
    for k in ("edit_kinds", "crash_points_hit", "targets_per_project", "project_layouts"):
        for kk, vv in (stats.get(k) or {}).items():
            hist["%s.%s" % (k, kk)] = vv
    c.count("build.judge." + prop, stats.get("builds", 0) + stats.get("gc_ops", 0), hist=hist,
            sample={"judge": rule, "histories": stats.get("histories"), "child_processes": stats.get("child_processes")})
    for v in viols:
        report(c, prop, v, "generated history, seed %d" % c.seed)
    return c


def replay(c, prop, case):
    exe = harness(c)
    drv = c.driver("drv_build")
    with tempfile.NamedTemporaryFile("w", suffix=".json", delete=False) as f:
        json.dump(case, f)
    try:
        pairs, viols, stats = replay_file(c, exe, drv, prop, f.name, "build.replay")
    finally:
        os.unlink(f.name)
    bad = False
    for v in viols:
        print("violation: %s op %d: %s" % (v["kind"], v["op"], v["detail"]))
        bad = True
    if drv:
        for stream, ps in pairs.items():
            if c.correspond(stream, drv, ps, nontrivial=nontrivial):
                bad = True
    if bad:
        print("VIOLATION property=%s replay=(given)" % prop)
        return 1
    print("no violation on this input")
    return 0


# ---------------------------------------------------------------- C13 only: the command layer (cmd/dawn)

CLI_RULE = ("command layer: the real commands of cmd/dawn, driven through a test binary of package main (harness/build/cmd_test.go "
            "overlaid as cmd/dawn/zz_verif_build_test.go, `go test -c -overlay`), every invocation in a process of its own, on generated "
            "projects (3-6 targets in a chain with side branches, a source each, a generated file each, bodies through sh.exec that log "
            "their execution outside the tree): fresh tree `dawn -n`, `dawn build -n`, `dawn build`; edit a source, `dawn -n <target>`, "
            "`dawn -n`, `dawn build -n`, `dawn build`; edit a body and a source while index.json exists, `dawn build -n`, "
            "`dawn --dry-run`, `dawn build`, `dawn build -n`, `dawn build`. Events are read from `--json <file>`. Judge: around "
            "a -n invocation no body runs, no file of the project outside .dawn changes, every record file that existed is "
            "byte-identical and a new one is empty (the command's load may refresh records and rewrite index.json); what a -n run "
            "announces as evaluating is what the real build that follows evaluates; a real build executes exactly the bodies it announces.")


def cli_harness(c):
    """cmd/dawn is package main: a test binary with harness/build/cmd_test.go overlaid into it"""
    exe = os.path.join(vcheck.BUILD, "harness-buildcli-%s" % hashlib.sha1(vcheck.REPO.encode()).hexdigest()[:8])
    ov = {"Replace": {os.path.join(vcheck.REPO, "cmd/dawn/zz_verif_build_test.go"): os.path.join(vcheck.VERIF, "harness", "build", "cmd_test.go")}}
    ovp = exe + ".overlay.json"
    with vcheck.Lock("go-buildcli"):
        with open(ovp, "w") as f:
            json.dump(ov, f)
        rc, o = vcheck.sh(["go", "test", "-c", "-vet=off", "-overlay", ovp, "-o", exe, "./cmd/dawn"],
                          cwd=vcheck.REPO, env=dict(vcheck.GOENV), timeout=900)
    if rc != 0:
        c.log("command-layer harness build failed:\n" + o[-4000:])
        c.broken.append("harness build (cmd/dawn, C13 command layer)")
        c.coverage["cli_harness_build_output"] = o[-3000:]
        return None
    return exe


def _cli_run(c, exe, extra_env, timeout):
    env = dict(os.environ)
    outp = os.path.join(vcheck.BUILD, "buildcli-%d.out" % os.getpid())
    env.update({"VERIF_CLI_OUT": outp, "VERIF_CLI_SEED": str(c.seed), "VERIF_CLI_TIER": c.tier})
    env.update(extra_env)
    p = subprocess.run([exe, "-test.run", "^TestVerifC13CLI$", "-test.timeout", "20m"], stdout=subprocess.PIPE,
                       stderr=subprocess.STDOUT, env=env, timeout=timeout, cwd=vcheck.BUILD)
    text = open(outp, encoding="utf-8", errors="replace").read() if os.path.exists(outp) else ""
    if os.path.exists(outp):
        os.remove(outp)
    _, viols, stats = parse(text)
    return p, viols, stats


def cli_stream(c):
    """C13: `dawn -n`, `dawn build -n`, `dawn build` through the real command layer"""
    exe = cli_harness(c)
    if not exe:
        return
    p, viols, stats = _cli_run(c, exe, {}, 1500)
    if p.returncode != 0 or not stats:
        c.broken.append("command-layer harness (C13) exited %d" % p.returncode)
        c.coverage["cli_harness_output_tail"] = p.stdout.decode("utf-8", "replace")[-2000:]
    c.coverage["cli_harness_stats"] = stats
    c.count("build.cli.judge", stats.get("commands", 0), sample={"judge": CLI_RULE}, hist=dict(stats))
    for v in viols:
        c.violation("%s (command layer): %s" % (v["kind"], v.get("detail", "")[:900]), {"input": v["input"], "kind": v["kind"]})


def cli_replay(c, inp):
    exe = cli_harness(c)
    if not exe:
        return 2
    with tempfile.NamedTemporaryFile("w", suffix=".json", delete=False) as f:
        json.dump(inp, f)
    try:
        p, viols, stats = _cli_run(c, exe, {"VERIF_CLI_REPLAY": f.name}, 600)
    finally:
        os.unlink(f.name)
    for v in viols:
        print("violation: %s: %s" % (v["kind"], v.get("detail", "")[:900]))
    if viols or p.returncode != 0:
        print("VIOLATION property=C13 replay=(given)")
        return 1
    print("no violation on this input")
    return 0

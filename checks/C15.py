"""C15 — decoding arbitrary bytes yields a value or an error, never a crash (pickle/decode.go)."""
import pickle_common as pc


def run(c):
    c.assumptions += [
        "declared 4-byte lengths are at most the input size (the property's precondition; other inputs are discarded and counted)",
        "the host Unpickler returns a non-nil value or an error, or panics with a runtime.Error (as dawn's envUnpickler does); a host "
        "that panics with a non-error value makes Decode return (nil, nil) — modelled and compared in stream dec.soup-badhost, not judged",
        "no bound on running time is claimed beyond termination: Tuple.Hash re-hashes shared sub-tuples (exponential on adversarial DAGs)",
        "Go stack exhaustion from ~10^7-deep nesting in Hash is not modelled",
        "record level: one fixture project (a function target referencing a constant, a helper with a default, a list/tuple/dict global); "
        "the persisted stamp is the only corrupted input; rename atomicity of the file system is assumed",
        "well-formedness of what the host unpickler builds is the host's obligation (abstract `construct` in the model): checked on the "
        "real envUnpickler by the walker (no nil / typed-nil node; Type, Truth, Hash, Len, iteration, String do not panic) in streams dec.env-*",
        "a case that kills or hangs the worker process is attributed by re-running in announce-every-case mode; after 3 such cases the run "
        "stops (the check has failed; each costs seconds)",
        "an index-only load (PreferIndex) is never what a build runs on (cmd/dawn build and watch load in full; indexTarget.upToDate is "
        "constantly true by design): with PreferIndex only the no-crash judge applies to the run",
        "the record-level streams stop spawning children after 6 crashed or hung ones (the check has failed; a hang costs its watchdog)",
        "observation, outside dawn's own call sequences: Run on a Project whose Reload just FAILED dereferences the nil oldEnv of the "
        "half-loaded target (watch mode and gc never run after a failed Reload); the reused-Project stream follows dawn's sequence",
        "whether a faulted record still means what it meant is decided the way loadTargetInfo reads it (streaming decoder: bytes after "
        "the first JSON value are not read; the targetInfo struct with its custom dependency-key unescaping); an EMPTY attrs field is "
        "'written by an older version' by design (target.go compares attrs only when recorded), so blanking it is not a change; doc is never read for an up-to-date decision and attrs only for function targets; the run counter of the requested root //:default has no reader (it is part of the stamp its "
        "dependents see, and it has none)",
        "INT text other than canonical decimal: the model answers `either` (Go may accept or reject), so only no-crash is constrained",
    ]
    c.coverage["rule"] = (
        "byte strings: Go's own encodings of the C07 directed graphs and of seeded random graphs under 6-10 mutations each "
        "(truncation, bit flip, byte replaced, several bytes replaced, byte replaced by an implemented opcode, insert/delete) and "
        "every truncation of encodings of <=200 bytes; grammar-guided opcode soups of 1-40 fragments (well-formed list/dict/set/host "
        "fragments mixed with hostile ops: out-of-range memo ids, wrong operand types, odd SETITEMS, declared lengths beyond what "
        "follows, 24 INT texts, unknown opcodes), with host unpickler / nil unpickler / panicking host; all programs of two "
        "implemented opcodes; every prefix of every encoding of <=450 bytes (so INT text of 2^31..10^200 cut at every digit). With dawn's "
        "envUnpickler as host: a genuine function-environment record under every single-byte substitution by an implemented opcode "
        "(all 256 values thorough) at every position, every truncation, 3000 (100000) double mutations. Every decoded value is walked "
        "for well-formedness. Each Decode runs under recover and a 5 s watchdog in a supervised worker process (a hang or a dead "
        "process is a violation with the bytes as replay). Record level: 60 (3000 thorough) corruptions of "
        "a persisted function-target record, STRUCTURE-level mutants of its stamp that are still valid pickles (10 opcode splices — "
        "SETITEMS of unknown / known keys, APPEND, ADDITEMS, stray MEMOIZE, TUPLE1 … — at every op boundary; value-tree mutants "
        "re-encoded with the real encoder: element dropped / duplicated / swapped / replaced by None, int, str, list, tuple, dict; "
        "entry added; key renamed; host object renamed to each dawn name; root wrapped) — all that still decode to a different "
        "environment at the last three op boundaries, a seeded sample of 90 (thorough: all) of the rest; and the SAME environment in "
        "other bytes, every one that still decodes: each op rewritten to its long form (one at a time and all at once; BININT1 also as "
        "INT text), 1 recorded as 1.0 and back, dict entries reordered, and every single-byte DELETION of the stamp — plus 48 (all) single-byte shape flips ) N ] -> N ] } True False EMPTY_SET ), each followed "
        "by Load+Run in a child process (a child without a result line — Go panic, fatal error, signal — is a crash violation). Non-trivial = Go answers ok; distinct by input.")
    c.prove()
    exe = pc.harness(c)
    drv = c.driver("drv_pickle")
    if exe:
        pc.corpus(c, exe, "C15")
        pairs, viols, stats = pc.run_harness(c, exe, ["-prop", "C15", "-seed", str(c.seed), "-tier", c.tier], 3000)
        c.coverage["harness_stats"] = stats
        if drv:
            for stream, ps in sorted(pairs.items()):
                pc.correspond(c, stream, drv, ps)
        c.count("c15.judge", stats.get("c15.judged", 0),
                sample={"judge": "Decode returns (non-nil well-formed value, nil) or (nil, error); a panic escaping Decode, a hang, "
                                 "(nil, nil) or a value with a nil slot is a violation", "evaluations": stats.get("c15.judged", 0)},
                hist={k: v for k, v in stats.items() if k.startswith(("outcome.", "c15."))})
        c.count("reuse.judge", stats.get("reuse.cases", 0),
                sample={"judge": "ONE Decoder called 2-4 times over a malformed input (a sample of the mutated encodings, each also followed "
                                 "by the intact encoding; every 41st truncation; every 16th soup followed by a second soup; hosts h / n / "
                                 "panicking H): EVERY call, after failures as after successes, returns a well-formed non-nil value or an "
                                 "error — never (nil, nil), a panic or a hang; each call's answer is also compared with the model "
                                 "(decodeCalls / failState, theorem C15_reuse_no_crash) in streams decn.*",
                        "decoders": stats.get("reuse.cases", 0)},
                hist={k: v for k, v in stats.items() if k.startswith("reuse.")})
        c.count("rec.judge", stats.get("rec.cases", 0),
                sample={"judge": "fresh child process: Load + Run(//:default) on a project whose function-target record was corrupted "
                                 "(file bytes, stamp not base64, stamp = mutated/truncated/foreign/soup pickle): the child must exit without "
                                 "a Go panic or hang, and may treat the target as up to date only if the stamp still decodes to the same "
                                 "environment", "cases": stats.get("rec.cases", 0)},
                hist={k: v for k, v in stats.items() if k.startswith("rec.")})
        c.count("recfile.judge", stats.get("recfile.cases", 0),
                sample={"judge": "file-level faults on every persisted file a load reads (targets/*, sources/*, index.json): truncation to "
                                 "0, 1, 2, half, len-1 and 10 seeded (thorough: every) prefix lengths, 49 junk / wrong-shape JSON contents "
                                 "(only newline, only {, array, number, string, null, wrong type for each field of a record and of the "
                                 "index, null entries, NUL bytes), NUL inside, all NUL, trailing garbage, a directory in place of the "
                                 "file, chmod 000 (skipped as root); KEY-level mutants of the record's JSON (for every dependency key: each "
                                 "of its last 3 bytes replaced by 0xff / 0x80 / U+FFFD, truncations, suffixes U+FFFD, U+FFFD+1 hex digit, "
                                 "U+FFFD zz, U+FFFD --, U+FFFD U+FFFD, cut UTF-8 sequences, a prefix escape, a second key that unescapes to "
                                 "the same label; dangerous keys added to records without dependencies) and FIELD-level mutants (every "
                                 "dependency stamp and each of stamp / runs / rerun / attrs / doc / dependencies replaced by a number, "
                                 "null, true, [], {}, \"\", a 1 MB string, a non-empty array / object); then Load + Run in a child with PreferIndex false and true: no Go "
                                 "panic / fatal error / signal / hang; after a full load a changed target or source record must lead to "
                                 "a reported error or a re-evaluation", "cases": stats.get("recfile.cases", 0)},
                hist={k: v for k, v in stats.items() if k.startswith("recfile.")})
        c.count("label.judge", stats.get("label.cases", 0),
                sample={"judge": "in process, through the dawn overlay: unescapeLabel(escapeLabel(s)) == s and neither panics, and "
                                 "unescapeLabel on s itself (an ARBITRARY string, as a corrupted record key is) does not panic: every "
                                 "string up to length 5 (thorough 7) over {a, 0xff, 0xef, 0xbf, 0xbd, '-', '0'} and 20000 (400000) seeded "
                                 "longer ones built from U+FFFD fragments, hex digits and random bytes", "cases": stats.get("label.cases", 0)})
        c.count("recmulti.judge", stats.get("recmulti.cases", 0),
                sample={"judge": "three packages (root, a, b) with a function target each, loading concurrently; the function record of "
                                 "EACH target corrupted in turn (stamp not base64 / truncated pickle / foreign value, empty file, '{'), then "
                                 "(i) a fresh Load + Run, (ii) a Project loaded from the clean state that sees the record go bad: Reload, "
                                 "Reload, Targets, Reload, Target (or Run twice when the reload succeeds) on the SAME Project; every call "
                                 "must return: the child's own 10 s watchdog and the parent's 20 s one report a hang as a violation",
                        "cases": stats.get("recmulti.cases", 0)},
                hist={k: v for k, v in stats.items() if k.startswith("recmulti.")})
        if stats.get("rec.setup-failed"):
            c.broken.append("record stream: the clean build of the fixture project failed")
        pc.report(c, viols)
    return c


def replay(c, case):
    return pc.replay(c, case, "C15")

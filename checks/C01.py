"""C01 — Incremental builds are never stale (target.go, function.go, sourceFile.go, project.go, project_index.go)."""
import build_common

RULE = ("histories of 14 (quick) / 18 (thorough) operations on generated projects (1-4 packages, 3-12 targets, sources, source directories, generated files consumed as sources, helper module, closures / defaults / globals): uniform edits and builds mixed with the templates edit→sub-closure build→root build, fail→fix→partial build, crash after a record→rebuild, code edit→crash between body and record→revert→build, delete generated→build dependent, rename in a source directory. Every operation runs in a fresh child process (Load → Run). Judge: after EVERY successful build the generated files of the built closure equal, byte for byte, those of a from-scratch build of a copy of the tree. Correspondence: per operation the model's executed / evaluated / up-to-date / failed sets, result, record files (decoded, stamps compared as a partition), generated files present, temporaries and index state equal the real engine's; dirSum equality on real directories vs the model's canonical listing. Projects include multi-output generators (2-3 `generates` entries, some outputs nobody's source) and consumers that reach a generator only through `sources=[generated file]` with the consumed output declared after an unconsumed one (template: edit the generator's input, build the consumer).")


def run(c):
    return build_common.run_prop(c, "C01", RULE)


def replay(c, case):
    return build_common.replay(c, "C01", case.get("input", case))

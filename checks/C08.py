"""C08 — every target function can be fingerprinted, deterministically (function.go, pickle/encode.go)."""
import json
import os
import shutil
import subprocess

import vcheck

AREA = "env"
FILES = ["main.go", "child.go", "graph.go", "gen.go", "compare.go", "wire.go", "reason.go"]


def variant():
    """which export shim fits the tree: the D3 / D16 repairs change what function.go offers"""
    src = open(os.path.join(vcheck.REPO, "function.go")).read()
    has_pickler = "func newEnvPickler()" in src
    has_data = "func functionEnv(f starlark.Callable) (starlark.Value, string, error)" in src
    if has_pickler and has_data:
        return "new"
    if has_pickler:
        return "mid"
    return "old"


def harness(c):
    ov = {"cmd/verif_env/" + f: f for f in FILES}
    ov["verif_env_export.go"] = "export_common.go"
    ov["verif_env_export_variant.go"] = "export_%s.go" % variant()
    return c.go_harness(AREA, ov, "./cmd/verif_env", tags="")


def driver(c):
    """drv_env behind a wrapper that lifts the stack limit: on the original tree the model follows the pickler
    into the unbounded recursion of D3 until its fuel is gone"""
    drv = c.driver("drv_env")
    if not drv:
        return None
    w = os.path.join(vcheck.BUILD, "drv_env_bigstack.sh")
    with open(w + ".tmp%d" % os.getpid(), "w") as f:
        f.write("#!/bin/bash\nulimit -s 4000000 2>/dev/null || ulimit -s unlimited 2>/dev/null\nexec %s\n" % drv)
    os.chmod(w + ".tmp%d" % os.getpid(), 0o755)
    os.replace(w + ".tmp%d" % os.getpid(), w)
    return w


def parse(out):
    pairs, viols, stats = {}, [], {}
    for line in out.split("\n"):
        f = line.split("\t")
        if f[0] == "C" and len(f) == 4:
            pairs.setdefault(f[1], []).append((f[2], f[3]))
        elif f[0] == "V":
            viols.append(json.loads(f[1]))
        elif f[0] == "S":
            stats = json.loads(f[1])
    return pairs, viols, stats


def model_cfg(c):
    """the code version the model has to follow, as the extractor reads it off the tree (tie 1 says whether it is
    the repaired one the theorems are about): the six traversal bits and which diffEnv rule the tree has"""
    ok, o = c.extract("Env")
    cfg, decide = None, "fixed"
    for line in (o or "").split("\n"):
        if line.startswith("cfg="):
            cfg = line[4:].strip()
        if line.startswith("decide="):
            decide = line[7:].strip()
        if line.startswith("reason="):
            model_cfg.reason = line[7:].strip()
    model_cfg.decide = decide
    return cfg


model_cfg.decide = "fixed"
model_cfg.reason = "safe"


def run(c):
    c.assumptions += [
        "the Starlark front end (parser, compiler, Function.Env, FunctionCode.ModuleEnv) is not modelled: the harness reads "
        "the value graph off the real *starlark.Function through those APIs (graph.go) and the model walks that graph",
        "C08_terminates assumes TuplesOrdered (a tuple's elements exist before the tuple); the harness numbers every graph "
        "that way and the driver's answer is compared byte for byte with the real encoder's",
        "theorems are at the opcode level (the byte layer is C07_bytes, area Pickle); C08_sensitive is about the repaired code (Cfg.current)",
        "every load / fingerprint / build runs in a child process with a watchdog (90 s), a 256 MB Go stack limit and a 6 GB "
        "address-space limit; a crash or hang after dawn.Load returned is the failing input, one before is outside C08",
        "projects that do not load are outside C08 (observed: a nested def calling itself through a free variable kills the "
        "process in starlark.ExecFile's freeze)",
    ]
    c.coverage["rule"] = (
        "generated dawn projects: each of 35 unit kinds alone (recursion, mutual recursion, closures, defaults, nested defs / "
        "lambdas / comprehensions, containers of 0..3000 elements, shared / cyclic / 1500-deep data, a recursive function in front "
        "of shared lists / dicts / sets / functions, sets and dicts of 12..40-byte strings and bytes as globals / defaults / free "
        "variables, every predeclared kind, "
        "flags, target references, Cache, labels, helper modules, functions in containers, same-named functions in a cycle, "
        "keyword-only parameters, signatures, builtin aliases, value kinds) for several parameter draws, then random "
        "combinations of 1-4 units in one or two packages sharing a helper module. Per program, in child processes: load + "
        "fingerprint in three separate processes (BUILD modules forced to load in opposite orders); decode(fingerprint) compared "
        "with the extracted graph incl. aliasing; each sampled mutation; build twice; build, apply an edit that changes the "
        "fingerprint (always the edits between ==-equal values: 1 / 1.0, 0.0 / -0.0, alias / copy), build: the target re-executes. "
        "A case is non-trivial when the real code returned a fingerprint; distinct by driver input line.")
    cfg = model_cfg(c)
    c.prove(extract=False)
    exe = harness(c)
    drv = driver(c)
    if not exe:
        return c
    if cfg is None:
        c.broken.append("extractor did not report the code version (cfg)")
        cfg = "101111"
    c.coverage["model_cfg"] = cfg
    scratch = vcheck.scratch("env")
    try:
        args = [exe, "-seed", str(c.seed), "-tier", c.tier, "-cfg", cfg, "-decide", model_cfg.decide, "-reasonrule", model_cfg.reason,
                "-scratch", scratch,
                "-corpus", os.path.join(vcheck.VERIF, "corpus", "C08")]
        if os.environ.get("VERIF_ENV_BUDGET"):
            args += ["-budget", os.environ["VERIF_ENV_BUDGET"]]
        p = subprocess.run(args, stdout=subprocess.PIPE, stderr=subprocess.PIPE, timeout=3000)
    finally:
        shutil.rmtree(scratch, ignore_errors=True)
    pairs, viols, stats = parse(p.stdout.decode("utf-8", "replace"))
    err = p.stderr.decode("utf-8", "replace")
    if p.returncode != 0:
        c.broken.append("harness exited %d: %s" % (p.returncode, err[-600:]))
    counts = stats.get("counts", {})
    hists = stats.get("histograms", {})
    c.coverage["harness_stats"] = counts
    c.coverage["harness_histograms"] = hists
    c.coverage["harness_notes"] = sorted(set(l for l in err.split("\n") if l.startswith("observation") or l.startswith("invalid")))[:20]
    if counts.get("invalid_programs", 0):
        c.broken.append("generator produced %d programs the real code rejects for reasons outside C08" % counts["invalid_programs"])
    if counts.get("stamp_mismatch", 0):
        c.broken.append("harness shim: stored stamp differs from VerifFunctionEnv's encoding (%d)" % counts["stamp_mismatch"])
    if drv:
        for stream, ps in sorted(pairs.items()):
            c.correspond(stream, drv, ps, nontrivial=lambda i, o: o.startswith("ok") or o in ("upToDate", "rerun", "buildError"))
    for k, label in [("fingerprints", "env.judge.terminates"), ("determinism_comparisons", "env.judge.deterministic"),
                     ("sensitivity_comparisons", "env.judge.sensitive"), ("second_build_targets", "env.judge.second_build"),
                     ("decoded_wiring_checks", "env.judge.decoded_wiring"), ("rebuild_after_edit_targets", "env.judge.rebuild_after_edit"),
                     ("insensitivity_comparisons", "env.observe.insensitive")]:
        c.count(label, counts.get(k, 0), hist=hists.get("features") if k == "fingerprints" else None,
                sample={"judge": label, "evaluations": counts.get(k, 0)})
    for v in viols:
        inp = v["input"]
        what = "%s [%s] %s: %s" % (v["kind"], v["feature"], v.get("target", ""), v["detail"])
        c.violation(what, {"input": inp, "kind": v["kind"], "feature": v["feature"], "target": v.get("target", "")}, key=v.get("key"))
    return c


def replay(c, case):
    exe = harness(c)
    if not exe:
        return 2
    cfg = model_cfg(c) or "101111"
    scratch = vcheck.scratch("env-replay")
    if case.get("input", {}).get("stream") == "env.reasontext":
        p = subprocess.run([exe, "-reasonrule", model_cfg.reason, "-reasonkeys", json.dumps(case["input"]["keys"])], stdout=subprocess.PIPE)
        _, viols, _ = parse(p.stdout.decode("utf-8", "replace"))
        for v in viols:
            print("%s: %s" % (v["kind"], v["detail"]))
        print("VIOLATION property=C08 replay=(given)" if viols else "no violation on replay")
        return 1 if viols else 0
    try:
        p = subprocess.run([exe, "-cfg", cfg, "-decide", model_cfg.decide, "-scratch", scratch, "-replay", json.dumps(case["input"])],
                           stdout=subprocess.PIPE)
    finally:
        shutil.rmtree(scratch, ignore_errors=True)
    out = p.stdout.decode("utf-8", "replace")
    _, viols, _ = parse(out)
    for v in viols:
        print("%s [%s] %s: %s" % (v["kind"], v["feature"], v.get("target", ""), v["detail"]))
    if viols:
        print("VIOLATION property=C08 replay=(given)")
        return 1
    print("no violation on replay")
    return 0

"""C02 — No spurious rebuilds (target.go, function.go, sourceFile.go, project.go, project_index.go)."""
import build_common

RULE = ("histories as for C01 with the probe template: build L (must succeed) → only edits that change no input of L's closure (timestamp touch, same-content rewrite, comment, whitespace, docstring, helper-module comment, edits to sources and to other packages' build files outside the closure) → build L in a fresh process, pinned to one CPU or with the parallel runner and loader. Judge: the second build executes no body and evaluates no target (apart from `always` targets and what depends on them) and succeeds. Correspondence as for C01. Probes may contain a garbage collection between the two builds. Round 2: targets whose sources come from glob() with `**` patterns in the root package and in sub-packages; shared-source templates (build B; edit the shared source, build only A, revert, build A, build B — or build A under -B, build B): B must not run again. Round 3: file, directory and generated-file names with spaces, quotes, backslashes, %, +, #, non-ASCII and invalid UTF-8 bytes (D27), picked up by globs and by explicit sources; stream build.keys: the persisted form of a dependency key (escapeLabel/unescapeLabel of the real engine, `-` before the repair) against the model's escapeKey/unescapeKey. D32: the list edits of C01 (reorder / repeat an entry of sources=, deps=, generates=) are changes of the target, never no-op edits; they occur among the edits outside the probed closure. Round 4: about one target in ten refers to the global LATE, which the build file assigns BELOW the targets (forward reference); watch-mode sequences on one loaded project (Run(Always) | Run(nil) | REPL always=True, then Reload(), then Run(nil)): the run after a successful run and a Reload of the unchanged project executes nothing and is not forced; edits of a file behind a symbolic link count as edits of the directory that holds the link. Round 5: entries whose names END in a byte that is not valid UTF-8 (`caf\\xe9`) or consist of one such byte (`\\xff`), inside source directories (reachable through the directory and through `d0/**`).")


def run(c):
    return build_common.run_prop(c, "C02", RULE)


def replay(c, case):
    return build_common.replay(c, "C02", case.get("input", case))

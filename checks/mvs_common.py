"""Shared by C10 and C11: the MVS harness (harness/mvs, built into the repo's module), the model driver drv_mvs."""
import glob
import json
import os
import subprocess

import vcheck

OVERLAY = {"internal/mvs/verif_mvs_harness.go": "verif_mvs.go", "cmd/verif_mvs/main.go": "main.go"}

TRUSTED = ["golang.org/x/mod/semver is modelled (parse, Canonical, Major, MajorMinor, Prerelease, Compare) and compared with the "
           "library on generated strings in stream mvs.semver; it is not verified",
           "github.com/pgavlin/mvs (version pinned by go.sum, tie mvs_module_ok) is modelled as sequential worklists; its "
           "internal parallel work queue (internal/par.Work, random pick order, 10 workers) is NOT modelled — C10_order proves "
           "the answer independent of the order in which items are taken, and the real queue runs in every harness case",
           "the resolver's I/O (dialing, fetching into the cache directory, go-toml parsing of dawn.toml) is the function "
           "Env.summary of the model; the harness drives the real Resolver against a fake repository (shape of "
           "internal/mvs/repo_test.go) that writes real dawn.toml files",
           "ref queries are modelled (Dawn/Model/MvsRef.lean) over an abstract commit history — what ResolveRef / GetRevision / "
           "Revision.History() / When() / PseudoID() and the tagged revisions give; the VCS itself (go-git, the order of its "
           "pre-order walk) is not modelled; module.PseudoVersion is modelled on structured versions and compared per input",
           "path.Clean is the identity on the (clean) project paths the generator produces"]


def harness(c):
    return c.go_harness("mvs", OVERLAY, "./cmd/verif_mvs", tags="")


def parse(out):
    pairs, viols, stats = {}, [], {}
    for line in out.split("\n"):
        f = line.split("\t")
        if f[0] == "C" and len(f) == 4:
            pairs.setdefault(f[1], []).append((f[2], f[3]))
        elif f[0] == "V":
            viols.append(json.loads(f[1]))
        elif f[0] == "S":
            stats = json.loads(f[1])
    return pairs, viols, stats


def run_harness(exe, args, timeout):
    """The harness creates and deletes thousands of small cache directories (every cold resolution downloads its universe
    again); on a memory file system that is several times faster than on disk, which is what keeps the quick tier's case
    counts independent of the load on the machine. The resolver renames from $TMPDIR into the cache directory, so both
    live under the one TMPDIR given here."""
    env = dict(os.environ)
    tmp = None
    if os.path.isdir("/dev/shm") and os.access("/dev/shm", os.W_OK):
        tmp = "/dev/shm/verif-mvs-%d" % os.getpid()
        os.makedirs(tmp, exist_ok=True)
        env["TMPDIR"] = tmp
    try:
        p = subprocess.run([exe] + args, stdout=subprocess.PIPE, stderr=subprocess.PIPE, timeout=timeout, env=env)
        return p.returncode, p.stdout.decode("utf-8", "replace"), p.stderr.decode("utf-8", "replace")
    finally:
        if tmp:
            import shutil
            shutil.rmtree(tmp, ignore_errors=True)


def model_key(c, drv, v):
    """The mechanism of a failed `repeat the get` case, decided on the MODEL: the model's own account of the first
    call (branch taken, whether the new build list has the resolved version). Only these mechanisms are known
    findings (D15, D15b, D15c, D31); every other idempotence failure stays a violation."""
    if not drv or v.get("kind") not in ("get-not-idempotent", "get-fault-swallowed") or not v.get("line"):
        return None
    try:
        outs = c.run_driver(drv, [v["line"]], timeout=120)
        ans = outs[0].split(";")[int(v.get("step", 0))]
    except Exception:
        return None
    # ok:<requirements>|<branch>|<resolved>|<landed>|<stable>
    f = ans.split("|")
    if not ans.startswith("ok:") or len(f) != 5:
        return None
    branch, landed, stable = f[1], f[3], f[4]
    if v.get("kind") == "get-fault-swallowed":
        # a failed fetch during a downgrade: mvs.Downgrade excludes the module instead of failing (D31); in every other
        # branch a swallowed fault is a violation
        return "get-downgrade-swallows-load-error" if branch == "down" else None
    if landed == "1":
        # the call landed, but the query itself resolves to another version against the new build list
        return "get-query-reresolves" if stable == "0" else None
    if branch == "down":
        return "get-downgrade-did-not-land"
    if branch in ("add", "up"):
        return "get-landed-above-resolved"
    return None


def report(c, drv, viols, prop):
    for v in viols:
        if v.get("prop", prop) != prop:
            continue
        what = "%s: %s" % (v["kind"], v.get("detail", ""))
        c.violation(what[:1500], {"input": v["input"], "kind": v["kind"], "step": v.get("step", 0)},
                    key=model_key(c, drv, v))


def run_corpus(c, exe, drv, prop):
    """minimised past failures first"""
    n = 0
    for fn in sorted(glob.glob(os.path.join(vcheck.VERIF, "corpus", prop, "*.json"))):
        with open(fn) as f:
            case = json.load(f)
        rc, out, err = run_harness(exe, ["-replay", json.dumps(case["input"])], 300)
        pairs, viols, _ = parse(out)
        if rc != 0:
            c.broken.append("corpus replay %s exited %d" % (os.path.basename(fn), rc))
        if drv:
            for stream, ps in sorted(pairs.items()):
                c.correspond(stream + ".corpus", drv, ps, nontrivial=lambda i, o: "ok:" in o)
        report(c, drv, viols, prop)
        n += 1
    c.count("mvs.corpus", n, sample={"corpus_cases": n})


def run(c, prop, rule, judge_note):
    c.assumptions += ["requirement versions are canonical semantic versions and paths are clean (what LoadConfigBytes enforces); "
                      "requirement names are non-empty [A-Za-z0-9_@.-]+ (empty names are C19's business)"] + TRUSTED
    c.coverage["rule"] = rule
    c.prove()
    c.coverage["trusted_base"] += TRUSTED
    exe = harness(c)
    drv = c.driver("drv_mvs")
    if not exe:
        return c
    run_corpus(c, exe, drv, prop)
    # C11's sequences are the expensive ones (every edit is re-run for determinism, idempotence and, on a share of the
    # edits, under injected faults): a longer slice of the quick tier keeps >= 800 sequences
    budget = ("20s" if prop == "C11" else "18s") if c.tier == "quick" else "420s"
    rc, out, err = run_harness(exe, ["-seed", str(c.seed), "-tier", c.tier, "-prop", prop, "-budget", budget], 3000)
    pairs, viols, stats = parse(out)
    if rc != 0:
        c.broken.append("harness exited %d: %s" % (rc, err[-500:]))
    c.coverage["harness_stats"] = stats
    if drv:
        for stream, ps in sorted(pairs.items()):
            c.correspond(stream, drv, ps, nontrivial=lambda i, o: "ok" in o)
    c.count("mvs.judge." + prop, stats.get("cases", 0), sample={"judge": judge_note, "cases": stats.get("cases", 0)},
            hist={k: v for k, v in stats.items() if isinstance(v, int)})
    report(c, drv, viols, prop)
    return c


def replay(c, case, prop):
    exe = harness(c)
    drv = c.driver("drv_mvs")
    rc, out, err = run_harness(exe, ["-replay", json.dumps(case["input"])], 600)
    print(out)
    _, viols, _ = parse(out)
    report(c, drv, viols, prop)
    for k in c.known_hits:
        print("KNOWN-FINDING: property=%s %s" % (prop, k.get("what", k["id"])))
    if c.violations:
        for v in c.violations:
            print("violation:", v["what"][:600])
        print("VIOLATION property=%s replay=(given)" % prop)
        return 1
    return 0

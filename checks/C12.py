"""C12 — labels are canonical, stable identities confined to the project
(label/label.go, sourceFile.go:repoSourcePath/sourceLabel, project.go:targetInfoPath)."""
import json
import os
import subprocess

import vcheck

OVERLAY = {"cmd/verif_label/main.go": "main.go", "verif_export_label.go": "export.go"}


def harness(c):
    return c.go_harness("label", OVERLAY, "./cmd/verif_label", tags="")


def parse(out):
    pairs, viols, stats = {}, [], {}
    for line in out.split("\n"):
        f = line.split("\t")
        if f[0] == "C" and len(f) == 4:
            pairs.setdefault(f[1], []).append((f[2], f[3]))
        elif f[0] == "V":
            viols.append(json.loads(f[1]))
        elif f[0] == "S":
            stats = json.loads(f[1])
    return pairs, viols, stats


def corpus(c, exe):
    """past failing inputs (corpus/C12/*.json: found on mutants, none on the real code), replayed first"""
    d = os.path.join(vcheck.VERIF, "corpus", c.pid)
    n = 0
    for fn in sorted(os.listdir(d)) if os.path.isdir(d) else []:
        if not fn.endswith(".json"):
            continue
        case = json.load(open(os.path.join(d, fn)))
        p = subprocess.run([exe, "-replay", json.dumps(case["input"])], stdout=subprocess.PIPE, timeout=300)
        _, viols, _ = parse(p.stdout.decode("utf-8", "replace"))
        n += 1
        for v in viols:
            c.violation("corpus %s: %s: %s %s" % (fn, v["kind"], v.get("text", ""), v.get("detail", "")),
                        {"input": v["input"], "kind": v["kind"], "corpus": fn})
    c.count("label.corpus", n)


def run(c):
    c.assumptions += [
        "strings are byte sequences (List UInt8): exact for every Go string, valid UTF-8 or not",
        "path.Clean / path.Join / url.PathEscape are standard library: modelled by their documented semantics "
        "(component stack), validated per input by the streams label.pclean, label.pjoin, label.tip",
        "filepath.ToSlash is the identity (separator '/'); repoSourcePath is only ever called with a module's "
        "package, which starts with '//': with a shorter package and a relative path pkg[2:] panics (model and "
        "code agree, counted as pairs_panic_on_package_no_caller_can_pass)",
        "the round trip is claimed for labels with a name or without a kind (property text); `k:p:` prints `k:p`, "
        "which is another label (theorem C12_kind_without_name_counterexample; counted as exempt_*)",
        "observation, not a violation: a source path that cleans to the project root (`/`, `/a/..`) gives the label "
        "`source://` with a kind and an empty name (source_labels_without_name_observation); labels built by New "
        "with a project containing `//` or ending in `/` do not round-trip, and no caller passes a project",
    ]
    c.coverage["rule"] = (
        "label strings: every string over {a / : . @} up to length 7 (8 thorough), each parsed, printed, re-parsed and (up to "
        "length 6) resolved against 9 packages; seeded random strings of 9-24 symbols over 24 symbols incl. backslash, %, "
        "non-ASCII, NUL, invalid UTF-8, half of them label-shaped with byte mutations. Clean: every string over {a / : .} up to "
        "length 8 (9). Split, path.Clean: every string over {a / .} up to length 8 (10). Join/path.Join: all lists of 0-3 of 15 "
        "elements. New: 6x7x15x7 field combinations. (package, path): 12 packages x (all sequences of up to 4 (5) components of "
        "{.. . a '' ... ..a b:c}, relative and absolute, plus every string over {a / .} up to length 6 (8)) plus random pairs. "
        "Stability: every accepted string of the above up to length 6 and every accepted random string. Record paths: kinds "
        "{'', source} x 361 packages of depth 0-3 over 9 elements x 19 names. End to end: 3 (25) generated projects. "
        "A correspondence case is non-trivial when the real code returned a value (not an error).")
    c.prove()
    exe = harness(c)
    drv = c.driver("drv_label")
    if exe:
        corpus(c, exe)
        p = subprocess.run([exe, "-seed", str(c.seed), "-tier", c.tier], stdout=subprocess.PIPE, timeout=1500)
        pairs, viols, stats = parse(p.stdout.decode("utf-8", "replace"))
        if p.returncode != 0:
            c.broken.append("harness exited %d" % p.returncode)
        c.coverage["harness_stats"] = stats
        if drv:
            for stream, ps in sorted(pairs.items()):
                # an error whose wording the harness does not know ("err ?") is compared as "some error": it agrees
                # with any error of the model and disagrees with anything else
                unk = [(i, g) for i, g in ps if g == "err ?"]
                known = [(i, g) for i, g in ps if g != "err ?"]
                if unk:
                    outs = c.run_driver(drv, [i for i, _ in unk])
                    known += [(i, g) for (i, g), m in zip(unk, outs) if not m.startswith("err ")]
                c.correspond(stream, drv, known, nontrivial=lambda i, o: o.startswith("ok"))
                if unk:
                    c.coverage["streams"][stream]["cases_with_unknown_error_wording"] = len(unk)
        judged = (stats.get("round_trips_checked", 0) + stats.get("pairs", 0) + stats.get("strings", 0) +
                  stats.get("stability_checked", 0) + stats.get("e2e_labels_reparsed", 0) + stats.get("record_paths_judged", 0))
        c.count("label.judge", judged,
                sample={"judge": "Parse(l.String()) == l for accepted l with a name or without a kind, also after RelativeTo / "
                                 "New / sourceLabel; equal printed forms only for equal labels; no panic; "
                                 "filepath.Join(root, repoSourcePath(pkg, p)) under root, no '..' component; escaping paths rejected; "
                                 "stability: Parse(s) is the same label and prints the same after earlier results of Parse(s) / "
                                 "RelativeTo / New were changed the way module loading and the command line change them, and after "
                                 "dawn.Load of a generated project that loads modules by absolute label; build records: "
                                 "targetInfoPath tells ~10k labels (kinds '', source; names incl. '.', '..', '%2F') apart and puts "
                                 "each directly below its kind's directory",
                        "round_trips_checked": stats.get("round_trips_checked", 0), "pairs": stats.get("pairs", 0)},
                hist={k: v for k, v in stats.items() if not k.startswith("pairs_label.")})
        for v in viols:
            c.violation("%s: %s %s" % (v["kind"], v.get("text", ""), v.get("detail", "")),
                        {"input": v["input"], "kind": v["kind"]})
    return c


def replay(c, case):
    exe = harness(c)
    p = subprocess.run([exe, "-replay", json.dumps(case["input"])], stdout=subprocess.PIPE, timeout=300)
    out = p.stdout.decode("utf-8", "replace")
    print(out)
    _, viols, _ = parse(out)
    if viols:
        print("VIOLATION property=C12 replay=(given)")
        return 1
    return 0

"""C18 — build events and target output follow a well-formed protocol
(lineWriter.go, events.go, target.go, function.go, project.go)."""
import glob
import json
import os
import subprocess

import vcheck

OVERLAY = {"verif_export_linewriter.go": "export.go",
           "cmd/verif_linewriter/main.go": "main.go",
           "cmd/verif_linewriter/project.go": "project.go"}


def harness(c):
    return c.go_harness("linewriter", OVERLAY, "./cmd/verif_linewriter", tags="")


CMD_OVERLAY = {"cmd/dawn/zz_verif_lw_test.go": "cmd_test.go"}


def cmd_harness(c):
    """the command-line consumers (cmd/dawn is package main): a test binary with harness/linewriter/cmd_test.go overlaid"""
    import hashlib
    exe = os.path.join(vcheck.BUILD, "harness-linewritercmd-%s" % hashlib.sha1(vcheck.REPO.encode()).hexdigest()[:8])
    ov = {"Replace": {os.path.join(vcheck.REPO, k): os.path.join(vcheck.VERIF, "harness", "linewriter", v) for k, v in CMD_OVERLAY.items()}}
    ovp = exe + ".overlay.json"
    with vcheck.Lock("go-linewritercmd"):
        with open(ovp, "w") as f:
            json.dump(ov, f)
        rc, o = vcheck.sh(["go", "test", "-c", "-vet=off", "-overlay", ovp, "-o", exe, "./cmd/dawn"], cwd=vcheck.REPO, env=vcheck.GOENV, timeout=900)
    if rc != 0:
        c.log("command-line harness build failed:\n" + o[-3000:])
        c.broken.append("harness build linewriter cmd")
        return None
    return exe


def cli_run(c, exe, viols, replay_input=None):
    """`dawn build --json <file>` through the real cmd/dawn on generated fresh trees; the events FILE is judged"""
    import shutil
    cexe = cmd_harness(c)
    if not cexe:
        return {}
    trees = vcheck.scratch("c18-trees")
    outp = os.path.join(vcheck.BUILD, "linewritercmd-%d.out" % os.getpid())
    try:
        gen = [exe, "-gentrees", trees, "-seed", str(c.seed), "-tier", c.tier]
        if replay_input is not None:
            gen += ["-replay", json.dumps(replay_input)]
        subprocess.run(gen, check=True, timeout=600)
        env = dict(os.environ)
        env.update({"VERIF_JSON_TREES": trees, "VERIF_CMD_OUT": outp})
        p = subprocess.run([cexe, "-test.run", "^TestVerifJSON$", "-test.timeout", "20m"], stdout=subprocess.PIPE,
                           stderr=subprocess.STDOUT, env=env, timeout=1500, cwd=vcheck.BUILD)
        text = open(outp, encoding="utf-8", errors="replace").read() if os.path.exists(outp) else ""
        _, vs, stats = parse(text)
        viols += vs
        if (p.returncode != 0 and not vs) or not stats:
            c.broken.append("command-line harness exited %d" % p.returncode)
            c.coverage["cmd_harness_output_tail"] = p.stdout.decode("utf-8", "replace")[-2000:]
        return stats
    finally:
        shutil.rmtree(trees, ignore_errors=True)
        if os.path.exists(outp):
            os.remove(outp)


def race_harness(c):
    """the harness built with the race detector (needs cgo); None when that is not possible here"""
    import hashlib
    exe = os.path.join(vcheck.BUILD, "harness-linewriter-race-%s" % hashlib.sha1(vcheck.REPO.encode()).hexdigest()[:8])
    ov = {"Replace": {os.path.join(vcheck.REPO, k): os.path.join(vcheck.VERIF, "harness", "linewriter", v) for k, v in OVERLAY.items()}}
    ovp = exe + ".overlay.json"
    env = dict(vcheck.GOENV)
    env["CGO_ENABLED"] = "1"
    with vcheck.Lock("go-linewriter-race"):
        with open(ovp, "w") as f:
            json.dump(ov, f)
        rc, o = vcheck.sh(["go", "build", "-race", "-overlay", ovp, "-o", exe, "./cmd/verif_linewriter"], cwd=vcheck.REPO, env=env, timeout=1200)
    if rc != 0:
        c.log("race build not available:\n" + o[-1500:])
        return None, o[-600:]
    return exe, ""


def race_run(c, viols):
    """thorough tier: the process-running targets again under the race detector; a race in dawn's own code is a violation"""
    exe, why = race_harness(c)
    if not exe:
        c.coverage["race_detector"] = "NOT RUN: go build -race failed here: " + why
        c.assumptions.append("the race detector could not be used in this environment (go build -race failed); concurrent use of a "
                             "line writer is then only caught through the lines it delivers")
        return
    env = dict(os.environ)
    env["GORACE"] = "halt_on_error=0 exitcode=0"
    p = subprocess.run([exe, "-seed", str(c.seed), "-tier", "race"], stdout=subprocess.PIPE, stderr=subprocess.PIPE, env=env, timeout=2400)
    _, vs, stats = parse(p.stdout.decode("utf-8", "replace"))
    viols += vs
    err = p.stderr.decode("utf-8", "replace")
    reports = [r for r in err.split("==================") if "WARNING: DATA RACE" in r]
    own = []
    for r in reports:
        frames = [l.strip() for l in r.split("\n") if "github.com/pgavlin/dawn" in l and "(" in l]
        if any("/cmd/verif_linewriter" not in l and "dawn.Verif" not in l and "verifSpy" not in l for l in frames):
            own.append(r.strip())
    c.coverage["race_detector"] = {"cases": stats.get("ev.proc.cases", 0), "process_bodies": stats.get("ev.proc.bodies.os", 0) + stats.get("ev.proc.bodies.sh", 0),
                                   "race_reports": len(reports), "in_dawn_code": len(own)}
    c.count("ev.race", stats.get("ev.runs", 0), sample={"judge": "go build -race: no data race reported in dawn's own code while targets run "
                                                                 "processes that write to stdout and stderr", "reports": len(reports)})
    if p.returncode != 0 and not reports:
        c.broken.append("race harness exited %d" % p.returncode)
    if own:
        viols.append({"kind": "data-race", "detail": "the race detector reports a data race in dawn's code: " + own[0][:1500],
                      "input": {"stream": "race", "seed": c.seed, "tier": "race", "reports": len(own)}})


def parse(out):
    pairs, viols, stats = {}, [], {}
    for line in out.split("\n"):
        f = line.split("\t")
        if f[0] == "C" and len(f) == 4:
            pairs.setdefault(f[1], []).append((f[2], f[3]))
        elif f[0] == "V" and len(f) == 2:
            viols.append(json.loads(f[1]))
        elif f[0] == "S" and len(f) == 2:
            stats = json.loads(f[1])
    return pairs, viols, stats


def run_replay(exe, inp, timeout=600):
    p = subprocess.run([exe, "-replay", json.dumps(inp)], stdout=subprocess.PIPE, timeout=timeout)
    return p.returncode, p.stdout.decode("utf-8", "replace")


def report(c, viols, limit_per_kind=2):
    """the smallest failing inputs of each (kind, stream) become the violations of this run"""
    groups = {}
    for v in viols:
        groups.setdefault((v["kind"], v["input"].get("stream", "")), []).append(v)
    for (kind, stream), vs in sorted(groups.items()):
        vs.sort(key=lambda v: len(json.dumps(v["input"])))
        for v in vs[:limit_per_kind]:
            c.violation("%s [%s] %s (%d such cases in this run)" % (kind, stream, v["detail"][:600], len(vs)),
                        {"input": v["input"], "kind": kind}, key=v.get("key") or None)


def run(c):
    c.assumptions += [
        "target events are judged per label and in the total order in which the Events implementation received them",
        "a lone 'failed' is also what a target reports when its own up-to-date check fails (I/O error on a source): "
        "the body does not run, no 'evaluating' is reported (model: Facts.upToDateErr)",
        "a target one of whose dependencies failed for a reason other than missing/cyclic reports nothing (DESIGN.md §4)",
        "C18_lines is about one writer receiving one sequence of Write calls (the line writer has no lock); the code establishes this by "
        "making one identical writer the stdout and the stderr of a body and by passing both on unwrapped to os/exec and the shell "
        "interpreter (single pipe, single copying goroutine): tie single_writer_ok; target bodies that run real processes (this binary in "
        "-chatter mode through os.exec / sh.exec: whole lines alternately on stdout and stderr, 1..200 000 bytes, written in pieces, with "
        "and without a final newline, GOMAXPROCS >= 4) must deliver exactly the lines written, in the order written; in the thorough "
        "tier the same runs are repeated under go build -race",
        "in run(callback=…) builds the line writer delivers to the Events the project was loaded with; the relative order of "
        "those lines and the callback's target events is not judged (two consumers)",
        "option sequences on one loaded project: every sequence of length 2 and 3 over {Run(l, nil), {}, {DryRun}, {Always}, {Always, DryRun}} "
        "(library API, and the run(callback=…) builtin with and without its keywords mixed in); each run is judged for the options of THAT run "
        "(evaluating <=> the spy saw the body run; no body in a dry run)",
        "the consumers of cmd/dawn named in the property's anchors are driven for real: `dawn build --json <file> <root>` (never `--json -`) "
        "through rootCmd.Execute() in a test binary built from cmd/dawn with one overlaid _test file; the events file is judged against the "
        "statically known outcome of a build of the fresh tree (bodies print lines and run processes through os.exec / sh.exec, some fail, "
        "some dependencies are missing)",
        "which member of a dependency cycle detects it depends on the schedule: that one fact is taken from the observed error type",
        "a failure to record the result after a successful body is injected (a target body replaces its own record, already "
        "holding the in-progress marker, by a directory): evaluating then failed is the only legal sequence (Facts.saveOk); a "
        "failure of the in-progress write before the body is modelled (Facts.preSaveOk: [Evaluating, Failed], body not run) and "
        "inferred from the spy, but not injected",
    ]
    c.coverage["rule"] = (
        "line writer: every string over {a,\\n} up to length 6 (10 thorough) in every chunking, plus an empty chunk in every 7th case; "
        "every sequence of up to 4 (5) calls over six chunks and Flush (writer reused after Flush); seeded random long outputs over 8 symbols. "
        "events: seeded random projects on disk (2-8 targets in 1-2 packages, random DAG, chunks with/without trailing newline, failing bodies, bodies that make the recording of their result fail, bodies that run a real process through os.exec / sh.exec, "
        "target-level always, sources, sometimes a missing dependency (an unrelated name or a near miss of an existing target's name: a typo, another case, an underscore), a dependency cycle, a source whose up-to-date check fails), "
        "each built through dawn.Load + Project.Run: dry run, build, dry run, rebuild of the unchanged tree, then a random subset of "
        "sub-target build, edit+build, always, second Run without reload, run(callback=…). A case is non-trivial when the model answer is "
        "not empty; distinct by driver input line.")
    c.prove()
    exe = harness(c)
    drv = c.driver("drv_linewriter")
    if not exe:
        return c
    viols = []
    # corpus first
    for path in sorted(glob.glob(os.path.join(vcheck.VERIF, "corpus", "C18", "*.json"))):
        with open(path) as f:
            case = json.load(f)
        rc, out = run_replay(exe, case["input"])
        _, vs, _ = parse(out)
        c.count("corpus", 1, sample={"corpus": os.path.basename(path), "violations": len(vs)})
        viols += vs
    p = subprocess.run([exe, "-seed", str(c.seed), "-tier", c.tier], stdout=subprocess.PIPE, timeout=3000)
    pairs, vs, stats = parse(p.stdout.decode("utf-8", "replace"))
    viols += vs
    if p.returncode != 0:
        c.broken.append("harness exited %d" % p.returncode)
    c.coverage["harness_stats"] = stats
    if drv:
        for stream, ps in sorted(pairs.items()):
            c.correspond(stream, drv, ps, nontrivial=lambda i, o: o not in (".", "- ."))
    c.count("lw.judge", stats.get("lw.judged", 0),
            sample={"judge": "lines delivered == lines of the concatenated written output per Flush-delimited segment; Write returns (len, nil)",
                    "evaluations": stats.get("lw.judged", 0)})
    c.count("ev.judge", stats.get("ev.runs", 0),
            sample={"judge": "per label: allowed shapes; lines once, in order, inside evaluating..completion; evaluating after the dependencies' last "
                             "event; one run-done, last, with Run's error; evaluating <=> body ran; dry-run evaluating set == bodies of the next real build",
                    "runs": stats.get("ev.runs", 0)},
            hist={k: v for k, v in stats.items() if k.startswith("ev.")})
    cstats = cli_run(c, exe, viols)
    c.coverage["cmd_harness_stats"] = cstats
    c.count("cli.json.judge", cstats.get("cli.builds", 0),
            sample={"judge": "`dawn build --json <file> <root>` through cmd/dawn's own renderers on a fresh generated tree; the FILE is a complete "
                             "sequence of JSON records, per label exactly the expected target events, every output line once and in order, "
                             "one RunDone as the last record with an error iff the build fails",
                    "builds": cstats.get("cli.builds", 0)}, hist=cstats)
    if c.tier == "thorough":
        race_run(c, viols)
    report(c, viols)
    return c


def replay(c, case):
    if case.get("input", {}).get("stream") == "race":
        viols = []
        race_run(c, viols)
        for v in viols:
            print(v["detail"][:2000])
        if viols:
            print("VIOLATION property=C18 replay=(given)")
            return 1
        return 0
    exe = harness(c)
    if case.get("input", {}).get("stream") == "cli.json":
        viols = []
        cli_run(c, exe, viols, replay_input=case["input"])
        for v in viols:
            print(v["detail"][:2000])
        if viols:
            print("VIOLATION property=C18 replay=(given)")
            return 1
        return 0
    rc, out = run_replay(exe, case["input"])
    print(out)
    _, viols, _ = parse(out)
    if viols:
        print("VIOLATION property=C18 replay=(given)")
        return 1
    return 0

"""C03 — Failed and interrupted builds are recoverable (target.go, function.go, sourceFile.go, project.go, project_index.go)."""
import build_common

RULE = ("histories with failing bodies (which leave garbage in their first output) and with the process killed (os.Exit) at the k-th hook point — before / inside / after a body, before the failure / success record, after the record's temporary is created / written / renamed, inside the load-time refresh and inside the index rewrite — followed by the recovery build. Judge: after the fault every record file decodes and the project loads; the next successful build re-executes every body that had started and not completed with its record; its generated files equal a from-scratch build. Correspondence: the model applies the same prefix of its effect list (in the order the real runner visited the targets) and must reach the same persisted state and pass the same hook points. Systematic part: every named hook point (marker create/write/rename, before/inside/after the body, before the record, record create/write/rename) x target (function targets, sources) x {the record does not exist yet, the record is replaced} x {load phase, run phase}, each as its own history with the recovery build, including the load of a fresh project and of a freshly added target; after each the state must load (every record file decodes, the next load succeeds). Round 2: the saveIndex hook points (created / encoded) are part of the enumeration; after EVERY crash the state is loaded both ways (the next build loads from the build files; a copy is loaded preferring index.json); index.json is cut at 25 lengths (thorough: every length up to 2500) and then loaded preferring the index; crash-in-body followed by bystander loads (see C01). Round 3: template fail-then-alone: a dependency d fails with dependents waiting, d is then built alone (succeeds), then the dependents are built — they must run against the new d (catches a failure record that forgets the run counter); glob targets with delete/rmsrc edits (D29).")


def run(c):
    return build_common.run_prop(c, "C03", RULE)


def replay(c, case):
    return build_common.replay(c, "C03", case.get("input", case))

"""C16 — diffs are faithful to both values (diff/diff.go, diff/diff_slice.go, diff/types.go, function.go)."""
import glob
import json
import os
import subprocess

import vcheck

OVERLAY = {"diff/verif_export_diff.go": "export_diff.go",
           "verif_export_diffenv.go": "export_env.go",
           "cmd/verif_diff/main.go": "main.go",
           "cmd/verif_diff/gen.go": "gen.go"}


def harness(c):
    return c.go_harness("diff", OVERLAY, "./cmd/verif_diff", tags="")


def parse(out):
    pairs, viols, stats = {}, [], {}
    for line in out.split("\n"):
        f = line.split("\t")
        if f[0] == "C" and len(f) == 4:
            pairs.setdefault(f[1], []).append((f[2], f[3]))
        elif f[0] == "V" and len(f) == 2:
            viols.append(json.loads(f[1]))
        elif f[0] == "S" and len(f) == 2:
            stats = json.loads(f[1])
    return pairs, viols, stats


def run_replay(exe, inp, timeout=600):
    p = subprocess.run([exe, "-replay", json.dumps(inp)], stdout=subprocess.PIPE, timeout=timeout)
    return p.returncode, p.stdout.decode("utf-8", "replace")


def report(c, viols, limit_per_kind=2):
    """the smallest failing inputs of each (kind, stream) become the violations of this run"""
    groups = {}
    for v in viols:
        groups.setdefault((v["kind"], v["input"].get("stream", "")), []).append(v)
    for (kind, stream), vs in sorted(groups.items()):
        vs.sort(key=lambda v: len(json.dumps(v["input"])))
        for v in vs[:limit_per_kind]:
            c.violation("%s [%s] %s (%d such cases in this run)" % (kind, stream, v["detail"][:600], len(vs)),
                        {"input": v["input"], "kind": kind})


def run(c):
    c.assumptions += [
        "values are strings, bytes, tuples, lists and dicts, nested, plus None, booleans and ints as atoms (zero-like values as dict "
        "values, dict keys and sequence elements; no floats, so no 0 == 0.0); dict keys are hashable (strings, bytes, tuples of such), "
        "for which Starlark equality is structural equality",
        "floats are outside the Lean model's universe: the diffEnv pairs that differ only by 1 / 1.0 or 0.0 / -0.0 are judged on the "
        "implementation only (harness_stats env.judge_only); sharing (one shared list vs two equal lists) and dict insertion order are "
        "covered by the model through the `encodings equal` fact, which the harness computes from the real pickle text of both environments",
        "equality is starlark.EqualDepth; Diff uses the depth limit starlark.CompareLimit (10): deeper values are refused by the "
        "comparison itself and are outside the property (streams diff.depth / diff.equal compare the refusal with the model)",
        "C16_faithful is stated for element comparisons that do not fail (elements no deeper than the limit 1000 of snake)",
        "a `None` entry inside a replace stands for a pair of equal elements and is checked as such (DESIGN.md §5): it arises only "
        "when compose restarts on long inputs (route list above routeSize = 2 000 000 points: two sequences of some 2 500 elements "
        "with few in common) and a delete at the end of one pass meets an add at the start of the next; counted in harness_stats.none_in_replace",
    ]
    c.coverage["rule"] = (
        "strings: every ordered pair of words over {a,b,c} up to length 5 (6 thorough); bytes, tuples, lists and all 15 other "
        "combinations of kinds: every pair up to length 3 (4) plus random words for every pair of lengths 0..5 (0..6); long "
        "sequences up to 200 elements (a word and an edited copy, or unrelated); random nested values (tuples, lists, dicts, height "
        "<= 4) against mutated copies / unrelated values / dict reorderings; every pair of tuples/lists of up to 2 of the zero-like values None, False, 0, "", (), [] and every ordered pair of "
        "dicts of up to 2 entries over 3 (6) hashable keys incl. None and 0 and those 6 values (a key bound to None, a value "
        "becoming None, ...); every tuple/list of up to 3 (4) elements over {1, 1.0, 2, 2.0, 0.0, -0.0, \"a\"} against its twin "
        "with every number in its other ==-equal form (as is, shortened, lengthened: both swap directions of diffSlice), judged only; "
        "depth limits 0..5 against heights 1..5; the restart path "
        "of compose with routeSize 1..30; diffEnv on pairs of environment dicts over functionEnvKeys, incl. parts nested 6..40 deep "
        "(unchanged deep part + changed shallow part, changed deep part: far above CompareLimit = 10, far below the budget 1000 of diffEnv), "
        "==-equal pairs with different encodings (1/1.0, 0.0/-0.0, sharing, dict order). Judge on the implementation: "
        "empty iff starlark.Equal, Old()/New() are the given values (same type, ==, and same printed form: 1 is not 1.0, 0.0 is not -0.0), kept and deleted elements are the OLD value's elements in that identity-sensitive sense, both sequences are reconstructed from the edits (recursively "
        "through replaces), mapping edits = keys added + removed + changed, up to date iff the real encodings are equal; (false, \"environment changed\", no diff) iff the encodings differ and the "
        "environments are ==; otherwise reason = the differing parts. A case is non-trivial "
        "when the diff is not nil; distinct by driver input line.")
    c.prove()
    exe = harness(c)
    drv = c.driver("drv_diff")
    if not exe:
        return c
    viols = []
    for path in sorted(glob.glob(os.path.join(vcheck.VERIF, "corpus", "C16", "*.json"))):
        with open(path) as f:
            case = json.load(f)
        rc, out = run_replay(exe, case["input"])
        _, vs, _ = parse(out)
        c.count("corpus", 1, sample={"corpus": os.path.basename(path), "violations": len(vs)})
        viols += vs
    p = subprocess.run([exe, "-seed", str(c.seed), "-tier", c.tier], stdout=subprocess.PIPE, timeout=3000)
    pairs, vs, stats = parse(p.stdout.decode("utf-8", "replace"))
    viols += vs
    if p.returncode != 0:
        c.broken.append("harness exited %d" % p.returncode)
    c.coverage["harness_stats"] = stats
    if drv:
        for stream, ps in sorted(pairs.items()):
            c.correspond(stream, drv, ps, nontrivial=lambda i, o: o not in ("nil", "same", "never", "true"))
    c.count("diff.judge", stats.get("judged", 0),
            sample={"judge": "nil iff Equal; Old()/New() are the values given; old = common+delete(+old sides of replace), "
                             "new = common+add(+new sides); mapping edits = added + removed + changed keys; recursively",
                    "evaluations": stats.get("judged", 0), "non_empty_diffs": stats.get("nonempty", 0)})
    c.count("diff.env.judge", stats.get("env.judged", 0),
            sample={"judge": "reason == the functionEnvKeys whose values differ, in order, joined, + ' changed'"},
            hist={k: v for k, v in stats.items() if k.startswith("env.")})
    report(c, viols)
    try:  # ground-truth judge of rebuild reasons on whole programs (area Env: checks/env_reason.py, harness/env -mode reason)
        import env_reason
        env_reason.run_reason_stream(c)
    except Exception as e:  # noqa: BLE001
        c.broken.append("stream env.reason: %r" % (e,))
    return c


def replay(c, case):
    if case.get("stream") == "env.reason":  # a case of the Env area's reason stream
        import env_reason
        n = env_reason.replay_reason(c, case)
        print("VIOLATION property=C16 replay=(given)" if n else "no violation on replay")
        return 1 if n else 0
    exe = harness(c)
    rc, out = run_replay(exe, case["input"])
    print(out)
    _, viols, _ = parse(out)
    if viols:
        print("VIOLATION property=C16 replay=(given)")
        return 1
    return 0

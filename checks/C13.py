"""C13 — A dry run has no effects and predicts the real build (target.go, function.go, sourceFile.go, project.go, project_index.go)."""
import build_common

RULE = ("histories with dry runs (also with --always) each followed by the real build of the same tree, some with a failing body. Judge: a dry run starts no body; .dawn/build and the project files are byte-identical before and after Run (hashed inside the child after Load and after Run) and the project files around the whole process; the decoded records are those from before the command; the dry run's evaluating set equals the real build's when it succeeds, and when it fails contains it, the extra targets all downstream of the failure; the twin history without the dry runs executes the same bodies in every build. Correspondence as for C01.")


def run(c):
    return build_common.run_prop(c, "C13", RULE)


def replay(c, case):
    return build_common.replay(c, "C13", case.get("input", case))

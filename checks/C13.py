"""C13 — A dry run has no effects and predicts the real build (target.go, function.go, sourceFile.go, project.go, project_index.go)."""
import build_common

RULE = ("histories with dry runs (also with --always) each followed by the real build of the same tree, some with a failing body. Judge: a dry run starts no body; .dawn/build and the project files are byte-identical before and after Run (hashed inside the child after Load and after Run) and the project files around the whole process; the decoded records are those from before the command; the dry run's evaluating set equals the real build's when it succeeds, and when it fails contains it, the extra targets all downstream of the failure; the twin history without the dry runs executes the same bodies in every build. Correspondence as for C01. Same-process part (an addition to DESIGN §4's fresh-load decision): Load once, then all sequences of length 2 and a sample (thorough: all) of length 3 of Run with options in {nil, {}, {DryRun}, {Always}, {Always,DryRun}} on ONE loaded project; a run whose options are not dry must execute exactly the bodies its Evaluating events announce and persist their records, a dry run none, and `always` must not be the reason for evaluating unless the run's options say so; RunOptions.apply is compared value by value (stream build.options: previous flags x options). Round 2: the REPL builtin run(label, always=, dry_run=) is driven through Project.REPLEnv with every keyword combination (each alone and followed by Run(nil)); judge-only histories replace the directory above a generated file by a regular file so that the up-to-date check fails (ENOTDIR) during a dry run: .dawn/build must be byte-identical around every dry run, failing ones included, and the real build after the fault is removed executes nothing. Round 4: same-process sequences after an edit (earlier processes build, an input changes, then ONE process makes Run(DryRun) and the real Run): the real run evaluates what the dry run announced and leaves the from-scratch outputs. " + build_common.CLI_RULE)


def run(c):
    build_common.run_prop(c, "C13", RULE)
    build_common.cli_stream(c)      # the command layer: `dawn -n`, `dawn build -n`, `dawn build` (C13 only)
    return c


def replay(c, case):
    inp = case.get("input", case)
    if isinstance(inp, dict) and inp.get("stream") == "cli.c13":
        return build_common.cli_replay(c, inp)
    return build_common.replay(c, "C13", inp)

"""C17 — glob sets match exactly the union of their patterns (util/glob.go)."""
import json
import subprocess

import vcheck


def harness(c):
    return c.go_harness("glob", {"cmd/verif_glob/main.go": "main.go"}, "./cmd/verif_glob", tags="")


def parse(out, c):
    pairs, viols, stats = {}, [], {}
    for line in out.split("\n"):
        f = line.split("\t")
        if f[0] == "C" and len(f) == 4:
            pairs.setdefault(f[1], []).append((f[2], f[3]))
        elif f[0] == "V":
            viols.append(json.loads(f[1]))
        elif f[0] == "S":
            stats = json.loads(f[1])
    return pairs, viols, stats


def run(c):
    c.assumptions += ["patterns and paths are valid UTF-8 (invalid UTF-8 is probed for crashes only)",
                      "C17_union is stated for non-empty pattern lists; the empty list is decided by C17_empty_set",
                      "Go's regexp matcher implements the positional semantics M of the tree its own parser produces "
                      "(parser output compared per input in stream glob.tree, matcher in glob.match)"]
    c.coverage["rule"] = ("pattern lists: all single patterns up to length 3 (4 thorough) over {a / . * ? \\ [} and all pairs of "
                          "patterns up to length 2 over {a / * ? .}, each against every path up to length 4 (5) over {a / . [}; "
                          "glob()/os.glob() at module load and os.glob() from target bodies (root and sub-package) on generated trees, ignore lists at load and in watch mode (FileChanged events for touched files); plus seeded random lists of 0-4 patterns over 21 symbols incl. newline, brackets, non-ASCII, against random "
                          "and pattern-derived paths. A case is non-trivial when the list compiles; distinct by driver input line.")
    c.prove()
    exe = harness(c)
    drv = c.driver("drv_glob")
    if exe:
        p = subprocess.run([exe, "-seed", str(c.seed), "-tier", c.tier], stdout=subprocess.PIPE, timeout=3000)
        pairs, viols, stats = parse(p.stdout.decode("utf-8", "replace"), c)
        if p.returncode != 0:
            c.broken.append("harness exited %d" % p.returncode)
        c.coverage["harness_stats"] = stats
        if drv:
            for stream, ps in sorted(pairs.items()):
                c.correspond(stream, drv, ps, nontrivial=lambda i, o: o.startswith("ok"))
        c.count("glob.judge", stats.get("match_evaluations", 0),
                sample={"judge": "MatchString(set, path) == OR_i reference_glob_match(pattern_i, path)",
                        "evaluations": stats.get("match_evaluations", 0)}, hist={k: v for k, v in stats.items()})
        for v in viols:
            c.violation("%s: patterns=%r path=%r %s" % (v["kind"], v["patterns"], v["path"], v["detail"]),
                        {"input": v["input"], "kind": v["kind"]})
    return c


def replay(c, case):
    if "patterns" not in case.get("input", {}):
        # tree-level cases (glob() builtins, ignore lists): re-run the deterministic check with the recorded seed
        run(c)
        return c.finish()
    exe = harness(c)
    p = subprocess.run([exe, "-replay", json.dumps(case["input"])], stdout=subprocess.PIPE)
    out = p.stdout.decode("utf-8", "replace")
    print(out)
    _, viols, _ = parse(out, c)
    if viols:
        print("VIOLATION property=C17 replay=(given)")
        return 1
    return 0

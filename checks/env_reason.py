"""Ground-truth judge of rebuild reasons (property C16), run from checks/C16.py.

The Env harness (harness/env, mode `-mode reason`) builds one-target projects, applies an edit of which it KNOWS which
parts of the target function's environment it changes (from the layout of FunctionCode.ModuleEnv / Function.Env in the
Starlark fork and functionEnvKeys — not from envUnpickler), rebuilds in a child process and compares the reason of the
TargetEvaluating event with that set. A decoder that files a part of the environment under another key is
self-consistent for equality and diffs; only this ground truth shows it."""
import json
import os
import shutil
import subprocess

import vcheck


def _harness(c):
    import C08  # the Env area's check owns the harness build (same overlay, same binary)
    files = list(C08.FILES)
    if "reason.go" not in files:
        files.append("reason.go")
    ov = {"cmd/verif_env/" + f: f for f in files}
    ov["verif_env_export.go"] = "export_common.go"
    ov["verif_env_export_variant.go"] = "export_%s.go" % C08.variant()
    return c.go_harness("env", ov, "./cmd/verif_env", tags="")


def _parse(out):
    viols, stats = [], {}
    for line in out.split("\n"):
        f = line.split("\t")
        if f[0] == "V":
            viols.append(json.loads(f[1]))
        elif f[0] == "S":
            stats = json.loads(f[1])
    return viols, stats


TIE = "Dawn.Ties.EnvReason.reasonPrecedence_ok"


def _precedence_tie(c):
    """tie 1 for this stream: the order of the cases of the reason switch in runTarget.Evaluate, regenerated from the
    tree by the Env extractor and compared by the kernel (lean/Dawn/Ties/EnvReason.lean); counted with the check's obligations"""
    c.extract("Env")
    ok, out = c.lake_build(["Dawn.Ties.EnvReason"])
    good = c.audit(["Dawn.Ties.EnvReason"], [TIE]) if ok else {}
    c.coverage["obligations"] = c.coverage.get("obligations", 0) + 1
    c.coverage["theorems"].append({"name": TIE, "axioms": sorted(good[TIE]) if good.get(TIE) else None, "ok": bool(good.get(TIE))})
    if good.get(TIE):
        c.coverage["discharged"] = c.coverage.get("discharged", 0) + 1
    else:
        c.broken.append("theorem " + TIE)


def run_reason_stream(c):
    """adds the stream `env.reason` to the running check; violations are reported under the check's property"""
    _precedence_tie(c)
    before = list(c.broken)
    exe = _harness(c)
    if not exe:
        # go_harness recorded "harness build env"; make clear which stream that is
        c.broken[:] = before + ["stream env.reason: harness build failed"]
        return
    scratch = vcheck.scratch("env-reason")
    try:
        p = subprocess.run([exe, "-mode", "reason", "-seed", str(c.seed), "-tier", c.tier, "-scratch", scratch],
                           stdout=subprocess.PIPE, stderr=subprocess.PIPE, timeout=900)
    finally:
        shutil.rmtree(scratch, ignore_errors=True)
    viols, stats = _parse(p.stdout.decode("utf-8", "replace"))
    counts = stats.get("counts", {})
    if p.returncode != 0 or not counts.get("reason_cases"):
        c.broken.append("stream env.reason: harness exited %d: %s" % (p.returncode, p.stderr.decode("utf-8", "replace")[-400:]))
        return
    if counts.get("invalid_programs"):
        c.broken.append("stream env.reason: %d cases did not build" % counts["invalid_programs"])
    c.count("env.reason", counts.get("reason_cases", 0), hist=stats.get("histograms", {}).get("reason_outcome"),
            sample={"judge": "reason of TargetEvaluating after a known edit == the parts of the environment the edit changes",
                    "cases": counts.get("reason_cases", 0)})
    for v in viols:
        c.violation("wrong-reason [%s] %s: %s" % (v["feature"], v.get("target", ""), v["detail"]),
                    {"input": v["input"], "kind": v["kind"], "stream": "env.reason",
                     "replay_with": "python3 checks/env_reason.py <this file>"}, key=v.get("key"))


def replay_reason(c, case):
    """re-judge one stored env.reason case; returns the number of violations"""
    exe = _harness(c)
    scratch = vcheck.scratch("env-reason-replay")
    try:
        p = subprocess.run([exe, "-reason-replay", json.dumps(case["input"]), "-scratch", scratch], stdout=subprocess.PIPE)
    finally:
        shutil.rmtree(scratch, ignore_errors=True)
    viols, _ = _parse(p.stdout.decode("utf-8", "replace"))
    for v in viols:
        print("wrong-reason [%s]: %s" % (v["feature"], v["detail"]))
    return len(viols)


if __name__ == "__main__":
    import sys
    sys.path.insert(0, os.path.dirname(os.path.abspath(__file__)))
    case = json.load(open(sys.argv[1]))
    n = replay_reason(vcheck.Check("C16", "quick", 1), case)
    print("VIOLATION property=C16 replay=(given)" if n else "no violation on replay")
    sys.exit(1 if n else 0)

"""C10 — the resolved build list is the minimal-version-selection solution (internal/mvs + github.com/pgavlin/mvs)."""
import mvs_common


def run(c):
    return mvs_common.run(
        c, "C10",
        rule=("generated universes: ONE repository with 2-8 project directories (nested ones, in a fifth of the universes also the "
              "project at the repository root; path-prefixed tags `dir/vX.Y.Z`; several major versions, v0 and v1 sharing one "
              "path), 1-5 tagged versions each incl. prereleases; in 30% of the projects the versions come from digit-boundary "
              "pools (v1.9.10/v1.10.0, v1.2.10/v1.10.2, -9.ab/-10.a, rc.9/rc.10, v1.0.9-rc.10/v1.0.10-rc.1: equal-length strings "
              "whose text order is not their version order) and diamonds are forced onto such pairs; in half of the universes "
              "1-3 requirements at PSEUDO-versions (a sibling directory as of some revision, required by tagged versions or by "
              "the project file, so that the resolver finds the directory through its repository cache after siblings were "
              "looked up, in both orders); 0-3 requirement edges per version at three densities "
              "(diamonds, cycles, self-cycles, a requirement that cannot be fetched in ~2.5% of universes), forced diamond / "
              "cycle shapes in a quarter of them; root requirement sets of 0-5 names incl. two names for one path; every case is "
              "asked cold, disk-warm and memory-warm and with every requirement list declared in a second order. The model is "
              "run on both declaration orders. Non-trivial = BuildList succeeds; distinct by driver input line. Plus semver "
              "strings (hand-picked boundary forms incl. multi-digit and numeric-prerelease pairs, and generated ones with a "
              "component bumped across a digit boundary) compared with x/mod/semver, and dawn's cmpVersion judged against the "
              "reference order. The reference build list is computed from the universe the generator intended (a pseudo-version "
              "declares what its directory says at its revision), never from what the resolver fetched. In half of the cases every "
              "dawn.toml — the dependencies' and the root's, which is then written to a file and loaded with LoadConfigFile as "
              "the CLI does — spells a share of its requirement paths non-canonically (trailing slash, /./, //, x/../x, a "
              "redundant @v1/@v0); the universe, the model and the reference are over clean paths, the spelled→clean map is "
              "the harness's own cleaning rule (not dawn's CleanPath). Resolver reuse: one Resolver, then a fresh one over "
              "the cache it filled, resolves root A, one or two other roots, and A again; every answer is judged against the "
              "reference of its own root and the model is run on every root. In half of the universes the repository also has "
              "look-alike tags (vX.Y, vX.Y.Z+meta: semver-equal to a canonical tag, listed before it, on a revision whose "
              "dawn.toml differs) — not part of the universe, since a requirement names canonical versions only; in half of "
              "the cases two thirds of the fetched trees also ship a legacy `.dawnconfig` with other requirements (dawn.toml "
              "counts). Fault injection, every case: the n-th fetch fails once — the resolution must be an error or the "
              "reference answer, and the retries with the same resolver and with a fresh one over the same cache directory "
              "must give the reference answer. In a quarter of the universes a project has a near-collision twin — same versions, own "
              "requirements, a directory that differs only in letter case, by a trailing dot, by %2F for /, or by the Unicode "
              "normalisation form of one letter; in a third, revisions carry several canonical tags (a second tag of the same "
              "project, a tag of a sibling project)."),
        judge_note="BuildList map (without the root entry) == reachability/max reference over the intended universe; cmpVersion == "
                   "reference order on canonical versions; list has each path once; "
                   "error iff a reachable requirement cannot be fetched; resolver reuse over several roots; injected fetch failure "
                   "then retry; 5 repeats across cold/disk/mem caches and a permuted "
                   "declaration order give the same answer")


def replay(c, case):
    return mvs_common.replay(c, case, "C10")

"""C10 — the resolved build list is the minimal-version-selection solution (internal/mvs + github.com/pgavlin/mvs)."""
import mvs_common


def run(c):
    return mvs_common.run(
        c, "C10",
        rule=("generated universes: 2-8 project directories (some nested, some with several major versions, v0 and v1 sharing "
              "one path), 1-5 tagged versions each incl. prereleases, 0-3 requirement edges per version at three densities "
              "(diamonds, cycles, self-cycles, a requirement that cannot be fetched in ~2.5% of universes), forced diamond / "
              "cycle shapes in a quarter of them; root requirement sets of 0-5 names incl. two names for one path; every case is "
              "asked cold, disk-warm and memory-warm and with every requirement list declared in a second order. The model is "
              "run on both declaration orders. Non-trivial = BuildList succeeds; distinct by driver input line. Plus semver "
              "strings (hand-picked boundary forms and generated) compared with x/mod/semver."),
        judge_note="BuildList map (without the root entry) == reachability/max reference; list has each path once; "
                   "error iff a reachable requirement cannot be fetched; 5 repeats across cold/disk/mem caches and a permuted "
                   "declaration order give the same answer")


def replay(c, case):
    return mvs_common.replay(c, case, "C10")

"""Shared by C07 and C15: the pickle harness (real package pickle, in-process) and the model driver drv_pickle."""
import glob
import json
import os
import subprocess

import vcheck

OVERLAY = {"cmd/verif_pickle/main.go": "main.go", "cmd/verif_pickle/gen.go": "gen.go",
           "cmd/verif_pickle/graph.go": "graph.go", "cmd/verif_pickle/rec.go": "rec.go", "cmd/verif_pickle/super.go": "super.go", "cmd/verif_pickle/recfile.go": "recfile.go", "cmd/verif_pickle/recstruct.go": "recstruct.go", "cmd/verif_pickle/multi.go": "multi.go", "cmd/verif_pickle/recjson.go": "recjson.go",
           "pickle/verif_export.go": "export.go", "verif_pickle_export.go": "dawn_export.go"}


def harness(c):
    return c.go_harness("pickle", OVERLAY, "./cmd/verif_pickle", tags="")


def parse(out):
    pairs, viols, stats = {}, [], {}
    for line in out.split("\n"):
        f = line.split("\t")
        if f[0] == "C" and len(f) == 4:
            pairs.setdefault(f[1], []).append((f[2], f[3]))
        elif f[0] == "V":
            viols.append(json.loads(f[1]))
        elif f[0] == "S":
            stats = json.loads(f[1])
    return pairs, viols, stats


def run_harness(c, exe, args, timeout):
    p = subprocess.run([exe] + args, stdout=subprocess.PIPE, timeout=timeout)
    if p.returncode != 0:
        c.broken.append("harness exited %d" % p.returncode)
    return parse(p.stdout.decode("utf-8", "replace"))


def correspond(c, stream, drv, pairs):
    """c.correspond, except that where the model answers `either` (an INT whose text is not canonical decimal: the
    model does not decide whether big.Int.UnmarshalText accepts it) Go may answer `ok …` or `err` — nothing else."""
    orig = c.run_driver
    undecided = [0]

    def rd(exe, lines, timeout=1800):
        outs = orig(exe, lines, timeout)
        res = []
        for m, (_, g) in zip(outs, pairs):
            if m == "either multi" and all(part.split(" ")[0] in ("ok", "err", "nil") for part in g.split(" ## ")):
                undecided[0] += 1     # several calls on one Decoder, an INT text the model does not decide among them
                res.append(g)
            elif m.startswith("either ") and (g == "err" or g.split(" ")[0] == m.split(" ")[1]):
                undecided[0] += 1
                res.append(g)
            else:
                res.append(m)
        return res + outs[len(res):]

    c.run_driver = rd
    try:
        dis = c.correspond(stream, drv, pairs, nontrivial=lambda i, o: o.startswith("ok"))
    finally:
        c.run_driver = orig
    if undecided[0]:
        c.coverage["streams"][stream]["model_undecided_int_text"] = undecided[0]
    return dis


def report(c, viols, limit=12):
    """the smallest failing input of each kind first; every one is a replayable case"""
    viols = sorted(viols, key=lambda v: (len(json.dumps(v["input"])), json.dumps(v["input"], sort_keys=True)))
    seen, chosen, inputs = {}, [], set()
    for v in viols:
        k = v["kind"]
        seen[k] = seen.get(k, 0) + 1
        key = json.dumps(v["input"], sort_keys=True)
        if key in inputs:
            continue
        inputs.add(key)
        if seen[k] <= 2 and len(chosen) < limit:
            chosen.append(v)
    for v in chosen:
        c.violation("%s: %s (input %s)" % (v["kind"], v["detail"][:300], json.dumps(v["input"])[:300]),
                    {"input": v["input"], "kind": v["kind"]})
    if viols:
        c.coverage["violations_by_kind"] = seen


def corpus(c, exe, pid):
    """minimised past failures are run first"""
    n = 0
    for path in sorted(glob.glob(os.path.join(vcheck.VERIF, "corpus", pid, "*.json"))):
        with open(path) as f:
            case = json.load(f)
        _, viols, _ = run_harness(c, exe, ["-replay", json.dumps(case["input"])], 600)
        n += 1
        for v in viols:
            c.violation("corpus %s: %s: %s" % (os.path.basename(path), v["kind"], v["detail"][:300]),
                        {"input": v["input"], "kind": v["kind"]})
    c.count("corpus", n, sample={"corpus_cases_replayed": n})


def replay(c, case, pid):
    exe = harness(c)
    p = subprocess.run([exe, "-replay", json.dumps(case["input"])], stdout=subprocess.PIPE)
    out = p.stdout.decode("utf-8", "replace")
    for line in out.split("\n"):
        print(line[:2000])
    _, viols, _ = parse(out)
    if viols:
        print("VIOLATION property=%s replay=(given)" % pid)
        return 1
    return 0

"""C04 — each target runs at most once, after its dependencies (runner/runner.go)."""
import runner_common


def run(c):
    return runner_common.run(c, "C04", [
        "C04 'actual outcome' is stated for results without the cyclic-dependency error: when a cycle is detected every "
        "result of that EvaluateTargets call carries the cycle error by design (runner.go:155-160) and C05 governs "
        "(DESIGN.md section 4)"])


def replay(c, case):
    return runner_common.replay(c, "C04", case)

"""C11 — requirement edits (get / tidy / upgrade-all) keep the requirement graph consistent."""
import mvs_common


def run(c):
    return mvs_common.run(
        c, "C11",
        rule=("universes as for C10; sequences of 1-4 operations (get with every query kind: exact version, vX / vX.Y prefix, "
              "< <= > >= ranges, latest, bare path, bare major, patch, upgrade, branch refs (resolved by the MODEL over the commit "
              "history the harness hands it: refs, revisions with time stamps, the order History() yields, tagged revisions; "
              "pseudo-versions constructed by the model), plus "
              "unresolvable and malformed queries; tidy; upgrade-all; build list) applied to root requirement sets of 0-5 "
              "names incl. two names for one path and names that collide with the ones `get` would choose; each edit is run "
              "three times for determinism, re-resolved with BuildList, and repeated on its own result; every Get / Tidy / "
              "UpgradeAll runs under a 5 s watchdog. Universes as for C10 incl. pseudo-version requirements, non-canonical path "
              "spellings, legacy .dawnconfig files and tags that are not canonical versions (look-alikes of tagged versions and "
              "short-form / build-metadata tags newer than every canonical one — not part of the universe). Fault injection, two "
              "scenarios per edit out of {dial, tag listing, fetch} x {fails once at the n-th call, down for the whole edit} x "
              "{cold, warm module cache} — on every fourth edit (one scenario) in the quick tier, on every edit (two scenarios) in "
              "the thorough tier and in replays. Reqs.Upgrade / Reqs.Previous are judged on every tagged version of every case. "
              "Non-trivial = at least one operation of the sequence succeeds."),
        judge_note="tidy: build list unchanged; get as add/upgrade/no-op: new build list has the project at >= the resolved "
                   "version (above only if the resolved version itself requires it) and lowers/removes nothing; get as "
                   "downgrade: project absent or <= resolved; upgrade-all: nothing lowered, every project >= its newest "
                   "release tag of the same major; names of surviving projects unchanged, one fresh name per new project; "
                   "op(op c) == op c; no hang, no panic; result independent of map order (3 runs); the result written as "
                   "dawn.toml loads again; under an injected fault an edit returns an error or exactly its fault-free result and "
                   "leaves its input alone; a query resolves to a version of the project asked for, a patch query stays in its "
                   "major.minor line; Reqs.Upgrade / Reqs.Previous stay in the project and its major version line, answer canonical "
                   "tags, go up resp. strictly down; after the fault clears the same and a fresh resolver give the fault-free result")


def replay(c, case):
    return mvs_common.replay(c, case, "C11")

"""C06 — module loading is once-only, terminating and cycle-safe (module.go, project.go loadModule/loadPackage)."""
import json
import os
import re
import subprocess

import vcheck

OVERLAY = {"verif_export_loader.go": "export.go", "cmd/verif_loader/main.go": "main.go"}


def harness(c):
    return c.go_harness("loader", OVERLAY, "./cmd/verif_loader", tags="verif")


def parse(out):
    pairs, viols, stats = {}, [], {}
    for line in out.split("\n"):
        f = line.split("\t")
        if f[0] == "C" and len(f) == 4:
            pairs.setdefault(f[1], []).append((f[2], f[3]))
        elif f[0] == "V":
            viols.append(json.loads(f[1]))
        elif f[0] == "S":
            stats = json.loads(f[1])
    return pairs, viols, stats


def extracted_version():
    """which chain walk does module.wait contain on this tree? (read from the regenerated facts; the kernel-checked
    tie Dawn.Ties.Loader.walk_ok is what makes the theorems depend on it — this only selects the model version the
    observed traces are validated against, so that the as-written code is still compared with *its* model)"""
    try:
        src = open(os.path.join(vcheck.LEAN, "Dawn", "Extracted", "Loader.lean")).read()
    except OSError:
        return "f"
    m = re.search(r'def walkNext : String :=\s*"([^"]*)"', src)
    return "w" if m and m.group(1) == "receiver.getLoading" else "f"


def run_harness(c, exe, args, timeout):
    try:
        p = subprocess.run([exe] + args, stdout=subprocess.PIPE, timeout=timeout)
        return p.stdout.decode("utf-8", "replace"), p.returncode
    except subprocess.TimeoutExpired as e:
        return (e.stdout or b"").decode("utf-8", "replace"), 124


def corpus(c, exe, ver):
    """replay the minimised past failures first"""
    d = os.path.join(vcheck.VERIF, "corpus", "C06")
    n = 0
    if not os.path.isdir(d):
        return
    for fn in sorted(os.listdir(d)):
        if not fn.endswith(".json"):
            continue
        case = json.load(open(os.path.join(d, fn)))
        out, rc = run_harness(c, exe, ["-ver", ver, "-seed", str(c.seed), "-replay", json.dumps(case["input"])], 400)
        _, viols, _ = parse(out)
        n += 1
        for v in viols:
            c.violation("corpus %s: %s: %s [graph=%s]" % (fn, v["kind"], v["detail"], v["input"]["graph"]),
                        {"input": v["input"], "kind": v["kind"], "trace": v.get("trace", ""), "corpus": fn})
    c.count("loader.corpus", n, sample={"corpus_cases_replayed": n})


def run(c):
    c.assumptions += [
        "a module fails through the cyclic-dependency verdict of module.wait or because its environment cannot be set up "
        "(a module of a project that is not in the build list: D24); every other generated module file exists and evaluates; "
        "a load error propagates to the loading module as the Starlark load error does",
        "C06_progress-style termination needs weak fairness of the Go scheduler for a by-standing chain walk that can spin "
        "while two other goroutines are between publishing and un-publishing a cycle (DESIGN.md section 4)",
        "sync.Mutex / sync.Cond provide mutual exclusion and no lost wake-up for `for !loaded { Wait }` under the mutex",
        "the verifPoint call sites in module.go / project.go are the patch repo-patches/loadercache/0002 (add-only)",
        "C06_acyclic_ok / C06_deterministic / C06_cycle_reported are stated for projects all of whose reachable modules can be "
        "fetched (NoBroken); C06_once, C06_deadlock_free and C06_unfetchable_reported hold for all projects"]
    c.coverage["rule"] = (
        "load graphs written out as real .dawn trees and loaded with dawn.Load: 11 fixed small shapes (shared helper chain = D4, "
        "2/3-cycles behind one or two packages, self-load, BUILD files loading each other, diamond) + seeded graphs of 9 kinds "
        "(chain, diamond, shared helper, n-cycle, self-load, cross-root, random DAG, random graph, a module of a REQUIRED project (in the module cache under a private HOME) with the same package and "
        "file name as a local helper, several loaders of a module that "
        "cannot be fetched; 1-4 packages, <=9 modules). "
        "Reload sequences: Load, then the tree is edited (unchanged, a syntax error introduced and repaired, a module added, a load "
        "removed, a cycle introduced and removed) and the SAME Project is reloaded 1-3 times, under the controller and free-running; "
        "every (re)load is judged like a fresh Load of the tree as it is then and its trace must be a run of the model from the "
        "initial state. Per graph: schedules supplied by the Lean model (shortest way into a deadlock of the model version the tree contains), "
        "uniform-random and PCT schedules under the hook-driven controller, and free-running loads with sleeping modules; every run is "
        "judged (ModuleLoading per label <=1; acyclic: Load ok, every reachable module exactly once, targets and flags = those of the "
        "reachable modules; cyclic: Load fails with a cyclic-dependency error; unfetchable module reachable: Load fails; Load must return) and every 2nd/3rd trace is validated "
        "step by step against the model by drv_loader; for the small graphs the observed outcomes must be among the model's "
        "exhaustively computed terminal outcomes, which must not contain DEADLOCK. distinct = distinct (graph, trace) lines.")
    c.prove()
    ver = extracted_version()
    c.coverage["model_version_of_this_tree"] = "as written (D4)" if ver == "w" else "fixed"
    exe = harness(c)
    drv = c.driver("drv_loader")
    if not exe:
        return c
    corpus(c, exe, ver)
    sched_file = os.path.join(vcheck.BUILD, "loader-model-schedules-%d.txt" % os.getpid())
    small, model_out = [], {}
    if drv:
        out, _ = run_harness(c, exe, ["-seed", str(c.seed), "-tier", c.tier, "-list-small"], 120)
        small = [l for l in out.split("\n") if l.strip()]
        dl = c.run_driver(drv, ["deadlock %s %s" % (ver, g) for g in small])
        oc = c.run_driver(drv, ["outcomes %s %s" % (ver, g) for g in small])
        with open(sched_file, "w") as f:
            for g, a in zip(small, dl):
                if a.startswith("ok ") and not a.startswith("ok none"):
                    f.write("%s\t%s\n" % (g, a[3:]))
        n_dead = 0
        for g, a in zip(small, oc):
            parts = a.split(" ", 2)
            model_out[g] = set(parts[2].split("|")) if len(parts) == 3 else set()
            if "DEADLOCK" in model_out[g]:
                n_dead += 1
        c.count("loader.model-search", len(small), distinct_keys=small,
                sample={"small_graphs": len(small), "model_reaches_deadlock_on": n_dead,
                        "example": {"graph": small[0], "outcomes": sorted(model_out.get(small[0], []))}},
                hist={"graphs_with_reachable_deadlock_in_model": n_dead})
        if n_dead and ver == "f":
            c.broken.append("model search: the fixed model reaches a deadlock on %d small graphs" % n_dead)
    args = ["-seed", str(c.seed), "-tier", c.tier, "-ver", ver]
    if os.path.exists(sched_file):
        args += ["-model-schedules", sched_file]
    out, rc = run_harness(c, exe, args, 400 if c.tier == "quick" else 2400)
    if os.path.exists(sched_file):
        os.remove(sched_file)
    pairs, viols, stats = parse(out)
    if rc != 0:
        c.broken.append("harness exited %d" % rc)
        if rc == 124 and not viols:
            c.violation("the loader harness did not finish", {"input": {"graph": "(unknown: harness timed out)", "mode": "free", "schedule": []}})
    c.coverage["harness_stats"] = stats
    if drv:
        for stream, ps in sorted(pairs.items()):
            c.correspond(stream, drv, ps, nontrivial=lambda i, o: True)
        if not pairs.get("loader.sched") or not pairs.get("loader.stress") or not pairs.get("loader.reload") \
                or not pairs.get("loader.reload-stress"):
            c.broken.append("correspondence loader.*: the harness produced no traces (hooks missing?)")
        # observed outcomes of the small graphs are among the model's terminal outcomes
        bad, seen = [], 0
        for stream, ps in pairs.items():
            for i, o in ps:
                g = i.split(" ")[2]
                if g in model_out and o.startswith("ok "):
                    seen += 1
                    if o[3:] not in model_out[g]:
                        bad.append({"graph": g, "observed": o[3:], "model": sorted(model_out[g])})
        c.count("loader.outcome-inclusion", seen, hist={"observed_outcomes_checked": seen, "outside_model": len(bad)})
        if bad:
            c.broken.append("correspondence loader.outcomes: %d observed outcomes outside the model's set, first %s" % (len(bad), json.dumps(bad[0])))
    c.count("loader.judge", stats.get("judged_runs", 0),
            sample={"judge": "ModuleLoading per label <= 1; Load returns; acyclic -> ok, each reachable module once, targets/flags "
                             "of exactly the reachable modules; cyclic -> cyclic-dependency error",
                    "runs": stats.get("judged_runs", 0)},
            hist={k: v for k, v in stats.items() if isinstance(v, int)})
    for v in viols:
        c.violation("%s: %s [graph=%s mode=%s schedule=%s]" % (v["kind"], v["detail"], v["input"]["graph"], v["input"]["mode"],
                                                                 v["input"].get("schedule")),
                    {"input": v["input"], "kind": v["kind"], "trace": v.get("trace", "")})
    return c


def replay(c, case):
    c.extract("Loader")
    ver = extracted_version()
    exe = harness(c)
    out, rc = run_harness(c, exe, ["-ver", ver, "-seed", str(c.seed), "-replay", json.dumps(case["input"])], 600)
    print(out)
    _, viols, _ = parse(out)
    if viols:
        print("VIOLATION property=C06 replay=(given)")
        return 1
    return 0

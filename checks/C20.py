"""C20 — Cache.once computes each key at most once under concurrency (cache.go)."""
import json
import subprocess

import vcheck

OVERLAY = {"verif_export_cache.go": "export.go", "cmd/verif_cache/main.go": "main.go"}


def harness(c):
    return c.go_harness("cache", OVERLAY, "./cmd/verif_cache", tags="verif")


def parse(out):
    pairs, viols, stats = {}, [], {}
    for line in out.split("\n"):
        f = line.split("\t")
        if f[0] == "C" and len(f) == 4:
            pairs.setdefault(f[1], []).append((f[2], f[3]))
        elif f[0] == "V":
            viols.append(json.loads(f[1]))
        elif f[0] == "S":
            stats = json.loads(f[1])
    return pairs, viols, stats


def run(c):
    c.assumptions += [
        "a callable is a value-or-failure outcome and does not call once on the same cache (re-entrant once self-deadlocks on the "
        "writer lock; the harness observes this and reports it under harness_stats.observation_reentrant_once_self_deadlocks)",
        "sync.RWMutex provides reader/writer exclusion; Go's writer preference only removes interleavings the model allows",
        "the verifPoint call sites in cache.go are the patch repo-patches/loadercache/0001 (add-only); without them the harness "
        "cannot observe the steps and the check reports the correspondence as broken"]
    c.coverage["rule"] = (
        "the hook-free streams also run on FROZEN caches (Value.Freeze before use, as Starlark does to a module-level cache) and "
        "end to end through a real project (module-level Cache(), target bodies calling cache.once with a counting callable from "
        "LoadOptions.Builtins, built with Project.Run; per key <=1 invocation per build, one value); "
        "configurations with two or three caches sharing key names (judged per (cache, key); one Starlark thread per caller), and "
        "many-keys sequences (5 000 and 70 000 distinct keys in one cache, then early keys asked again); "
        "hook-free judge first (VerifHook unset; only Cache().once is used, also to observe the cache's content): every sequential "
        "call sequence runs on a fresh cache in its own goroutine under a timeout (a wedged cache is abandoned and reported as a hang with the "
        "sequence as replay), with int results and with results drawn from None, False, 0, \"\", (), [], a fresh list, 1, \"v<key>\"; "
        "call sequence up to length 4 over 2 keys with ok/fail callables and 3000 (thorough 60000) free-running configurations of <=8 "
        "callers x <=4 calls x 3 keys. Then, for the trace correspondence: "
        "controlled scheduler over the real goroutines calling the real Starlark builtin Cache().once: EVERY interleaving of all "
        "configurations of 1-3 callers x 2 keys x ok/fail callables with one call per caller, and of all configurations of <=2 callers "
        "with up to two calls each (quick: every second pair in which both callers make two calls; thorough: all pairs, also 60 seeded configurations of 3 callers with up to two calls each, at most 30000 interleavings each); seeded random and "
        "PCT schedules of random configurations of <=4 callers x <=3 calls x 3 keys; free-running (uncontrolled) runs of <=8 callers x <=4 "
        "calls x 3 keys. Every run is judged (successful invocations per key <= 1, all returns equal that value, a failure leaves the key "
        "absent, a later call retries / reuses); every 7th (thorough: 23rd) exhaustive trace and every random, PCT and free-running trace is validated "
        "step by step against the Lean model; the set of terminal outcomes of each exhaustively explored configuration is compared with "
        "the model's own exhaustive search. distinct = distinct (configuration, trace) lines.")
    c.prove()
    exe = harness(c)
    drv = c.driver("drv_cache")
    if exe:
        try:
            p = subprocess.run([exe, "-seed", str(c.seed), "-tier", c.tier], stdout=subprocess.PIPE,
                               timeout=240 if c.tier == "quick" else 1500)
            out, rc = p.stdout.decode("utf-8", "replace"), p.returncode
        except subprocess.TimeoutExpired as e:
            out, rc = (e.stdout or b"").decode("utf-8", "replace"), 124
        pairs, viols, stats = parse(out)
        if rc != 0:
            c.broken.append("harness exited %d" % rc)
            if rc == 124 and not viols:
                c.violation("the cache harness did not finish: callers hang",
                            {"input": {"progs": "(unknown: harness timed out)", "mode": "free", "schedule": []}})
        c.coverage["harness_stats"] = stats
        if stats.get("controller_derailed"):
            c.broken.append("correspondence cache.sched: the hook-driven controller lost track of the goroutines on %d configurations "
                            "although the same callers finish without hooks (the verifPoint call sites no longer match the "
                            "protocol of harness/cache)" % stats["controller_derailed"])
        if drv:
            for stream, ps in sorted(pairs.items()):
                c.correspond(stream, drv, ps)
            if not pairs.get("cache.sched") or not pairs.get("cache.stress") or not pairs.get("cache.outcomes"):
                c.broken.append("correspondence cache.*: the harness produced no traces (hooks missing?)")
        c.count("cache.judge-nohook", stats.get("nohook_sequential", 0) + stats.get("nohook_concurrent", 0),
                sample={"stream": "VerifHook unset, public builtin only: all %d sequential call sequences of length <=4 over 2 keys x "
                                  "ok/fail, then %d free-running concurrent configurations; same judge"
                                  % (stats.get("nohook_sequential", 0), stats.get("nohook_concurrent", 0))})
        c.count("cache.judge-project", stats.get("project_builds", 0),
                sample={"stream": "real projects built with Project.Run: %d builds, %d once calls from module level and target bodies"
                                  % (stats.get("project_builds", 0), stats.get("project_once_calls", 0))})
        if not stats.get("project_builds") or not stats.get("nohook_sequential_frozen"):
            c.broken.append("judge streams cache.nohook-frozen / cache.project did not run")
        c.count("cache.judge", stats.get("judged_runs", 0),
                sample={"judge": "per key: successful callable invocations <= 1; every value returned for the key is that "
                                 "invocation's; an error is returned only by a call whose own callable failed; a key whose "
                                 "invocations all failed is absent and a later once invokes its callable; otherwise a later once "
                                 "returns the cached value without invoking",
                        "runs": stats.get("judged_runs", 0)},
                hist={k: v for k, v in stats.items() if isinstance(v, int)})
        for v in viols:
            c.violation("%s: %s [progs=%s mode=%s]" % (v["kind"], v["detail"], v["input"]["progs"], v["input"]["mode"]),
                        {"input": v["input"], "kind": v["kind"], "trace": v.get("trace", "")})
    return c


def replay(c, case):
    exe = harness(c)
    p = subprocess.run([exe, "-replay", json.dumps(case["input"])], stdout=subprocess.PIPE, timeout=600)
    out = p.stdout.decode("utf-8", "replace")
    print(out)
    _, viols, _ = parse(out)
    if viols:
        print("VIOLATION property=C20 replay=(given)")
        return 1
    return 0

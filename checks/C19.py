"""C19 — project configuration round-trips through its file format
(internal/project/config.go, version.go; go-toml v2's encoder as used; cmd/dawn/get.go and tidy.go)."""
import binascii
import hashlib
import json
import os
import subprocess

import vcheck

OVERLAY = {"cmd/verif_config/main.go": "main.go"}
CMD_OVERLAY = {"cmd/dawn/zz_verif_test.go": "cmd_test.go"}


def harness(c):
    return c.go_harness("config", OVERLAY, "./cmd/verif_config", tags="")


def cmd_harness(c):
    """the command layer (cmd/dawn is package main): a test binary with harness/config/cmd_test.go overlaid into it"""
    exe = os.path.join(vcheck.BUILD, "harness-configcmd-%s" % hashlib.sha1(vcheck.REPO.encode()).hexdigest()[:8])
    ov = {"Replace": {os.path.join(vcheck.REPO, k): os.path.join(vcheck.VERIF, "harness", "config", v)
                      for k, v in CMD_OVERLAY.items()}}
    ovp = exe + ".overlay.json"
    with vcheck.Lock("go-configcmd"):
        with open(ovp, "w") as f:
            json.dump(ov, f)
        rc, o = vcheck.sh(["go", "test", "-c", "-vet=off", "-overlay", ovp, "-o", exe, "./cmd/dawn"],
                          cwd=vcheck.REPO, env=dict(vcheck.GOENV), timeout=900)
    if rc != 0:
        c.log("command-layer harness build failed:\n" + o[-4000:])
        c.broken.append("harness build config (cmd/dawn)")
        c.coverage["cmd_harness_build_output"] = o[-3000:]
        return None
    return exe


def parse(out):
    pairs, viols, stats, judged = {}, [], {}, []
    for line in out.split("\n"):
        f = line.split("\t")
        if f[0] == "C" and len(f) == 4:
            pairs.setdefault(f[1], []).append((f[2], f[3]))
        elif f[0] == "V":
            viols.append(json.loads(f[1]))
        elif f[0] == "S":
            stats = json.loads(f[1])
        elif f[0] == "J" and len(f) == 3:
            judged.append((f[1], f[2]))
    return pairs, viols, stats, judged


def unhex(h):
    try:
        return binascii.unhexlify(h).decode("utf-8", "replace")
    except Exception:
        return h


def judge(c, drv, judged, stream, source=""):
    """C19's predicate on the implementation: for every configuration the MODEL puts inside the quantifier
    (Config.valid: canonical versions, paths that are fixed points of the model's cleanPath), Load(Write(c)) must be c
    and Write(Load(Write(c))) must be the same bytes. Returns the number judged."""
    if not judged:
        return 0
    outs = c.run_driver(drv, ["valid " + cfg for cfg, _ in judged])
    if len(outs) != len(judged):
        c.broken.append("driver answered %d of %d validity questions" % (len(outs), len(judged)))
        return 0
    n = 0
    hist = {}
    for (cfg, outcome), v in zip(judged, outs):
        kind = outcome.split(" ")[0]
        if v != "1":
            hist["outside_quantifier_" + kind] = hist.get("outside_quantifier_" + kind, 0) + 1
            continue
        n += 1
        hist["valid_" + kind] = hist.get("valid_" + kind, 0) + 1
        if kind != "same":
            detail = unhex(outcome.split(" ", 1)[1]) if " " in outcome else ""
            what = {"noload": "written-file-does-not-load", "differs": "loaded-configuration-differs",
                    "unstable": "rewrite-not-stable"}.get(kind, kind)
            c.violation("%s%s: configuration %s: %s" % (source, what, cfg, detail[:700]), {"input": cfg, "kind": what})
    c.count(stream, n, sample={"judge": "Load(Write(c)) == c and Write(Load(Write(c))) == Write(c) byte for byte, for every c "
                                        "the model's Config.valid accepts", "judged": n}, hist=hist)
    return n


def corpus(c, exe, drv):
    """minimised past failures (corpus/C19/*.json), replayed on the implementation first"""
    d = os.path.join(vcheck.VERIF, "corpus", c.pid)
    n = 0
    for fn in sorted(os.listdir(d)) if os.path.isdir(d) else []:
        if not fn.endswith(".json"):
            continue
        case = json.load(open(os.path.join(d, fn)))
        if not isinstance(case.get("input"), str):
            continue
        p = subprocess.run([exe, "-replay", case["input"]], stdout=subprocess.PIPE, timeout=300)
        _, viols, _, judged = parse(p.stdout.decode("utf-8", "replace"))
        n += 1
        for v in viols:
            c.violation("corpus %s: %s: %s %s" % (fn, v["kind"], v.get("config", ""), v.get("detail", "")[:600]),
                        {"input": v["input"], "kind": v["kind"], "corpus": fn})
        if drv:
            judge(c, drv, judged, "config.corpus.judge", source="corpus %s: " % fn)
    c.count("config.corpus", n)


def correspond_all(c, drv, pairs):
    for stream, ps in sorted(pairs.items()):
        if stream in ("config.load.variant", "config.rewrite"):
            # texts in another layout / files found by the commands: where the model says "outside" (not in its
            # sub-language) it makes no claim; everything it does parse must agree with the implementation
            outs = c.run_driver(drv, [i for i, _ in ps])
            kept = [(i, g) for (i, g), m in zip(ps, outs) if m != "outside"]
            c.coverage.setdefault("outside_sub_language", {})[stream] = len(ps) - len(kept)
            ps = kept
        c.correspond(stream, drv, ps, nontrivial=lambda i, o: o.startswith("ok") or len(o) > 8)


def run(c):
    c.assumptions += [
        "valid configuration (DESIGN.md section 4): requirement versions canonical semver, requirement paths fixed points of "
        "CleanPath — decided by the MODEL's cleanPath, never by the implementation's, so x@dev, user@host/x, x@v03, a@b@c … "
        "are inside —, all strings valid UTF-8, nil and empty Ignore/Requirements identified; names, ignore entries and "
        "requirement names are arbitrary, including the empty string",
        "go-toml v2's parser is third-party and not verified: parseSub is a parser for the sub-language emit produces; that "
        "LoadConfigBytes agrees with it on written files and on re-formatted files (blanks, blank lines, key order) is "
        "checked per input by the streams config.load and config.load.variant",
        "x/mod/semver and path.Clean are modelled by their documented grammar/semantics, validated by config.semver and "
        "config.cleanpath",
        "get/tidy: the real RunE functions of cmd/dawn are run (a test binary built from cmd/dawn with one overlaid _test "
        "file) on generated dawn.toml files; tidy against a module cache pre-populated under a temporary HOME (no network), "
        "get as `get -u` on projects without requirements (any other get has to dial a repository). What the resolver "
        "returns is taken from mvs.Tidy / mvs.UpgradeAll themselves; C10/C11 are about that part",
        "the judge loads through LoadConfigFile (the file on disk), the stream config.load through LoadConfigBytes; the size "
        "classes are valid by construction (plain names, v1.2.3, paths without @) and are not sent to the model",
        "observation, not a violation (outside the quantifier): CleanPath is not idempotent on paths whose last element "
        "keeps an @v0/@v1/@ suffix after the first cleaning (a@v1@v1 -> a@v1 -> a); such a path is not in clean form "
        "(theorem C19_cleanpath_idem_counterexample)",
    ]
    c.coverage["rule"] = (
        "configurations: 71 special strings (every control byte, DEL, U+0085, U+2028, U+2029, BOM, astral runes, quotes, "
        "backslashes, TOML syntax characters, U+10FFFF, 2- and 3-byte boundaries, the empty string) placed in turn as name, "
        "version, ignore entry, requirement name (alone and among others) and inside a path; 36 directed requirement paths "
        "with `@` (x@dev, x@v03, x@v1.2, user@host/x, x@, x@v2@dev, a@b@c, @ in inner elements, kept and dropped majors); "
        "plus seeded random configurations: 0-4 requirements whose names mix plain, quoted, empty and special strings, "
        "canonical versions incl. prerelease and pseudo-versions, paths built clean (never passed through the "
        "implementation's CleanPath) with 22 kinds of @suffix; one fifth as many invalid configurations for the tie only. "
        "Every written file is also re-rendered twice with random blanks, blank lines and key order. Command layer: "
        "generated dawn.toml files (special names, versions, non-empty ignore lists, 0-4 requirements with @ paths) "
        "rewritten by the real `tidy` (fake module cache with transitive requirements) and `get -u`. "
        "Size classes (implementation only, through LoadConfigFile): encodings of exactly 64 KiB -1/+1/+12%, 1 MiB -1/+1/+12% "
        "and 3.2 MB (thorough: also 4 MiB+1 and 16.8 MB), each built once from many requirements and once from a few huge "
        "strings, plus files in which offset 64 KiB / 1 MiB / 2 MiB (thorough: every power of two from 128 KiB to 16 MiB) is "
        "the first byte of a line. Non-trivial: the real code produced a value.")
    c.prove()
    exe = harness(c)
    cexe = cmd_harness(c)
    drv = c.driver("drv_config")
    if exe:
        corpus(c, exe, drv)
        p = subprocess.run([exe, "-seed", str(c.seed), "-tier", c.tier], stdout=subprocess.PIPE, timeout=1500)
        pairs, viols, stats, judged = parse(p.stdout.decode("utf-8", "replace"))
        if p.returncode != 0:
            c.broken.append("harness exited %d" % p.returncode)
        c.coverage["harness_stats"] = stats
        if drv:
            correspond_all(c, drv, pairs)
            judge(c, drv, judged, "config.judge")
        c.count("config.sizes", stats.get("size_cases", 0),
                sample={"judge": "Load(Write(c)) == c through LoadConfigFile and byte-stable rewrite, for configurations whose "
                                 "encoding has a chosen size (64 KiB .. 3.2 MB; thorough 16.8 MB) or a line start at a power of two",
                        "largest_file_bytes": stats.get("size_largest_file_bytes", 0)})
        for v in viols:
            c.violation("%s: %s %s" % (v["kind"], v.get("config", ""), v.get("detail", "")[:600]),
                        {"input": v["input"], "kind": v["kind"]})
    if cexe:
        env = dict(os.environ)
        env.update({"VERIF_CMD_SEED": str(c.seed), "VERIF_CMD_TIER": c.tier})
        outp = os.path.join(vcheck.BUILD, "configcmd-%d.out" % os.getpid())
        env["VERIF_CMD_OUT"] = outp
        p = subprocess.run([cexe, "-test.run", "^TestVerifRewrite$", "-test.timeout", "20m"], stdout=subprocess.PIPE,
                           stderr=subprocess.STDOUT, env=env, timeout=1500, cwd=vcheck.BUILD)
        text = open(outp, encoding="utf-8", errors="replace").read() if os.path.exists(outp) else ""
        if os.path.exists(outp):
            os.remove(outp)
        pairs, viols, stats, _ = parse(text)
        if p.returncode != 0 or not stats:
            c.broken.append("command-layer harness exited %d" % p.returncode)
            c.coverage["cmd_harness_output_tail"] = p.stdout.decode("utf-8", "replace")[-2000:]
        c.coverage["cmd_harness_stats"] = stats
        if drv:
            correspond_all(c, drv, pairs)
        c.count("config.rewrite.judge", stats.get("commands_judged", 0),
                sample={"judge": "after the real `dawn tidy` / `dawn get -u`: name, version and ignore list of the rewritten "
                                 "dawn.toml are those of the old file, its requirements are what mvs.Tidy / mvs.UpgradeAll "
                                 "return for the old file, and the bytes are WriteConfigFile of exactly that",
                        "commands_judged": stats.get("commands_judged", 0)},
                hist={k: v for k, v in stats.items() if not k.startswith("pairs_")})
        for v in viols:
            c.violation("%s: %s" % (v["kind"], v.get("detail", "")[:900]), {"input": v["input"], "kind": v["kind"]})
    return c


def replay(c, case):
    inp = case["input"]
    drv = c.driver("drv_config")
    if isinstance(inp, dict) and inp.get("op") in ("tidy", "get-u"):
        cexe = cmd_harness(c)
        env = dict(os.environ)
        outp = os.path.join(vcheck.BUILD, "configcmd-replay-%d.out" % os.getpid())
        env.update({"VERIF_CMD_REPLAY": json.dumps(inp), "VERIF_CMD_OUT": outp})
        subprocess.run([cexe, "-test.run", "^TestVerifRewrite$"], stdout=subprocess.PIPE, stderr=subprocess.STDOUT, env=env,
                       timeout=600, cwd=vcheck.BUILD)
        text = open(outp, encoding="utf-8", errors="replace").read() if os.path.exists(outp) else ""
        print(text)
        pairs, viols, _, _ = parse(text)
        bad = len(viols)
        for stream, ps in pairs.items():
            outs = c.run_driver(drv, [i for i, _ in ps])
            bad += sum(1 for (i, g), m in zip(ps, outs) if m != "outside" and m != g)
        if bad:
            print("VIOLATION property=C19 replay=(given)")
            return 1
        return 0
    exe = harness(c)
    p = subprocess.run([exe, "-replay", inp], stdout=subprocess.PIPE, timeout=300)
    out = p.stdout.decode("utf-8", "replace")
    print(out)
    _, viols, _, judged = parse(out)
    bad = len(viols)
    if judged:
        outs = c.run_driver(drv, ["valid " + cfg for cfg, _ in judged])
        bad += sum(1 for (cfg, o), v in zip(judged, outs) if v == "1" and o != "same")
    if bad:
        print("VIOLATION property=C19 replay=(given)")
        return 1
    return 0

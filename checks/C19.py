"""C19 — project configuration round-trips through its file format
(internal/project/config.go, version.go; go-toml v2's encoder as used)."""
import json
import os
import subprocess

import vcheck

OVERLAY = {"cmd/verif_config/main.go": "main.go"}


def harness(c):
    return c.go_harness("config", OVERLAY, "./cmd/verif_config", tags="")


def parse(out):
    pairs, viols, stats = {}, [], {}
    for line in out.split("\n"):
        f = line.split("\t")
        if f[0] == "C" and len(f) == 4:
            pairs.setdefault(f[1], []).append((f[2], f[3]))
        elif f[0] == "V":
            viols.append(json.loads(f[1]))
        elif f[0] == "S":
            stats = json.loads(f[1])
    return pairs, viols, stats


def corpus(c, exe):
    """minimised past failures (corpus/C19/*.json), replayed on the implementation first"""
    d = os.path.join(vcheck.VERIF, "corpus", c.pid)
    n = 0
    for fn in sorted(os.listdir(d)) if os.path.isdir(d) else []:
        if not fn.endswith(".json"):
            continue
        case = json.load(open(os.path.join(d, fn)))
        p = subprocess.run([exe, "-replay", case["input"]], stdout=subprocess.PIPE, timeout=300)
        _, viols, _ = parse(p.stdout.decode("utf-8", "replace"))
        n += 1
        for v in viols:
            c.violation("corpus %s: %s: %s %s" % (fn, v["kind"], v.get("config", ""), v.get("detail", "")[:600]),
                        {"input": v["input"], "kind": v["kind"], "corpus": fn})
    c.count("config.corpus", n)


def run(c):
    c.assumptions += [
        "valid configuration (DESIGN.md section 4): requirement versions canonical semver, requirement paths fixed points of "
        "CleanPath, all strings valid UTF-8, nil and empty Ignore/Requirements identified; names, ignore entries and "
        "requirement names are arbitrary, including the empty string",
        "go-toml v2's parser is third-party and not verified: parseSub is a parser for the sub-language emit produces; that "
        "LoadConfigBytes agrees with it on written files and on re-formatted files (blanks, blank lines, key order) is "
        "checked per input by the streams config.load and config.load.variant",
        "x/mod/semver and path.Clean are modelled by their documented grammar/semantics, validated by config.semver and "
        "config.cleanpath",
        "observation, not a violation (outside the quantifier): CleanPath is not idempotent on paths whose last element "
        "keeps an @v0/@v1/@ suffix after the first cleaning (a@v1@v1 -> a@v1 -> a); such a path is not in clean form "
        "(theorem C19_cleanpath_idem_counterexample, counter paths_whose_cleaned_form_is_not_a_fixed_point_observation)",
    ]
    c.coverage["rule"] = (
        "configurations: 71 special strings (every control byte, DEL, U+0085, U+2028, U+2029, BOM, astral runes, quotes, "
        "backslashes, TOML syntax characters, U+10FFFF, 2- and 3-byte boundaries, the empty string) placed in turn as name, "
        "version, ignore entry, requirement name (alone and among others) and path; plus seeded random configurations: 0-4 "
        "requirements whose names mix plain, quoted, empty and special strings, canonical versions incl. prerelease and "
        "pseudo-versions, clean paths with and without @vN, 0-3 ignore entries; one fifth as many invalid configurations "
        "(non-canonical versions, unclean paths) for the tie only. Every written file is also re-rendered twice with random "
        "blanks, blank lines and key order. Non-trivial: the real code produced a value.")
    c.prove()
    exe = harness(c)
    drv = c.driver("drv_config")
    if exe:
        corpus(c, exe)
        p = subprocess.run([exe, "-seed", str(c.seed), "-tier", c.tier], stdout=subprocess.PIPE, timeout=1500)
        pairs, viols, stats = parse(p.stdout.decode("utf-8", "replace"))
        if p.returncode != 0:
            c.broken.append("harness exited %d" % p.returncode)
        c.coverage["harness_stats"] = stats
        if drv:
            for stream, ps in sorted(pairs.items()):
                if stream == "config.load.variant":
                    # texts in another layout: where the model says "outside" (not in its sub-language) it makes no
                    # claim; everything it does parse must agree with LoadConfigBytes
                    outs = c.run_driver(drv, [i for i, _ in ps])
                    kept = [(i, g) for (i, g), m in zip(ps, outs) if m != "outside"]
                    c.coverage.setdefault("outside_sub_language", {})[stream] = len(ps) - len(kept)
                    ps = kept
                c.correspond(stream, drv, ps, nontrivial=lambda i, o: o.startswith("ok") or len(o) > 8)
        c.count("config.judge", stats.get("round_trips_judged", 0),
                sample={"judge": "Load(Write(c)) == c and Write(Load(Write(c))) == Write(c) byte for byte, for every valid c",
                        "round_trips_judged": stats.get("round_trips_judged", 0)},
                hist={k: v for k, v in stats.items() if not k.startswith("pairs_")})
        for v in viols:
            c.violation("%s: %s %s" % (v["kind"], v.get("config", ""), v.get("detail", "")[:600]),
                        {"input": v["input"], "kind": v["kind"]})
    return c


def replay(c, case):
    exe = harness(c)
    p = subprocess.run([exe, "-replay", case["input"]], stdout=subprocess.PIPE, timeout=300)
    out = p.stdout.decode("utf-8", "replace")
    print(out)
    _, viols, _ = parse(out)
    if viols:
        print("VIOLATION property=C19 replay=(given)")
        return 1
    return 0

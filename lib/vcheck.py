"""Common machinery for /verif/bin/check.

Every property check is a python module checks/<ID>.py with a function run(c: Check).
A check does, in this order (see DESIGN.md section 2):

  1. c.prove(area)           regenerate Dawn/Extracted/<Area>.lean from the repo's working tree (tie 1),
                             `lake build` the property theorems and the tie theorems, audit axioms
  2. c.correspond(...)       run the real Go code and the Lean model's executable definitions on the
                             same generated inputs and diff their canonical outputs (tie 2)
  3. c.judge(...)            property-directed search on the implementation alone (the property's own
                             predicate decides), used to find the replayable failing input
  4. c.finish()              evidence file, VIOLATION / KNOWN-FINDING lines, exit status

A broken obligation or a correspondence disagreement is reported as a violation; when step 3 finds a
concrete failing input that is the replay, otherwise the VIOLATION line ends in no-failing-input-found.
"""
import fcntl
import hashlib
import json
import os
import re
import shutil
import subprocess
import sys
import time

VERIF = os.path.dirname(os.path.dirname(os.path.abspath(__file__)))
REPO = os.environ.get("VERIF_REPO", "/repo")
LEAN = os.environ.get("VERIF_LEAN_DIR", os.path.join(VERIF, "lean"))
BUILD = os.environ.get("VERIF_BUILD_DIR", os.path.join(VERIF, ".build"))
EVID = os.environ.get("VERIF_EVIDENCE_DIR", os.path.join(VERIF, "evidence"))
REPLAYS = os.path.join(BUILD, "replays") if REPO == "/repo" else os.path.join(BUILD, "replays", hashlib.sha1(REPO.encode()).hexdigest()[:8])
ALLOWED_AXIOMS = {"propext", "Classical.choice", "Quot.sound"}

GOENV = dict(os.environ)
GOENV.update({"GOFLAGS": "-mod=mod", "GOPROXY": "off", "GOSUMDB": "off", "GOTOOLCHAIN": "local",
              "CGO_ENABLED": "0"})


def sh(cmd, cwd=None, env=None, timeout=None, inp=None):
    """run, return (rc, stdout+stderr)"""
    try:
        p = subprocess.run(cmd, cwd=cwd, env=env, input=inp, stdout=subprocess.PIPE, stderr=subprocess.STDOUT,
                           timeout=timeout, text=isinstance(inp, str) or inp is None)
        out = p.stdout if isinstance(p.stdout, str) else p.stdout.decode("utf-8", "replace")
        return p.returncode, out
    except subprocess.TimeoutExpired as e:
        out = e.stdout or b""
        if not isinstance(out, str):
            out = out.decode("utf-8", "replace")
        return 124, out + "\n[timeout after %ss]" % timeout


class Lock:
    def __init__(self, name):
        os.makedirs(BUILD, exist_ok=True)
        self.path = os.path.join(BUILD, name + ".lock")

    def __enter__(self):
        self.f = open(self.path, "w")
        fcntl.flock(self.f, fcntl.LOCK_EX)
        return self

    def __exit__(self, *a):
        fcntl.flock(self.f, fcntl.LOCK_UN)
        self.f.close()


def _load_dir(d):
    out = {}
    if os.path.isdir(d):
        for fn in sorted(os.listdir(d)):
            if fn.endswith(".json"):
                with open(os.path.join(d, fn)) as f:
                    out[fn[:-5]] = json.load(f)
    return out


def load_obligations():
    """lean/obligations.d/<ID>.json: which theorems and ties are the proof obligations of a property"""
    return _load_dir(os.path.join(LEAN, "obligations.d"))


def load_known():
    """known-findings.d/<Dn>.json (merged into known-findings.json by bin/mkmanifest for readers)"""
    return list(_load_dir(os.path.join(VERIF, "known-findings.d")).values())


class Rng:
    """splitmix64; every random choice of a check derives from VERIF_SEED through this"""

    def __init__(self, seed):
        self.s = seed & 0xFFFFFFFFFFFFFFFF

    def next(self):
        self.s = (self.s + 0x9E3779B97F4A7C15) & 0xFFFFFFFFFFFFFFFF
        z = self.s
        z = ((z ^ (z >> 30)) * 0xBF58476D1CE4E5B9) & 0xFFFFFFFFFFFFFFFF
        z = ((z ^ (z >> 27)) * 0x94D049BB133111EB) & 0xFFFFFFFFFFFFFFFF
        return z ^ (z >> 31)

    def below(self, n):
        return self.next() % n

    def choice(self, xs):
        return xs[self.below(len(xs))]


class Check:
    def __init__(self, pid, tier, seed):
        self.pid, self.tier, self.seed = pid, tier, seed
        self.t0 = time.time()
        self.violations = []     # dicts {what, replay(obj), found_input(bool)}
        self.known_hits = []
        self.coverage = {"obligations": 0, "discharged": 0, "checker_cmd": "", "trusted_base": [],
                         "evaluations": 0, "distinct_nontrivial": 0, "rule": "", "samples": [],
                         "traces_validated_against_impl": 0, "streams": {}, "theorems": [], "broken": []}
        self.assumptions = []
        self._distinct = set()
        self.broken = []         # names of obligations / correspondence streams that no longer check
        self.known = [k for k in load_known() if k.get("property") == pid and k.get("status") == "finding"]
        os.makedirs(BUILD, exist_ok=True)
        os.makedirs(REPLAYS, exist_ok=True)
        os.makedirs(EVID, exist_ok=True)

    # ------------------------------------------------------------------ logging
    def log(self, *a):
        print("[%s %s %.1fs]" % (self.pid, self.tier, time.time() - self.t0), *a, flush=True)

    # ------------------------------------------------------------------ tie 1 + proofs
    def extract(self, area):
        """rebuild and run the extractor for one area; regenerates Dawn/Extracted/<Area>.lean"""
        out = os.path.join(LEAN, "Dawn", "Extracted", area + ".lean")
        exe = os.path.join(BUILD, "extract-" + area.lower())
        src = os.path.join(VERIF, "extract")
        with Lock("extract-" + area.lower()):
            rc, o = sh(["go", "build", "-o", exe, "./" + area.lower()], cwd=src, env=GOENV, timeout=300)
            if rc != 0:
                self.log("extractor build failed:\n" + o)
                return False, o
            tmp = out + ".tmp%d" % os.getpid()
            rc, o = sh([exe, "-repo", REPO, "-out", tmp], timeout=120)
            if rc != 0 or not os.path.exists(tmp):
                # the extractor could not find what it looks for: write a file that breaks the tie
                with open(tmp, "w") as f:
                    f.write("/- GENERATED: extraction failed -/\nnamespace Dawn.Extracted.%s\n"
                            "def extractionFailed : Bool := true\nend Dawn.Extracted.%s\n" % (area, area))
                self.log("extractor failed:\n" + o)
            old = open(out).read() if os.path.exists(out) else None
            new = open(tmp).read()
            if old != new:
                os.replace(tmp, out)
            else:
                os.remove(tmp)
        return True, o

    def lake_build(self, targets, timeout=3000):
        with Lock("lake"):
            rc, o = sh(["lake", "build"] + targets, cwd=LEAN, timeout=timeout)
        return rc == 0, o

    def prove(self, area=None, extract=True):
        """Tie 1 and the theorems: returns True iff every obligation of this property checked."""
        # extraction + build + audit are one critical section: concurrent checks (possibly against different
        # VERIF_REPO trees) share lean/Dawn/Extracted and must not see each other's regenerated facts
        with Lock("prove"):
            return self._prove(area, extract)

    def _prove(self, area, extract):
        ob = load_obligations()[self.pid]
        area = area or ob["area"]
        if extract and ob.get("extract", True):
            self.extract(area)
        modules = ob["modules"]
        theorems = ob["theorems"] + ob.get("ties", [])
        self.coverage["obligations"] = len(theorems)
        self.coverage["checker_cmd"] = "cd lean && lake build %s && lake env lean <generated #print axioms audit>" % " ".join(modules)
        t = time.time()
        ok, out = self.lake_build(modules)
        self.log("lake build %s: %s (%.1fs)" % (" ".join(modules), "ok" if ok else "FAILED", time.time() - t))
        good = {}
        if ok:
            good = self.audit(modules, theorems)
        else:
            self.coverage["lake_output_tail"] = out[-3000:]
            # find out which modules still build so that unaffected theorems stay discharged
            for m in modules:
                ok1, _ = self.lake_build([m])
                if ok1:
                    good.update(self.audit([m], [th for th in theorems if self._in_module(th, m, ob)]))
        discharged = [th for th in theorems if good.get(th)]
        self.coverage["discharged"] = len(discharged)
        self.coverage["theorems"] = [{"name": th, "axioms": sorted(good[th]) if good.get(th) else None,
                                      "ok": bool(good.get(th))} for th in theorems]
        self.coverage["trusted_base"] = ["Lean 4.33.0 kernel", "axioms: propext, Classical.choice, Quot.sound only",
                                         "extractor extract/%s (go/ast) for tie 1" % area.lower(),
                                         "correspondence harness harness/%s + Lean driver for tie 2" % area.lower()]
        for th in theorems:
            if not good.get(th):
                self.broken.append("theorem " + th)
        if ok and self.tier == "thorough":
            # independent re-check of the compiled modules by the toolchain's leanchecker
            rc, o = sh(["lake", "env", "leanchecker"] + modules, cwd=LEAN, timeout=1800)
            self.coverage["leanchecker"] = "ok" if rc == 0 else "FAILED: " + o[-500:]
            if rc != 0:
                self.broken.append("leanchecker " + " ".join(modules))
        hyg = self.hygiene()
        if hyg:
            self.broken.append("hygiene: " + "; ".join(hyg))
        return not self.broken

    def _in_module(self, th, module, ob):
        m = ob.get("theorem_modules", {})
        return m.get(th, module) == module

    def audit(self, modules, theorems):
        """#print axioms for each theorem; a theorem is discharged iff it exists and uses only the allowed axioms"""
        if not theorems:
            return {}
        path = os.path.join(BUILD, "Audit_%s_%d.lean" % (self.pid, os.getpid()))
        with open(path, "w") as f:
            for m in modules:
                f.write("import %s\n" % m)
            for th in theorems:
                f.write("#print axioms %s\n" % th)
        rc, out = sh(["lake", "env", "lean", path], cwd=LEAN, timeout=600)
        os.remove(path)
        res = {}
        # output: "'X' depends on axioms: [a, b]" or "'X' does not depend on any axioms"
        for m in re.finditer(r"'([^']+)' (does not depend on any axioms|depends on axioms: \[([^\]]*)\])", out, re.S):
            name = m.group(1)
            axs = set(a.strip() for a in (m.group(3) or "").replace("\n", " ").split(",") if a.strip())
            res[name] = axs
        good = {}
        for th in theorems:
            if th in res and res[th] <= ALLOWED_AXIOMS:
                good[th] = res[th] or {"(none)"}
            else:
                self.log("audit: %s -> %s" % (th, res.get(th, "missing: " + out[-400:])))
        return good

    def _lean_closure(self, modules):
        """source files of the given modules and of everything under Dawn/ they import, transitively"""
        seen, todo = {}, list(modules)
        while todo:
            m = todo.pop()
            if m in seen or not (m.startswith("Dawn.") or m.startswith("Driver.")):
                continue
            path = os.path.join(LEAN, *m.split(".")) + ".lean"
            if not os.path.exists(path):
                continue
            src = open(path).read()
            seen[m] = (path, src)
            todo += re.findall(r"^\s*(?:public\s+)?import\s+([A-Za-z0-9_.]+)", src, re.M)
        return seen

    def hygiene(self, modules=None):
        """no sorry/admit/axiom/native_decide/... in the Lean sources this property's obligations depend on
        (comments and string literals stripped)"""
        bad = []
        pat = re.compile(r"\b(sorry|admit|native_decide|bv_decide|implemented_by|unsafe)\b|^\s*axiom\s|maxHeartbeats\s+0\b", re.M)
        if modules is None:
            modules = load_obligations().get(self.pid, {}).get("modules", [])
        for m, (path, src) in sorted(self._lean_closure(modules).items()):
            src = re.sub(r"/-.*?-/", "", src, flags=re.S)
            src = re.sub(r"--[^\n]*", "", src)
            src = re.sub(r'"(\\.|[^"\\])*"', '""', src)
            mm = pat.search(src)
            if mm:
                bad.append("%s: %s" % (m, mm.group(0).strip()))
        return bad

    # ------------------------------------------------------------------ tie 2
    def go_harness(self, area, overlay, pkg, tags="verif", extra_env=None):
        """build a harness binary inside the repo's module with go build -overlay.
        overlay: {path relative to repo: path relative to /verif/harness/<area>}"""
        exe = os.path.join(BUILD, "harness-%s-%s" % (area, hashlib.sha1(REPO.encode()).hexdigest()[:8]))
        ov = {"Replace": {os.path.join(REPO, k): os.path.join(VERIF, "harness", area, v) for k, v in overlay.items()}}
        ovp = exe + ".overlay.json"
        with Lock("go-" + area):
            with open(ovp, "w") as f:
                json.dump(ov, f)
            env = dict(GOENV)
            if extra_env:
                env.update(extra_env)
            cmd = ["go", "build", "-overlay", ovp, "-o", exe]
            if tags:
                cmd += ["-tags", tags]
            cmd += [pkg]
            rc, o = sh(cmd, cwd=REPO, env=env, timeout=900)
        if rc != 0:
            self.log("harness build failed:\n" + o[-4000:])
            self.broken.append("harness build " + area)
            self.coverage["harness_build_output"] = o[-3000:]
            return None
        return exe

    def driver(self, name):
        ok, o = self.lake_build([name])
        if not ok:
            self.log("driver build failed:\n" + o[-3000:])
            self.broken.append("driver build " + name)
            return None
        return os.path.join(LEAN, ".lake", "build", "bin", name)

    def run_driver(self, exe, lines, timeout=1800):
        """feed lines to the Lean driver, return output lines"""
        p = subprocess.run([exe], input=("\n".join(lines) + "\n").encode(), stdout=subprocess.PIPE,
                           stderr=subprocess.PIPE, timeout=timeout)
        if p.returncode != 0:
            self.log("driver exit %d: %s" % (p.returncode, p.stderr.decode("utf-8", "replace")[-2000:]))
        return p.stdout.decode("utf-8", "replace").split("\n")[:-1]

    def correspond(self, stream, exe, pairs, nontrivial=lambda i, o: True, max_report=5):
        """pairs: list of (input_line, go_output). Runs the model on the inputs and diffs."""
        ins = [p[0] for p in pairs]
        outs = self.run_driver(exe, ins) if ins else []
        dis = []
        if len(outs) != len(ins):
            self.log("driver produced %d lines for %d inputs" % (len(outs), len(ins)))
            dis.append({"input": "(driver output length)", "go": str(len(ins)), "model": str(len(outs))})
        n_nt = 0
        hist = {}
        for (i, g), m in zip(pairs, outs):
            self.coverage["evaluations"] += 1
            if nontrivial(i, g):
                n_nt += 1
                self._distinct.add(hashlib.sha1((stream + "\0" + i).encode()).digest()[:8])
            k = g.split(" ")[0][:24]
            hist[k] = hist.get(k, 0) + 1
            if g != m:
                dis.append({"input": i, "go": g, "model": m})
        st = self.coverage["streams"].setdefault(stream, {"cases": 0, "disagreements": 0, "outcome_histogram": {}})
        st["cases"] += len(pairs)
        st["disagreements"] += len(dis)
        for k, v in hist.items():
            st["outcome_histogram"][k] = st["outcome_histogram"].get(k, 0) + v
        self.coverage["traces_validated_against_impl"] += len(pairs)
        if pairs and len(self.coverage["samples"]) < 8:
            self.coverage["samples"].append({"stream": stream, "input": pairs[len(pairs) // 2][0][:300],
                                             "output": pairs[len(pairs) // 2][1][:300]})
        if dis:
            self.broken.append("correspondence " + stream)
            st["first_disagreements"] = dis[:max_report]
            self.log("correspondence %s: %d disagreements, first: %s" % (stream, len(dis), json.dumps(dis[0])[:600]))
        else:
            self.log("correspondence %s: %d cases agree" % (stream, len(pairs)))
        return dis

    def count(self, stream, n, distinct_keys=(), sample=None, hist=None):
        """account for implementation-only (property-directed) evaluations"""
        self.coverage["evaluations"] += n
        for k in distinct_keys:
            self._distinct.add(hashlib.sha1((stream + "\0" + str(k)).encode()).digest()[:8])
        st = self.coverage["streams"].setdefault(stream, {"cases": 0})
        st["cases"] += n
        if hist:
            h = st.setdefault("histogram", {})
            for k, v in hist.items():
                h[k] = h.get(k, 0) + v
        if sample is not None and len(self.coverage["samples"]) < 12:
            self.coverage["samples"].append({"stream": stream, "case": sample})

    # ------------------------------------------------------------------ verdicts
    def violation(self, what, replay, key=None):
        """a concrete failing input / history / schedule on the implementation"""
        for k in self.known:
            if self._matches_known(k, what, replay, key):
                if k["id"] not in [h["id"] for h in self.known_hits]:
                    self.known_hits.append(k)
                return
        self.violations.append({"what": what, "replay": replay, "found_input": True})

    def _matches_known(self, k, what, replay, key):
        ident = k.get("identifies", {})
        if key is not None and ident.get("key") is not None:
            return ident["key"] == key
        if ident.get("input") is not None:
            return ident["input"] == replay.get("input")
        return False

    def finish(self):
        wall = time.time() - self.t0
        lines = []
        # a broken obligation / correspondence without a concrete input is still a violation
        if self.broken and not self.violations:
            self.violations.append({"what": "proof obligation or correspondence no longer checks: " + "; ".join(self.broken),
                                    "replay": {"broken": self.broken, "note": "no failing input found by the property-directed search"},
                                    "found_input": False})
        for k in self.known_hits:
            lines.append("KNOWN-FINDING: property=%s %s" % (self.pid, k.get("what", k["id"])))
        for n, v in enumerate(self.violations[:20]):
            rp = os.path.join(REPLAYS, "%s-%s-%d-%d.json" % (self.pid, self.tier, self.seed, n))
            v["replay"]["property"] = self.pid
            v["replay"]["what"] = v["what"]
            v["replay"]["broken_obligations"] = self.broken
            with open(rp, "w") as f:
                json.dump(v["replay"], f, indent=1)
            lines.append("VIOLATION property=%s replay=%s%s" % (self.pid, rp, "" if v["found_input"] else " no-failing-input-found"))
            self.log("violation: " + v["what"][:1000])
        cov = self.coverage
        cov["distinct_nontrivial"] = len(self._distinct)
        cov["broken"] = self.broken
        ev = {"property_id": self.pid, "tier": self.tier, "seed": self.seed, "level": "proof", "coverage": cov,
              "assumptions": self.assumptions, "wall_s": round(wall, 2), "violations": len(self.violations),
              "known_findings_hit": [k["id"] for k in self.known_hits], "repo": REPO}
        with open(os.path.join(EVID, self.pid + ".json"), "w") as f:
            json.dump(ev, f, indent=1)
        for l in lines:
            print(l, flush=True)
        self.log("done: %d obligations, %d discharged, %d evaluations, %d violations" %
                 (cov["obligations"], cov["discharged"], cov["evaluations"], len(self.violations)))
        return 1 if self.violations else 0


def scratch(name):
    """a scratch directory outside /repo and /verif, removed by the caller"""
    base = os.environ.get("VERIF_SCRATCH", "/var/tmp/verif-scratch")
    p = os.path.join(base, "%s-%d" % (name, os.getpid()))
    shutil.rmtree(p, ignore_errors=True)
    os.makedirs(p)
    return p

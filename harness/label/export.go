// Overlaid into the repository's root package (package dawn) by the C12 harness build only
// (go build -overlay; never written into /repo): gives the harness access to the unexported
// functions the property is about.
package dawn

import "github.com/pgavlin/dawn/label"

func VerifLabelRepoSourcePath(pkg, sourcePath string) (string, error) {
	return repoSourcePath(pkg, sourcePath)
}

func VerifLabelSourceLabel(pkg, sourcePath string) (*label.Label, error) {
	return sourceLabel(pkg, sourcePath)
}

func VerifLabelTargetInfoPath(work string, l *label.Label) string {
	return (&Project{work: work}).targetInfoPath(l)
}

// Correspondence + judge harness for C12 (label package, repoSourcePath/sourceLabel, targetInfoPath).
// Built INTO the repo's module with `go build -overlay` as package github.com/pgavlin/dawn/cmd/verif_label
// (export.go is overlaid into the root package to reach the unexported functions); not part of /repo.
//
// Output, one record per line, tab separated:
//   C <stream> <driver input> <Go's canonical answer>     correspondence pair (tie 2)
//   V <json>                                             the property's own predicate failed on the implementation
//   S <json>                                             statistics of this run
package main

import (
	"bufio"
	"encoding/hex"
	"encoding/json"
	"flag"
	"fmt"
	"os"
	"path"
	"path/filepath"
	"strings"
	"time"

	dawn "github.com/pgavlin/dawn"
	"github.com/pgavlin/dawn/label"
)

type rng struct{ s uint64 }

func (r *rng) next() uint64 {
	r.s += 0x9E3779B97F4A7C15
	z := r.s
	z = (z ^ (z >> 30)) * 0xBF58476D1CE4E5B9
	z = (z ^ (z >> 27)) * 0x94D049BB133111EB
	return z ^ (z >> 31)
}
func (r *rng) below(n int) int        { return int(r.next() % uint64(n)) }
func (r *rng) pick(xs []string) string { return xs[r.below(len(xs))] }

func hx(s string) string {
	if s == "" {
		return "-"
	}
	return hex.EncodeToString([]byte(s))
}

func unhx(s string) string {
	if s == "-" || s == "" {
		return ""
	}
	b, err := hex.DecodeString(s)
	if err != nil {
		fmt.Fprintln(os.Stderr, "bad hex", s)
		os.Exit(2)
	}
	return string(b)
}

func hxList(xs []string) string {
	if len(xs) == 0 {
		return "."
	}
	h := make([]string, len(xs))
	for i, x := range xs {
		h[i] = hx(x)
	}
	return strings.Join(h, ",")
}

func lab(l *label.Label) string {
	return hx(l.Kind) + "," + hx(l.Project) + "," + hx(l.Package) + "," + hx(l.Name)
}

var errKinds = []struct{ pat, kind string }{
	{"project may not contain", "projectColon"},
	{"absolute pkg paths must begin with '//'", "absSingle"},
	{"pkg paths may not contain ':'", "pkgColon"},
	{"pkg paths may not contain '.' or '..' elements", "pkgDot"},
	{"names may not contain ':' or '/'", "nameSlash"},
	{"labels with projects must be absolute", "projectRel"},
	{"kind may not contain ':' or '/'", "kindBad"},
	{"labels with projects must use absolute package paths", "projectRelNew"},
	{"name may not contain ':' or '/'", "nameBad"},
	{"path must not be empty", "emptyPath"},
	{"is outside of the project root", "outsideRoot"},
}

func errKind(err error) string {
	m := err.Error()
	for _, k := range errKinds {
		if strings.Contains(m, k.pat) {
			return "err " + k.kind
		}
	}
	stats["unclassified_error_messages"]++
	return "err ?" // an error whose wording this harness does not know: compared as "some error"
}

var (
	out   = bufio.NewWriterSize(os.Stdout, 1<<20)
	stats = map[string]int{}
	nviol = 0
	corr  = true
)

func emit(stream, in, res string) {
	if corr {
		fmt.Fprintf(out, "C\t%s\t%s\t%s\n", stream, in, res)
		stats["pairs_"+stream]++
	}
}

func violation(kind string, input map[string]any, text, detail string) {
	nviol++
	stats["violation_"+kind]++
	if nviol > 20 {
		return
	}
	b, _ := json.Marshal(map[string]any{"kind": kind, "text": text, "detail": detail, "input": input})
	fmt.Fprintf(out, "V\t%s\n", b)
}

// ---- the real functions, each behind recover: a panic is an outcome, not a crash of the harness

func safe(f func()) (pan any) {
	defer func() { pan = recover() }()
	f()
	return nil
}

func rParse(s string) (l *label.Label, err error, pan any) {
	pan = safe(func() { l, err = label.Parse(s) })
	return
}

func labelRes(l *label.Label, err error, pan any) string {
	switch {
	case pan != nil:
		return "panic"
	case err != nil:
		return errKind(err)
	case l == nil:
		return "nil"
	}
	return "ok " + lab(l)
}

func strRes(s string, err error, pan any) string {
	switch {
	case pan != nil:
		return "panic"
	case err != nil:
		return errKind(err)
	}
	return "ok " + hx(s)
}

// ---- C12 judged on the implementation

// printed form -> the accepted label (with a name or without a kind) that printed it
var printed = map[string]label.Label{}

var relPkgs = []string{"//", "//a", "//a/b", "", "a", "//a:b", "//.", "/", "//a//"}

func sideCondition(l *label.Label) bool { return l.Name != "" || l.Kind == "" }

// roundTrip: printing and re-parsing an accepted label yields the identical label; printing is canonical
func roundTrip(l *label.Label, input map[string]any, text string) {
	if !sideCondition(l) {
		stats["exempt_kind_without_name"]++
		// observation only: these labels print to a string that means something else
		var l2 *label.Label
		var err error
		if pan := safe(func() { l2, err = label.Parse(l.String()) }); pan != nil {
			violation("panic", input, text, fmt.Sprint("Parse(String()) panicked: ", pan))
		} else if err != nil || *l2 != *l {
			stats["exempt_not_round_tripping"]++
		}
		return
	}
	stats["round_trips_checked"]++
	var s string
	var l2 *label.Label
	var err error
	if pan := safe(func() { s = l.String(); l2, err = label.Parse(s) }); pan != nil {
		violation("panic", input, text, fmt.Sprint("String/Parse panicked: ", pan))
		return
	}
	if err != nil {
		violation("printed-label-does-not-parse", input, text, fmt.Sprintf("label %+v prints %q which is rejected: %v", *l, s, err))
		return
	}
	if *l2 != *l {
		violation("round-trip-differs", input, text, fmt.Sprintf("label %+v prints %q which parses to %+v", *l, s, *l2))
		return
	}
	if prev, ok := printed[s]; ok {
		if prev != *l {
			violation("printing-not-canonical", input, text, fmt.Sprintf("labels %+v and %+v both print %q", prev, *l, s))
		}
	} else {
		printed[s] = *l
	}
}

func oneLabelString(s string, withRel bool) {
	stats["strings"]++
	l, err, pan := rParse(s)
	in := map[string]any{"op": "parse", "s": hx(s)}
	if pan != nil {
		violation("panic", in, s, fmt.Sprint("Parse panicked: ", pan))
		emit("label.parse", "parse "+hx(s), "panic")
		return
	}
	if err != nil {
		stats["rejected"]++
		stats["rejected_"+strings.SplitN(errKind(err), ":", 2)[0][4:]]++
		emit("label.parse", "parse "+hx(s), errKind(err))
		return
	}
	stats["accepted"]++
	if l.Kind != "" {
		stats["accepted_with_kind"]++
	}
	if l.Project != "" {
		stats["accepted_with_project"]++
	}
	if l.IsAbs() {
		stats["accepted_absolute"]++
	}
	if l.Name != "" {
		stats["accepted_with_name"]++
	}
	var ps string
	if pan := safe(func() { ps = l.String() }); pan != nil {
		violation("panic", in, s, fmt.Sprint("String panicked: ", pan))
		return
	}
	emit("label.parse", "parse "+hx(s), "ok "+lab(l)+" "+hx(ps))
	roundTrip(l, in, s)
	if !withRel {
		return
	}
	for i, pkg := range relPkgs {
		if l.IsAbs() && i > 1 {
			break // RelativeTo returns an absolute label unchanged; two packages are enough to see that
		}
		var l2 *label.Label
		var err error
		pan := safe(func() { l2, err = l.RelativeTo(pkg) })
		emit("label.rel", "rel "+lab(l)+" "+hx(pkg), labelRes(l2, err, pan))
		rin := map[string]any{"op": "rel", "s": hx(s), "pkg": hx(pkg)}
		if pan != nil {
			violation("panic", rin, s, fmt.Sprint("RelativeTo panicked: ", pan))
			continue
		}
		stats["relative_to"]++
		if err == nil {
			stats["relative_to_ok"]++
			roundTrip(l2, rin, s+" relative to "+pkg)
		}
	}
	stability(s)
}

// stability: a label string means the same label whatever the process did before. The callers of Parse own the
// label they get and change it: module loading sets Project and, on the result of RelativeTo (which is the receiver
// itself for an absolute label), Kind = "module"; the command line's labelOrNearestDefault walks Package up to the
// parent. After all of that, Parse(s) must still be what it was the first time, and print the same.
func stability(s string) {
	l, err, pan := rParse(s)
	if err != nil || pan != nil {
		return
	}
	stats["stability_checked"]++
	saved, savedPrinted := *l, l.String()
	in := map[string]any{"op": "stab", "s": hx(s)}
	use := func(x *label.Label) {
		if x == nil {
			return
		}
		safe(func() {
			for _, pkg := range []string{"//", "//lib", "//a/b"} {
				r, err := x.RelativeTo(pkg)
				if err != nil || r == nil {
					continue
				}
				if r.Project == "" {
					r.Project = "example.com/proj"
				}
				r.Kind = "module"
				r.Package = label.Parent(r.Package)
				_ = r.String()
			}
		})
	}
	use(l)
	if l2, err, _ := rParse(s); err == nil { // a second holder of the same string
		use(l2)
	}
	if n, err := label.New(saved.Kind, saved.Project, saved.Package, saved.Name); err == nil {
		use(n)
	}
	again, err, pan := rParse(s)
	switch {
	case pan != nil:
		violation("panic", in, s, fmt.Sprint("Parse panicked: ", pan))
	case err != nil:
		violation("parse-depends-on-history", in, s, fmt.Sprintf("accepted as %+v at first, rejected after the label was used: %v", saved, err))
	case *again != saved:
		violation("parse-depends-on-history", in, s, fmt.Sprintf("%q parsed to %+v at first and to %+v after earlier results were used the way module loading and the command line use them", s, saved, *again))
	case again.String() != savedPrinted:
		violation("parse-depends-on-history", in, s, fmt.Sprintf("printed %q at first and %q later", savedPrinted, again.String()))
	}
}

// endToEnd: the same through the real loader: a generated project whose build files load modules by absolute and by
// relative label; the label strings are parsed before dawn.Load and again after it.
func endToEnd(n int, r *rng) {
	base, err := os.MkdirTemp("", "verif-label-e2e-")
	if err != nil {
		return
	}
	defer os.RemoveAll(base)
	os.Setenv("HOME", filepath.Join(base, "home"))
	os.MkdirAll(filepath.Join(base, "home"), 0o755)
	for i := 0; i < n; i++ {
		lib := r.pick([]string{"lib", "tools", "a", "x.y", "lib-2"})
		deep := r.pick([]string{"deep", "b", "internal"})
		sub := r.pick([]string{"sub", "cmd", "docs"})
		root := filepath.Join(base, fmt.Sprintf("p%d", i))
		files := map[string]string{
			"dawn.toml":                  "name = 'e2e'\n",
			"BUILD.dawn":                 fmt.Sprintf("load(\"//%s:defs.dawn\", \"f\")\nload(\"//%s/%s:more.dawn\", \"g\")\n\n@target()\ndef default():\n    pass\n", lib, lib, deep),
			lib + "/defs.dawn":           fmt.Sprintf("load(\"//%s/%s:more.dawn\", \"g\")\n\ndef f():\n    g()\n", lib, deep),
			lib + "/" + deep + "/more.dawn": "def g():\n    pass\n",
			sub + "/BUILD.dawn":          fmt.Sprintf("load(\"//%s:defs.dawn\", \"f\")\nload(\":local.dawn\", \"h\")\n\n@target(deps=[\"//:default\"])\ndef default():\n    pass\n", lib),
			sub + "/local.dawn":          "def h():\n    pass\n",
		}
		for name, text := range files {
			p := filepath.Join(root, filepath.FromSlash(name))
			os.MkdirAll(filepath.Dir(p), 0o755)
			os.WriteFile(p, []byte(text), 0o644)
		}
		strs := []string{"//" + lib + ":defs.dawn", "//" + lib + "/" + deep + ":more.dawn", ":local.dawn", "//:default", "//" + sub + ":default",
			"//" + sub + ":local.dawn", "module://" + lib + ":defs.dawn", ":default"}
		type snap struct {
			l       label.Label
			printed string
		}
		before := map[string]snap{}
		for _, s := range strs {
			if l, err, _ := rParse(s); err == nil {
				before[s] = snap{*l, l.String()}
			}
		}
		var proj *dawn.Project
		var lerr error
		pan := safe(func() { proj, lerr = dawn.Load(root, &dawn.LoadOptions{}) })
		stats["e2e_projects"]++
		if pan != nil || lerr != nil {
			stats["e2e_load_failed"]++
			fmt.Fprintf(os.Stderr, "e2e load: %v %v\n", pan, lerr)
			continue
		}
		// what the command line does with a label argument
		for _, s := range []string{"//" + sub + ":default", "//:default"} {
			if l, err, _ := rParse(s); err == nil {
				safe(func() {
					for l.Package != "//" {
						if _, err := proj.Target(l); err == nil {
							break
						}
						l.Package = label.Parent(l.Package)
					}
				})
			}
		}
		for _, s := range strs {
			b, ok := before[s]
			if !ok {
				continue
			}
			stats["e2e_labels_reparsed"]++
			l, err, pan := rParse(s)
			in := map[string]any{"op": "e2e", "s": hx(s)}
			if pan != nil || err != nil || *l != b.l || l.String() != b.printed {
				detail := fmt.Sprintf("before loading the project %q parsed to %+v (printed %q); after: ", s, b.l, b.printed)
				if l != nil {
					detail += fmt.Sprintf("%+v (printed %q)", *l, l.String())
				} else {
					detail += fmt.Sprint(err, pan)
				}
				violation("parse-depends-on-history", in, s, detail)
			}
		}
	}
}

// ---- build records: targetInfoPath must tell labels apart and stay below the directory of the kind

func tipJudge(work string) {
	elems := []string{"a", "b", "docs", "api", "a.b", "%2F", "é", ".x", "a%2Fb"}
	pkgs := []string{"//"}
	for _, a := range elems {
		pkgs = append(pkgs, "//"+a)
		for _, b := range elems[:6] {
			pkgs = append(pkgs, "//"+a+"/"+b)
			for _, c := range elems[:4] {
				pkgs = append(pkgs, "//"+a+"/"+b+"/"+c)
			}
		}
	}
	names := []string{".", "..", "...", "a", "b", "docs", "api", "a.b", "%2F", "a%2Fb", "é", ".x", "docs%2F.", "%2Fdocs", "世", "a b", "~", "BUILD", "x.dawn"}
	seen := map[string]label.Label{}
	for _, kind := range []string{"", "source"} {
		dir := filepath.Join(work, "targets")
		if kind != "" {
			dir = filepath.Join(work, kind+"s")
		}
		for _, g := range pkgs {
			for _, nm := range names {
				l, err := label.New(kind, "", g, nm)
				if err != nil {
					continue
				}
				var p string
				in := map[string]any{"op": "tip", "s": lab(l)}
				if pan := safe(func() { p = dawn.VerifLabelTargetInfoPath(work, l) }); pan != nil {
					violation("panic", in, l.String(), fmt.Sprint("targetInfoPath panicked: ", pan))
					continue
				}
				stats["record_paths_judged"]++
				if filepath.Dir(p) != dir || p == dir {
					violation("record-path-not-below-its-kind-directory", in, l.String(), fmt.Sprintf("record of %s is %q, not a file directly in %q", l, p, dir))
				}
				if prev, ok := seen[p]; ok && prev != *l {
					pl := prev
					violation("record-path-collision", map[string]any{"op": "tip2", "s": lab(l), "t": lab(&pl)}, l.String(),
						fmt.Sprintf("%s and %s share the record %q", &pl, l, p))
				} else {
					seen[p] = *l
				}
			}
		}
	}
	stats["record_paths_distinct"] = len(seen)
}

func parseLab(s string) *label.Label {
	f := strings.Split(s, ",")
	if len(f) != 4 {
		os.Exit(2)
	}
	return &label.Label{Kind: unhx(f[0]), Project: unhx(f[1]), Package: unhx(f[2]), Name: unhx(f[3])}
}

// every string over alpha up to maxLen symbols, shortest first (so the first failing input reported is a shortest one)
func enumerate(alpha []string, maxLen int, f func(string)) {
	var rec func(prefix string, n int)
	rec = func(prefix string, n int) {
		if n == 0 {
			f(prefix)
			return
		}
		for _, a := range alpha {
			rec(prefix+a, n-1)
		}
	}
	for l := 0; l <= maxLen; l++ {
		rec("", l)
	}
}

// ---- source paths

var roots = []string{"/r", "/r0/r1", "/"}

func under(root, p string) bool {
	if root == "/" {
		return strings.HasPrefix(p, "/")
	}
	return p == root || strings.HasPrefix(p, root+"/")
}

func hasDotDot(q string) bool {
	for _, c := range strings.Split(q, "/") {
		if c == ".." {
			return true
		}
	}
	return false
}

func onePair(pkg, sp string) {
	stats["pairs"]++
	var q string
	var err error
	pan := safe(func() { q, err = dawn.VerifLabelRepoSourcePath(pkg, sp) })
	emit("label.rsp", "rsp "+hx(pkg)+" "+hx(sp), strRes(q, err, pan))
	in := map[string]any{"op": "rsp", "pkg": hx(pkg), "path": hx(sp)}
	text := fmt.Sprintf("repoSourcePath(%q, %q)", pkg, sp)
	callable := strings.HasPrefix(pkg, "//") // every caller passes a module's package, which is absolute
	if pan != nil {
		if callable {
			violation("panic", in, text, fmt.Sprint(pan))
		} else {
			stats["pairs_panic_on_package_no_caller_can_pass"]++
		}
	} else if err == nil {
		stats["pairs_ok"]++
		if hasDotDot(q) {
			violation("dotdot-component-in-resolved-path", in, text, fmt.Sprintf("resolved to %q", q))
		}
		for _, root := range roots {
			loc := filepath.Join(root, q)
			if !under(root, loc) {
				violation("resolved-path-outside-root", in, text, fmt.Sprintf("resolved to %q; root %q gives %q", q, root, loc))
			}
			// where the path really points: from the package's directory for a relative path, below the root
			// for an absolute one
			if callable && !path.IsAbs(sp) {
				want := filepath.Join(root, pkg[2:], sp)
				if root != "/" && want != loc {
					stats["pairs_resolved_to_another_location_observation"]++ // not what C12 states; counted only
				}
			}
		}
	} else {
		stats["pairs_"+strings.SplitN(errKind(err), ":", 2)[0][4:]]++
		// observation only (C12 does not forbid rejecting more): a rejected path that names a location inside the root
		if callable && sp != "" && !path.IsAbs(sp) {
			deep := "/r0/r1/r2/r3/r4/r5/r6/r7/r8/r9/r10/r11/r12"
			if want := filepath.Join(deep, pkg[2:], sp); under(deep, want) {
				stats["pairs_rejected_although_inside_observation"]++
			}
		}
	}
	if callable && pan == nil && sp != "" && !path.IsAbs(sp) {
		// the escape must be rejected: judge with a root deep enough that `..` cannot be absorbed by "/"
		deep := "/r0/r1/r2/r3/r4/r5/r6/r7/r8/r9/r10/r11/r12"
		want := filepath.Join(deep, pkg[2:], sp)
		if !under(deep, want) {
			stats["pairs_escaping"]++
			if err == nil {
				violation("escape-not-rejected", in, text, fmt.Sprintf("accepted as %q although it names %q outside %q", q, want, deep))
			}
		}
	}
	var l *label.Label
	pan = safe(func() { l, err = dawn.VerifLabelSourceLabel(pkg, sp) })
	emit("label.slabel", "slabel "+hx(pkg)+" "+hx(sp), labelRes(l, err, pan))
	if pan != nil && callable {
		violation("panic", map[string]any{"op": "slabel", "pkg": hx(pkg), "path": hx(sp)}, text, fmt.Sprint("sourceLabel panicked: ", pan))
	}
	if pan == nil && err == nil {
		stats["source_labels"]++
		if l.Name == "" {
			stats["source_labels_without_name_observation"]++ // `source://`: exempt from the round trip by the property text
		}
		roundTrip(l, map[string]any{"op": "slabel", "pkg": hx(pkg), "path": hx(sp)}, text)
		if !strings.HasPrefix(l.Package, "//") {
			violation("source-label-not-absolute", in, text, fmt.Sprintf("%+v", *l))
		}
	}
}

func replay(js string) {
	var c map[string]string
	if err := json.Unmarshal([]byte(js), &c); err != nil {
		fmt.Fprintln(os.Stderr, err)
		os.Exit(2)
	}
	switch c["op"] {
	case "parse", "rel":
		oneLabelString(unhx(c["s"]), true)
	case "rsp", "slabel":
		onePair(unhx(c["pkg"]), unhx(c["path"]))
	case "stab":
		stability(unhx(c["s"]))
	case "e2e":
		endToEnd(2, &rng{1})
	case "tip", "tip2":
		tipJudge("/w/.dawn/build") // the whole family: a collision needs its partner
	case "new":
		f := strings.Split(c["s"], ",")
		if len(f) != 4 {
			os.Exit(2)
		}
		if l, err := label.New(unhx(f[0]), unhx(f[1]), unhx(f[2]), unhx(f[3])); err == nil {
			roundTrip(l, map[string]any{"op": "new", "s": c["s"]}, "New "+c["s"])
		}
	case "clean":
		if pan := safe(func() { label.Clean(unhx(c["s"])) }); pan != nil {
			violation("panic", map[string]any{"op": "clean", "s": c["s"]}, unhx(c["s"]), fmt.Sprint("Clean panicked: ", pan))
		}
	case "join":
		var es []string
		if c["s"] != "." {
			for _, h := range strings.Split(c["s"], ",") {
				es = append(es, unhx(h))
			}
		}
		if pan := safe(func() { label.Join(es...) }); pan != nil {
			violation("panic", map[string]any{"op": "join", "s": c["s"]}, strings.Join(es, ","), fmt.Sprint("Join panicked: ", pan))
		}
	case "split":
		if pan := safe(func() { label.Split(unhx(c["s"])) }); pan != nil {
			violation("panic", map[string]any{"op": "split", "s": c["s"]}, unhx(c["s"]), fmt.Sprint("Split panicked: ", pan))
		}
	default:
		fmt.Fprintln(os.Stderr, "unknown op")
		os.Exit(2)
	}
}

func main() {
	seed := flag.Uint64("seed", 1, "")
	tier := flag.String("tier", "quick", "")
	rp := flag.String("replay", "", "json input of a violation")
	flag.Parse()
	defer out.Flush()
	// nothing here loops unboundedly by design; the watchdog turns a hang of the code under test into a failure
	time.AfterFunc(20*time.Minute, func() {
		out.Flush()
		fmt.Fprintln(os.Stderr, "watchdog: harness did not finish")
		os.Exit(3)
	})

	if *rp != "" {
		replay(*rp)
		return
	}
	thorough := *tier == "thorough"
	r := &rng{*seed}

	// ---------------------------------------------------------------- 1. label strings
	n := 7
	if thorough {
		n = 8
	}
	enumerate([]string{"a", "/", ":", ".", "@"}, n, func(s string) { oneLabelString(s, len(s) <= 6) })
	stats["exhaustive_label_length"] = n
	stats["exhaustive_label_strings"] = stats["strings"]

	wide := []string{"a", "b", "/", ":", ".", "@", "\\", "%", "é", "世", "\x00", "\xff", "\x80", " ", "//", "..", "::", "-", "_", "A", "0", "+", "\n", "😀"}
	nr := 20000
	if thorough {
		nr = 300000
	}
	for i := 0; i < nr; i++ {
		var b strings.Builder
		if r.below(2) == 0 {
			// uniformly random over the wide alphabet, 9..24 symbols
			for k, l := 0, 9+r.below(16); k < l; k++ {
				b.WriteString(r.pick(wide))
			}
		} else {
			// shaped like a label, then perturbed: [kind:][project]//elem/elem[:name]
			part := func(max int) string {
				var p strings.Builder
				for k, l := 0, 1+r.below(max); k < l; k++ {
					p.WriteString(r.pick([]string{"a", "b", "c", ".", "@", "é", "-", "\\", "%", "世", "0", "..", "\x00"}))
				}
				return p.String()
			}
			if r.below(3) == 0 {
				b.WriteString(part(3) + ":")
			}
			if r.below(3) == 0 {
				b.WriteString(part(4))
				if r.below(3) == 0 {
					b.WriteString("/" + part(3))
				}
			}
			if r.below(4) != 0 {
				b.WriteString("//")
			}
			for k, l := 0, r.below(5); k < l; k++ {
				if k > 0 {
					b.WriteString(r.pick([]string{"/", "/", "/", "//", "///"}))
				}
				b.WriteString(part(4))
			}
			if r.below(2) == 0 {
				b.WriteString(":" + part(4))
			}
			s := b.String()
			if len(s) > 0 && r.below(4) == 0 {
				// one byte-level mutation
				p := r.below(len(s))
				s = s[:p] + r.pick(wide) + s[p+r.below(2):]
			}
			b.Reset()
			b.WriteString(s)
		}
		oneLabelString(b.String(), true)
	}
	stats["random_label_strings"] = nr
	stats["distinct_printed_forms"] = len(printed)

	// ---------------------------------------------------------------- 2. String on arbitrary (not necessarily accepted) labels
	fields := []string{"", "a", "k", "//", "//a", "//a/b", "a/b", ":", "a:b", "p/q", "é", "\x00", "."}
	for _, k := range fields {
		for _, p := range fields {
			for _, g := range fields {
				for _, nm := range fields {
					l := &label.Label{Kind: k, Project: p, Package: g, Name: nm}
					emit("label.print", "print "+lab(l), hx(l.String()))
				}
			}
		}
	}

	// ---------------------------------------------------------------- 3. Clean, Split, path.Clean
	cl := 8
	pl := 8
	if thorough {
		cl, pl = 9, 10
	}
	enumerate([]string{"a", "/", ":", "."}, cl, func(s string) {
		var o string
		var err error
		pan := safe(func() { o, err = label.Clean(s) })
		emit("label.clean", "clean "+hx(s), strRes(o, err, pan))
		stats["clean_calls"]++
		if pan != nil {
			violation("panic", map[string]any{"op": "clean", "s": hx(s)}, s, fmt.Sprint("Clean panicked: ", pan))
		}
	})
	enumerate([]string{"a", "/", "."}, pl, func(s string) {
		var parts []string
		pan := safe(func() { parts = label.Split(s) })
		if pan != nil {
			emit("label.split", "split "+hx(s), "panic")
			violation("panic", map[string]any{"op": "split", "s": hx(s)}, s, fmt.Sprint("Split panicked: ", pan))
		} else {
			emit("label.split", "split "+hx(s), hxList(parts))
		}
		emit("label.pclean", "pclean "+hx(s), hx(path.Clean(s)))
		stats["split_calls"]++
	})
	for i := 0; i < nr/4; i++ {
		var b strings.Builder
		for k, l := 0, r.below(20); k < l; k++ {
			b.WriteString(r.pick([]string{"a", "b", "/", "/", ".", "..", ":", "é", "\\", "%", "\x00", "\xff", "//", "/./", "/../"}))
		}
		s := b.String()
		var o string
		var err error
		pan := safe(func() { o, err = label.Clean(s) })
		emit("label.clean", "clean "+hx(s), strRes(o, err, pan))
		if pan != nil {
			violation("panic", map[string]any{"op": "clean", "s": hx(s)}, s, fmt.Sprint("Clean panicked: ", pan))
		}
		emit("label.pclean", "pclean "+hx(s), hx(path.Clean(s)))
		emit("label.split", "split "+hx(s), hxList(label.Split(s)))
	}

	// ---------------------------------------------------------------- 4. Join, path.Join, New
	elems := []string{"", "a", "//", "//a", "/", "a/b", "a//b", ".", "..", "a/../b", "//a/", "a:", "/a", "b/", "é"}
	var lists [][]string
	lists = append(lists, nil)
	for _, a := range elems {
		lists = append(lists, []string{a})
		for _, b := range elems {
			lists = append(lists, []string{a, b})
			for _, c := range elems {
				lists = append(lists, []string{a, b, c})
			}
		}
	}
	for _, es := range lists {
		var o string
		var err error
		pan := safe(func() { o, err = label.Join(es...) })
		emit("label.join", "join "+hxList(es), strRes(o, err, pan))
		if pan != nil {
			violation("panic", map[string]any{"op": "join", "s": hxList(es)}, strings.Join(es, ","), fmt.Sprint("Join panicked: ", pan))
		}
		emit("label.pjoin", "pjoin "+hxList(es), hx(path.Join(es...)))
	}
	stats["join_lists"] = len(lists)
	kinds := []string{"", "k", "source", "a/b", "k:", "é"}
	projects := []string{"", "p", "p/q", "p//q", "p:", "p/", "/"}
	pkgs := []string{"", "//", "//a", "//a/b", "a", "a/b", "/a", "//a//b/", "//.", "//a/..", "a:b", "//a:b", "///", "//é", "a/"}
	names := []string{"", "n", "a/b", "a:b", ".", "..", "é"}
	for _, k := range kinds {
		for _, p := range projects {
			for _, g := range pkgs {
				for _, nm := range names {
					var l *label.Label
					var err error
					pan := safe(func() { l, err = label.New(k, p, g, nm) })
					in := &label.Label{Kind: k, Project: p, Package: g, Name: nm}
					emit("label.new", "new "+lab(in), labelRes(l, err, pan))
					stats["new_calls"]++
					if pan != nil {
						violation("panic", map[string]any{"op": "new", "s": lab(in)}, lab(in), fmt.Sprint("New panicked: ", pan))
					}
					if pan == nil && err == nil {
						stats["new_ok"]++
						// observation (New is not Parse): labels built by New whose project contains "//" or ends in "/"
						// print to a string that parses to another label
						if p == "" {
							// every caller in the repository passes an empty project: these labels are identities too
							roundTrip(l, map[string]any{"op": "new", "s": lab(in)}, "New "+lab(in))
						} else if l2, err2 := label.Parse(l.String()); sideCondition(l) && (err2 != nil || *l2 != *l) {
							stats["new_with_project_not_round_tripping_observation"]++
						}
					}
				}
			}
		}
	}

	// ---------------------------------------------------------------- 5. (package, path) pairs
	packages := []string{"//", "//a", "//a/b", "//a/b/c", "//..", "//a/..", "//a//b", "//.", "", "/", "a", "//é"}
	comps := []string{"..", ".", "a", "", "...", "..a", "b:c"}
	depth := 4
	if thorough {
		depth = 5
	}
	var paths []string
	var rec func(prefix []string, d int)
	rec = func(prefix []string, d int) {
		if len(prefix) > 0 {
			p := strings.Join(prefix, "/")
			paths = append(paths, p, "/"+p)
		}
		if d == depth {
			return
		}
		for _, c := range comps {
			rec(append(append([]string{}, prefix...), c), d+1)
		}
	}
	rec(nil, 0)
	paths = append(paths, "")
	sl := 6
	if thorough {
		sl = 8
	}
	enumerate([]string{"a", "/", "."}, sl, func(s string) { paths = append(paths, s) })
	for _, pkg := range packages {
		for _, p := range paths {
			onePair(pkg, p)
		}
	}
	stats["pair_packages"] = len(packages)
	stats["pair_paths"] = len(paths)
	for i := 0; i < nr/4; i++ {
		pkg := "//"
		for k, l := 0, r.below(4); k < l; k++ {
			if k > 0 {
				pkg += "/"
			}
			pkg += r.pick([]string{"a", "b", "é", "..", ".x"})
		}
		var b strings.Builder
		for k, l := 0, 1+r.below(8); k < l; k++ {
			b.WriteString(r.pick([]string{"..", ".", "a", "b", "/", "/", "//", "../", "./", "é", "\\", "%", ":", "\x00", "..."}))
		}
		onePair(pkg, b.String())
	}

	// ---------------------------------------------------------------- 6. targetInfoPath
	for _, k := range []string{"", "k", "source", "a/b", "..", "é"} {
		for _, g := range []string{"//", "//a", "//a/b", "//é/%", "//a b", "/", "", "a", "//a?b;c,d"} {
			for _, nm := range []string{"", "n", "BUILD.dawn", "é", "a b", "~$&+=:@", "..", "%2F"} {
				l := &label.Label{Kind: k, Package: g, Name: nm}
				var o string
				pan := safe(func() { o = dawn.VerifLabelTargetInfoPath("/w/.dawn/build", l) })
				emit("label.tip", "tip "+hx("/w/.dawn/build")+" "+lab(l), strRes(o, nil, pan))
				stats["target_info_paths"]++
			}
		}
	}

	tipJudge("/w/.dawn/build")
	e2e := 3
	if thorough {
		e2e = 25
	}
	endToEnd(e2e, r)

	stats["violations"] = nviol
	b, _ := json.Marshal(stats)
	fmt.Fprintf(out, "S\t%s\n", b)
}

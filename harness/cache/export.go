//go:build verif

// Overlaid into the root package of the repository (as verif_export_cache.go) by the C20 check, so that the
// harness under cmd/verif_cache can reach the `Cache` builtin the way module.env hands it to every module
// (builtins["Cache"] = builtin_cache). Nothing of the cache's representation is touched: the harness observes the
// cache only through once(). Not part of /repo.
package dawn

// VerifCacheBuiltin is the `Cache` builtin every module sees.
var VerifCacheBuiltin = builtin_cache

//go:build verif

// Overlaid into the root package of the repository (as verif_export_cache.go) by the C20 check, so that the
// harness under cmd/verif_cache can reach the unexported cache type. Not part of /repo.
package dawn

import (
	"sort"

	"go.starlark.net/starlark"
)

// VerifCacheBuiltin is the `Cache` builtin every module sees (module.env: builtins["Cache"] = builtin_cache).
var VerifCacheBuiltin = builtin_cache

// VerifCacheEntries returns a snapshot of the entries of a value made by the Cache builtin (sorted keys).
func VerifCacheEntries(v starlark.Value) (keys []string, vals []starlark.Value) {
	c := v.(*cache)
	c.m.RLock()
	defer c.m.RUnlock()
	for k := range c.entries {
		keys = append(keys, k)
	}
	sort.Strings(keys)
	for _, k := range keys {
		vals = append(vals, c.entries[k])
	}
	return keys, vals
}

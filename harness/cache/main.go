// Trace-refinement + judge harness for C20 (cache.get / cache.once). Built INTO the repo's module with
// `go build -overlay -tags verif` as package github.com/pgavlin/dawn/cmd/verif_cache; not part of /repo.
//
// Real goroutines call the real Starlark builtin  Cache().once(key, fn)  on one shared cache value. The
// verifPoint call sites in cache.go report to this file's hook, which either
//   - serialises the goroutines (controlled mode): a goroutine parks at the points *outside* the critical
//     sections (before RLock, before Lock) and at the start of the callable (which runs user code while the
//     writer lock is held); the controller resumes exactly one parked goroutine whose next lock operation
//     cannot block (it tracks the lock state from the observed events), so every schedule is deterministic
//     and replayable; schedules are enumerated exhaustively, or drawn at random / PCT-style from -seed; or
//   - only logs (free-running stress mode): events are logged from inside the critical sections, so the log
//     order is a linearisation of what happened.
//
// Every trace is printed for step-by-step validation against the Lean model (drv_cache), and judged here by the
// property's own predicate (calls per key among successes <= 1, same value, failure caches nothing, retry).
//
// Output, one record per line, tab separated:
//
//	C <stream> <driver input> <Go's canonical answer>
//	V <json>   violation found by the judge (contains "input")
//	S <json>   statistics
package main

import (
	"bufio"
	"bytes"
	"encoding/json"
	"flag"
	"fmt"
	"os"
	"regexp"
	"runtime"
	"sort"
	"strconv"
	"strings"
	"sync"
	"time"

	dawn "github.com/pgavlin/dawn"
	"github.com/pgavlin/dawn/label"
	"go.starlark.net/starlark"
)

// ---------------------------------------------------------------- PRNG (all randomness derives from -seed)
type rng struct{ s uint64 }

func (r *rng) next() uint64 {
	r.s += 0x9E3779B97F4A7C15
	z := r.s
	z = (z ^ (z >> 30)) * 0xBF58476D1CE4E5B9
	z = (z ^ (z >> 27)) * 0x94D049BB133111EB
	return z ^ (z >> 31)
}
func (r *rng) below(n int) int { return int(r.next() % uint64(n)) }

// ---------------------------------------------------------------- caller programs
type op struct {
	key  int
	fail bool
	val  int // value the callable returns when it succeeds (kind 0), and the identity of the op in traces
	// what kind of Starlark value a succeeding callable returns: 0 = the int `val` (all streams whose traces go to the
	// model); 1.. = None, False, 0, "", (), [], a fresh non-empty list, 1, "v<key>" (hook-free judge stream)
	kind int
}

const nKinds = 9

// the value a succeeding callable returns
func (o op) value() starlark.Value {
	switch o.kind {
	case 1:
		return starlark.None
	case 2:
		return starlark.False
	case 3:
		return starlark.MakeInt(0)
	case 4:
		return starlark.String("")
	case 5:
		return starlark.Tuple{}
	case 6:
		return starlark.NewList(nil)
	case 7:
		return starlark.NewList([]starlark.Value{starlark.MakeInt(o.val)})
	case 8:
		return starlark.MakeInt(1)
	case 9:
		return starlark.String(fmt.Sprintf("v%d", o.key))
	}
	return starlark.MakeInt(o.val)
}

// "the same value": the very object for mutable values, equality otherwise
func sameValue(a, b starlark.Value) bool {
	if a == nil || b == nil {
		return a == nil && b == nil
	}
	la, oka := a.(*starlark.List)
	lb, okb := b.(*starlark.List)
	if oka || okb {
		return oka && okb && la == lb
	}
	eq, err := starlark.Equal(a, b)
	return err == nil && eq
}

func showValue(v starlark.Value) string {
	if v == nil {
		return "<nil>"
	}
	if l, ok := v.(*starlark.List); ok {
		return fmt.Sprintf("%s@%p", l.String(), l)
	}
	return v.String()
}

type config [][]op

// Several caches may be in play: an op's `key` is cacheIndex*cacheStride + the key proper, so everything that is
// counted or judged per key is counted and judged per (cache, key). Streams with a single cache use index 0.
const cacheStride = 1000000

func keyName(k int) string { return fmt.Sprintf("k%d", k%cacheStride) }
func cacheIdx(k int) int   { return k / cacheStride }

func (c config) nCaches() int {
	n := 1
	for _, p := range c {
		for _, o := range p {
			if cacheIdx(o.key)+1 > n {
				n = cacheIdx(o.key) + 1
			}
		}
	}
	return n
}

// a sequence too long to print: `manykeys:<n>` is n distinct keys computed one after the other in one cache, then a
// sample of the early keys asked for again
func manyKeysConfig(n int) config {
	var p []op
	for k := 0; k < n; k++ {
		p = append(p, op{key: k, val: k + 1})
	}
	for i := 0; i < 60; i++ {
		k := (i * 37) % 1500
		if i >= 30 {
			k = (n / 2) + i
		}
		if k < n {
			p = append(p, op{key: k, val: 10*n + i})
		}
	}
	return config{p}
}

func (c config) String() string {
	if len(c) == 1 && len(c[0]) > 2000 {
		n := 0
		for _, o := range c[0] {
			if o.key+1 > n {
				n = o.key + 1
			}
		}
		return fmt.Sprintf("manykeys:%d", n)
	}
	var ts []string
	for _, p := range c {
		if len(p) == 0 {
			ts = append(ts, "-")
			continue
		}
		var os []string
		for _, o := range p {
			if o.fail {
				os = append(os, fmt.Sprintf("%d:f", o.key))
			} else if o.kind != 0 {
				os = append(os, fmt.Sprintf("%d:%d@%d", o.key, o.val, o.kind))
			} else {
				os = append(os, fmt.Sprintf("%d:%d", o.key, o.val))
			}
		}
		ts = append(ts, strings.Join(os, ","))
	}
	return strings.Join(ts, ";")
}

func parseConfig(s string) (config, error) {
	if strings.HasPrefix(s, "manykeys:") {
		n, err := strconv.Atoi(strings.TrimPrefix(s, "manykeys:"))
		if err != nil {
			return nil, err
		}
		return manyKeysConfig(n), nil
	}
	var c config
	for _, t := range strings.Split(s, ";") {
		var p []op
		if t != "-" {
			for _, o := range strings.Split(t, ",") {
				kv := strings.Split(o, ":")
				if len(kv) != 2 {
					return nil, fmt.Errorf("bad op %q", o)
				}
				k, err := strconv.Atoi(kv[0])
				if err != nil {
					return nil, err
				}
				if kv[1] == "f" {
					p = append(p, op{key: k, fail: true})
				} else {
					vk := strings.Split(kv[1], "@")
					v, err := strconv.Atoi(vk[0])
					if err != nil {
						return nil, err
					}
					kind := 0
					if len(vk) == 2 {
						if kind, err = strconv.Atoi(vk[1]); err != nil {
							return nil, err
						}
					}
					p = append(p, op{key: k, val: v, kind: kind})
				}
			}
		}
		c = append(c, p)
	}
	return c, nil
}

// give every op its own value so that "same value" is observable
func (c config) number() config {
	for t := range c {
		for i := range c[t] {
			c[t][i].val = (t+1)*10 + i
		}
	}
	return c
}

func (c config) keys() []int {
	m := map[int]bool{}
	for _, p := range c {
		for _, o := range p {
			m[o.key] = true
		}
	}
	var ks []int
	for k := range m {
		ks = append(ks, k)
	}
	sort.Ints(ks)
	return ks
}

// ---------------------------------------------------------------- controller
func gid() int64 {
	var buf [64]byte
	n := runtime.Stack(buf[:], false)
	f := bytes.Fields(buf[:n])
	id, _ := strconv.ParseInt(string(f[1]), 10, 64)
	return id
}

type thr struct {
	id     int
	resume chan struct{}
	at     string // where it is parked: begin | rlock | lock | call | done
}

type parkMsg struct {
	t  *thr
	at string
}

type run struct {
	mu         sync.Mutex
	controlled bool
	byGid      map[int64]*thr
	parked     chan parkMsg
	log        []string
	running    *thr // controlled mode: the goroutine that was resumed last
	// lock state as observed (controlled mode)
	writer bool
	// judge observations
	okCalls   map[int][]int            // key -> values returned by successful callable invocations
	okVals    map[int][]starlark.Value // the same, as the Starlark values handed out
	failCalls map[int]int
	rets      []ret
}

type ret struct {
	tid, key int
	v        starlark.Value // what once returned
	val      int
	err      bool
	invoked  bool // this op's own callable ran
}

var cur *run

func (r *run) me() *thr {
	if r.controlled {
		// exactly one caller goroutine runs at a time, the one the controller resumed
		return r.running
	}
	g := gid()
	r.mu.Lock()
	defer r.mu.Unlock()
	return r.byGid[g]
}

func (r *run) emit(t *thr, s string) {
	r.mu.Lock()
	r.log = append(r.log, fmt.Sprintf("%d.%s", t.id, s))
	r.mu.Unlock()
}

func (r *run) yield(t *thr, at string) {
	if !r.controlled {
		return
	}
	r.parked <- parkMsg{t, at}
	<-t.resume
}

// the hook behind every verifPoint in cache.go
func hook(name string, arg any) {
	r := cur
	if r == nil {
		return
	}
	t := r.me()
	if t == nil {
		return
	}
	switch name {
	case "cache.rlock":
		r.yield(t, "rlock")
	case "cache.read":
		if arg.(bool) {
			r.emit(t, "read.h") // value appended by the caller (it is the return value of once)
		} else {
			r.emit(t, "read.m")
		}
	case "cache.lock":
		r.yield(t, "lock")
	case "cache.locked":
		r.mu.Lock()
		r.writer = true
		r.mu.Unlock()
		r.emit(t, "locked")
	case "cache.recheck":
		if arg.(bool) {
			r.emit(t, "recheck.h")
		} else {
			r.emit(t, "recheck.m")
		}
	case "cache.fail":
	case "cache.store":
		r.emit(t, "store")
	case "cache.unlock":
		r.emit(t, "unlock")
		r.mu.Lock()
		r.writer = false
		r.mu.Unlock()
	}
}

const snippet = `
def fn():
    return probe()
v = cache.once(KEY, fn)
`

var snippetProg = func() *starlark.Program {
	_, p, err := starlark.SourceProgram("op.star", snippet, func(name string) bool {
		return name == "cache" || name == "KEY" || name == "probe"
	})
	if err != nil {
		panic(err)
	}
	return p
}()

// one caller goroutine: its ops, each through the real Starlark builtin
func (r *run) caller(t *thr, prog []op, caches []starlark.Value) {
	// one Starlark thread per caller for all its calls, as a module or a target body has
	th := &starlark.Thread{Name: fmt.Sprintf("caller%d", t.id)}
	if !r.controlled {
		g := gid()
		r.mu.Lock()
		r.byGid[g] = t
		r.mu.Unlock()
	}
	r.yield(t, "begin")
	for _, o := range prog {
		o := o
		invoked := false
		probe := starlark.NewBuiltin("probe", func(th *starlark.Thread, b *starlark.Builtin, args starlark.Tuple, kwargs []starlark.Tuple) (starlark.Value, error) {
			// user code running inside the critical section: a scheduling point
			r.yield(t, "call")
			invoked = true
			var produced starlark.Value
			r.mu.Lock()
			if o.fail {
				r.failCalls[o.key]++
			} else {
				produced = o.value()
				r.okCalls[o.key] = append(r.okCalls[o.key], o.val)
				r.okVals[o.key] = append(r.okVals[o.key], produced)
			}
			r.mu.Unlock()
			if o.fail {
				r.emit(t, "callfail")
				return nil, fmt.Errorf("callable failed")
			}
			r.emit(t, fmt.Sprintf("callok.%d", o.val))
			return produced, nil
		})
		g, err := snippetProg.Init(th, starlark.StringDict{
			"cache": caches[cacheIdx(o.key)], "KEY": starlark.String(keyName(o.key)), "probe": probe})
		rt := ret{tid: t.id, key: o.key, invoked: invoked}
		r.mu.Lock()
		if err != nil {
			rt.err = true
			r.log = append(r.log, fmt.Sprintf("%d.ret.e", t.id))
		} else {
			n, _ := starlark.AsInt32(g["v"])
			rt.val = n
			rt.v = g["v"]
			// fill in the value of the hit events of this op (the read/recheck hooks do not see the value)
			p := fmt.Sprintf("%d.", t.id)
			for i := len(r.log) - 1; i >= 0; i-- {
				if strings.HasPrefix(r.log[i], p) {
					if strings.HasSuffix(r.log[i], ".h") {
						r.log[i] += strconv.Itoa(n)
					}
					if strings.HasPrefix(r.log[i], p+"ret.") {
						break
					}
				}
			}
			r.log = append(r.log, fmt.Sprintf("%d.ret.%d", t.id, n))
		}
		// the return is logged and recorded in one step, so the judge's list is in log order
		r.rets = append(r.rets, rt)
		r.mu.Unlock()
	}
	if r.controlled {
		r.parked <- parkMsg{t, "done"}
	}
}

type chooser func(enabled []int, step int) int

type result struct {
	outcome  string // done | DEADLOCK | HANG
	choices  []int  // index chosen among the enabled threads (sorted by id) at each step
	nEnabled []int
	trace    []string
	final    string
	byThread string
	caches   []starlark.Value
	r        *run
	probes   map[int]keyProbe // one more sequential once(key, …) per key after the run, through the public builtin only
}

// what one more call once(key, callable returning 999) on the same cache does after the run
type keyProbe struct {
	invoked bool           // its callable ran: the key was absent
	val     int            // the value it returned (as int, for the traces)
	v       starlark.Value // the value it returned
	err     string         // it returned an error (a later call must never inherit an earlier failure)
	hung    bool           // it never returned: the cache is wedged
}

const probeTimeout = 15 * time.Second

func probeKeys(c config, caches []starlark.Value) map[int]keyProbe {
	probeThread := &starlark.Thread{Name: "probe"} // one thread for all probes, like a body that asks several caches
	ps := map[int]keyProbe{}
	for _, k := range c.keys() {
		ch := make(chan keyProbe, 1)
		go func(k int) {
			kp := keyProbe{}
			probe := starlark.NewBuiltin("probe", func(th *starlark.Thread, b *starlark.Builtin, args starlark.Tuple, kwargs []starlark.Tuple) (starlark.Value, error) {
				kp.invoked = true
				return starlark.MakeInt(999), nil
			})
			g, err := snippetProg.Init(probeThread, starlark.StringDict{
				"cache": caches[cacheIdx(k)], "KEY": starlark.String(keyName(k)), "probe": probe})
			if err != nil {
				kp.err = err.Error()
			} else {
				kp.v = g["v"]
				kp.val, _ = starlark.AsInt32(g["v"])
			}
			ch <- kp
		}(k)
		select {
		case kp := <-ch:
			ps[k] = kp
		case <-time.After(probeTimeout):
			// late: wedged, unless the machine starved us
			select {
			case kp := <-ch:
				ps[k] = kp
			case <-time.After(probeTimeout):
				ps[k] = keyProbe{hung: true}
				return ps // the cache is abandoned (with the goroutine stuck in it)
			}
		}
	}
	return ps
}

// freezeCaches: the caches of the following runs are frozen before use, as Starlark freezes a module-level
// `cache = Cache()` when the module finishes loading — target bodies only ever see frozen caches
var freezeCaches = false

func newCache() starlark.Value {
	th := &starlark.Thread{Name: "main"}
	c, err := starlark.Call(th, dawn.VerifCacheBuiltin, nil, nil)
	if err != nil {
		panic(err)
	}
	if freezeCaches {
		c.Freeze()
	}
	return c
}

func newCaches(c config) []starlark.Value {
	var cs []starlark.Value
	for i := 0; i < c.nCaches(); i++ {
		cs = append(cs, newCache())
	}
	return cs
}

func newRun(controlled bool) *run {
	return &run{controlled: controlled, byGid: map[int64]*thr{}, parked: make(chan parkMsg, 64),
		okCalls: map[int][]int{}, okVals: map[int][]starlark.Value{}, failCalls: map[int]int{}}
}

const stepWatchdog = 60 * time.Second

// runControlled executes the caller programs under a schedule chosen step by step by choose.
func runControlled(c config, choose chooser) *result {
	r := newRun(true)
	cur = r
	cache := newCaches(c)
	ths := make([]*thr, len(c))
	for i := range c {
		ths[i] = &thr{id: i, resume: make(chan struct{})}
		go r.caller(ths[i], c[i], cache)
	}
	res := &result{caches: cache, r: r}
	wait := func() bool {
		select {
		case m := <-r.parked:
			m.t.at = m.at
			return true
		case <-time.After(stepWatchdog):
			return false
		}
	}
	for range c {
		if !wait() {
			res.outcome = "HANG"
			return res
		}
	}
	for step := 0; ; step++ {
		var enabled []int
		alldone := true
		for _, t := range ths {
			if t.at != "done" {
				alldone = false
			}
			switch t.at {
			case "begin", "call":
				enabled = append(enabled, t.id)
			case "rlock", "lock":
				// no reader is ever parked inside its critical section, so only the writer flag matters
				if !r.writer {
					enabled = append(enabled, t.id)
				}
			}
		}
		if alldone {
			res.outcome = "done"
			break
		}
		if len(enabled) == 0 {
			res.outcome = "DEADLOCK"
			break
		}
		k := choose(enabled, step)
		res.choices = append(res.choices, k)
		res.nEnabled = append(res.nEnabled, len(enabled))
		t := ths[enabled[k]]
		t.at = "running"
		r.running = t
		t.resume <- struct{}{}
		if !wait() {
			res.outcome = "HANG"
			break
		}
	}
	cur = nil
	res.finish(c)
	return res
}

// runFree lets the callers run truly concurrently; the hook only logs.
func runFree(c config) *result { return runFreeT(c, 60*time.Second) }

// runNoHook: free-running with the hook disabled altogether - nothing of the verifPoint protocol is relied upon
func runNoHook(c config, timeout time.Duration) *result {
	saved := dawn.VerifHook
	dawn.VerifHook = nil
	defer func() { dawn.VerifHook = saved }()
	return runFreeT(c, timeout)
}

// the same on a cache that was frozen first
func runNoHookFrozen(c config, timeout time.Duration) *result {
	freezeCaches = true
	defer func() { freezeCaches = false }()
	return runNoHook(c, timeout)
}

func runFreeT(c config, timeout time.Duration) *result {
	r := newRun(false)
	cur = r
	cache := newCaches(c)
	var wg sync.WaitGroup
	start := make(chan struct{})
	for i := range c {
		wg.Add(1)
		t := &thr{id: i}
		go func(i int) {
			defer wg.Done()
			<-start
			r.caller(t, c[i], cache)
		}(i)
	}
	close(start)
	done := make(chan struct{})
	go func() { wg.Wait(); close(done) }()
	res := &result{caches: cache, r: r, outcome: "done"}
	select {
	case <-done:
	case <-time.After(timeout):
		// late: a hang, unless the machine starved us - give the callers one more period
		select {
		case <-done:
		case <-time.After(timeout):
			res.outcome = "HANG"
		}
	}
	cur = nil
	res.finish(c)
	return res
}

func commaJoin(xs []string) string {
	if len(xs) == 0 {
		return "-"
	}
	return strings.Join(xs, ",")
}

func (res *result) finish(c config) {
	r := res.r
	r.mu.Lock()
	defer r.mu.Unlock()
	res.trace = append([]string{}, r.log...)
	if res.outcome != "done" {
		return
	}
	// the cache's content is observed through the builtin itself (no access to the representation): a later call
	// that does not invoke its callable returns what is cached
	r.mu.Unlock()
	res.probes = probeKeys(c, res.caches)
	r.mu.Lock()
	for _, kp := range res.probes {
		if kp.hung {
			res.outcome = "HANG-AFTERWARDS"
			return
		}
	}
	var e, ok, fl, rs, rt []string
	for _, k := range c.keys() {
		if kp := res.probes[k]; kp.err != "" {
			e = append(e, fmt.Sprintf("%d:E", k))
		} else if !kp.invoked {
			e = append(e, fmt.Sprintf("%d:%d", k, kp.val))
		}
		ok = append(ok, fmt.Sprintf("%d:%d", k, len(r.okCalls[k])))
		fl = append(fl, fmt.Sprintf("%d:%d", k, r.failCalls[k]))
	}
	show := func(x ret) string {
		if x.err {
			return fmt.Sprintf("%d:%d:e", x.tid, x.key)
		}
		return fmt.Sprintf("%d:%d:%d", x.tid, x.key, x.val)
	}
	for _, x := range r.rets {
		rs = append(rs, show(x))
	}
	for t := range c {
		for _, x := range r.rets {
			if x.tid == t {
				rt = append(rt, show(x))
			}
		}
	}
	res.final = fmt.Sprintf("e=%s ok=%s fail=%s r=%s done", commaJoin(e), commaJoin(ok), commaJoin(fl), commaJoin(rs))
	res.byThread = fmt.Sprintf("e=%s ok=%s fail=%s r=%s done", commaJoin(e), commaJoin(ok), commaJoin(fl), commaJoin(rt))
}

// ---------------------------------------------------------------- the judge (the property's own predicate)
var keyRe = regexp.MustCompile(`key \d+`)

var hangsFound = 0 // real hangs (confirmed without hooks); after a few the remaining streams are pointless

var (
	out   = bufio.NewWriterSize(os.Stdout, 1<<20)
	stats = map[string]int{}
	nviol = 0
)

func violation(kind string, c config, res *result, detail string, mode string) {
	nviol++
	stats["violations"]++
	if nviol > 10 {
		return
	}
	// keys at or above cacheStride are (cache, key) pairs
	detail = keyRe.ReplaceAllStringFunc(detail, func(m string) string {
		n, _ := strconv.Atoi(strings.TrimPrefix(m, "key "))
		if n >= cacheStride {
			return fmt.Sprintf("key %d of cache #%d (op key %d)", n%cacheStride, n/cacheStride, n)
		}
		return m
	})
	in := map[string]any{"progs": c.String(), "mode": mode, "schedule": res.choices}
	tr := strings.Join(res.trace, ",")
	if len(tr) > 4000 {
		tr = "…" + tr[len(tr)-4000:]
	}
	b, _ := json.Marshal(map[string]any{"kind": kind, "detail": detail, "trace": tr, "input": in})
	fmt.Fprintf(out, "V\t%s\n", b)
	out.Flush()
}

func judge(c config, res *result, mode string) {
	stats["judged_runs"]++
	if res.outcome != "done" {
		if mode == "sched" && res.outcome != "HANG-AFTERWARDS" {
			// the controller lost track of the goroutines. Is it the code that hangs, or the hook protocol that no longer
			// matches the code? Run the same callers without any hook: if they finish, the controller derailed — that is a
			// broken correspondence (reported by the check), not a failing input.
			hung := false
			for i := 0; i < 20 && !hung; i++ {
				if nh := runNoHook(c, 10*time.Second); nh.outcome != "done" {
					hung = true
				} else {
					judge(c, nh, "nohook")
				}
			}
			if !hung {
				stats["controller_derailed"]++
				return
			}
			mode = "nohook"
		}
		detail := res.outcome + ": callers did not finish"
		if res.outcome == "HANG-AFTERWARDS" {
			detail = "HANG-AFTERWARDS: the callers finished, but one more once() on the same cache never returns (the cache is wedged)"
		}
		violation("hang", c, res, detail, mode)
		hangsFound++
		return
	}
	r := res.r
	for _, k := range c.keys() {
		if len(r.okCalls[k]) > 1 {
			violation("computed-twice", c, res, fmt.Sprintf("key %d: %d successful invocations %v", k, len(r.okCalls[k]), r.okCalls[k]), mode)
		}
	}
	// per thread: has an earlier call of this thread for the key failed? (then "a later call may retry" applies to it)
	for _, x := range r.rets {
		if x.err {
			stats["error_returns"]++
			if !x.invoked {
				violation("error-without-failing-call", c, res, fmt.Sprintf("thread %d key %d: once returned an error although its own callable was not invoked (an earlier failure was cached)", x.tid, x.key), mode)
			}
			continue
		}
		stats["value_returns"]++
		if !x.invoked {
			stats["cached_returns"]++
		}
		if len(r.okVals[x.key]) == 0 || !sameValue(r.okVals[x.key][0], x.v) {
			violation("different-value", c, res, fmt.Sprintf("thread %d got %s for key %d; successful invocations returned: %v", x.tid, showValue(x.v), x.key, r.okVals[x.key]), mode)
		}
	}
	// retry / reuse: the one more sequential call per key made after the run
	for _, k := range c.keys() {
		kp := res.probes[k]
		if kp.err != "" {
			violation("later-call-fails", c, res, fmt.Sprintf("key %d: a later once with a succeeding callable returned an error: %s", k, kp.err), mode)
			continue
		}
		if len(r.okCalls[k]) == 0 {
			stats["retries_after_only_failures"]++
			if !kp.invoked || kp.val != 999 {
				violation("retry-impossible", c, res, fmt.Sprintf("key %d: every invocation failed, yet a later call did not invoke its callable (got %d)", k, kp.val), mode)
			}
		} else {
			stats["reuse_probes"]++
			if kp.invoked || !sameValue(kp.v, r.okVals[k][0]) {
				violation("recomputed-later", c, res, fmt.Sprintf("key %d: a callable succeeded with %s, yet a later call invoked=%v got %s", k, showValue(r.okVals[k][0]), kp.invoked, showValue(kp.v)), mode)
			}
		}
	}
}

func emitTrace(stream string, c config, res *result) {
	if res.outcome != "done" {
		return
	}
	fmt.Fprintf(out, "C\t%s\ttrace %s %s\tok %s\n", stream, c.String(), commaJoin(res.trace), res.final)
	stats["traces_"+stream]++
}

// ---------------------------------------------------------------- exploration
func randomSched(c config, r *rng) *result {
	return runControlled(c, func(enabled []int, step int) int { return r.below(len(enabled)) })
}

// PCT-style: random thread priorities, d priority-change points
func pctSched(c config, r *rng, d int) *result {
	n := len(c)
	prio := make([]int, n)
	for i := range prio {
		prio[i] = i + d
	}
	for i := n - 1; i > 0; i-- {
		j := r.below(i + 1)
		prio[i], prio[j] = prio[j], prio[i]
	}
	change := map[int]int{}
	for i := 0; i < d; i++ {
		change[r.below(12*n)] = d - 1 - i
	}
	return runControlled(c, func(enabled []int, step int) int {
		best := 0
		for i, t := range enabled {
			if prio[t] > prio[enabled[best]] {
				best = i
			}
		}
		if p, ok := change[step]; ok {
			prio[enabled[best]] = p
			best = 0
			for i, t := range enabled {
				if prio[t] > prio[enabled[best]] {
					best = i
				}
			}
		}
		return best
	})
}

func progsOfLen(nkeys, maxLen int) [][]op {
	var outp [][]op
	var rec func(p []op)
	rec = func(p []op) {
		if len(p) > 0 {
			outp = append(outp, append([]op{}, p...))
		}
		if len(p) == maxLen {
			return
		}
		for k := 0; k < nkeys; k++ {
			for _, f := range []bool{false, true} {
				rec(append(p, op{key: k, fail: f}))
			}
		}
	}
	rec(nil)
	return outp
}

func randomConfig(r *rng, maxThreads, maxOps, nkeys int) config {
	n := 1 + r.below(maxThreads)
	c := make(config, n)
	for t := range c {
		l := 1 + r.below(maxOps)
		for i := 0; i < l; i++ {
			c[t] = append(c[t], op{key: r.below(nkeys), fail: r.below(5) < 2})
		}
	}
	return c.number()
}

func copyConfig(ps ...[]op) config {
	c := make(config, len(ps))
	for i, p := range ps {
		c[i] = append([]op{}, p...)
	}
	return c.number()
}

func reentrantObservation() bool {
	// once(k0, fn) where fn calls cache.once(k1, …) on the same cache: Lock while holding Lock. Not an interleaving;
	// recorded as an observation. The goroutine is abandoned (the cache is private to this probe).
	cache := newCache()
	done := make(chan struct{})
	go func() {
		src := "def inner():\n    return 1\ndef fn():\n    return cache.once('k1', inner)\nv = cache.once('k0', fn)\n"
		starlark.ExecFile(&starlark.Thread{Name: "reentrant"}, "re.star", src, starlark.StringDict{"cache": cache})
		close(done)
	}()
	select {
	case <-done:
		return false
	case <-time.After(300 * time.Millisecond):
		return true
	}
}

func main() {
	seed := flag.Uint64("seed", 1, "")
	tier := flag.String("tier", "quick", "")
	replay := flag.String("replay", "", `json {"progs": …, "mode": "sched"|"free", "schedule": [choice indices]}`)
	flag.Parse()
	defer out.Flush()
	dawn.VerifHook = hook

	if *replay != "" {
		var in struct {
			Progs    string `json:"progs"`
			Mode     string `json:"mode"`
			Schedule []int  `json:"schedule"`
		}
		if err := json.Unmarshal([]byte(*replay), &in); err != nil {
			fmt.Fprintln(os.Stderr, err)
			os.Exit(2)
		}
		var c config
		var err error
		if in.Mode != "project" {
			c, err = parseConfig(in.Progs)
		}
		if err != nil {
			fmt.Fprintln(os.Stderr, err)
			os.Exit(2)
		}
		if in.Mode == "project" {
			replayProject(in.Progs)
		} else if in.Mode == "nohook" || in.Mode == "nohook-frozen" {
			reps := 2000
			if strings.HasPrefix(in.Progs, "manykeys:") {
				reps = 3
			}
			for i := 0; i < reps && nviol == 0; i++ {
				if in.Mode == "nohook-frozen" {
					judge(c, runNoHookFrozen(c, 10*time.Second), in.Mode)
				} else {
					judge(c, runNoHook(c, 10*time.Second), in.Mode)
				}
			}
			fmt.Fprintf(out, "# nohook replay: %d runs judged, %d violations\n", stats["judged_runs"], nviol)
		} else if in.Mode == "free" {
			for i := 0; i < 2000 && nviol == 0; i++ {
				res := runFree(c)
				judge(c, res, "free")
				if i == 0 || nviol > 0 {
					emitTrace("cache.stress", c, res)
				}
			}
		} else {
			res := runControlled(c, func(enabled []int, step int) int {
				if step < len(in.Schedule) && in.Schedule[step] < len(enabled) {
					return in.Schedule[step]
				}
				return 0
			})
			judge(c, res, "sched")
			emitTrace("cache.sched", c, res)
			fmt.Fprintf(out, "# outcome %s trace %s\n", res.outcome, strings.Join(res.trace, ","))
		}
		return
	}

	thorough := *tier == "thorough"
	r := &rng{*seed}

	// 0. hook-free judge: the real builtin with VerifHook unset, nothing but the public API is relied upon, so this
	// stream survives any refactoring of cache.go. (i) every sequential call sequence up to length 4 over 2 keys with
	// ok/fail callables, (ii) free-running concurrent callers.
	tn := time.Now()
	seqs := progsOfLen(2, 4)
	sort.SliceStable(seqs, func(i, j int) bool { return len(seqs[i]) < len(seqs[j]) }) // shortest failing sequence first
	// each sequence runs in its own goroutine on a fresh cache under a timeout; a wedged cache is abandoned
	for _, p := range seqs {
		// succeeding callables return every kind of value: ints, None, False, 0, "", (), [], a fresh list, 1, "v<key>"
		for k0 := 0; k0 <= nKinds && hangsFound < 3; k0++ {
			c := copyConfig(p)
			nOk := 0
			for i := range c[0] {
				if !c[0][i].fail {
					if k0 > 0 {
						c[0][i].kind = 1 + (k0-1+nOk)%nKinds
					}
					nOk++
				}
			}
			if k0 > 0 && nOk == 0 {
				break
			}
			res := runNoHook(c, 2*time.Second)
			stats["nohook_sequential"]++
			judge(c, res, "nohook")
			// … and on a frozen cache (what every target body sees of a module-level cache)
			if k0 <= 1 {
				res = runNoHookFrozen(c, 2*time.Second)
				stats["nohook_sequential_frozen"]++
				judge(c, res, "nohook-frozen")
			}
		}
	}
	// two caches sharing key names, asked by one thread (two module-level Cache() objects, or Cache() in two modules):
	// every sequence up to length 3 over 2 caches x 2 keys x ok/fail, and up to length 4 over 2 caches x 1 key
	multi := func(nkeys, maxLen int) {
		var rec func(p []op)
		rec = func(p []op) {
			if len(p) > 0 && hangsFound < 3 {
				c := copyConfig(p)
				stats["nohook_sequential_multicache"]++
				judge(c, runNoHook(c, 2*time.Second), "nohook")
			}
			if len(p) == maxLen {
				return
			}
			for ci := 0; ci < 2; ci++ {
				for k := 0; k < nkeys; k++ {
					for _, f := range []bool{false, true} {
						rec(append(append([]op{}, p...), op{key: ci*cacheStride + k, fail: f}))
					}
				}
			}
		}
		rec(nil)
	}
	multi(2, 3)
	multi(1, 4)
	// many keys in one cache: nothing is ever forgotten
	for _, n := range []int{5000, 70000} {
		if hangsFound >= 3 {
			break
		}
		c := manyKeysConfig(n)
		stats["nohook_manykeys_ops"] += len(c[0])
		judge(c, runNoHook(c, 60*time.Second), "nohook")
	}
	nNoHook := 3000
	if thorough {
		nNoHook = 60000
	}
	for i := 0; i < nNoHook && hangsFound < 3; i++ {
		c := randomConfig(r, 8, 4, 3)
		if i%4 == 0 {
			// up to three caches sharing the key names
			for t := range c {
				for j := range c[t] {
					c[t][j].key += r.below(3) * cacheStride
				}
			}
			stats["nohook_concurrent_multicache"]++
		}
		if i%2 == 1 {
			for t := range c {
				for j := range c[t] {
					c[t][j].kind = r.below(nKinds + 1)
				}
			}
		}
		if i%3 == 2 {
			res := runNoHookFrozen(c, 10*time.Second)
			stats["nohook_concurrent_frozen"]++
			judge(c, res, "nohook-frozen")
			continue
		}
		res := runNoHook(c, 10*time.Second)
		stats["nohook_concurrent"]++
		judge(c, res, "nohook")
	}
	projectStream(r, thorough)
	stats["nohook_ms"] = int(time.Since(tn).Milliseconds())
	out.Flush()
	if hangsFound > 0 {
		// once() hangs for real (confirmed without any hook): the remaining streams would only hang as well
		stats["streams_skipped_after_hang"] = 1
		sb, _ := json.Marshal(stats)
		fmt.Fprintf(out, "S\t%s\n", sb)
		return
	}

	t0 := time.Now()
	// controlled mode runs one goroutine at a time: a single P makes the hand-offs cheap
	ncpu := runtime.GOMAXPROCS(1)

	// 1. exhaustive: every interleaving, <=3 callers x <=2 keys x ok/fail callables, one call per caller
	one := progsOfLen(2, 1)
	var cfgs []config
	for _, a := range one {
		cfgs = append(cfgs, copyConfig(a))
		for _, b := range one {
			cfgs = append(cfgs, copyConfig(a, b))
			for _, d := range one {
				cfgs = append(cfgs, copyConfig(a, b, d))
			}
		}
	}
	// callers that make two calls (fail then retry, hit after compute …): all programs for <=2 callers
	two := progsOfLen(2, 2)
	for ai, a := range two {
		if len(a) == 2 {
			cfgs = append(cfgs, copyConfig(a))
		}
		for bi, b := range two {
			if len(a) == 2 || len(b) == 2 {
				// quick tier: of the pairs in which BOTH callers make two calls (the expensive ones) every second one,
				// alternating with the seed; thorough: all
				if !thorough && len(a) == 2 && len(b) == 2 && (ai+bi+int(*seed))%2 == 1 {
					continue
				}
				cfgs = append(cfgs, copyConfig(a, b))
			}
		}
	}
	maxPer := 3000
	traceEvery := 7
	if thorough {
		maxPer = 30000
		traceEvery = 23
		// three callers with up to two calls each: a seeded sample of configurations, every interleaving of each
		// (up to maxPer schedules; configurations cut short are counted in configs_truncated)
		for i := 0; i < 60; i++ {
			cfgs = append(cfgs, copyConfig(two[r.below(len(two))], two[r.below(len(two))], two[r.below(len(two))]))
		}
	}
	for ci, c := range cfgs {
		if stats["controller_derailed"] >= 3 {
			stats["configs_skipped_controller_derailed"]++
			continue
		}
		before := stats["schedules_exhaustive"]
		_, complete, finals := exhaustiveSampled(c, maxPer, traceEvery, ci)
		if complete {
			stats["configs_all_interleavings"]++
			var fs []string
			for f := range finals {
				fs = append(fs, f)
			}
			sort.Strings(fs)
			fmt.Fprintf(out, "C\tcache.outcomes\toutcomes %s\tok %s\n", c.String(), strings.Join(fs, "|"))
		} else {
			stats["configs_truncated"]++
		}
		k := fmt.Sprintf("configs_%d_callers", len(c))
		stats[k]++
		if d := stats["schedules_exhaustive"] - before; d > stats["max_schedules_one_config"] {
			stats["max_schedules_one_config"] = d
		}
	}
	stats["exhaustive_ms"] = int(time.Since(t0).Milliseconds())

	// 2. random and PCT schedules on larger configurations (<=4 callers x <=3 calls x <=3 keys)
	t1 := time.Now()
	nRand := 1500
	if thorough {
		nRand = 40000
	}
	for i := 0; i < nRand && stats["controller_derailed"] < 3; i++ {
		c := randomConfig(r, 4, 3, 3)
		var res *result
		if i%2 == 0 {
			res = randomSched(c, r)
			stats["schedules_random"]++
		} else {
			res = pctSched(c, r, 1+r.below(3))
			stats["schedules_pct"]++
		}
		judge(c, res, "sched")
		emitTrace("cache.sched", c, res)
	}
	stats["random_ms"] = int(time.Since(t1).Milliseconds())

	// 3. free-running stress: real concurrency, no controller; the log is validated against the model
	runtime.GOMAXPROCS(ncpu)
	t2 := time.Now()
	nFree := 1500
	if thorough {
		nFree = 40000
	}
	for i := 0; i < nFree; i++ {
		c := randomConfig(r, 8, 4, 3)
		res := runFree(c)
		stats["runs_free"]++
		judge(c, res, "free")
		emitTrace("cache.stress", c, res)
	}
	stats["free_ms"] = int(time.Since(t2).Milliseconds())

	if reentrantObservation() {
		stats["observation_reentrant_once_self_deadlocks"] = 1
	} else {
		stats["observation_reentrant_once_self_deadlocks"] = 0
	}
	b, _ := json.Marshal(stats)
	fmt.Fprintf(out, "S\t%s\n", b)
}

// exhaustiveSampled: every interleaving is executed and judged; every traceEvery-th trace (offset by the
// configuration index) is also printed for validation against the model.
func exhaustiveSampled(c config, max, traceEvery, ci int) (int, bool, map[string]bool) {
	finals := map[string]bool{}
	var prefix []int
	n := 0
	for {
		res := runControlled(c, func(enabled []int, step int) int {
			if step < len(prefix) {
				return prefix[step]
			}
			return 0
		})
		n++
		stats["schedules_exhaustive"]++
		judge(c, res, "sched")
		if (n+ci)%traceEvery == 0 || n == 1 {
			emitTrace("cache.sched", c, res)
		}
		if res.outcome != "done" {
			return n, false, finals
		}
		finals[res.byThread] = true
		i := len(res.choices) - 1
		for ; i >= 0; i-- {
			if res.choices[i]+1 < res.nEnabled[i] {
				break
			}
		}
		if i < 0 {
			return n, true, finals
		}
		if n >= max {
			return n, false, finals
		}
		prefix = append(append([]int{}, res.choices[:i]...), res.choices[i]+1)
	}
}

// ---------------------------------------------------------------- end to end: a real project
// BUILD.dawn creates `cache = Cache()` at module level (frozen when the module has loaded) and, while loading, computes
// the keys listed in `pre`; every target body calls cache.once(key, …) with a callable that counts its invocations
// through a builtin of LoadOptions.Builtins; the project is built with Project.Run (the runner evaluates independent
// targets in parallel). Judge: per key at most one successful invocation in the process, all targets see its value.
type projSpec struct {
	// per target body: the (cache, key) pairs it asks for, in order, encoded cache*100+key
	Targets [][]int `json:"targets"`
	Pre     []int   `json:"pre"` // (cache, key) pairs computed while the module loads
	Keys    int     `json:"keys"`
	Caches  int     `json:"caches"` // module-level Cache() objects in BUILD.dawn
}

func (p projSpec) String() string {
	b, _ := json.Marshal(p)
	return string(b)
}

func (p projSpec) build() string {
	var b strings.Builder
	for c := 0; c < p.Caches; c++ {
		fmt.Fprintf(&b, "cache%d = Cache()\n", c)
	}
	for c := 0; c < p.Caches; c++ {
		for k := 0; k < p.Keys; k++ {
			fmt.Fprintf(&b, "\ndef compute%d_%d():\n    return count(\"c%dk%d\")\n", c, k, c, k)
		}
	}
	b.WriteString("\n")
	for _, ck := range p.Pre {
		c, k := ck/100, ck%100
		fmt.Fprintf(&b, "record(\"load\", \"c%dk%d\", cache%d.once(\"k%d\", compute%d_%d))\n", c, k, c, k, c, k)
	}
	var deps []string
	for i, cks := range p.Targets {
		fmt.Fprintf(&b, "\n@target(name=\"t%d\")\ndef t%d():\n", i, i)
		for _, ck := range cks {
			c, k := ck/100, ck%100
			fmt.Fprintf(&b, "    record(\"t%d\", \"c%dk%d\", cache%d.once(\"k%d\", compute%d_%d))\n", i, c, k, c, k, c, k)
		}
		deps = append(deps, fmt.Sprintf("\":t%d\"", i))
	}
	fmt.Fprintf(&b, "\n@target(name=\"default\", deps=[%s])\ndef default():\n    pass\n", strings.Join(deps, ", "))
	return b.String()
}

var projViol = 0

func runProject(p projSpec) {
	stats["project_builds"]++
	root, err := os.MkdirTemp("", "verif-cache-proj")
	if err != nil {
		panic(err)
	}
	defer os.RemoveAll(root)
	os.WriteFile(root+"/.dawnconfig", nil, 0o644)
	os.WriteFile(root+"/BUILD.dawn", []byte(p.build()), 0o644)
	var mu sync.Mutex
	calls := map[string]int{}
	seen := map[string][]string{} // key -> values handed to the callers
	count := starlark.NewBuiltin("count", func(th *starlark.Thread, b *starlark.Builtin, args starlark.Tuple, kwargs []starlark.Tuple) (starlark.Value, error) {
		var key string
		if err := starlark.UnpackPositionalArgs("count", args, kwargs, 1, &key); err != nil {
			return nil, err
		}
		mu.Lock()
		calls[key]++
		n := calls[key]
		mu.Unlock()
		runtime.Gosched()
		return starlark.String(fmt.Sprintf("%s#%d", key, n)), nil
	})
	record := starlark.NewBuiltin("record", func(th *starlark.Thread, b *starlark.Builtin, args starlark.Tuple, kwargs []starlark.Tuple) (starlark.Value, error) {
		var who, key string
		var v starlark.Value
		if err := starlark.UnpackPositionalArgs("record", args, kwargs, 3, &who, &key, &v); err != nil {
			return nil, err
		}
		mu.Lock()
		seen[key] = append(seen[key], who+"="+v.String())
		mu.Unlock()
		return starlark.None, nil
	})
	fail := func(kind, detail string) {
		nviol++
		projViol++
		stats["violations"]++
		if projViol > 3 {
			return
		}
		in := map[string]any{"progs": p.String(), "mode": "project", "schedule": nil}
		b, _ := json.Marshal(map[string]any{"kind": kind, "detail": detail, "trace": "", "input": in})
		fmt.Fprintf(out, "V\t%s\n", b)
		out.Flush()
	}
	type outT struct{ err error }
	ch := make(chan outT, 1)
	go func() {
		proj, err := dawn.Load(root, &dawn.LoadOptions{Builtins: starlark.StringDict{"count": count, "record": record}})
		if err != nil {
			ch <- outT{fmt.Errorf("load: %w", err)}
			return
		}
		def, _ := label.Parse("//:default")
		ch <- outT{proj.Run(def, nil)}
	}()
	select {
	case o := <-ch:
		if o.err != nil {
			fail("project-build-failed", o.err.Error())
			return
		}
	case <-time.After(30 * time.Second):
		fail("hang", "Load + Run of the project did not return")
		hangsFound++
		return
	}
	mu.Lock()
	defer mu.Unlock()
	callers, want := 0, len(p.Pre)
	for _, cks := range p.Targets {
		want += len(cks)
	}
	for c := 0; c < p.Caches; c++ {
		for k := 0; k < p.Keys; k++ {
			key := fmt.Sprintf("c%dk%d", c, k) // judged per (cache, key)
			callers += len(seen[key])
			if calls[key] > 1 {
				fail("computed-twice", fmt.Sprintf("%s: the callable ran %d times in one build; callers saw %v", key, calls[key], seen[key]))
			}
			vals := map[string]bool{}
			for _, sv := range seen[key] {
				v := sv[strings.Index(sv, "=")+1:]
				vals[v] = true
				if !strings.HasPrefix(v, "\""+key+"#") {
					fail("different-value", fmt.Sprintf("%s: a caller was handed %s, which is not a result of this cache's callable for this key; callers saw %v", key, v, seen[key]))
				}
			}
			if len(vals) > 1 {
				fail("different-value", fmt.Sprintf("%s: callers saw %v", key, seen[key]))
			}
		}
	}
	if callers != want {
		fail("project-incomplete", fmt.Sprintf("%d of %d calls of once were made", callers, want))
	}
	stats["project_once_calls"] += callers
}

func projectStream(r *rng, thorough bool) {
	t0 := time.Now()
	n := 60
	if thorough {
		n = 1500
	}
	for i := 0; i < n && hangsFound < 3; i++ {
		p := projSpec{Keys: 1 + r.below(3), Caches: 1 + r.below(3)}
		nt := 2 + r.below(7)
		for j := 0; j < nt; j++ {
			// a body asks one to three (cache, key) pairs; often the same key of several caches
			var cks []int
			k := r.below(p.Keys)
			for n := 1 + r.below(3); n > 0; n-- {
				cks = append(cks, r.below(p.Caches)*100+k)
				if r.below(3) == 0 {
					k = r.below(p.Keys)
				}
			}
			p.Targets = append(p.Targets, cks)
		}
		for c := 0; c < p.Caches; c++ {
			for k := 0; k < p.Keys; k++ {
				if r.below(4) == 0 {
					p.Pre = append(p.Pre, c*100+k)
				}
			}
		}
		runProject(p)
	}
	stats["project_ms"] = int(time.Since(t0).Milliseconds())
}

func replayProject(spec string) {
	var p projSpec
	if err := json.Unmarshal([]byte(spec), &p); err != nil {
		fmt.Fprintln(os.Stderr, err)
		os.Exit(2)
	}
	for i := 0; i < 20 && nviol == 0; i++ {
		runProject(p)
	}
	fmt.Fprintf(out, "# project replay: %d builds, %d violations\n", stats["project_builds"], nviol)
}

// Overlaid into the root package of the repository (as verif_export_linewriter.go) by the C18 harness build
// only; NOT part of /repo. It gives the harness access to unexported pieces of package dawn: the line
// writer, the runEvents adapter behind run(callback=…), and the facts that decide runTarget.Evaluate's
// control flow (observed by wrapping each runTarget's Target in a spy that delegates every call).
package dawn

import (
	"sync"

	"github.com/pgavlin/dawn/diff"
	"github.com/pgavlin/dawn/label"
	"go.starlark.net/starlark"
)

// ---- line writer

type VerifLW struct{ w *lineWriter }

func VerifNewLW(l *label.Label, e Events) *VerifLW { return &VerifLW{w: newLineWriter(l, e)} }
func (v *VerifLW) Write(b []byte) (int, error)     { return v.w.Write(b) }
func (v *VerifLW) Flush() error                    { return v.w.Flush() }
func (v *VerifLW) Pending() string                 { return v.w.line.String() }

// ---- the adapter behind run(callback=…): which kind string does each method report?

// VerifRunEventKinds calls every target/run method of a real runEvents once and returns, in call order,
// (method name, kind string received by the callback).
func VerifRunEventKinds() [][2]string {
	var got []string
	cb := starlark.NewBuiltin("cb", func(_ *starlark.Thread, _ *starlark.Builtin, args starlark.Tuple, _ []starlark.Tuple) (starlark.Value, error) {
		kind := "?"
		if len(args) == 1 {
			if ha, ok := args[0].(starlark.HasAttrs); ok {
				if k, err := ha.Attr("kind"); err == nil && k != nil {
					if s, ok := k.(starlark.String); ok {
						kind = string(s)
					}
				}
			}
		}
		got = append(got, kind)
		return starlark.None, nil
	})
	e := &runEvents{c: make(chan starlark.Value), callback: cb, done: make(chan bool)}
	go e.process(&starlark.Thread{Name: "verif"})
	l := &label.Label{Package: "//", Name: "t"}
	methods := []string{"Print", "TargetUpToDate", "TargetEvaluating", "TargetFailed", "TargetSucceeded", "RunDone"}
	e.Print(l, "x")
	e.TargetUpToDate(l)
	e.TargetEvaluating(l, "r", nil)
	e.TargetFailed(l, verifErr("boom"))
	e.TargetSucceeded(l, true)
	e.RunDone(nil)
	e.Close()
	out := make([][2]string, 0, len(methods))
	for i, m := range methods {
		k := "(nothing received)"
		if i < len(got) {
			k = got[i]
		}
		out = append(out, [2]string{m, k})
	}
	return out
}

type verifErr string

func (e verifErr) Error() string { return string(e) }

// ---- observation of the facts that decide Evaluate's control flow

// VerifFacts is what one call of runTarget.Evaluate consulted, recorded by the spy.
type VerifFacts struct {
	Label        string
	InfoCalled   bool // Evaluate started
	Rerun        bool // info.Rerun as Evaluate copied it
	Reached      bool // upToDate() was called, i.e. the dependency loop completed
	DepsUpToDate bool // the value of depsUpToDate at that point, recomputed from the same data
	UpToDate     bool
	UpToDateErr  bool
	BodyCalled   bool // evaluate() was called
	BodyErr      bool
}

type verifSpy struct {
	Target
	proj  *Project
	m     sync.Mutex
	info_ targetInfo
	f     VerifFacts
}

func (s *verifSpy) info() targetInfo {
	i := s.Target.info()
	s.m.Lock()
	s.info_ = i
	s.f = VerifFacts{Label: s.Target.Label().String(), InfoCalled: true, Rerun: i.Rerun}
	s.m.Unlock()
	return i
}

func (s *verifSpy) upToDate() (bool, string, diff.ValueDiff, error) {
	// depsUpToDate, exactly as the loop in Evaluate computes it, from the same records and dependency results
	depsUpToDate := true
	s.m.Lock()
	info := s.info_
	s.m.Unlock()
	for _, dep := range s.Target.dependencies() {
		s.proj.m.Lock()
		rt := s.proj.targets[dep]
		s.proj.m.Unlock()
		if rt == nil {
			continue
		}
		prev, ok := info.Dependencies[dep]
		if !ok || rt.changed || rt.data != prev {
			depsUpToDate = false
		}
	}
	ok, reason, d, err := s.Target.upToDate()
	s.m.Lock()
	s.f.Reached, s.f.DepsUpToDate, s.f.UpToDate, s.f.UpToDateErr = true, depsUpToDate, ok, err != nil
	s.m.Unlock()
	return ok, reason, d, err
}

func (s *verifSpy) evaluate() (string, bool, error) {
	s.m.Lock()
	s.f.BodyCalled = true
	s.m.Unlock()
	data, changed, err := s.Target.evaluate()
	s.m.Lock()
	s.f.BodyErr = err != nil
	s.m.Unlock()
	return data, changed, err
}

// VerifInfoPath is the path of the build record of a label (.dawn/build/targets/… or …/sources/…).
func (proj *Project) VerifInfoPath(rawlabel string) (string, error) {
	l, err := label.Parse(rawlabel)
	if err != nil {
		return "", err
	}
	return proj.targetInfoPath(l), nil
}

// VerifSpy wraps the Target of every loaded runTarget. Call once, after Load and before Run.
func (proj *Project) VerifSpy() {
	proj.m.Lock()
	defer proj.m.Unlock()
	for _, rt := range proj.targets {
		if _, ok := rt.target.(*verifSpy); !ok {
			rt.target = &verifSpy{Target: rt.target, proj: proj}
		}
	}
}

// VerifResetFacts forgets the facts of the previous Run.
func (proj *Project) VerifResetFacts() {
	proj.m.Lock()
	defer proj.m.Unlock()
	for _, rt := range proj.targets {
		if s, ok := rt.target.(*verifSpy); ok {
			s.m.Lock()
			s.f = VerifFacts{}
			s.m.Unlock()
		}
	}
}

// VerifFactsOf returns, per loaded target label, the facts recorded during the last Run and the target's
// dependencies in the order Evaluate consults them.
func (proj *Project) VerifFactsOf() (map[string]VerifFacts, map[string][]string) {
	proj.m.Lock()
	defer proj.m.Unlock()
	facts, deps := map[string]VerifFacts{}, map[string][]string{}
	for l, rt := range proj.targets {
		deps[l] = append([]string(nil), rt.target.dependencies()...)
		if s, ok := rt.target.(*verifSpy); ok {
			s.m.Lock()
			facts[l] = s.f
			s.m.Unlock()
		}
	}
	return facts, deps
}

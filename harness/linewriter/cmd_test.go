// Command-line consumer harness for C18: drives the real renderers of cmd/dawn (cmd/dawn is package main, so this
// file is overlaid into it as zz_verif_lw_test.go and built with `go test -c -overlay`; it is never written into
// /repo). For every tree under $VERIF_JSON_TREES (written by the C18 harness with -gentrees, together with what a
// build of the fresh tree must report) it runs `dawn build --json <file> <root>` through rootCmd.Execute() with the
// tree as working directory, and then judges the FILE: it must be a complete sequence of JSON records; per label the
// target events are exactly the expected shape; every output line of every body is there, once and in order;
// exactly one RunDone, the last record, carrying an error exactly when the build failed. (`--json -` is never used.)
// Records go to $VERIF_CMD_OUT:   V <json> violation, S <json> statistics.
package main

import (
	"encoding/json"
	"fmt"
	"io"
	"os"
	"path/filepath"
	"sort"
	"strings"
	"testing"
	"time"

	"github.com/pgavlin/dawn"
)

type vlwExpect struct {
	Seq   string   `json:"seq"`
	Lines []string `json:"lines"`
}

type vlwCase struct {
	Case   json.RawMessage      `json:"case"`
	Root   string               `json:"root"`
	Fails  bool                 `json:"fails"`
	Expect map[string]vlwExpect `json:"expect"`
}

var vlwKinds = map[string]string{"TargetUpToDate": "U", "TargetEvaluating": "E", "TargetSucceeded": "S", "TargetFailed": "F"}

func vlwClip(s string) string {
	if len(s) > 80 {
		return fmt.Sprintf("%s…(%d bytes)", s[:80], len(s))
	}
	return s
}

// vlwBuild runs the real command in the tree and returns the content of the events file and the command's error
func vlwBuild(dir, root string) ([]byte, error, error) {
	wd, _ := os.Getwd()
	defer os.Chdir(wd)
	if err := os.Chdir(dir); err != nil {
		return nil, nil, err
	}
	path := filepath.Join(dir, "verif-events.json")
	os.Remove(path)
	*work = workspace{}
	buildJSON, buildDOT, buildOptions = "", "", dawn.RunOptions{}
	devnull, err := os.OpenFile(os.DevNull, os.O_WRONLY, 0)
	if err != nil {
		return nil, nil, err
	}
	stdout, stderr := os.Stdout, os.Stderr
	os.Stdout, os.Stderr = devnull, devnull
	rootCmd.SetArgs([]string{"build", "--always=false", "--dry-run=false", "--json", path, root})
	cmdErr := rootCmd.Execute()
	os.Stdout, os.Stderr = stdout, stderr
	devnull.Close()
	data, err := os.ReadFile(path)
	return data, cmdErr, err
}

func vlwJudge(c *vlwCase, data []byte, cmdErr error) []string {
	var bad []string
	type rec struct {
		Kind  string `json:"kind"`
		Label string `json:"label"`
		Line  string `json:"line"`
		Err   string `json:"err"`
	}
	var recs []rec
	dec := json.NewDecoder(strings.NewReader(string(data)))
	for {
		var r rec
		err := dec.Decode(&r)
		if err == io.EOF {
			break
		}
		if err != nil {
			bad = append(bad, fmt.Sprintf("the events file is not a sequence of complete JSON records: %v after %d records", err, len(recs)))
			break
		}
		recs = append(recs, r)
	}
	seqs, lines := map[string]string{}, map[string][]string{}
	runDone := 0
	for i, r := range recs {
		switch {
		case r.Kind == "RunDone":
			runDone++
			if i != len(recs)-1 {
				bad = append(bad, fmt.Sprintf("RunDone is record %d of %d, not the last", i+1, len(recs)))
			}
			if (r.Err != "") != c.Fails {
				bad = append(bad, fmt.Sprintf("RunDone carries err %q, the build is expected to fail = %v", vlwClip(r.Err), c.Fails))
			}
		case vlwKinds[r.Kind] != "":
			seqs[r.Label] += vlwKinds[r.Kind]
		case r.Kind == "Print":
			lines[r.Label] = append(lines[r.Label], r.Line)
		}
	}
	if runDone != 1 {
		bad = append(bad, fmt.Sprintf("%d RunDone records in the events file (%d records in all)", runDone, len(recs)))
	}
	if (cmdErr != nil) != c.Fails {
		bad = append(bad, fmt.Sprintf("the command returned %v, the build is expected to fail = %v", cmdErr, c.Fails))
	}
	labels := make([]string, 0, len(c.Expect))
	for l := range c.Expect {
		labels = append(labels, l)
	}
	sort.Strings(labels)
	for _, l := range labels {
		e := c.Expect[l]
		if seqs[l] != e.Seq {
			bad = append(bad, fmt.Sprintf("%s: target events %q in the file, %q expected", l, seqs[l], e.Seq))
		}
		got := lines[l]
		same := len(got) == len(e.Lines)
		for i := 0; same && i < len(got); i++ {
			same = got[i] == e.Lines[i]
		}
		if !same {
			at := 0
			for at < len(got) && at < len(e.Lines) && got[at] == e.Lines[at] {
				at++
			}
			g, w := "(none)", "(none)"
			if at < len(got) {
				g = vlwClip(got[at])
			}
			if at < len(e.Lines) {
				w = vlwClip(e.Lines[at])
			}
			bad = append(bad, fmt.Sprintf("%s: %d output lines in the file, %d written; first difference at line %d: %q in the file, %q written", l, len(got), len(e.Lines), at, g, w))
		}
	}
	for l := range seqs {
		if _, ok := c.Expect[l]; !ok {
			bad = append(bad, fmt.Sprintf("target events %q for %s, which the tree does not define", seqs[l], l))
		}
	}
	return bad
}

func TestVerifJSON(t *testing.T) {
	dir, outPath := os.Getenv("VERIF_JSON_TREES"), os.Getenv("VERIF_CMD_OUT")
	if dir == "" || outPath == "" {
		t.Skip("not run by the C18 check")
	}
	out, err := os.Create(outPath)
	if err != nil {
		t.Fatal(err)
	}
	defer out.Close()
	stats := map[string]int{}
	emit := func(tag string, v any) {
		b, _ := json.Marshal(v)
		fmt.Fprintf(out, "%s\t%s\n", tag, b)
	}
	entries, err := os.ReadDir(dir)
	if err != nil {
		t.Fatal(err)
	}
	for _, ent := range entries {
		cdir := filepath.Join(dir, ent.Name())
		raw, err := os.ReadFile(filepath.Join(cdir, "verif-expect.json"))
		if err != nil {
			continue
		}
		var c vlwCase
		if err := json.Unmarshal(raw, &c); err != nil {
			t.Fatal(err)
		}
		input := map[string]any{"stream": "cli.json", "case": c.Case}
		type result struct {
			data   []byte
			cmdErr error
			err    error
		}
		done := make(chan result, 1)
		go func() {
			d, ce, e := vlwBuild(cdir, c.Root)
			done <- result{d, ce, e}
		}()
		var res result
		select {
		case res = <-done:
		case <-time.After(120 * time.Second):
			emit("V", map[string]any{"kind": "hang", "detail": "dawn build --json <file> did not return within 120 s", "input": input})
			emit("S", stats)
			out.Sync()
			os.Exit(3)
		}
		stats["cli.builds"]++
		if c.Fails {
			stats["cli.builds.failing"]++
		}
		if res.err != nil {
			emit("V", map[string]any{"kind": "json-file", "detail": "no events file: " + res.err.Error(), "input": input})
			continue
		}
		bad := vlwJudge(&c, res.data, res.cmdErr)
		for _, e := range c.Expect {
			stats["cli.lines"] += len(e.Lines)
			stats["cli.shape."+e.Seq]++
		}
		if len(bad) > 0 {
			emit("V", map[string]any{"kind": "json-file", "detail": strings.Join(bad, "; "), "input": input})
		}
	}
	emit("S", stats)
}

// Correspondence + judge harness for C18 (line writer, target events, run-done). Built INTO the repo's module
// with `go build -overlay` as package github.com/pgavlin/dawn/cmd/verif_linewriter; not part of /repo.
//
// Output, one record per line, tab separated:
//
//	C <stream> <driver input> <Go's canonical answer>     correspondence pair (tie 2)
//	V <json>                                             the property's own predicate failed on the implementation
//	S <json>                                             statistics of this run
package main

import (
	"bufio"
	"encoding/hex"
	"encoding/json"
	"flag"
	"fmt"
	"os"
	"sort"
	"strings"
	"sync"

	"github.com/pgavlin/dawn"
	"github.com/pgavlin/dawn/label"
)

type rng struct{ s uint64 }

func (r *rng) next() uint64 {
	r.s += 0x9E3779B97F4A7C15
	z := r.s
	z = (z ^ (z >> 30)) * 0xBF58476D1CE4E5B9
	z = (z ^ (z >> 27)) * 0x94D049BB133111EB
	return z ^ (z >> 31)
}
func (r *rng) below(n int) int     { return int(r.next() % uint64(n)) }
func (r *rng) chance(pct int) bool { return r.below(100) < pct }

func hx(s string) string {
	if s == "" {
		return "-"
	}
	return hex.EncodeToString([]byte(s))
}

var (
	out   = bufio.NewWriterSize(os.Stdout, 1<<20)
	outMu sync.Mutex
	stats = map[string]int{}
)

func emitC(stream, in, ans string) {
	outMu.Lock()
	fmt.Fprintf(out, "C\t%s\t%s\t%s\n", stream, in, ans)
	stats["pairs."+stream]++
	outMu.Unlock()
}

func emitV(v map[string]any) {
	b, _ := json.Marshal(v)
	outMu.Lock()
	fmt.Fprintf(out, "V\t%s\n", b)
	stats["violations"]++
	outMu.Unlock()
}

func count(k string, n int) {
	outMu.Lock()
	stats[k] += n
	outMu.Unlock()
}

// ---------------------------------------------------------------- line writer

// printRec is an Events that records Print lines.
type printRec struct {
	dawn.Events
	lines []string
}

func (p *printRec) Print(_ *label.Label, line string) { p.lines = append(p.lines, line) }

// an op is "w"+bytes or "f"
type lwOp struct {
	Flush bool   `json:"flush,omitempty"`
	Data  string `json:"data"` // hex ("-" empty)
}

func opsString(ops []lwOp) string {
	if len(ops) == 0 {
		return "."
	}
	parts := make([]string, len(ops))
	for i, o := range ops {
		if o.Flush {
			parts[i] = "f"
		} else {
			parts[i] = "w" + o.Data
		}
	}
	return strings.Join(parts, ",")
}

func showLines(ls []string) string {
	if len(ls) == 0 {
		return "."
	}
	h := make([]string, len(ls))
	for i, l := range ls {
		h[i] = hx(l)
	}
	return strings.Join(h, ",")
}

// reference, independent of the writer: the lines of a complete output / the complete lines of an unfinished one
func refSplit(s string, final bool) []string {
	var ls []string
	for {
		i := strings.IndexByte(s, '\n')
		if i < 0 {
			break
		}
		ls = append(ls, s[:i])
		s = s[i+1:]
	}
	if final && s != "" {
		ls = append(ls, s)
	}
	return ls
}

func unhx(h string) string {
	if h == "-" {
		return ""
	}
	b, err := hex.DecodeString(h)
	if err != nil {
		panic(err)
	}
	return string(b)
}

// runLW drives the real line writer; returns Go's canonical answer and whether the property's predicate holds.
func runLW(stream string, ops []lwOp) (ans string, bad string) {
	rec := &printRec{Events: dawn.DiscardEvents}
	w := dawn.VerifNewLW(nil, rec)
	var expect []string
	seg := ""
	for _, o := range ops {
		if o.Flush {
			if err := w.Flush(); err != nil {
				bad = "Flush returned an error"
			}
			expect = append(expect, refSplit(seg, true)...)
			seg = ""
		} else {
			b := unhx(o.Data)
			n, err := w.Write([]byte(b))
			if n != len(b) || err != nil {
				bad = fmt.Sprintf("Write(%q) returned (%d, %v)", b, n, err)
			}
			seg += b
		}
	}
	expect = append(expect, refSplit(seg, false)...)
	same := len(expect) == len(rec.lines)
	for i := 0; same && i < len(expect); i++ {
		same = expect[i] == rec.lines[i]
	}
	if bad == "" && !same {
		bad = fmt.Sprintf("lines delivered %q, lines of the written output %q", rec.lines, expect)
	}
	return hx(w.Pending()) + " " + showLines(rec.lines), bad
}

func lwCase(stream string, ops []lwOp) {
	ans, bad := runLW(stream, ops)
	emitC(stream, "lw new - "+opsString(ops), ans)
	count("lw.judged", 1)
	if bad != "" {
		emitV(map[string]any{"kind": "lines", "detail": bad, "input": map[string]any{"stream": stream, "ops": ops}})
	}
}

func lwStreams(r *rng, tier string) {
	maxLen, nRandom, opLen := 6, 2000, 4
	if tier == "thorough" {
		maxLen, nRandom, opLen = 10, 60000, 5
	}
	// 1. every string over {a, \n} up to maxLen, every way of cutting it into non-empty chunks, then Flush;
	//    for every 7th case an empty chunk is inserted too
	n := 0
	for l := 0; l <= maxLen; l++ {
		for bits := 0; bits < 1<<l; bits++ {
			s := make([]byte, l)
			for i := range s {
				if bits>>i&1 == 1 {
					s[i] = '\n'
				} else {
					s[i] = 'a'
				}
			}
			cuts := 1
			if l > 1 {
				cuts = 1 << (l - 1)
			}
			for cut := 0; cut < cuts; cut++ {
				var ops []lwOp
				start := 0
				for i := 1; i <= l; i++ {
					if i == l || cut>>(i-1)&1 == 1 {
						ops = append(ops, lwOp{Data: hx(string(s[start:i]))})
						start = i
					}
				}
				if n%7 == 3 {
					at := n % (len(ops) + 1)
					ops = append(ops[:at], append([]lwOp{{Data: "-"}}, ops[at:]...)...)
				}
				ops = append(ops, lwOp{Flush: true})
				lwCase("lw.chunks", ops)
				n++
			}
		}
	}
	// 2. op sequences with flushes anywhere (a writer that is used again after Flush): all sequences up to opLen
	//    over six chunks and Flush
	alphabet := []lwOp{{Flush: true}, {Data: "-"}, {Data: hx("a")}, {Data: hx("\n")}, {Data: hx("a\n")}, {Data: hx("\na")}, {Data: hx("b")}}
	var rec func(prefix []lwOp)
	rec = func(prefix []lwOp) {
		if len(prefix) > 0 {
			lwCase("lw.reuse", append([]lwOp(nil), prefix...))
		}
		if len(prefix) == opLen {
			return
		}
		for _, o := range alphabet {
			rec(append(prefix, o))
		}
	}
	rec(nil)
	// 3. random long outputs over a wider alphabet, random chunking, flushes
	syms := []string{"a", "b", "\n", "\n", "\r", "\x00", "\xff", "é"}
	for i := 0; i < nRandom; i++ {
		var ops []lwOp
		nops := 1 + r.below(12)
		for j := 0; j < nops; j++ {
			if r.chance(15) {
				ops = append(ops, lwOp{Flush: true})
				continue
			}
			var b strings.Builder
			for k := r.below(1 + r.below(40)); k > 0; k-- {
				b.WriteString(syms[r.below(len(syms))])
			}
			ops = append(ops, lwOp{Data: hx(b.String())})
		}
		if r.chance(70) {
			ops = append(ops, lwOp{Flush: true})
		}
		lwCase("lw.random", ops)
	}
}

// ---------------------------------------------------------------- kinds reported to run(callback=…) consumers

func kindStream() {
	for _, mk := range dawn.VerifRunEventKinds() {
		emitC("ev.kinds", "kind "+mk[0], mk[1])
		if mk[0] != mk[1] {
			emitV(map[string]any{"kind": "callback-kind", "detail": fmt.Sprintf("runEvents.%s reports kind %q to the run(callback=…) consumer", mk[0], mk[1]),
				"input": map[string]any{"stream": "ev.kinds", "method": mk[0]}})
		}
	}
}

func main() {
	seed := flag.Uint64("seed", 1, "")
	tier := flag.String("tier", "quick", "")
	replay := flag.String("replay", "", "")
	chat := flag.String("chatter", "", "helper process mode: seed,lines,maxlen,finalnl,exit")
	trees := flag.String("gentrees", "", "write fresh project trees with their expected event files under this directory")
	flag.Parse()
	if *chat != "" {
		chatter(*chat)
		return
	}
	if *trees != "" {
		n := 25
		if *tier == "thorough" {
			n = 400
		}
		var one *Case
		if *replay != "" {
			var in struct {
				Case *Case `json:"case"`
			}
			if err := json.Unmarshal([]byte(*replay), &in); err != nil || in.Case == nil {
				fmt.Fprintln(os.Stderr, "bad replay input for -gentrees")
				os.Exit(2)
			}
			one, n = in.Case, 1
		}
		genTrees(*trees, &rng{s: *seed ^ 0xc11}, n, one)
		return
	}
	defer func() {
		keys := make([]string, 0, len(stats))
		for k := range stats {
			keys = append(keys, k)
		}
		sort.Strings(keys)
		b, _ := json.Marshal(stats)
		fmt.Fprintf(out, "S\t%s\n", b)
		out.Flush()
	}()
	if *replay != "" {
		var in struct {
			Stream string          `json:"stream"`
			Ops    []lwOp          `json:"ops"`
			Case   json.RawMessage `json:"case"`
			Child  bool            `json:"child"`
		}
		if err := json.Unmarshal([]byte(*replay), &in); err != nil {
			fmt.Fprintln(os.Stderr, "bad replay input:", err)
			os.Exit(2)
		}
		switch {
		case strings.HasPrefix(in.Stream, "lw."):
			lwCase(in.Stream, in.Ops)
		case in.Stream == "ev.kinds":
			kindStream()
		default:
			var c Case
			if err := json.Unmarshal(in.Case, &c); err != nil {
				fmt.Fprintln(os.Stderr, "bad replay case:", err)
				os.Exit(2)
			}
			if in.Child {
				runInChild(&c)
			} else {
				runCase(&c)
			}
		}
		return
	}
	r := &rng{s: *seed}
	if *tier == "race" { // the binary was built with -race: only the streams with concurrency in them
		evStreams(r, *tier)
		return
	}
	lwStreams(r, *tier)
	kindStream()
	evStreams(r, *tier)
}

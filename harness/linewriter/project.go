package main

// Event protocol streams: small projects generated on disk, loaded and run through the library API
// (dawn.Load / Project.Run, and the run(callback=…) builtin), in process, under a watchdog.

import (
	"encoding/json"
	"errors"
	"fmt"
	"io"
	"os"
	"os/exec"
	"path/filepath"
	"runtime"
	"sort"
	"strings"
	"sync"
	"time"

	"github.com/pgavlin/dawn"
	"github.com/pgavlin/dawn/diff"
	"github.com/pgavlin/dawn/label"
	starlark_os "github.com/pgavlin/dawn/lib/os"
	starlark_sh "github.com/pgavlin/dawn/lib/sh"
	"github.com/pgavlin/dawn/runner"
	"github.com/pgavlin/dawn/util"
	"go.starlark.net/starlark"
)

type TargetSpec struct {
	Pkg     string   `json:"pkg"` // "" = root package, else directory name
	Name    string   `json:"name"`
	Deps    []string `json:"deps,omitempty"`
	Sources []string `json:"sources,omitempty"`
	Chunks  []string `json:"chunks,omitempty"` // hex; one Write on the body's stdout each
	Fail    bool     `json:"fail,omitempty"`
	Always  bool     `json:"always,omitempty"`
	// BreakSave: the body replaces the target's own build record (already holding the in-progress marker written
	// before the body) by a non-empty directory, so that recording the result after the body fails
	BreakSave bool `json:"breaksave,omitempty"`
	// Proc: after its chunks the body runs a real process (this binary in -chatter mode) through os.exec or
	// sh.exec; the process writes whole lines alternately to its standard output and standard error, in pieces
	Proc *ProcSpec `json:"proc,omitempty"`
	// Prints: lines printed with print() before anything else (used by the command-line stream, whose projects
	// cannot call the harness builtins)
	Prints []string `json:"prints,omitempty"`
}

type ProcSpec struct {
	Via     string `json:"via"` // "os" or "sh"
	Seed    uint64 `json:"seed"`
	Lines   int    `json:"lines"`
	MaxLen  int    `json:"maxlen"`
	FinalNL bool   `json:"finalnl"`
	Exit    int    `json:"exit,omitempty"` // exit status of the process, after it has written everything
}

func (p *ProcSpec) arg() string {
	nl := 0
	if p.FinalNL {
		nl = 1
	}
	return fmt.Sprintf("%d,%d,%d,%d,%d", p.Seed, p.Lines, p.MaxLen, nl, p.Exit)
}

type chatterLine struct {
	stream int // 1 stdout, 2 stderr
	text   string
	nl     bool
}

// chatterLines: what the process writes, as a function of its argument (both sides compute it)
func chatterLines(p *ProcSpec) []chatterLine {
	r := &rng{s: p.Seed}
	out := make([]chatterLine, p.Lines)
	for i := range out {
		n := 1 + r.below(p.MaxLen)
		if r.chance(50) {
			n = 1 + r.below(1+r.below(60)) // many short lines among the long ones
		}
		b := make([]byte, n)
		tag := fmt.Sprintf("%d:", i)
		for j := range b {
			if j < len(tag) {
				b[j] = tag[j]
			} else {
				b[j] = byte('a' + (i+j)%26)
			}
		}
		out[i] = chatterLine{stream: 1 + (i+int(p.Seed))%2, text: string(b), nl: true}
		if r.chance(20) {
			out[i].stream = 1 + r.below(2)
		}
	}
	if p.Lines > 0 && !p.FinalNL {
		out[p.Lines-1].nl = false
	}
	return out
}

// chatter is the helper process: every line is finished on one stream before the next one starts on the other,
// but each line is written in pieces, one write system call per piece
func chatter(arg string) {
	var p ProcSpec
	var nl int
	fmt.Sscanf(arg, "%d,%d,%d,%d,%d", &p.Seed, &p.Lines, &p.MaxLen, &nl, &p.Exit)
	p.FinalNL = nl == 1
	defer func() {
		if p.Exit != 0 {
			os.Exit(p.Exit) // everything has been written: a failing command's output is output all the same
		}
	}()
	r := &rng{s: p.Seed ^ 0x5bd1e995}
	for _, l := range chatterLines(&p) {
		f := os.Stdout
		if l.stream == 2 {
			f = os.Stderr
		}
		data := l.text
		if l.nl {
			data += "\n"
		}
		for len(data) > 0 {
			n := len(data)
			switch r.below(4) {
			case 0:
				n = 1 + r.below(len(data))
			case 1:
				if len(data) > 7 {
					n = 1 + r.below(7)
				}
			case 2:
				if len(data) > 70000 {
					n = 65536 + r.below(4096)
				}
			}
			f.Write([]byte(data[:n]))
			data = data[n:]
			if r.chance(3) {
				time.Sleep(time.Duration(r.below(200)) * time.Microsecond)
			}
		}
	}
}

var selfExe = func() string {
	e, err := os.Executable()
	if err != nil {
		panic(err)
	}
	return e
}()

// procText: everything the body's process step delivers to the body's stdout/stderr, in order (sh.exec echoes
// the command line first)
func (t *TargetSpec) procText() string {
	if t.Proc == nil {
		return ""
	}
	var b strings.Builder
	if t.Proc.Via == "sh" {
		b.WriteString(selfExe + " -chatter " + t.Proc.arg() + "\n")
	}
	for _, l := range chatterLines(t.Proc) {
		b.WriteString(l.text)
		if l.nl {
			b.WriteByte('\n')
		}
	}
	return b.String()
}

// fullText: all the output of the body: the chunks, then the process
func (t *TargetSpec) fullText() string {
	text := ""
	for _, ch := range t.Chunks {
		text += unhx(ch)
	}
	return text + t.procText()
}

type RunSpec struct {
	Target   string `json:"target"`
	Always   bool   `json:"always,omitempty"`
	Dry      bool   `json:"dry,omitempty"`
	NoReload bool   `json:"noreload,omitempty"` // Run again on the project loaded for the previous run
	NilOpts  bool   `json:"nilopts,omitempty"`  // Project.Run(label, nil): no options at all (neither always nor dry run)
	NoKw     bool   `json:"nokw,omitempty"`     // callback path: run(label, callback=cb) without always= / dry_run=
	Callback bool   `json:"callback,omitempty"` // through the run(callback=…) builtin
	Edit     string `json:"edit,omitempty"`     // before loading, give this file new content
}

type Case struct {
	Targets  []TargetSpec      `json:"targets"`
	Files    map[string]string `json:"files"`
	Runs     []RunSpec         `json:"runs"`
	Cyclic   bool              `json:"cyclic,omitempty"`
	NearMiss bool              `json:"nearmiss,omitempty"`
}

// nearMiss: the label of a target that does not exist, one edit away from one that does (a typo, another case, an
// underscore): what the "did you mean …?" suggestion of unknownTarget is for
func nearMiss(r *rng, c *Case) string {
	exists := map[string]bool{}
	for i := range c.Targets {
		exists[c.Targets[i].label()] = true
	}
	for try := 0; try < 50; try++ {
		t := &c.Targets[r.below(len(c.Targets))]
		name := []byte(t.Name)
		switch r.below(6) {
		case 0: // another case
			name[0] = name[0] - 'a' + 'A'
		case 1: // an underscore
			at := 1 + r.below(len(name))
			name = append(name[:at:at], append([]byte{'_'}, name[at:]...)...)
		case 2: // one character more
			at := r.below(len(name) + 1)
			name = append(name[:at:at], append([]byte{byte('a' + r.below(26))}, name[at:]...)...)
		case 3: // one character less
			if len(name) > 1 {
				at := r.below(len(name))
				name = append(name[:at:at], name[at+1:]...)
			}
		case 4: // another character
			name[r.below(len(name))] = byte('0' + r.below(10))
		default: // two neighbours exchanged
			if len(name) > 1 {
				name[0], name[1] = name[1], name[0]
			}
		}
		cand := TargetSpec{Pkg: t.Pkg, Name: string(name)}
		if !exists[cand.label()] {
			return cand.label()
		}
	}
	return "//:nope"
}

func (t *TargetSpec) label() string {
	if t.Pkg == "" {
		return "//:" + t.Name
	}
	return "//" + t.Pkg + ":" + t.Name
}

// ---- the global, totally ordered log of one run

type entry struct {
	kind  byte // U E S F (target events)  P (print)  D (run done)  B X (body began / finished writing)
	label string
	data  string
	err   error
	cb    bool // received by the run(callback=…) consumer
}

type recorder struct {
	dawn.Events
	m   sync.Mutex
	log []entry
}

func (r *recorder) add(e entry) {
	r.m.Lock()
	r.log = append(r.log, e)
	r.m.Unlock()
}
func (r *recorder) reset() { r.m.Lock(); r.log = nil; r.m.Unlock() }

func (r *recorder) Print(l *label.Label, line string) {
	r.add(entry{kind: 'P', label: l.String(), data: line})
}
func (r *recorder) TargetUpToDate(l *label.Label) { r.add(entry{kind: 'U', label: l.String()}) }
func (r *recorder) TargetEvaluating(l *label.Label, reason string, d diff.ValueDiff) {
	r.add(entry{kind: 'E', label: l.String(), data: reason})
}
func (r *recorder) TargetFailed(l *label.Label, err error) {
	r.add(entry{kind: 'F', label: l.String(), err: err})
}
func (r *recorder) TargetSucceeded(l *label.Label, changed bool) {
	r.add(entry{kind: 'S', label: l.String()})
}
func (r *recorder) RunDone(err error) { r.add(entry{kind: 'D', err: err}) }

var kindOfString = map[string]byte{"TargetUpToDate": 'U', "TargetEvaluating": 'E', "TargetSucceeded": 'S',
	"TargetFailed": 'F', "Print": 'P', "RunDone": 'D'}

func attrString(v starlark.Value, name string) (string, bool) {
	ha, ok := v.(starlark.HasAttrs)
	if !ok {
		return "", false
	}
	a, err := ha.Attr(name)
	if err != nil || a == nil {
		return "", false
	}
	s, ok := a.(starlark.String)
	return string(s), ok
}

// ---- generating the tree

var cliMode bool // BUILD files for the real command line: no harness builtins

func buildFile(ts []TargetSpec) string {
	var b strings.Builder
	for _, t := range ts {
		fmt.Fprintf(&b, "@target(name=%q", t.Name)
		if len(t.Deps) > 0 {
			q := make([]string, len(t.Deps))
			for i, d := range t.Deps {
				q[i] = fmt.Sprintf("%q", d)
			}
			fmt.Fprintf(&b, ", deps=[%s]", strings.Join(q, ", "))
		}
		if len(t.Sources) > 0 {
			q := make([]string, len(t.Sources))
			for i, d := range t.Sources {
				q[i] = fmt.Sprintf("%q", d)
			}
			fmt.Fprintf(&b, ", sources=[%s]", strings.Join(q, ", "))
		}
		if t.Always {
			b.WriteString(", always=True")
		}
		fmt.Fprintf(&b, ")\ndef f_%s():\n", t.Name)
		q := []string{fmt.Sprintf("%q", t.label())}
		for _, c := range t.Chunks {
			q = append(q, fmt.Sprintf("%q", c))
		}
		for _, pl := range t.Prints {
			fmt.Fprintf(&b, "    print(%q)\n", pl)
		}
		if !cliMode {
			fmt.Fprintf(&b, "    emit(%s)\n", strings.Join(q, ", "))
		} else if len(t.Prints) == 0 && t.Proc == nil && !t.Fail {
			b.WriteString("    pass\n")
		}
		if t.Proc != nil {
			if t.Proc.Via == "sh" {
				fmt.Fprintf(&b, "    sh.exec(%q)\n", selfExe+" -chatter "+t.Proc.arg())
			} else {
				fmt.Fprintf(&b, "    os.exec([%q, \"-chatter\", %q])\n", selfExe, t.Proc.arg())
			}
		}
		if t.BreakSave {
			fmt.Fprintf(&b, "    breakrecord(%q)\n", t.label())
		}
		if t.Fail {
			b.WriteString("    fail(\"boom\")\n")
		}
		b.WriteString("\n")
	}
	return b.String()
}

func writeTree(dir string, c *Case) error {
	pkgs := map[string][]TargetSpec{}
	for _, t := range c.Targets {
		pkgs[t.Pkg] = append(pkgs[t.Pkg], t)
	}
	if _, ok := pkgs[""]; !ok {
		pkgs[""] = nil
	}
	for p, ts := range pkgs {
		d := filepath.Join(dir, p)
		if err := os.MkdirAll(d, 0o755); err != nil {
			return err
		}
		if err := os.WriteFile(filepath.Join(d, "BUILD.dawn"), []byte(buildFile(ts)), 0o644); err != nil {
			return err
		}
	}
	if err := os.WriteFile(filepath.Join(dir, ".dawnconfig"), nil, 0o644); err != nil {
		return err
	}
	for f, content := range c.Files {
		if err := os.MkdirAll(filepath.Dir(filepath.Join(dir, f)), 0o755); err != nil {
			return err
		}
		if err := os.WriteFile(filepath.Join(dir, f), []byte(content), 0o644); err != nil {
			return err
		}
	}
	return nil
}

func genCase(r *rng) *Case {
	c := &Case{Files: map[string]string{}}
	n := 2 + r.below(7)
	twoPkgs := r.chance(50)
	c.Files["s0.txt"] = "v1"
	if twoPkgs {
		c.Files["p1/s0.txt"] = "v1"
	}
	for i := 0; i < n; i++ {
		t := TargetSpec{Name: fmt.Sprintf("t%d", i)}
		if twoPkgs && r.chance(45) {
			t.Pkg = "p1"
		}
		c.Targets = append(c.Targets, t)
	}
	alphabet := []string{"a", "b", "\n", "\n"}
	for i := range c.Targets {
		t := &c.Targets[i]
		for j := 0; j < i; j++ {
			if len(t.Deps) < 3 && r.chance(40) {
				t.Deps = append(t.Deps, c.Targets[j].label())
			}
		}
		for k := len(t.Deps) - 1; k > 0; k-- { // shuffle
			o := r.below(k + 1)
			t.Deps[k], t.Deps[o] = t.Deps[o], t.Deps[k]
		}
		if r.chance(25) {
			t.Sources = []string{"s0.txt"}
		}
		for k := r.below(4); k > 0; k-- {
			var b strings.Builder
			for l := r.below(5); l > 0; l-- {
				b.WriteString(alphabet[r.below(len(alphabet))])
			}
			t.Chunks = append(t.Chunks, hx(b.String()))
		}
		t.Fail = r.chance(12)
		t.Always = r.chance(8)
		t.BreakSave = r.chance(7)
		if r.chance(6) {
			t.Proc = &ProcSpec{Via: []string{"os", "sh"}[r.below(2)], Seed: r.next() % 100000, Lines: 1 + r.below(6), MaxLen: 1 + r.below(300), FinalNL: r.chance(70)}
		}
	}
	if r.chance(22) { // a missing dependency somewhere: an unrelated name, or a near miss of an existing target's name
		t := &c.Targets[r.below(n)]
		at := r.below(len(t.Deps) + 1)
		missing := "//:nope"
		if r.chance(65) {
			missing = nearMiss(r, c)
			c.NearMiss = true
		}
		t.Deps = append(t.Deps[:at], append([]string{missing}, t.Deps[at:]...)...)
	}
	if r.chance(6) { // a source whose path runs through a regular file: the up-to-date check itself fails
		c.Files["blocker"] = "x"
		t := &c.Targets[r.below(n)]
		if t.Pkg == "" {
			t.Sources = append(t.Sources, "blocker/x")
		}
	}
	if n >= 2 && r.chance(12) { // a dependency cycle: i -> j -> i (plus whatever is there)
		j := 1 + r.below(n-1)
		i := r.below(j)
		has := func(t *TargetSpec, l string) bool {
			for _, d := range t.Deps {
				if d == l {
					return true
				}
			}
			return false
		}
		if !has(&c.Targets[j], c.Targets[i].label()) {
			c.Targets[j].Deps = append(c.Targets[j].Deps, c.Targets[i].label())
		}
		c.Targets[i].Deps = append(c.Targets[i].Deps, c.Targets[j].label())
		c.Cyclic = true
	}
	root := c.Targets[n-1].label()
	c.Runs = []RunSpec{{Target: root, Dry: true}, {Target: root}, {Target: root, Dry: true}, {Target: root}}
	sub := c.Targets[r.below(n)].label()
	extra := []RunSpec{
		{Target: sub},
		{Target: root, Edit: "s0.txt", Dry: true}, {Target: root},
		{Target: root, Always: true, Dry: true}, {Target: root, Always: true},
		{Target: root, NoReload: true},
		{Target: root, NoReload: true, Always: true},
		{Target: root, Callback: true, Always: true},
		{Target: sub, Callback: true, NoReload: true},
		{Target: root, Callback: true, Dry: true},
	}
	for _, e := range extra {
		if r.chance(60) {
			c.Runs = append(c.Runs, e)
		}
	}
	return c
}

// ---- running a case

type runResult struct {
	log     []entry
	facts   map[string]dawn.VerifFacts
	deps    map[string][]string
	err     error
	errText string // callback path: err of the builtin
}

func seqOf(log []entry) map[string]string {
	m := map[string]string{}
	for _, e := range log {
		switch e.kind {
		case 'U', 'E', 'S', 'F':
			m[e.label] += string(e.kind)
		}
	}
	return m
}

var allowed = map[string]bool{"U": true, "ES": true, "EF": true, "F": true}

func runCase(c *Case) {
	done := make(chan struct{})
	go func() {
		defer close(done)
		runCaseInner(c)
	}()
	select {
	case <-done:
	case <-time.After(120 * time.Second):
		emitV(map[string]any{"kind": "hang", "detail": "case did not finish within 120 s", "input": map[string]any{"stream": "ev", "case": c}})
		outMu.Lock()
		out.Flush()
		os.Exit(3)
	}
}

func runCaseInner(c *Case) {
	dir, err := os.MkdirTemp("", "verif-c18-")
	if err != nil {
		panic(err)
	}
	defer os.RemoveAll(dir)
	if err := writeTree(dir, c); err != nil {
		panic(err)
	}
	specs := map[string]*TargetSpec{}
	for i := range c.Targets {
		specs[c.Targets[i].label()] = &c.Targets[i]
	}
	viol := func(kind, detail string, run int) {
		emitV(map[string]any{"kind": kind, "detail": fmt.Sprintf("run %d (%+v): %s", run, c.Runs[run], detail),
			"input": map[string]any{"stream": "ev", "case": c}})
	}

	newRecorder := func() (*recorder, *starlark.Builtin, *starlark.Builtin) {
		rec := &recorder{Events: dawn.DiscardEvents}
		emit := starlark.NewBuiltin("emit", func(thread *starlark.Thread, _ *starlark.Builtin, args starlark.Tuple, _ []starlark.Tuple) (starlark.Value, error) {
			l := string(args[0].(starlark.String))
			rec.add(entry{kind: 'B', label: l})
			stdout, _ := util.Stdio(thread)
			for _, a := range args[1:] {
				b := unhx(string(a.(starlark.String)))
				n, err := stdout.Write([]byte(b))
				if n != len(b) || err != nil {
					return nil, fmt.Errorf("stdout.Write(%q) = %d, %v", b, n, err)
				}
			}
			rec.add(entry{kind: 'X', label: l})
			return starlark.None, nil
		})
		cb := starlark.NewBuiltin("cb", func(_ *starlark.Thread, _ *starlark.Builtin, args starlark.Tuple, _ []starlark.Tuple) (starlark.Value, error) {
			kind, _ := attrString(args[0], "kind")
			l, _ := attrString(args[0], "label")
			e := entry{kind: kindOfString[kind], label: l, cb: true}
			if e.kind == 0 {
				e.kind, e.data = '?', kind
			}
			if line, ok := attrString(args[0], "line"); ok {
				e.data = line
			}
			if msg, ok := attrString(args[0], "err"); ok {
				e.err = errors.New(msg)
			}
			rec.add(e)
			return starlark.None, nil
		})
		return rec, emit, cb
	}

	var proj *dawn.Project
	// breakrecord(label): fault injection at the post-body record write of that label (see TargetSpec.BreakSave)
	var broken []string
	breakrecord := starlark.NewBuiltin("breakrecord", func(_ *starlark.Thread, _ *starlark.Builtin, args starlark.Tuple, _ []starlark.Tuple) (starlark.Value, error) {
		l := string(args[0].(starlark.String))
		path, err := proj.VerifInfoPath(l)
		if err != nil {
			return nil, err
		}
		os.Remove(path)
		if err := os.MkdirAll(filepath.Join(path, "x"), 0o755); err != nil {
			return nil, err
		}
		outMu.Lock()
		broken = append(broken, path)
		outMu.Unlock()
		return starlark.None, nil
	})

	var rec *recorder
	var emit, cb *starlark.Builtin
	var results []*runResult
	for i, rs := range c.Runs {
		if rs.Edit != "" {
			if err := os.WriteFile(filepath.Join(dir, rs.Edit), []byte(fmt.Sprintf("edit-%d", i)), 0o644); err != nil {
				panic(err)
			}
		}
		if !rs.NoReload || proj == nil {
			// a fresh recorder per load: targets still running after an earlier Run returned (possible when a
			// dependency cycle was detected) keep reporting to the Events of the project they belong to
			rec, emit, cb = newRecorder()
			proj, err = dawn.Load(dir, &dawn.LoadOptions{Events: rec, Builtins: starlark.StringDict{"emit": emit, "breakrecord": breakrecord,
				"os": starlark_os.Module, "sh": starlark_sh.Module}})
			if err != nil {
				viol("load", "generated project does not load: "+err.Error(), i)
				return
			}
			proj.VerifSpy()
		}
		proj.VerifResetFacts()
		rec.reset()
		l, err := label.Parse(rs.Target)
		if err != nil {
			panic(err)
		}
		res := &runResult{}
		goroutines := runtime.NumGoroutine()
		if rs.Callback {
			thread, globals := proj.REPLEnv(io.Discard, &label.Label{Package: "//"})
			kwargs := []starlark.Tuple{
				{starlark.String("always"), starlark.Bool(rs.Always)},
				{starlark.String("dry_run"), starlark.Bool(rs.Dry)},
				{starlark.String("callback"), cb},
			}
			if rs.NoKw {
				kwargs = kwargs[2:]
			}
			_, err := starlark.Call(thread, globals["run"], starlark.Tuple{starlark.String(rs.Target)}, kwargs)
			res.err = err
		} else if rs.NilOpts {
			res.err = proj.Run(l, nil)
		} else {
			res.err = proj.Run(l, &dawn.RunOptions{Always: rs.Always, DryRun: rs.Dry})
		}
		// Run returns when the requested target is done; wait for every target goroutine it started
		settled := false
		for t0 := time.Now(); time.Since(t0) < 20*time.Second; time.Sleep(200 * time.Microsecond) {
			if runtime.NumGoroutine() <= goroutines {
				settled = true
				break
			}
		}
		if !settled {
			count("ev.unsettled", 1)
			return
		}
		rec.m.Lock()
		res.log = append([]entry(nil), rec.log...)
		rec.m.Unlock()
		// undo the injected faults so that the next load finds no record (not a directory) for those targets
		outMu.Lock()
		for _, p := range broken {
			os.RemoveAll(p)
		}
		if len(broken) > 0 {
			stats["ev.save_faults"] += len(broken)
		}
		broken = nil
		outMu.Unlock()
		res.facts, res.deps = proj.VerifFactsOf()
		results = append(results, res)
		judgeRun(c, specs, i, res, viol)
		count("ev.runs", 1)
		switch {
		case rs.Callback:
			count("ev.runs.callback", 1)
		case rs.Dry:
			count("ev.runs.dry", 1)
		case rs.NoReload:
			count("ev.runs.noreload", 1)
		}
		if res.err != nil {
			count("ev.runs.failed", 1)
		}
	}
	// 'evaluating' in a dry run is reported exactly for the targets whose body the next real build of the same
	// state calls (all of them when that build succeeds; when it fails, the dry run additionally reports the
	// targets the real build never reached).
	for i := 0; i+1 < len(results); i++ {
		a, b := c.Runs[i], c.Runs[i+1]
		if !a.Dry || b.Dry || a.Target != b.Target || a.Always != b.Always || a.Callback || b.Callback || b.NoReload || b.Edit != "" || c.Cyclic {
			continue
		}
		dry := map[string]bool{}
		for l, s := range seqOf(results[i].log) {
			if strings.HasPrefix(s, "E") {
				dry[l] = true
			}
		}
		real := map[string]bool{}
		for l, f := range results[i+1].facts {
			if f.BodyCalled {
				real[l] = true
			}
		}
		count("ev.dry_vs_real", 1)
		for l := range real {
			if !dry[l] {
				viol("dry-run", fmt.Sprintf("body of %s ran in the real build but the preceding dry run did not report it evaluating", l), i)
			}
		}
		if results[i+1].err == nil {
			for l := range dry {
				if !real[l] {
					viol("dry-run", fmt.Sprintf("dry run reported %s evaluating but the real build that followed (and succeeded) did not run its body", l), i)
				}
			}
		}
	}
}

func judgeRun(c *Case, specs map[string]*TargetSpec, run int, res *runResult, viol func(kind, detail string, run int)) {
	rs := c.Runs[run]
	log := res.log
	seqs := seqOf(log)
	// positions
	first := map[string]map[byte]int{}
	lastEv := map[string]int{}
	for i, e := range log {
		if e.label == "" {
			continue
		}
		if first[e.label] == nil {
			first[e.label] = map[byte]int{}
		}
		if _, ok := first[e.label][e.kind]; !ok {
			first[e.label][e.kind] = i
		}
		switch e.kind {
		case 'U', 'E', 'S', 'F':
			lastEv[e.label] = i
		}
	}
	// 1. shapes
	for l, s := range seqs {
		count("ev.shape."+s, 1)
		if !allowed[s] {
			viol("shape", fmt.Sprintf("target %s produced the event sequence %q", l, s), run)
		}
	}
	for _, e := range log {
		if e.kind == '?' {
			viol("shape", fmt.Sprintf("callback received an event of unknown kind %q", e.data), run)
		}
	}
	// 2. output: lines of the written chunks, once, in order, between evaluating and completion
	printed := map[string][]string{}
	for i, e := range log {
		if e.kind != 'P' {
			continue
		}
		printed[e.label] = append(printed[e.label], e.data)
		if rs.Callback {
			// the line writer of a target holds the Events the project was loaded with, so in a run(callback=…)
			// build its lines reach that consumer while the target events reach the callback, asynchronously:
			// there is no common order to judge (recorded in the statistics as ev.lines.other_consumer)
			count("ev.lines.other_consumer", 1)
			continue
		}
		ev, okE := first[e.label]['E']
		if !okE || i < ev || i > lastEv[e.label] || lastEv[e.label] == ev {
			viol("print-window", fmt.Sprintf("line %q of %s delivered outside its evaluating…completion window", e.data, e.label), run)
		}
	}
	for l, t := range specs {
		var want []string
		if res.facts[l].BodyCalled {
			want = refSplit(t.fullText(), true)
			if t.Proc != nil {
				count("ev.proc.bodies."+t.Proc.Via, 1)
				count("ev.proc.lines", t.Proc.Lines)
			}
			count("ev.bodies", 1)
			count("ev.lines", len(want))
		}
		got := printed[l]
		same := len(want) == len(got)
		for i := 0; same && i < len(want); i++ {
			same = want[i] == got[i]
		}
		if !same && t.Proc != nil {
			// a real process wrote these lines, whole and one after the other, to its stdout and stderr
			at := 0
			for at < len(want) && at < len(got) && want[at] == got[at] {
				at++
			}
			clip := func(ls []string) string {
				if at < len(ls) {
					x := ls[at]
					if len(x) > 60 {
						x = fmt.Sprintf("%s…(%d bytes)", x[:60], len(x))
					}
					return fmt.Sprintf("%q", x)
				}
				return "(none)"
			}
			viol("process-lines", fmt.Sprintf("%s ran a process (%s.exec) that wrote %d lines; %d lines were delivered; first difference at line %d: delivered %s, written %s",
				l, t.Proc.Via, len(want), len(got), at, clip(got), clip(want)), run)
		} else if !same {
			viol("lines", fmt.Sprintf("%s wrote %q: lines delivered %q, expected %q", l, t.Chunks, got, want), run)
		}
	}
	// 3. a target starts evaluating only after its dependencies' last event
	for l, ps := range first {
		ev, ok := ps['E']
		if !ok {
			continue
		}
		for _, d := range res.deps[l] {
			if li, ok := lastEv[d]; ok && li > ev {
				viol("order", fmt.Sprintf("%s reported evaluating before its dependency %s reported its last event", l, d), run)
			}
		}
	}
	// 4. run-done: exactly once, after the requested target's last event, with the build's error
	nd, dAt := 0, -1
	for i, e := range log {
		if e.kind == 'D' {
			nd++
			dAt = i
		}
	}
	rootLabel := rs.Target
	if li, ok := lastEv[rootLabel]; nd != 1 || (ok && li > dAt) {
		viol("run-done", fmt.Sprintf("%d run-done events; position %d, last event of %s at %d", nd, dAt, rootLabel, li), run)
	} else {
		if dAt != len(log)-1 {
			// targets the runner did not wait for (a cycle was detected): the build was declared done while
			// targets were still reporting (D17)
			count("ev.events_after_rundone", 1)
			late := log[dAt+1]
			emitV(map[string]any{"kind": "late-event", "key": "run-callback-late-event",
				"detail": fmt.Sprintf("run %d (%+v): %d events delivered after run-done, first: %q of %s", run, rs, len(log)-1-dAt, string(late.kind), late.label),
				"input":  map[string]any{"stream": "ev", "case": c}})
		}
		d := log[dAt]
		if rs.Callback {
			if (d.err == nil) != (res.err == nil) || (d.err != nil && !strings.Contains(res.err.Error(), d.err.Error())) {
				viol("run-done", fmt.Sprintf("run-done carried %v, run() returned %v", d.err, res.err), run)
			}
			if !d.cb {
				viol("run-done", "run-done was not delivered to the callback", run)
			}
		} else if d.err != res.err {
			viol("run-done", fmt.Sprintf("run-done carried %v, Run returned %v", d.err, res.err), run)
		}
	}
	// 5. evaluating <=> the body runs (real builds); no body runs in a dry run
	for l, f := range res.facts {
		hasE := strings.HasPrefix(seqs[l], "E")
		if rs.Dry && f.BodyCalled {
			viol("eval-iff", fmt.Sprintf("body of %s ran in a dry run", l), run)
		}
		if !rs.Dry && hasE != f.BodyCalled {
			viol("eval-iff", fmt.Sprintf("%s: evaluating reported = %v, body ran = %v", l, hasE, f.BodyCalled), run)
		}
		if !f.InfoCalled && seqs[l] != "" {
			viol("shape", fmt.Sprintf("%s reported %q although Evaluate was never called on it", l, seqs[l]), run)
		}
	}
	// 6. correspondence with the Lean event model, per label, given the observed facts
	labels := make([]string, 0, len(res.facts))
	for l := range res.facts {
		labels = append(labels, l)
	}
	sort.Strings(labels)
	for _, l := range labels {
		f := res.facts[l]
		if !f.InfoCalled {
			continue
		}
		cyc := false
		if i, ok := first[l]['F']; ok {
			if log[i].cb {
				cyc = strings.HasPrefix(log[i].err.Error(), "cyclic dependency")
			} else {
				var ce runner.CyclicDependencyError
				cyc = errors.As(log[i].err, &ce)
			}
		}
		var ds strings.Builder
		for _, d := range res.deps[l] {
			_, defined := res.facts[d]
			switch {
			case cyc:
				ds.WriteByte('c')
			case !defined:
				ds.WriteByte('m')
			case seqs[d] == "" || strings.HasSuffix(seqs[d], "F"):
				ds.WriteByte('x')
			default:
				ds.WriteByte('o')
			}
		}
		if ds.Len() == 0 {
			ds.WriteByte('.')
		}
		bit := func(b bool) byte {
			if b {
				return '1'
			}
			return '0'
		}
		// facts about the two record writes: the in-progress record was written iff the body was reached after the
		// decision to run (observed by the spy, not through events); the result record fails exactly where the
		// harness injected the fault
		lbl, _ := label.Parse(l)
		isTarget := lbl != nil && dawn.IsTarget(lbl)
		wouldRun := f.Reached && !f.UpToDateErr && !(!rs.Always && f.DepsUpToDate && f.UpToDate && !f.Rerun)
		preSaveOk := !(isTarget && wouldRun && !rs.Dry && !f.BodyCalled)
		saveBroken := specs[l] != nil && specs[l].BreakSave && f.BodyCalled
		if saveBroken && seqs[l] != "EF" {
			viol("save-fault", fmt.Sprintf("%s reported %q although recording its result failed: evaluating then failed is the only legal sequence", l, seqs[l]), run)
		}
		flags := []byte{bit(f.UpToDateErr), bit(rs.Always), bit(f.DepsUpToDate), bit(f.UpToDate), bit(f.Rerun), bit(rs.Dry),
			bit(isTarget), bit(preSaveOk), bit(!f.BodyErr), bit(!saveBroken)}
		got := seqs[l]
		if got == "" {
			got = "."
		}
		// the side conditions of the allowed shapes (DESIGN.md §4), judged on the implementation: nothing iff the first
		// failed dependency failed for another reason than being missing or cyclic; a lone failed iff it is missing
		// or cyclic, or the target's own up-to-date check failed; otherwise up-to-date or evaluating+completion
		{
			want := ""
			switch classOf(ds.String()) {
			case "first-x":
				want = "nothing"
				if seqs[l] != "" {
					viol("side-condition", fmt.Sprintf("%s reported %q although its first failed dependency failed for a reason other than missing/cyclic", l, seqs[l]), run)
				}
			case "first-m", "first-c":
				want = "lone failed"
				if seqs[l] != "F" {
					viol("side-condition", fmt.Sprintf("%s reported %q, its first failed dependency is missing or cyclic", l, seqs[l]), run)
				}
			default:
				if f.UpToDateErr {
					want = "lone failed"
					if seqs[l] != "F" {
						viol("side-condition", fmt.Sprintf("%s reported %q although its up-to-date check failed", l, seqs[l]), run)
					}
				} else if seqs[l] != "U" && seqs[l] != "ES" && seqs[l] != "EF" {
					viol("side-condition", fmt.Sprintf("%s reported %q although its dependencies succeeded and its up-to-date check worked", l, seqs[l]), run)
				}
			}
			_ = want
		}
		stream := "ev.model"
		if rs.Callback {
			stream = "ev.callback"
		}
		emitC(stream, "evq "+ds.String()+" "+string(flags), got)
		if !rs.Callback {
			// the whole sequence the target delivers, output lines included, against the model of Evaluate + line writer
			var items []string
			for _, e := range log {
				if e.label != l {
					continue
				}
				switch e.kind {
				case 'U', 'E', 'S', 'F':
					items = append(items, string(e.kind))
				case 'P':
					items = append(items, "P"+hx(e.data))
				}
			}
			chunks := "."
			if t := specs[l]; t != nil {
				cs := append([]string(nil), t.Chunks...)
				if pt := t.procText(); pt != "" {
					cs = append(cs, hx(pt)) // whatever the pieces were, the model is fed the text in one
				}
				if len(cs) > 0 {
					chunks = strings.Join(cs, ",")
				}
			}
			seq := "."
			if len(items) > 0 {
				seq = strings.Join(items, ",")
			}
			emitC("ev.output", "evo "+ds.String()+" "+string(flags)+" - "+chunks, seq+" -")
		}
		count("ev.deps."+classOf(ds.String()), 1)
	}
}

func classOf(ds string) string {
	for _, ch := range ds {
		if ch != 'o' && ch != '.' {
			return "first-" + string(ch)
		}
	}
	return "all-ok"
}

// runInChild runs one case in a child process (the harness itself with -replay): a Go panic in a target
// goroutine cannot be recovered in process.
func runInChild(c *Case) {
	in, _ := json.Marshal(map[string]any{"stream": "ev", "case": c})
	cmd := exec.Command(os.Args[0], "-replay", string(in))
	var stdout, stderr strings.Builder
	cmd.Stdout, cmd.Stderr = &stdout, &stderr
	done := make(chan error, 1)
	if err := cmd.Start(); err != nil {
		panic(err)
	}
	go func() { done <- cmd.Wait() }()
	var err error
	select {
	case err = <-done:
	case <-time.After(150 * time.Second):
		cmd.Process.Kill()
		err = errors.New("timeout")
	}
	for _, line := range strings.Split(stdout.String(), "\n") {
		switch {
		case strings.HasPrefix(line, "C\t"), strings.HasPrefix(line, "V\t"):
			outMu.Lock()
			fmt.Fprintln(out, line)
			if line[0] == 'V' {
				stats["violations"]++
			} else {
				stats["pairs."+strings.Split(line, "\t")[1]]++
			}
			outMu.Unlock()
		case strings.HasPrefix(line, "S\t"):
			var st map[string]int
			if json.Unmarshal([]byte(line[2:]), &st) == nil {
				for k, v := range st {
					if k != "violations" && !strings.HasPrefix(k, "pairs.") {
						count(k, v)
					}
				}
			}
		}
	}
	if err != nil {
		msg := stderr.String()
		if i := strings.Index(msg, "panic:"); i >= 0 {
			msg = msg[i:]
		}
		if len(msg) > 600 {
			msg = msg[:600]
		}
		key := ""
		if strings.Contains(msg, "send on closed channel") && strings.Contains(msg, "runEvents") {
			key = "run-callback-late-event"
		}
		emitV(map[string]any{"kind": "crash", "key": key, "detail": fmt.Sprintf("the process running this case died (%v): %s", err, msg),
			"input": map[string]any{"stream": "ev", "case": c}})
	}
}

// procStream: targets whose bodies run real processes writing long and piecewise-written lines to both streams
func procStream(r *rng, tier string) {
	n := 14
	if tier == "thorough" {
		n = 250
	}
	if tier == "race" {
		n = 40
	}
	for i := 0; i < n; i++ {
		c := &Case{Files: map[string]string{}}
		nt := 1 + r.below(3)
		for j := 0; j < nt; j++ {
			t := TargetSpec{Name: fmt.Sprintf("t%d", j)}
			if j > 0 && r.chance(60) {
				t.Deps = []string{c.Targets[r.below(j)].label()}
			}
			maxLen := []int{40, 400, 5000, 70000, 200000}[r.below(5)]
			lines := 2 + r.below(40)
			if maxLen >= 70000 {
				lines = 2 + r.below(6)
			}
			// every combination of builtin and exit status comes round: os/sh alternate, every other pair fails
			t.Proc = &ProcSpec{Via: []string{"os", "sh"}[(i+j)%2], Seed: r.next() % 1000000, Lines: lines, MaxLen: maxLen, FinalNL: r.chance(60)}
			if (i+j)%4 >= 2 {
				t.Proc.Exit = 1 + r.below(3) // the command fails after writing: its output must be delivered all the same
			}
			if r.chance(30) {
				t.Chunks = []string{hx("pre"), hx("fix\n")}
			}
			if r.chance(20) {
				t.Chunks = []string{hx("partial")}
			}
			t.Fail = r.chance(10)
			c.Targets = append(c.Targets, t)
		}
		root := c.Targets[nt-1].label()
		c.Runs = []RunSpec{{Target: root}, {Target: root, Always: true, NoReload: true}}
		count("ev.proc.cases", 1)
		runCase(c)
	}
}

// optStream: sequences of run options on ONE loaded project: every sequence of length 2 and 3 over
// {Run(l, nil), {}, {DryRun}, {Always}, {Always, DryRun}}, through the library API and, mixed in, the run(callback=…)
// builtin (with and without its always= / dry_run= arguments). Each run is judged for the options OF THAT RUN.
func optStream(r *rng, tier string) {
	opts := []RunSpec{{NilOpts: true}, {}, {Dry: true}, {Always: true}, {Always: true, Dry: true}}
	var seqs [][]int
	for a := range opts {
		for b := range opts {
			seqs = append(seqs, []int{a, b})
			for c := range opts {
				seqs = append(seqs, []int{a, b, c})
			}
		}
	}
	reps := 1
	if tier == "thorough" {
		reps = 6
	}
	for rep := 0; rep < reps; rep++ {
		for si, seq := range seqs {
			c := &Case{Files: map[string]string{"s0.txt": "v1"}}
			nt := 2 + r.below(3)
			for j := 0; j < nt; j++ {
				t := TargetSpec{Name: fmt.Sprintf("t%d", j)}
				for k := 0; k < j; k++ {
					if r.chance(50) {
						t.Deps = append(t.Deps, c.Targets[k].label())
					}
				}
				if r.chance(30) {
					t.Sources = []string{"s0.txt"}
				}
				if r.chance(50) {
					t.Chunks = []string{hx("out\n")}
				}
				t.Fail = r.chance(8)
				t.Always = r.chance(8)
				c.Targets = append(c.Targets, t)
			}
			if r.chance(25) { // a dependency that is a near miss of an existing target's name
				t := &c.Targets[r.below(nt)]
				t.Deps = append([]string{nearMiss(r, c)}, t.Deps...)
				c.NearMiss = true
				count("ev.opts.nearmiss", 1)
			}
			root := c.Targets[nt-1].label()
			for i, o := range seq {
				rs := opts[o]
				rs.Target = root
				rs.NoReload = i > 0
				// every third sequence sends its non-nil runs through the builtin; a run with no option set may omit the keywords
				if (si+rep)%3 == 2 && !rs.NilOpts {
					rs.Callback = true
					rs.NoKw = !rs.Always && !rs.Dry && r.chance(50)
				}
				c.Runs = append(c.Runs, rs)
			}
			count("ev.opts.sequences", 1)
			runCase(c)
		}
	}
}

func evStreams(r *rng, tier string) {
	if p := runtime.GOMAXPROCS(0); p < 4 {
		runtime.GOMAXPROCS(4)
	}
	procStream(r, tier)
	if tier == "race" {
		return
	}
	optStream(r, tier)
	n := 40
	if tier == "thorough" {
		n = 3000
	}
	for i := 0; i < n; i++ {
		c := genCase(r)
		count("ev.cases", 1)
		risky := false
		if c.Cyclic {
			count("ev.cases.cyclic", 1)
			for _, rs := range c.Runs {
				risky = risky || rs.Callback
			}
		}
		if risky {
			count("ev.cases.child", 1)
			runInChild(c)
		} else {
			runCase(c)
		}
	}
}

// ---------------------------------------------------------------- trees for the command-line consumers (cmd/dawn)

// CLIExpect: what the events file of `dawn build --json <file> <root>` on a fresh tree must show for one label
type CLIExpect struct {
	Seq   string   `json:"seq"`
	Lines []string `json:"lines"`
}

type CLICase struct {
	Case   *Case                `json:"case"`
	Root   string               `json:"root"`
	Fails  bool                 `json:"fails"`
	Expect map[string]CLIExpect `json:"expect"` // every target defined in the tree (visited or not)
}

func genCLICase(r *rng) *Case {
	c := &Case{Files: map[string]string{}}
	n := 1 + r.below(6)
	two := r.chance(40)
	for i := 0; i < n; i++ {
		t := TargetSpec{Name: fmt.Sprintf("t%d", i)}
		if two && r.chance(40) {
			t.Pkg = "p1"
		}
		for j := 0; j < i; j++ {
			if len(t.Deps) < 3 && r.chance(45) {
				t.Deps = append(t.Deps, c.Targets[j].label())
			}
		}
		for k := r.below(3); k > 0; k-- {
			t.Prints = append(t.Prints, fmt.Sprintf("%s says %d", t.Name, k))
		}
		if r.chance(45) {
			maxLen := []int{30, 300, 5000, 70000}[r.below(4)]
			t.Proc = &ProcSpec{Via: []string{"os", "sh"}[r.below(2)], Seed: r.next() % 1000000, Lines: 1 + r.below(12), MaxLen: maxLen, FinalNL: r.chance(60)}
			if r.chance(15) {
				t.Proc.Exit = 1 + r.below(3)
			}
		}
		t.Fail = r.chance(10)
		c.Targets = append(c.Targets, t)
	}
	if r.chance(15) {
		t := &c.Targets[r.below(n)]
		t.Deps = append([]string{nearMiss(r, c)}, t.Deps...)
	}
	return c
}

func predictCLI(c *Case) *CLICase {
	out := &CLICase{Case: c, Root: c.Targets[len(c.Targets)-1].label(), Expect: map[string]CLIExpect{}}
	idx := map[string]int{}
	for i := range c.Targets {
		idx[c.Targets[i].label()] = i
	}
	visited := map[int]bool{}
	var visit func(i int)
	visit = func(i int) {
		if visited[i] {
			return
		}
		visited[i] = true
		for _, d := range c.Targets[i].Deps {
			if j, ok := idx[d]; ok {
				visit(j)
			}
		}
	}
	visit(len(c.Targets) - 1)
	failed := map[int]bool{}
	for i := range c.Targets { // dependencies have smaller indices
		t := &c.Targets[i]
		if !visited[i] {
			out.Expect[t.label()] = CLIExpect{}
			continue
		}
		e := CLIExpect{}
		blocked := false
		for _, d := range t.Deps {
			j, ok := idx[d]
			if !ok {
				e.Seq, blocked = "F", true
				break
			}
			if failed[j] {
				e.Seq, blocked = "", true
				break
			}
		}
		if blocked {
			failed[i] = true
		} else {
			e.Lines = append(append([]string{}, t.Prints...), refSplit(t.procText(), true)...)
			if (t.Proc != nil && t.Proc.Exit != 0) || t.Fail {
				e.Seq, failed[i] = "EF", true
			} else {
				e.Seq = "ES"
			}
		}
		out.Expect[t.label()] = e
	}
	out.Fails = failed[len(c.Targets)-1]
	return out
}

// genTrees writes n fresh trees with their expectations under dir (one directory each)
func genTrees(dir string, r *rng, n int, one *Case) {
	cliMode = true
	for i := 0; i < n; i++ {
		c := one
		if c == nil {
			c = genCLICase(r)
		}
		d := filepath.Join(dir, fmt.Sprintf("c%04d", i))
		if err := os.MkdirAll(d, 0o755); err != nil {
			panic(err)
		}
		if err := writeTree(d, c); err != nil {
			panic(err)
		}
		b, _ := json.Marshal(predictCLI(c))
		if err := os.WriteFile(filepath.Join(d, "verif-expect.json"), b, 0o644); err != nil {
			panic(err)
		}
	}
}

//go:build verif

// Overlaid into package dawn by the verification harness (/verif/harness/build); not part of /repo.
// Exposes the unexported pure functions whose model is compared value by value.
package dawn

import (
	"bytes"
	"encoding/json"
	"crypto/sha256"
	"encoding/hex"

	"github.com/pgavlin/dawn/label"
	"github.com/pgavlin/dawn/pickle"
)

// VerifTargetInfoPath is targetInfoPath for a project rooted at root.
func VerifTargetInfoPath(root string, l *label.Label) string {
	p := &Project{root: root, work: root + "/.dawn/build"}
	return p.targetInfoPath(l)
}

// VerifFileSum is the content sum a source file target computes for the file or directory at path (sourceFile.upToDate,
// on a throw-away project: whatever function it calls for the sum, and however that function is parameterised).
func VerifFileSum(path string) (string, error) {
	f := &sourceFile{proj: &Project{}, path: path}
	_, _, _, err := f.upToDate()
	return f.sum, err
}

// VerifFingerprints returns, for every function target of a loaded project, a digest of the pickled function
// environment the engine stores as the target's stamp (function.evaluate) and compares in upToDate.
func VerifFingerprints(p *Project) (map[string]string, error) {
	out := map[string]string{}
	for l, t := range p.targets {
		f, ok := t.target.(*function)
		if !ok {
			continue
		}
		var buf bytes.Buffer
		if err := pickle.NewEncoder(&buf, pickle.PicklerFunc(envPickler)).Encode(f.function); err != nil {
			return nil, err
		}
		sum := sha256.Sum256(buf.Bytes())
		out[l] = hex.EncodeToString(sum[:])
	}
	return out, nil
}

// VerifApplyOptions runs RunOptions.apply on a project whose flags are (always, dryrun) and returns the flags afterwards.
func VerifApplyOptions(always, dryrun bool, opts *RunOptions) (bool, bool) {
	p := &Project{always: always, dryrun: dryrun}
	opts.apply(p)
	return p.always, p.dryrun
}

// VerifRecord reads the persisted record of a label: stamp, rerun flag, and whether it could be read.
func VerifRecord(p *Project, rawlabel string) (string, bool, bool) {
	l, err := label.Parse(rawlabel)
	if err != nil {
		return "", false, false
	}
	info, err := p.loadTargetInfo(l)
	if err != nil {
		return "", false, false
	}
	return info.Data, info.Rerun, true
}

// VerifDepKeyJSON writes a record whose dependencies map has the single key `key`, and returns the key as it stands
// in the JSON text and the key a fresh load reads back.
func VerifDepKeyJSON(key string) (string, string, error) {
	b, err := json.Marshal(targetInfo{Dependencies: map[string]string{key: "v"}})
	if err != nil {
		return "", "", err
	}
	var raw struct {
		Dependencies map[string]string `json:"dependencies"`
	}
	if err := json.Unmarshal(b, &raw); err != nil {
		return "", "", err
	}
	var back targetInfo
	if err := json.Unmarshal(b, &back); err != nil {
		return "", "", err
	}
	jk, bk := "", ""
	for k := range raw.Dependencies {
		jk = k
	}
	for k := range back.Dependencies {
		bk = k
	}
	return jk, bk, nil
}

// The abstract project a history is played on: packages, targets, sources, helper module; how it is rendered
// to BUILD.dawn files; the edits of a history; and its description for the Lean model (labels, paths,
// environment identities).
package main

import (
	"fmt"
	"os"
	"path"
	"path/filepath"
	"regexp"
	"sort"
	"strconv"
	"strings"
	"time"
)

type Tgt struct {
	Name    string   `json:"name"`
	Pkg     string   `json:"pkg"`
	Deps    []string `json:"deps"`    // labels of function targets
	ReadDep []string `json:"readDep"` // the dependencies whose generated files the body reads
	Srcs    []string `json:"srcs"`    // root-relative paths: files, directories, generated files of other targets
	Glob    string   `json:"glob,omitempty"` // additionally: sources=glob([Glob]) evaluated in the package directory (`**/*.txt`, `*.txt`, `d0/**`)
	// GlobEx: exclude=[GlobEx] of that glob: a pattern that matches a directory NAME (`d0*`) but none of the files below it
	GlobEx string `json:"globEx,omitempty"`
	Gens    []string `json:"gens"`    // root-relative paths
	Always  bool     `json:"always"`
	Default bool     `json:"default"`
	CodeVer int      `json:"codeVer"`
	Const   int      `json:"const"`
	Global  string   `json:"global"` // name of the package global the body references ("" = none)
	Helper  bool     `json:"helper"` // references the helper module's constant and function
	Dflt    int      `json:"dflt"`   // default parameter value (-1 = none)
	Free    int      `json:"free"`   // free variable of a closure (-1 = none)
	Doc     int      `json:"doc"`
	Removed bool     `json:"removed"`
	// FlagNamed: the BUILD file spells the name as "<prefix>" + MODE (root package, Proj.Flag != ""): Name is what that
	// evaluates to under the arguments every load of the history is given
	FlagNamed bool `json:"flagNamed,omitempty"`
	// SelfLists: the function takes `self` and its body works on the lists the engine hands it — it reads self.sources
	// in order, writes self.generates, and mixes self.dependencies / self.sources / self.generates (order, multiplicity)
	// into its outputs — instead of spelling paths in its code. Glob targets always do.
	SelfLists bool `json:"selfLists,omitempty"`
}

// usesSelf: the body works on self.sources / self.dependencies / self.generates
func (t *Tgt) usesSelf() bool { return t.Glob != "" || t.SelfLists }

func (t *Tgt) Label() string { return "//" + t.Pkg + ":" + t.Name }

type Proj struct {
	Pkgs        []string                  `json:"pkgs"`
	Globals     map[string]map[string]int `json:"globals"` // pkg → name → value
	Noise       map[string]int            `json:"noise"`   // pkg → comment counter
	Blank       map[string]int            `json:"blank"`   // pkg → blank lines / indentation variant
	HelperK     int                       `json:"helperK"`
	HelperV     int                       `json:"helperV"`
	HelperNoise int                       `json:"helperNoise"`
	Tgts        []*Tgt                    `json:"tgts"`
	// Forms: how a referenced value is SPELLED where it is equal (==) to the plain integer: "" = 5, "float" = 5.0,
	// "negzero" = -0.0 (value 0), "bool" = True / False (values 1 / 0); and "shared" for the aliasing of the list globals
	// (LB = LA instead of LB = [..]). Keys: const|<label>, dflt|<label>, free|<label>, global|<pkg>|<name>, helperk, helperv, alias|<pkg>
	Forms       map[string]string         `json:"forms,omitempty"`
	Files       map[string]string         `json:"files"` // root-relative path → content (sources; files inside source dirs)
	Dirs        []string                  `json:"dirs"`  // source directories
	// Flag: "" = no project flag; otherwise the root package declares MODE = parse_flag("mode", default="std") and EVERY
	// load of the history (builds, gc, index loads, fingerprint loads) is given the arguments --mode=<Flag>
	Flag string `json:"flag,omitempty"`
	// Broken: packages whose BUILD.dawn currently ends in a syntax error (a half-finished edit)
	Broken map[string]bool `json:"broken,omitempty"`
	// Links: symbolic links inside source directories: path of the link (a direct child of a source directory) → the
	// root-relative path of the file it points to (a plain file of Files outside every source directory). A directory
	// sum, and a body, see such an entry as a file with the referent's content.
	Links map[string]string `json:"links,omitempty"`
}

// flagArgs: LoadOptions.Args of every load of a history on this project
func (p *Proj) flagArgs() []string {
	if p.Flag == "" {
		return nil
	}
	return []string{"--mode=" + p.Flag}
}

func (p *Proj) clone() *Proj {
	q := &Proj{Pkgs: append([]string{}, p.Pkgs...), Globals: map[string]map[string]int{}, Noise: map[string]int{}, Blank: map[string]int{},
		HelperK: p.HelperK, HelperV: p.HelperV, HelperNoise: p.HelperNoise, Files: map[string]string{}, Dirs: append([]string{}, p.Dirs...), Flag: p.Flag}
	if p.Links != nil {
		q.Links = map[string]string{}
		for k, v := range p.Links {
			q.Links[k] = v
		}
	}
	if p.Broken != nil {
		q.Broken = map[string]bool{}
		for k, v := range p.Broken {
			q.Broken[k] = v
		}
	}
	for k, v := range p.Globals {
		q.Globals[k] = map[string]int{}
		for a, b := range v {
			q.Globals[k][a] = b
		}
	}
	for k, v := range p.Noise {
		q.Noise[k] = v
	}
	for k, v := range p.Blank {
		q.Blank[k] = v
	}
	for k, v := range p.Files {
		q.Files[k] = v
	}
	if p.Forms != nil {
		q.Forms = map[string]string{}
		for k, v := range p.Forms {
			q.Forms[k] = v
		}
	}
	for _, t := range p.Tgts {
		c := *t
		c.Deps = append([]string{}, t.Deps...)
		c.ReadDep = append([]string{}, t.ReadDep...)
		c.Srcs = append([]string{}, t.Srcs...)
		c.Gens = append([]string{}, t.Gens...)
		q.Tgts = append(q.Tgts, &c)
	}
	return q
}

func (p *Proj) tgt(label string) *Tgt {
	for _, t := range p.Tgts {
		if t.Label() == label {
			return t
		}
	}
	return nil
}

func (p *Proj) live() []*Tgt {
	var out []*Tgt
	for _, t := range p.Tgts {
		if !t.Removed {
			out = append(out, t)
		}
	}
	return out
}

func contains(xs []string, x string) bool {
	for _, y := range xs {
		if x == y {
			return true
		}
	}
	return false
}

func remove(xs []string, x string) []string {
	var out []string
	for _, y := range xs {
		if y != x {
			out = append(out, y)
		}
	}
	return out
}

// Names that are not valid UTF-8 cannot be carried by the JSON of a replay file: in the abstract project a raw byte
// b ≥ 0x80 that is not part of a valid UTF-8 sequence is written as the private-use rune U+F700+b; realPath maps the
// abstract spelling to the bytes on disk (valid non-ASCII text is left alone).
func rawByte(b byte) string { return string(rune(0xF700 + int(b))) }

func realPath(p string) string {
	raw := false
	for _, r := range p {
		if r >= 0xF780 && r <= 0xF7FF {
			raw = true
		}
	}
	if !raw {
		return p
	}
	var sb strings.Builder
	for _, r := range p {
		if r >= 0xF780 && r <= 0xF7FF {
			sb.WriteByte(byte(r - 0xF700))
		} else {
			sb.WriteRune(r)
		}
	}
	return sb.String()
}

func fsPath(root, rel string) string { return filepath.Join(root, filepath.FromSlash(realPath(rel))) }

// sourceLabel mirrors dawn's sourceLabel for a root-relative path (the label carries the bytes on disk).
func sourceLabelOf(p string) string {
	p = realPath(p)
	d, b := path.Split(p)
	return "source://" + strings.TrimSuffix(d, "/") + ":" + b
}

func defaultLabel(pkg string) string { return "//" + pkg + ":default" }

// globRE mirrors util.CompileGlobs for the patterns the generator uses (`**` any characters, `*` any but `/`).
func globRE(pat string) *regexp.Regexp {
	var sb strings.Builder
	sb.WriteString("^(?:")
	for i := 0; i < len(pat); i++ {
		switch {
		case pat[i] == '*' && i+1 < len(pat) && pat[i+1] == '*':
			sb.WriteString(".*")
			i++
		case pat[i] == '*':
			sb.WriteString("[^/]*")
		default:
			sb.WriteString(regexp.QuoteMeta(string(pat[i])))
		}
	}
	sb.WriteString(")$")
	return regexp.MustCompile(sb.String())
}

// globMatches: what glob([t.Glob]) returns in t's package: every FILE below the package directory (sub-packages
// included, the build state excluded) whose path relative to the package matches — sources, build files, helper
// module, generated files that exist. Only the generator's own patterns are supported, and they are chosen so that
// they select plain source files only (`.txt`, or everything below a source directory).
func (p *Proj) globMatches(t *Tgt) []string {
	if t.Glob == "" {
		return nil
	}
	re := globRE(t.Glob)
	var ex *regexp.Regexp
	if t.GlobEx != "" {
		ex = globRE(t.GlobEx)
	}
	prefix := ""
	if t.Pkg != "" {
		prefix = t.Pkg + "/"
	}
	var out []string
	for f := range p.Files {
		if !strings.HasPrefix(f, prefix) {
			continue
		}
		if re.MatchString(f[len(prefix):]) && (ex == nil || !ex.MatchString(f[len(prefix):])) {
			out = append(out, f)
		}
	}
	sort.Strings(out)
	return out
}

// codeReads: the read list as the function's code spells it
func (p *Proj) codeReads(t *Tgt) []string {
	if !t.usesSelf() {
		return p.readPaths(t)
	}
	out := []string{"<self.sources>"}
	for _, d := range t.ReadDep {
		if dt := p.tgt(d); dt != nil {
			out = append(out, dt.Gens...)
		}
	}
	return out
}

func (p *Proj) hasGlob() bool {
	for _, t := range p.Tgts {
		if t.Glob != "" {
			return true
		}
	}
	return false
}

// rawSrcs: the list sources= evaluates to, entry by entry (duplicates kept): the explicit list, then what the glob matches
func (p *Proj) rawSrcs(t *Tgt) []string {
	return append(append([]string{}, t.Srcs...), p.globMatches(t)...)
}

// srcsOf: the declared sources of t as a set in order of first appearance: the explicit list, then what its glob matches now
func (p *Proj) srcsOf(t *Tgt) []string {
	out := append([]string{}, t.Srcs...)
	for _, f := range p.globMatches(t) {
		if !contains(out, f) {
			out = append(out, f)
		}
	}
	return out
}

// readPaths: what the body of t reads, as root-relative paths.
func (p *Proj) readPaths(t *Tgt) []string {
	out := p.srcsOf(t)
	for _, d := range t.ReadDep {
		if dt := p.tgt(d); dt != nil {
			out = append(out, dt.Gens...)
		}
	}
	return out
}

// lit: the literal a value is written as at a position (see Proj.Forms)
func (p *Proj) lit(key string, v int) string {
	switch p.Forms[key] {
	case "float":
		return fmt.Sprintf("%d.0", v)
	case "negzero":
		if v == 0 {
			return "-0.0"
		}
		return fmt.Sprintf("%d.0", v)
	case "bool":
		if v == 1 {
			return "True"
		}
		if v == 0 {
			return "False"
		}
	}
	return fmt.Sprint(v)
}

func globalKey(pkg, name string) string { return "global|" + pkg + "|" + name }

func quoteList(xs []string, prefix string) string {
	qs := make([]string, len(xs))
	for i, x := range xs {
		qs[i] = fmt.Sprintf("%q", prefix+x)
	}
	return "[" + strings.Join(qs, ", ") + "]"
}

func (p *Proj) form(t *Tgt) string {
	switch {
	case t.Free >= 0 && !t.usesSelf(): // (a function that takes `self` is never rendered in the closure form)
		return "closure"
	case t.Dflt >= 0:
		return "default"
	}
	return "plain"
}

// valsExpr: the values the body mixes into its outputs; one-to-one with the descriptor.
func (p *Proj) valsExpr(t *Tgt) string {
	parts := []string{fmt.Sprint(t.CodeVer), p.lit("const|"+t.Label(), t.Const)}
	if t.Global == "LISTS" {
		parts = append(parts, "(\"l\", LA, LB)")
	} else if t.Global != "" {
		parts = append(parts, fmt.Sprintf("(\"g\", %q, %s)", t.Global, t.Global))
	}
	if t.Helper {
		parts = append(parts, "(\"h\", HK, hf(0))")
	}
	switch p.form(t) {
	case "closure":
		parts = append(parts, "(\"f\", free)")
	case "default":
		parts = append(parts, "(\"d\", dflt)")
	}
	return "[" + strings.Join(parts, ", ") + "]"
}

// descriptor: everything the function's environment consists of (code, constants, referenced globals, helper
// values and code, default, free variable). Two renderings with the same descriptor must have the same
// fingerprint (comments, blank lines, docstrings and the decorator's arguments are not part of it); different
// descriptors must have different fingerprints.
func (p *Proj) descriptor(t *Tgt) string {
	g := ""
	if t.Global == "LISTS" {
		// the aliasing of the two lists is not observable by a body (frozen values): it is not part of what the body computes
		g = fmt.Sprintf("LISTS=%d", p.Globals[t.Pkg]["LA"])
	} else if t.Global != "" {
		g = fmt.Sprintf("%s=%s", t.Global, p.lit(globalKey(t.Pkg, t.Global), p.Globals[t.Pkg][t.Global]))
	}
	h := ""
	if t.Helper {
		h = fmt.Sprintf("K%s,V%s", p.lit("helperk", p.HelperK), p.lit("helperv", p.HelperV))
	}
	// the default and the free variable are part of the code only in the form that spells them (a glob target with a
	// free value is rendered plain or with a default; a closure has no default parameter)
	w := strings.Join(t.Gens, ",")
	if t.usesSelf() {
		w = "<self.generates>"
	}
	d, f := "-", "-"
	switch p.form(t) {
	case "default":
		d = p.lit("dflt|"+t.Label(), t.Dflt)
	case "closure":
		f = p.lit("free|"+t.Label(), t.Free)
	}
	return fmt.Sprintf("%s|%s|v%d|c%s|g:%s|h:%s|d%s|f%s|r:%s|w:%s", t.Label(), p.form(t), t.CodeVer, p.lit("const|"+t.Label(), t.Const), g, h,
		d, f, strings.Join(p.codeReads(t), ","), w)
}

func (p *Proj) renderBuild(pkg string) string {
	var sb strings.Builder
	fmt.Fprintf(&sb, "# package //%s — noise %d\n", pkg, p.Noise[pkg])
	usesHelper := false
	for _, t := range p.live() {
		if t.Pkg == pkg && t.Helper {
			usesHelper = true
		}
	}
	if usesHelper {
		sb.WriteString("load(\"//lib:h.dawn\", \"HK\", \"hf\")\n")
	}
	for i := 0; i < p.Blank[pkg]%4; i++ {
		sb.WriteString("\n")
	}
	if pkg == "" && p.Flag != "" {
		// no choices=: parse_flag panics on them (gotcha recorded in the design)
		sb.WriteString("MODE = parse_flag(\"mode\", default=\"std\")\n")
	}
	var gs []string
	for g := range p.Globals[pkg] {
		gs = append(gs, g)
	}
	sort.Strings(gs)
	for _, g := range gs {
		if g == "LA" || g == "LATE" {
			continue
		}
		fmt.Fprintf(&sb, "%s = %s\n", g, p.lit(globalKey(pkg, g), p.Globals[pkg][g]))
	}
	if v, ok := p.Globals[pkg]["LA"]; ok {
		// two list globals with equal contents, either one object (LB = LA) or two
		fmt.Fprintf(&sb, "LA = [%d, %d]\n", v, v+1)
		if p.Forms["alias|"+pkg] == "shared" {
			sb.WriteString("LB = LA\n")
		} else {
			fmt.Fprintf(&sb, "LB = [%d, %d]\n", v, v+1)
		}
	}
	sb.WriteString("\n")
	ind := "    "
	if p.Blank[pkg]%2 == 1 {
		ind = "        " // indentation variant: whitespace only
	}
	for _, t := range p.live() {
		if t.Pkg != pkg {
			continue
		}
		var deps []string
		deps = append(deps, t.Deps...)
		srcs := quoteList(t.Srcs, "/")
		if t.Glob != "" {
			if t.GlobEx != "" {
				srcs += fmt.Sprintf(" + glob([%q], exclude=[%q])", t.Glob, t.GlobEx)
			} else {
				srcs += fmt.Sprintf(" + glob([%q])", t.Glob)
			}
		}
		nameExpr := fmt.Sprintf("%q", t.Name)
		if t.FlagNamed && p.Flag != "" && t.Pkg == "" && strings.HasSuffix(t.Name, p.Flag) {
			nameExpr = fmt.Sprintf("%q + MODE", strings.TrimSuffix(t.Name, p.Flag))
		}
		kw := fmt.Sprintf("name=%s, deps=%s, sources=%s, generates=%s", nameExpr, quoteList(deps, ""), srcs, quoteList(t.Gens, "/"))
		if t.Always {
			kw += ", always=True"
		}
		if t.Default {
			kw += ", default=True"
		}
		body := fmt.Sprintf("vb.body(%q, %s, %s, %s)", t.Label(), quoteList(p.readPaths(t), ""), quoteList(t.Gens, ""), p.valsExpr(t))
		if t.usesSelf() {
			// what a glob matches cannot be spelled in the code (names need not even be valid UTF-8): the body reads the
			// sources the engine hands it (self.sources, absolute paths), then the outputs of the dependencies it reads
			var depGens []string
			for _, d := range t.ReadDep {
				if dt := p.tgt(d); dt != nil {
					depGens = append(depGens, dt.Gens...)
				}
			}
			body = fmt.Sprintf("vb.body(%q, self.sources + %s, self.generates, %s, [self.dependencies, self.sources, self.generates])", t.Label(), quoteList(depGens, ""), p.valsExpr(t))
		}
		doc := fmt.Sprintf("\"\"\"target %s, doc %d\"\"\"", t.Name, t.Doc)
		fmt.Fprintf(&sb, "# %s (comment %d)\n", t.Name, p.Noise[pkg])
		switch p.form(t) {
		case "closure":
			fmt.Fprintf(&sb, "def _mk_%s(free):\n%sdef %s_fn():\n%s%s%s\n%s%s%s\n%sreturn %s_fn\n", t.Name, ind, t.Name, ind, ind, doc, ind, ind, body, ind, t.Name)
			fmt.Fprintf(&sb, "target(%s, function=_mk_%s(%s))\n\n", kw, t.Name, p.lit("free|"+t.Label(), t.Free))
		case "default":
			fmt.Fprintf(&sb, "@target(%s)\ndef %s_fn(self, dflt=%s):\n%s%s\n%s%s\n\n", kw, t.Name, p.lit("dflt|"+t.Label(), t.Dflt), ind, doc, ind, body)
		default:
			params := ""
			if t.usesSelf() {
				params = "self"
			}
			fmt.Fprintf(&sb, "@target(%s)\ndef %s_fn(%s):\n%s%s\n%s%s\n\n", kw, t.Name, params, ind, doc, ind, body)
		}
	}
	if _, ok := p.Globals[pkg]["LATE"]; ok {
		// a global assigned BELOW the targets that refer to it (a forward reference: helpers and constants at the end of
		// a build file): set by the time the file has been executed, not yet while target() runs
		fmt.Fprintf(&sb, "LATE = %s\n", p.lit(globalKey(pkg, "LATE"), p.Globals[pkg]["LATE"]))
	}
	if p.Broken[pkg] {
		sb.WriteString("\ndef half_written(:\n")
	}
	return sb.String()
}

func (p *Proj) renderHelper() string {
	return fmt.Sprintf("# helper module — noise %d\nHK = %s\n\ndef hf(x):\n    # helper function, version in the constant it adds\n    return x + %s\n", p.HelperNoise, p.lit("helperk", p.HelperK), p.lit("helperv", p.HelperV))
}

func writeIfChanged(p string, content string) error {
	if _, _, big := bigContent(content); !big {
		if b, err := os.ReadFile(p); err == nil && string(b) == content {
			return nil
		}
	}
	if err := os.MkdirAll(filepath.Dir(p), 0o755); err != nil {
		return err
	}
	return writeContent(p, content)
}

// bigContent: an abstract content of the form "@@BIG:<n>@@<text>" stands for <text> followed by zero bytes up
// to a total of n bytes on disk (size classes the engine might treat specially — C02-q2 — without megabytes of JSON).
func bigContent(content string) (text string, size int64, ok bool) {
	if !strings.HasPrefix(content, "@@BIG:") {
		return content, 0, false
	}
	rest := content[len("@@BIG:"):]
	i := strings.Index(rest, "@@")
	if i < 0 {
		return content, 0, false
	}
	n, err := strconv.ParseInt(rest[:i], 10, 64)
	if err != nil {
		return content, 0, false
	}
	return rest[i+2:], n, true
}

// writeContent writes an abstract content to disk (see bigContent).
func writeContent(p string, content string) error {
	text, size, big := bigContent(content)
	if !big {
		return os.WriteFile(p, []byte(content), 0o644)
	}
	os.Remove(p)
	if err := os.WriteFile(p, []byte(text), 0o644); err != nil {
		return err
	}
	if size > int64(len(text)) {
		return os.Truncate(p, size)
	}
	return nil
}

// writeBuildFiles renders every package's BUILD.dawn and the helper module (only files whose text changed are rewritten).
func (p *Proj) writeBuildFiles(root string) error {
	if err := writeIfChanged(filepath.Join(root, ".dawnconfig"), ""); err != nil {
		return err
	}
	for _, pkg := range p.Pkgs {
		if err := writeIfChanged(filepath.Join(root, filepath.FromSlash(pkg), "BUILD.dawn"), p.renderBuild(pkg)); err != nil {
			return err
		}
	}
	return writeIfChanged(filepath.Join(root, "lib", "h.dawn"), p.renderHelper())
}

// writeAll: the whole tree into an empty directory.
func (p *Proj) writeAll(root string) error {
	if err := p.writeBuildFiles(root); err != nil {
		return err
	}
	for _, d := range p.Dirs {
		if err := os.MkdirAll(fsPath(root, d), 0o755); err != nil {
			return err
		}
	}
	for f, c := range p.Files {
		if err := writeIfChanged(fsPath(root, f), c); err != nil {
			return err
		}
	}
	for l, ref := range p.Links {
		if err := makeLink(root, l, ref); err != nil {
			return err
		}
	}
	return nil
}

// makeLink (re)creates the symbolic link l → ref, relative, so that a copy of the tree keeps its meaning
func makeLink(root, l, ref string) error {
	lp := fsPath(root, l)
	target, err := filepath.Rel(filepath.Dir(lp), fsPath(root, ref))
	if err != nil {
		return err
	}
	os.Remove(lp)
	if err := os.MkdirAll(filepath.Dir(lp), 0o755); err != nil {
		return err
	}
	return os.Symlink(target, lp)
}

// ---------------------------------------------------------------- edits

type Edit struct {
	Kind   string `json:"kind"`
	Path   string `json:"path,omitempty"`
	To     string `json:"to,omitempty"`
	Text   string `json:"text,omitempty"`
	Target string `json:"target,omitempty"`
	Other  string `json:"other,omitempty"`
	Pkg    string `json:"pkg,omitempty"`
	Name   string `json:"name,omitempty"`
	Val    int    `json:"val,omitempty"`
	Flag   bool   `json:"flag,omitempty"`
}

// classes of edits that are not changes to any input (C02)
var noopEdit = map[string]bool{"touch": true, "samecontent": true, "comment": true, "whitespace": true, "doc": true, "helpernoise": true,
	"junktemp": true, "junkwork": true, "blockdir": true, "unblockdir": true}

// apply performs the edit on the abstract project and on the tree under root ("" = abstract only).
func (e *Edit) apply(p *Proj, root string) error {
	abs := func(rel string) string { return fsPath(root, rel) }
	rebuild := false
	switch e.Kind {
	case "content", "create":
		p.Files[e.Path] = e.Text
		if root != "" {
			if err := os.MkdirAll(filepath.Dir(abs(e.Path)), 0o755); err != nil {
				return err
			}
			if err := writeContent(abs(e.Path), e.Text); err != nil {
				return err
			}
		}
	case "samecontent":
		if root != "" {
			if c, ok := p.Files[e.Path]; ok {
				return writeContent(abs(e.Path), c)
			}
		}
	case "touch":
		if root != "" {
			t := time.Now().Add(time.Duration(e.Val+1) * time.Hour)
			os.Chtimes(abs(e.Path), t, t)
		}
	case "retarget": // point a symbolic link inside a source directory at another file
		if p.Links == nil {
			p.Links = map[string]string{}
		}
		p.Links[e.Path] = e.To
		if root != "" {
			if err := makeLink(root, e.Path, e.To); err != nil {
				return err
			}
		}
	case "delete": // a source file (or a file inside a source directory)
		delete(p.Files, e.Path)
		if root != "" {
			os.Remove(abs(e.Path))
		}
	case "delgen": // a generated file: only its presence is an input
		if root != "" {
			os.Remove(abs(e.Path))
		}
	case "rename": // inside a source directory
		if c, ok := p.Files[e.Path]; ok {
			delete(p.Files, e.Path)
			p.Files[e.To] = c
			if root != "" {
				if err := os.Rename(abs(e.Path), abs(e.To)); err != nil {
					return err
				}
			}
		}
	case "code":
		p.tgt(e.Target).CodeVer++
		rebuild = true
	case "const":
		p.tgt(e.Target).Const = e.Val
		rebuild = true
	case "dflt":
		p.tgt(e.Target).Dflt = e.Val
		rebuild = true
	case "free":
		p.tgt(e.Target).Free = e.Val
		rebuild = true
	case "global":
		p.Globals[e.Pkg][e.Name] = e.Val
		rebuild = true
	case "helperk":
		p.HelperK = e.Val
		rebuild = true
	case "helperv":
		p.HelperV = e.Val
		rebuild = true
	case "helpernoise":
		p.HelperNoise++
		rebuild = true
	case "junkwork": // a stray file and a stray directory directly under .dawn/build
		if root != "" {
			work := filepath.Join(root, ".dawn", "build")
			if err := os.MkdirAll(filepath.Join(work, "stray-"+e.Name+".d", "nested"), 0o755); err != nil {
				return err
			}
			os.WriteFile(filepath.Join(work, "stray-"+e.Name+".d", "nested", "x"), []byte("junk"), 0o644)
			if err := os.WriteFile(filepath.Join(work, "stray-"+e.Name), []byte("junk"), 0o644); err != nil {
				return err
			}
		}
	case "junktemp": // stray files and directories in .dawn/build/temp (Val entries)
		if root != "" {
			tmp := filepath.Join(root, ".dawn", "build", "temp")
			if err := os.MkdirAll(tmp, 0o755); err != nil {
				return err
			}
			for i := 0; i < e.Val; i++ {
				name := filepath.Join(tmp, fmt.Sprintf("junk-%s-%d", e.Name, i))
				if i%2 == 1 {
					if err := os.MkdirAll(filepath.Join(name, "nested"), 0o755); err != nil {
						return err
					}
					os.WriteFile(filepath.Join(name, "nested", "x"), []byte("junk"), 0o644)
				} else if err := os.WriteFile(name, []byte("junk"), 0o644); err != nil {
					return err
				}
			}
		}
	case "blockdir": // replace a directory by a regular file (Stat of what is below it then fails with ENOTDIR)
		if root != "" {
			if err := os.Rename(abs(e.Path), abs(e.Path)+".saved"); err != nil {
				return err
			}
			return os.WriteFile(abs(e.Path), []byte("not a directory\n"), 0o644)
		}
	case "unblockdir":
		if root != "" {
			os.Remove(abs(e.Path))
			return os.Rename(abs(e.Path)+".saved", abs(e.Path))
		}
	case "truncindex": // cut .dawn/build/index.json after Val bytes
		if root != "" {
			return os.Truncate(filepath.Join(root, ".dawn", "build", "index.json"), int64(e.Val))
		}
	case "form": // respell a value at one position: Name = the position's key, Text = the form
		if p.Forms == nil {
			p.Forms = map[string]string{}
		}
		p.Forms[e.Name] = e.Text
		rebuild = true
	case "comment":
		p.Noise[e.Pkg]++
		rebuild = true
	case "whitespace":
		p.Blank[e.Pkg]++
		rebuild = true
	case "doc":
		p.tgt(e.Target).Doc++
		rebuild = true
	case "always":
		p.tgt(e.Target).Always = e.Flag
		rebuild = true
	case "adddep":
		t := p.tgt(e.Target)
		if !contains(t.Deps, e.Other) {
			t.Deps = append(t.Deps, e.Other)
		}
		if e.Flag && !contains(t.ReadDep, e.Other) {
			t.ReadDep = append(t.ReadDep, e.Other)
		}
		rebuild = true
	case "rmdep":
		t := p.tgt(e.Target)
		t.Deps = remove(t.Deps, e.Other)
		t.ReadDep = remove(t.ReadDep, e.Other)
		rebuild = true
	case "addsrc":
		t := p.tgt(e.Target)
		if !contains(t.Srcs, e.Path) {
			t.Srcs = append(t.Srcs, e.Path)
		}
		rebuild = true
	case "rmsrc":
		t := p.tgt(e.Target)
		t.Srcs = remove(t.Srcs, e.Path)
		rebuild = true
	case "reorder":
		// rotate the entries of sources= / deps= / generates= by one: the same set, another order
		t := p.tgt(e.Target)
		rot := func(xs []string) []string {
			if len(xs) < 2 {
				return xs
			}
			return append(append([]string{}, xs[1:]...), xs[0])
		}
		switch e.Name {
		case "srcs":
			t.Srcs = rot(t.Srcs)
		case "deps":
			t.Deps = rot(t.Deps)
		case "gens":
			t.Gens = rot(t.Gens)
		default:
			return fmt.Errorf("reorder: unknown list %q", e.Name)
		}
		rebuild = true
	case "dup":
		// repeat entry Val of sources= / deps= at the end of the list: the same set, another multiplicity
		t := p.tgt(e.Target)
		switch {
		case e.Name == "srcs" && e.Val < len(t.Srcs):
			t.Srcs = append(t.Srcs, t.Srcs[e.Val])
		case e.Name == "deps" && e.Val < len(t.Deps):
			t.Deps = append(t.Deps, t.Deps[e.Val])
		default:
			return fmt.Errorf("dup: no entry %d in %q", e.Val, e.Name)
		}
		rebuild = true
	case "break":
		if p.Broken == nil {
			p.Broken = map[string]bool{}
		}
		p.Broken[e.Path] = true
		rebuild = true
	case "unbreak":
		delete(p.Broken, e.Path)
		rebuild = true
	case "rmtarget":
		p.tgt(e.Target).Removed = true
		rebuild = true
	case "addtarget":
		p.tgt(e.Target).Removed = false
		rebuild = true
	default:
		return fmt.Errorf("unknown edit %q", e.Kind)
	}
	switch e.Kind {
	case "content", "create", "delete", "rename":
		if p.hasGlob() {
			rebuild = true
		}
	}
	if rebuild && root != "" {
		return p.writeBuildFiles(root)
	}
	return nil
}

// ---------------------------------------------------------------- numbering for the model

type numbering struct {
	labels   map[string]int
	labelStr []string
	paths    map[string]int
	contents map[string]int
	envs     map[string]int
	codes    map[string]int
	names    map[string]int
}

func newNumbering() *numbering {
	return &numbering{labels: map[string]int{}, labelStr: []string{""}, paths: map[string]int{}, contents: map[string]int{"garbage\n": 0},
		envs: map[string]int{}, codes: map[string]int{}, names: map[string]int{}}
}

func (n *numbering) label(s string) int {
	if v, ok := n.labels[s]; ok {
		return v
	}
	v := len(n.labels) + 1
	n.labels[s] = v
	n.labelStr = append(n.labelStr, s)
	return v
}
func (n *numbering) path(s string) int {
	if v, ok := n.paths[s]; ok {
		return v
	}
	v := len(n.paths) + 1
	n.paths[s] = v
	return v
}
func (n *numbering) content(s string) int {
	if v, ok := n.contents[s]; ok {
		return v
	}
	v := len(n.contents) + 1
	n.contents[s] = v
	return v
}
func (n *numbering) code(s string) int {
	if v, ok := n.codes[s]; ok {
		return v
	}
	v := len(n.codes) + 1
	n.codes[s] = v
	return v
}
func (n *numbering) env(s string) int {
	if v, ok := n.envs[s]; ok {
		return v
	}
	v := len(n.envs) + 1
	n.envs[s] = v
	return v
}

// entry names are numbered by their rank in the fixed pool, so that numeric order is the byte order of the names
var namePool = []string{"a.txt", "b.txt", "c.txt", "d.txt", "e.txt", "f.txt", "sub", "z.txt",
	// unusual names: space, percent signs (also one that looks like an escaped slash), hash, quotes, leading dash, trailing
	// dot, valid non-ASCII, and names that are NOT valid UTF-8 (0xe9, 0xff, a lone continuation byte)
	"sp ace.txt", "%.txt", "%2F.txt", "#h.txt", "q\"q.txt", "q'q.txt", "-d.txt", "dot.", "é.txt", "at@x.txt", "semi;x.txt",
	"caf" + rawByte(0xe9) + ".txt", rawByte(0xff) + ".txt", "c" + rawByte(0x80) + ".txt",
	// names that END in an invalid byte, and one that consists of nothing else
	"caf" + rawByte(0xe9), rawByte(0xff),
	"lnk"}

var nameRanks = func() map[string]int {
	sorted := append([]string{}, namePool...)
	sort.Slice(sorted, func(i, j int) bool { return realPath(sorted[i]) < realPath(sorted[j]) })
	m := map[string]int{}
	for i, n := range sorted {
		m[n] = i + 1
	}
	return m
}()

// nameRank: the rank of an entry name in the byte order of the names on disk (the order dirSum sorts by)
func nameRank(s string) int {
	if r, ok := nameRanks[s]; ok {
		return r
	}
	return 99
}

func natList(xs []int) string {
	if len(xs) == 0 {
		return "-"
	}
	ss := make([]string, len(xs))
	for i, x := range xs {
		ss[i] = fmt.Sprint(x)
	}
	return strings.Join(ss, ",")
}

// isDir: path is one of the project's source directories (or below one)
func (p *Proj) isDir(rel string) bool {
	for _, d := range p.Dirs {
		if d == rel {
			return true
		}
	}
	return false
}

// dirListing: the model's value of a source directory: (name rank, content id of the entry); a sub-directory's
// content id is the id of its own canonical listing.
func (p *Proj) dirListing(n *numbering, dir string) string {
	type ent struct {
		name string
		id   int
	}
	seen := map[string]bool{}
	var es []ent
	for f, c := range p.Files {
		if !strings.HasPrefix(f, dir+"/") {
			continue
		}
		rest := f[len(dir)+1:]
		if i := strings.IndexByte(rest, '/'); i >= 0 {
			sub := rest[:i]
			if !seen[sub] {
				seen[sub] = true
				es = append(es, ent{sub, n.content("DIR{" + p.dirListing(n, dir+"/"+sub) + "}")})
			}
		} else {
			es = append(es, ent{rest, n.content(c)})
		}
	}
	for l, ref := range p.Links { // a link to a file is a file entry with the referent's content
		if strings.HasPrefix(l, dir+"/") && !strings.Contains(l[len(dir)+1:], "/") {
			if c, ok := p.Files[ref]; ok {
				es = append(es, ent{l[len(dir)+1:], n.content(c)})
			}
		}
	}
	for _, d := range p.Dirs { // empty sub-directories
		if strings.HasPrefix(d, dir+"/") && !strings.Contains(d[len(dir)+1:], "/") && !seen[d[len(dir)+1:]] {
			seen[d[len(dir)+1:]] = true
			es = append(es, ent{d[len(dir)+1:], n.content("DIR{" + p.dirListing(n, d) + "}")})
		}
	}
	sort.Slice(es, func(i, j int) bool { return es[i].name < es[j].name })
	parts := make([]string, len(es))
	for i, e := range es {
		parts[i] = fmt.Sprintf("%d:%d", nameRank(e.name), e.id)
	}
	if len(parts) == 0 {
		return "-"
	}
	return strings.Join(parts, ",")
}

// isGenerated: some target (live or removed) declares the path as generated
func (p *Proj) isGenerated(rel string) bool {
	for _, t := range p.Tgts {
		if contains(t.Gens, rel) {
			return true
		}
	}
	return false
}

// modelDefs: the `cleardefs` + `def` lines of the current tree.
func (p *Proj) modelDefs(n *numbering, fps map[string]string) []string {
	envOf := func(label, fallback string) int {
		if fp, ok := fps[label]; ok {
			return n.env(fp)
		}
		return n.env(fallback)
	}
	out := []string{"cleardefs"}
	srcSeen := map[string]bool{}
	hasDefault := map[string]bool{}
	for _, t := range p.live() {
		var deps, reads, gens []int
		for _, d := range t.Deps {
			deps = append(deps, n.label(d))
		}
		// the declared dependencies are the list the engine builds: deps=, then sources= entry by entry (duplicates kept:
		// order and multiplicity are part of what a record remembers, D32); a body that spells its reads in its code
		// reads each source once, a body that works on self.sources reads the list as it is
		raw := p.rawSrcs(t)
		for _, s := range raw {
			deps = append(deps, n.label(sourceLabelOf(s)))
		}
		srcs := p.srcsOf(t)
		if t.usesSelf() {
			srcs = raw
		}
		for _, s := range srcs {
			reads = append(reads, n.label(sourceLabelOf(s)))
			if !srcSeen[s] {
				srcSeen[s] = true
				out = append(out, fmt.Sprintf("def %d s 0 0 %d - - - 0", n.label(sourceLabelOf(s)), n.path(s)))
			}
		}
		for _, d := range t.ReadDep {
			reads = append(reads, n.label(d))
		}
		for _, g := range t.Gens {
			gens = append(gens, n.path(g))
		}
		al := 0
		if t.Always {
			al = 1
		}
		code := p.descriptor(t)
		kind := "f"
		if t.usesSelf() {
			kind = "F" // the model's body is handed the lists as well
		}
		out = append(out, fmt.Sprintf("def %d %s %d %d 0 %s %s %s %d", n.label(t.Label()), kind, al, envOf(t.Label(), p.descriptor(t)), natList(deps), natList(reads), natList(gens), n.code(code)))
		if t.Default && !hasDefault[t.Pkg] {
			hasDefault[t.Pkg] = true
			out = append(out, fmt.Sprintf("def %d f 0 %d 0 %d - - 0", n.label(defaultLabel(t.Pkg)), envOf(defaultLabel(t.Pkg), "<default>"), n.label(t.Label())))
		}
	}
	return out
}

// modelFile: the `file` line for a source path in its present state (generated paths are tracked by the model itself).
func (p *Proj) modelFile(n *numbering, rel string) string {
	if p.isDir(rel) {
		return fmt.Sprintf("file %d d %s", n.path(rel), p.dirListing(n, rel))
	}
	if c, ok := p.Files[rel]; ok {
		return fmt.Sprintf("file %d f %d", n.path(rel), n.content(c))
	}
	return fmt.Sprintf("file %d m", n.path(rel))
}

// Correspondence + judge harness for the incremental engine (C01, C02, C03, C13, C14). Built INTO the repo's
// module with `go build -overlay -tags verif` as package github.com/pgavlin/dawn/cmd/verif_build; not part of /repo.
//
//   verif_build -prop C01 -seed 1 -tier quick            generate histories, play them on the real engine, judge
//   verif_build -prop C01 -replay '<json>'|@file         play one stored history and judge it
//   verif_build -child spec.json                         (internal) one operation in a fresh process
//
// Output, one record per line, tab separated:
//   C <stream> <driver input> <Go's canonical answer>     correspondence pair (tie 2)
//   V <json>                                             the property's own predicate failed on the implementation
//   S <json>                                             statistics of this run
package main

import (
	"encoding/hex"
	"encoding/json"
	"flag"
	"fmt"
	"os"
	"path/filepath"
	"reflect"
	"runtime"
	"sort"
	"strings"
	"sync"
	"time"
	"unicode/utf8"

	"github.com/pgavlin/dawn"
	"github.com/pgavlin/dawn/label"
)

type violation struct {
	Kind   string   `json:"kind"`
	Detail string   `json:"detail"`
	Op     int      `json:"op"`
	Input  *History `json:"input"`
}

type stats struct {
	Histories     int            `json:"histories"`
	Ops           int            `json:"ops"`
	Children      int            `json:"child_processes"`
	Builds        int            `json:"builds"`
	BuildsOK      int            `json:"builds_succeeded"`
	BuildsExec    int            `json:"builds_that_executed_something"`
	Executed      int            `json:"bodies_executed"`
	CleanCompares int            `json:"clean_build_comparisons"`
	FilesCompared int            `json:"generated_files_compared"`
	Pairs         int            `json:"executed_then_dependent_visited_later_pairs"`
	Probes        int            `json:"no_exec_probes"`
	ProbesSkipped int            `json:"no_exec_probes_skipped"`
	Crashes       int            `json:"crash_ops"`
	CrashesHit    int            `json:"crash_ops_that_died"`
	Fails         int            `json:"failing_body_ops"`
	Recoveries    int            `json:"recovery_builds_checked"`
	DryRuns       int            `json:"dry_runs"`
	DryPredicted  int            `json:"dry_runs_compared_with_real_build"`
	MultiRuns     int            `json:"same_process_run_sequences"`
	GCs           int            `json:"gc_ops"`
	Loads         int            `json:"load_only_ops"`
	IndexLoads    int            `json:"index_preferring_loads_after_a_crash"`
	SkipProbes    int            `json:"expect_skip_probes"`
	GCRemoved     int            `json:"record_files_removed_by_gc"`
	GCTemps       int            `json:"temporaries_removed_by_gc"`
	GCBroken      int            `json:"gcs_with_a_broken_build_file"`
	Twins         int            `json:"twin_histories"`
	TwinBuilds    int            `json:"twin_builds_compared"`
	Edits         map[string]int `json:"edit_kinds"`
	CrashHooks    map[string]int `json:"crash_points_hit"`
	Layouts       map[string]int `json:"project_layouts"`
	Targets       map[int]int    `json:"targets_per_project"`
	WallS         float64        `json:"wall_s"`
}

func (s *stats) add(o *stats) {
	a, b := reflect.ValueOf(s).Elem(), reflect.ValueOf(o).Elem()
	for i := 0; i < a.NumField(); i++ {
		switch a.Field(i).Kind() {
		case reflect.Int:
			a.Field(i).SetInt(a.Field(i).Int() + b.Field(i).Int())
		}
	}
	for k, v := range o.Edits {
		s.Edits[k] += v
	}
	for k, v := range o.CrashHooks {
		s.CrashHooks[k] += v
	}
	for k, v := range o.Layouts {
		s.Layouts[k] += v
	}
	for k, v := range o.Targets {
		s.Targets[k] += v
	}
}

func newStats() *stats {
	return &stats{Edits: map[string]int{}, CrashHooks: map[string]int{}, Targets: map[int]int{}, Layouts: map[string]int{}}
}

func sortedCopy(xs []string) []string {
	m := map[string]bool{}
	for _, x := range xs {
		m[x] = true
	}
	var out []string
	for x := range m {
		out = append(out, x)
	}
	sort.Strings(out)
	return out
}

func setOf(xs []string) map[string]bool {
	m := map[string]bool{}
	for _, x := range xs {
		m[x] = true
	}
	return m
}

func isFault(op *Op) bool {
	return op.CrashAt > 0 || op.CrashHook != "" || len(op.Fail) > 0 || op.WriteLimit > 0
}
func isCrash(op *Op) bool { return op.CrashAt > 0 || op.CrashHook != "" }

// upstream: the labels (function targets, their default label, source labels) a label's evaluation reaches
func upstream(p *Proj, l string) map[string]bool {
	out := map[string]bool{l: true}
	switch {
	case strings.HasPrefix(l, "source:"):
		for _, g := range p.live() {
			for _, gp := range g.Gens {
				if sourceLabelOf(gp) == l {
					for k := range p.closure(g.Label()) {
						out[k] = true
					}
				}
			}
		}
	default:
		for k := range p.closure(l) {
			out[k] = true
		}
	}
	// the sources of everything reached
	for k := range out {
		if t := p.tgt(k); t != nil {
			for _, s := range p.srcsOf(t) {
				out[sourceLabelOf(s)] = true
			}
		}
	}
	return out
}

// alwaysDownstream: what may legitimately be evaluated in an unchanged tree: `always` targets and what depends on them
func alwaysDownstream(p *Proj, root string) map[string]bool {
	cl := p.closure(root)
	a := map[string]bool{}
	for changed := true; changed; {
		changed = false
		for l := range cl {
			if a[l] {
				continue
			}
			t := p.tgt(l)
			hit := t.Always
			for _, d := range t.Deps {
				if a[d] {
					hit = true
				}
			}
			for _, s := range p.srcsOf(t) {
				if a[sourceLabelOf(s)] {
					hit = true
				}
			}
			if hit {
				a[l] = true
				for _, g := range t.Gens {
					a[sourceLabelOf(g)] = true
				}
				if t.Default {
					a[defaultLabel(t.Pkg)] = true
				}
				changed = true
			}
		}
	}
	return a
}

type judge struct {
	prop  string
	r     *runner
	h     *History
	st    *stats
	viols []violation
	// D8 coverage: (executed target, dependent outside that build's closure) pairs waiting for a later visit
	pending map[[2]string]bool
}

func (j *judge) viol(kind string, op int, format string, a ...any) {
	if len(j.viols) >= 3 {
		return
	}
	hh := *j.h
	if op+1 < len(hh.Ops) {
		hh.Ops = hh.Ops[:op+1]
	}
	j.viols = append(j.viols, violation{Kind: kind, Detail: fmt.Sprintf(format, a...), Op: op, Input: &hh})
}

func semRec(r recView) string {
	var ks []string
	for k, v := range r.Deps {
		ks = append(ks, k+"="+v)
	}
	sort.Strings(ks)
	return fmt.Sprintf("%v|%s|%v|%d|%s", ks, r.Stamp, r.Rerun, r.Runs, r.Doc)
}

func emptyRecV(r recView) bool { return len(r.Deps) == 0 && r.Stamp == "" && !r.Rerun && r.Runs == 0 }

// semState: the persisted build state as the engine reads it (a missing record and an empty record are the same)
func semState(o *Obs) map[string]string {
	m := map[string]string{}
	if o == nil {
		return m
	}
	for l, r := range o.Records {
		if !emptyRecV(r) {
			m[l] = semRec(r)
		}
	}
	return m
}

// each is called after every build / gc of the main run
func (j *judge) each(i int, op *Op, root string, p *Proj, o *Obs, prev *Obs) {
	st := j.st
	switch op.Kind {
	case "gc":
		st.GCs++
		j.judgeGC(i, op, p, o, prev)
		return
	case "load":
		st.Loads++
		if o.Exit != exitOK {
			j.viol("state-unloadable", i, "a process that only loads the project (PreferIndex=%v) exited %d: %s", op.PreferIndex, o.Exit, o.Stderr)
		}
		if len(o.BadRecords) > 0 {
			j.viol("state-unloadable", i, "record files that do not decode after op %d: %v", i, o.BadRecords)
		}
		return
	}
	st.Builds++
	if o.Exit == exitOK {
		st.BuildsOK++
	}
	if len(o.ExecStart) > 0 {
		st.BuildsExec++
	}
	st.Executed += len(o.ExecOK)
	if len(o.BadRecords) > 0 {
		j.viol("state-unloadable", i, "record files that do not decode after op %d: %v", i, o.BadRecords)
	}
	if o.Exit != exitOK && o.Exit != exitBuildFail && o.Exit != exitCrash {
		j.viol("process", i, "child exited %d: %s", o.Exit, o.Stderr)
	}
	if isCrash(op) && o.Crashed && j.prop == "C03" {
		// the state must load both ways: from the build files (the next build does that) and preferring the index
		if code, stderr, err := j.r.indexLoad(root); err != nil {
			j.viol("harness", i, "index load: %v", err)
		} else {
			st.IndexLoads++
			if code != exitOK {
				j.viol("state-unloadable", i, "after the crash of op %d a load that prefers index.json exits %d: %s", i, code, stderr)
			}
		}
	}
	if isCrash(op) {
		st.Crashes++
		if o.Crashed {
			st.CrashesHit++
			if n := len(o.RunTrace); n > 0 {
				st.CrashHooks[o.RunTrace[n-1].hook]++
			} else if n := len(o.LoadTrace); n > 0 {
				st.CrashHooks["load:"+o.LoadTrace[n-1].hook]++
			}
		}
	}
	if len(op.Fail) > 0 {
		st.Fails++
	}
	// D8 coverage measure
	visited := setOf(append(append([]string{}, o.U...), o.V...))
	for k := range j.pending {
		if visited[k[1]] {
			st.Pairs++
			delete(j.pending, k)
		}
	}
	if !op.Dry {
		cl := p.closure(op.Target)
		for _, t := range o.ExecOK {
			for _, d := range p.dependents(t) {
				if !cl[d.Label()] {
					j.pending[[2]string{t, d.Label()}] = true
				}
			}
		}
	}
	if op.Dry {
		st.DryRuns++
		j.judgeDry(i, op, o, prev)
		return
	}
	// C01: what a glob declares as sources is what the pattern selects: every file that matches an include pattern and no
	// exclude pattern is a dependency of the target (its record lists it), wherever the file lies
	if o.Exit == exitOK && !o.Crashed && j.prop == "C01" {
		for l := range p.closure(op.Target) {
			t := p.tgt(l)
			rec, ok := o.Records[l]
			if t == nil || t.Glob == "" || !ok || rec.Rerun {
				continue
			}
			for _, s := range p.srcsOf(t) {
				if realPath(s) != s {
					continue // (names that are not valid UTF-8 are compared through the model)
				}
				if _, listed := rec.Deps[sourceLabelOf(s)]; !listed {
					j.viol("glob-loses-source", i, "%s has sources=glob([%q], exclude=[%q]); %s matches the include pattern and no exclude pattern, yet after a successful build the record of %s does not list it as a dependency",
						l, t.Glob, t.GlobEx, s, l)
					return
				}
			}
		}
	}
	// C01: after every successful build, the generated files of the closure are those of a from-scratch build
	if o.Exit == exitOK && !o.Crashed && (j.prop == "C01" || j.prop == "C03") {
		clean, err := j.r.cleanBuild(root, p, op.Target)
		if err != nil {
			j.viol("harness", i, "clean build: %v", err)
			return
		}
		st.CleanCompares++
		if clean.Exit != exitOK {
			j.viol("clean-build-fails", i, "the incremental build of %s succeeded but a from-scratch build of the same tree exits %d", op.Target, clean.Exit)
			return
		}
		var ls []string
		for l := range p.closure(op.Target) {
			ls = append(ls, l)
		}
		sort.Strings(ls)
		for _, l := range ls {
			for _, g := range p.tgt(l).Gens {
				st.FilesCompared++
				if o.Gens[g] != clean.Gens[g] {
					j.viol("stale", i, "after a successful build of %s the generated file %s of %s differs from a from-scratch build of the same tree (incremental %q, clean %q)",
						op.Target, g, l, strings.TrimSpace(o.Gens[g]), strings.TrimSpace(clean.Gens[g]))
					return
				}
			}
		}
	}
}

func (j *judge) judgeDry(i int, op *Op, o *Obs, prev *Obs) {
	if len(o.ExecStart) > 0 {
		j.viol("dry-executes", i, "a dry run executed bodies: %v", o.ExecStart)
	}
	if o.State["work-after-load"] != o.State["work-after-run"] {
		j.viol("dry-writes-state", i, "the dry run changed .dawn/build")
	}
	if o.State["tree-after-load"] != o.State["tree-after-run"] || o.TreeBefore != o.TreeAfter {
		j.viol("dry-writes-tree", i, "the dry run changed a project file")
	}
	if !reflect.DeepEqual(semState(prev), semState(o)) {
		j.viol("dry-changes-records", i, "the records differ after `dawn build -n` (load + dry run): before %v after %v", semState(prev), semState(o))
	}
}

func (j *judge) judgeGC(i int, op *Op, p *Proj, o *Obs, prev *Obs) {
	if op.ExpectFail {
		// the build files do not load: a collection that cannot know what exists must not remove anything that exists
		// once the file is repaired (p.live() does not look at Broken); failing outright is the expected behaviour
		j.st.GCBroken++
		if o.TreeBefore != o.TreeAfter {
			j.viol("gc-not-confined", i, "gc changed something outside .dawn/build")
		}
		if prev == nil {
			return
		}
		live := map[string]bool{}
		for _, t := range p.live() {
			live[t.Label()] = true
			if t.Default {
				live[defaultLabel(t.Pkg)] = true
			}
			for _, s := range p.srcsOf(t) {
				live[sourceLabelOf(s)] = true
			}
		}
		for l, r := range prev.Records {
			if (o.Exit == exitOK && !live[l]) || emptyRecV(r) {
				continue
			}
			if nr, ok := o.Records[l]; !ok || semRec(nr) != semRec(r) {
				j.viol("gc-loses-live-record", i, "gc (exit %d) while the build file of a package does not load changed or removed the record of %s: %v → %v", o.Exit, l, r, o.Records[l])
			}
		}
		return
	}
	if o.Exit != exitOK {
		j.viol("gc-fails", i, "gc exited %d", o.Exit)
		return
	}
	if o.TreeBefore != o.TreeAfter {
		j.viol("gc-not-confined", i, "gc changed something outside .dawn/build")
	}
	// what exists when the collection runs: the targets and sources of the build files (not of a possibly stale index)
	live := map[string]bool{}
	for _, t := range p.live() {
		live[t.Label()] = true
		if t.Default {
			live[defaultLabel(t.Pkg)] = true
		}
		for _, s := range p.srcsOf(t) {
			live[sourceLabelOf(s)] = true
		}
	}
	if prev != nil {
		for l, r := range prev.Records {
			if !live[l] {
				if _, still := o.Records[l]; !still {
					j.st.GCRemoved++
				}
				continue
			}
			if emptyRecV(r) {
				continue
			}
			if nr, ok := o.Records[l]; !ok || semRec(nr) != semRec(r) {
				j.viol("gc-loses-live-record", i, "gc changed or removed the record of the live label %s: %v → %v", l, r, o.Records[l])
			}
		}
		j.st.GCTemps += prev.Temps
	}
	for l := range o.Records {
		if !live[l] {
			j.viol("gc-keeps-dead-record", i, "after gc the record of %s is still there although no such target or source exists", l)
		}
	}
	if o.Temps != 0 {
		j.viol("gc-keeps-temps", i, "after gc %d stray temporaries remain", o.Temps)
	}
	if len(o.Strays) != 0 {
		j.viol("gc-keeps-strays", i, "after gc stray entries remain directly under .dawn/build: %v", o.Strays)
	}
	if prev != nil && prev.Index != "a" && o.Index == "a" {
		j.viol("gc-removes-index", i, "gc removed index.json")
	}
}

// after: the judgements that need the whole main run (and twins)
func (j *judge) after(main *played) {
	h, obs := j.h, main.obs
	prevBuild := func(i int, target string) int {
		for k := i - 1; k >= 0; k-- {
			if h.Ops[k].Kind == "build" && !h.Ops[k].Dry && obs[k] != nil {
				if h.Ops[k].Target == target {
					return k
				}
				return -1 // another build intervened: not the probe shape
			}
			if h.Ops[k].Kind == "edit" && !noopEdit[h.Ops[k].Edit.Kind] && !h.Ops[k].ExpectNoExec {
				// the generator only places no-op-class edits (incl. edits outside the closure) between the two builds
			}
		}
		return -1
	}
	for i := range h.Ops {
		op := &h.Ops[i]
		o := obs[i]
		if o == nil {
			continue
		}
		// C02: nothing executes when no input changed
		if op.ExpectNoExec {
			k := prevBuild(i, op.Target)
			if k < 0 || obs[k].Exit != exitOK || obs[k].Crashed || isFault(&h.Ops[k]) {
				j.st.ProbesSkipped++
			} else {
				j.st.Probes++
				allowed := alwaysDownstream(main.projs[i], op.Target)
				for _, l := range o.ExecStart {
					if !allowed[l] {
						j.viol("spurious-rebuild", i, "no input of %s changed since its last successful build (op %d), yet the body of %s executed", op.Target, k, l)
					}
				}
				for _, l := range o.V {
					if !allowed[l] {
						j.viol("spurious-evaluation", i, "no input of %s changed since its last successful build (op %d), yet %s was evaluated", op.Target, k, l)
					}
				}
				if o.Exit != exitOK {
					j.viol("spurious-failure", i, "rebuilding the unchanged tree failed")
				}
			}
		}
		// C02: targets whose inputs are what they last ran against are not executed
		if len(op.ExpectSkip) > 0 {
			clean := o.Exit == exitOK
			for k := 0; k < i; k++ {
				if obs[k] != nil && (h.Ops[k].Kind == "build" || h.Ops[k].Kind == "gc" || h.Ops[k].Kind == "load") &&
					!h.Ops[k].Dry && (obs[k].Exit != exitOK || obs[k].Crashed || isFault(&h.Ops[k])) {
					clean = false
				}
			}
			if !clean {
				j.st.ProbesSkipped++
			} else {
				j.st.SkipProbes++
				for _, l := range op.ExpectSkip {
					if setOf(o.ExecStart)[l] {
						j.viol("spurious-rebuild", i, "%s last executed against exactly the inputs it has now (%s), yet its body executed in op %d", l, op.Note, i)
					}
				}
			}
		}
		// C03: the build right after a failed or interrupted one re-executes what did not complete
		if op.Kind == "build" && isFault(op) && i+1 < len(h.Ops) {
			nx, no := &h.Ops[i+1], obs[i+1]
			if nx.Kind == "build" && !isFault(nx) && !nx.Dry && nx.Target == op.Target && no != nil {
				j.st.Recoveries++
				if no.Exit == exitLoadFail {
					j.viol("state-unloadable", i+1, "after the interrupted/failed build (op %d) the project no longer loads: %s", i, no.Stderr)
				}
				done := map[string]bool{}
				seenRS := map[string]bool{}
				for _, ht := range o.RunTrace {
					if ht.hook == "rs" {
						seenRS[ht.label] = true
					}
					if ht.hook == "sr" && seenRS[ht.label] {
						done[ht.label] = true
					}
				}
				okBody := setOf(o.ExecOK)
				next := setOf(no.ExecStart)
				for _, l := range o.ExecStart {
					if done[l] && okBody[l] {
						continue
					}
					if t := main.projs[i+1].tgt(l); t == nil || t.Removed {
						continue
					}
					if no.Exit == exitOK && !next[l] {
						j.viol("unfinished-not-rerun", i+1, "the body of %s started in op %d and did not complete successfully (failed or interrupted before its record), but the next build of %s did not execute it", l, i, op.Target)
					}
				}
			}
		}
		// C13: a dry run reports the targets the real build attempts
		if op.Kind == "build" && op.Dry && i+1 < len(h.Ops) {
			nx, no := &h.Ops[i+1], obs[i+1]
			if nx.Kind == "build" && !nx.Dry && !isCrash(nx) && nx.Target == op.Target && nx.Always == op.Always && no != nil {
				j.st.DryPredicted++
				dv, rv := sortedCopy(o.V), sortedCopy(no.V)
				if no.Exit == exitOK {
					if !reflect.DeepEqual(dv, rv) {
						j.viol("dry-mispredicts", i, "the dry run reported %v as evaluating, the real build of the same tree evaluated %v", dv, rv)
					}
				} else {
					failed := setOf(no.F)
					for _, l := range no.ExecStart {
						if !setOf(no.ExecOK)[l] {
							failed[l] = true
						}
					}
					ds := setOf(dv)
					for _, l := range rv {
						if !ds[l] {
							j.viol("dry-mispredicts", i, "the failing real build evaluated %s, which the dry run did not report (%v)", l, dv)
						}
					}
					rs := setOf(rv)
					for _, l := range dv {
						if rs[l] {
							continue
						}
						down := false
						for u := range upstream(main.projs[i+1], l) {
							if failed[u] && u != l {
								down = true
							}
						}
						if !down {
							j.viol("dry-mispredicts", i, "the dry run reported %s, the failing real build did not attempt it and it is not downstream of the failure %v", l, no.F)
						}
					}
				}
			}
		}
	}
	// twin histories: the same history without its dry runs (C13) / without its collections (C14)
	var drop string
	switch j.prop {
	case "C13":
		drop = "dry"
	case "C14":
		drop = "gc"
	}
	if drop == "" {
		return
	}
	any := false
	for i := range h.Ops {
		if (drop == "dry" && h.Ops[i].Dry) || (drop == "gc" && h.Ops[i].Kind == "gc") {
			any = true
		}
	}
	if !any || len(j.viols) > 0 {
		return
	}
	twin := j.r.play(h, playOpts{skip: func(i int, op *Op) bool {
		return (drop == "dry" && op.Dry) || (drop == "gc" && op.Kind == "gc")
	}})
	j.st.Twins++
	if twin.err != nil {
		j.viol("harness", 0, "twin: %v", twin.err)
		return
	}
	for i := range h.Ops {
		a, b := obs[i], twin.obs[i]
		if a == nil || b == nil || h.Ops[i].Kind != "build" {
			continue
		}
		j.st.TwinBuilds++
		what := "garbage collection"
		if drop == "dry" {
			what = "dry runs"
		}
		if isCrash(&h.Ops[i]) && len(a.RunTrace) != len(b.RunTrace) {
			j.viol("twin-differs", i, "op %d (crash) passed %d hook points; in the same history without the %s it passed %d", i, len(a.RunTrace), what, len(b.RunTrace))
		}
		if isCrash(&h.Ops[i]) && (a.Crashed || b.Crashed) {
			// which bodies had started when the process died depends on the order in which the runner happened to visit
			// independent targets, not on the collection: only the number of hook points passed is compared (above)
			continue
		}
		if !reflect.DeepEqual(sortedCopy(a.ExecStart), sortedCopy(b.ExecStart)) || (a.Exit == exitOK) != (b.Exit == exitOK) {
			j.viol("twin-differs", i, "op %d executed %v (exit %d); in the same history without the %s it executed %v (exit %d)", i,
				sortedCopy(a.ExecStart), a.Exit, what, sortedCopy(b.ExecStart), b.Exit)
		}
	}
}

// runHistory plays one history with the judges of `prop`
func runHistory(r *runner, prop string, h *History) (*played, []violation, *stats) {
	if len(h.Runs) > 0 {
		v, st := runMulti(r, prop, h)
		return &played{}, v, st
	}
	st := newStats()
	j := &judge{prop: prop, r: r, h: h, st: st, pending: map[[2]string]bool{}}
	var prev *Obs
	main := r.play(h, playOpts{each: func(i int, op *Op, root string, p *Proj, o *Obs) {
		j.each(i, op, root, p, o, prev)
		prev = o
	}})
	st.Histories++
	if h.Layout == "" {
		st.Layouts["plain"]++
	} else {
		st.Layouts[h.Layout]++
	}
	st.Ops += len(h.Ops)
	for _, op := range h.Ops {
		if op.Kind == "edit" {
			st.Edits[op.Edit.Kind]++
		}
	}
	n := 0
	for _, t := range h.Proj.Tgts {
		if !t.Removed {
			n++
		}
	}
	st.Targets[n]++
	if main.err != nil {
		kind := "harness"
		if strings.Contains(main.err.Error(), "(hang)") {
			kind = "hang"
		}
		j.viol(kind, len(main.obs), "%v", main.err)
		return main, j.viols, st
	}
	j.after(main)
	return main, j.viols, st
}

// ---------------------------------------------------------------- pure streams: targetInfoPath, dirSum

func hx(s string) string {
	if s == "" {
		return "-"
	}
	return hex.EncodeToString([]byte(s))
}

func pathStream(r *rng, n int) []pair {
	var out []pair
	alpha := []string{"a", "b", "Z", "0", "-", "_", ".", "~", "$", "&", "+", "=", ":", "@", "/", ";", ",", "?", " ", "%", "\"", "é", "\x7f", "#", "[", "*"}
	word := func(max int) string {
		var sb strings.Builder
		for i := 0; i < r.below(max+1); i++ {
			sb.WriteString(alpha[r.below(len(alpha))])
		}
		return sb.String()
	}
	for i := 0; i < n; i++ {
		kind := []string{"", "source", "target", "module", strings.NewReplacer("/", "", ":", "").Replace(word(3))}[r.below(5)] // label.New rejects kinds with ':' or '/'
		pkg := word(6)
		name := word(5)
		l := &label.Label{Kind: kind, Package: "//" + pkg, Name: name}
		full := dawn.VerifTargetInfoPath("/R", l)
		rel := strings.TrimPrefix(full, "/R/.dawn/build/")
		dir, file := filepath.Split(rel)
		dir = strings.TrimSuffix(dir, "/")
		if strings.Contains(dir, "/") || filepath.Clean(rel) != rel {
			// the escaped name is `.` / `..` or the kind contains a separator: filepath.Join normalised the path
			continue
		}
		out = append(out, pair{fmt.Sprintf("path %s %s %s", hx(kind), hx(pkg), hx(name)), hx(dir) + " " + hx(file)})
	}
	return out
}

// sumStream: pairs of directories on the real file system; Go: fileSum equal?  model: canonical listings equal?
func sumStream(r *rng, n int, scratch string) ([]pair, error) {
	var out []pair
	n2 := newNumbering()
	for i := 0; i < n; i++ {
		mk := func(tag string, es map[string]string) (string, string, error) {
			d := filepath.Join(scratch, fmt.Sprintf("sum-%d-%s", i, tag))
			os.MkdirAll(d, 0o755)
			var names []string
			for name := range es {
				names = append(names, name)
			}
			// create in random order: directory order is not name order
			for k := len(names) - 1; k > 0; k-- {
				x := r.below(k + 1)
				names[k], names[x] = names[x], names[k]
			}
			var parts []string
			for _, name := range names {
				if err := os.WriteFile(filepath.Join(d, name), []byte(es[name]), 0o644); err != nil {
					return "", "", err
				}
			}
			sort.Strings(names)
			for _, name := range names {
				parts = append(parts, fmt.Sprintf("%d:%d", nameRank(name), n2.content(es[name])))
			}
			sum, err := dawn.VerifFileSum(d)
			os.RemoveAll(d)
			if len(parts) == 0 {
				return sum, "-", err
			}
			// the model is handed the listing in *reverse* name order: it must sort
			for a, b := 0, len(parts)-1; a < b; a, b = a+1, b-1 {
				parts[a], parts[b] = parts[b], parts[a]
			}
			return sum, strings.Join(parts, ","), err
		}
		a := map[string]string{}
		for k := 0; k < r.below(4); k++ {
			a[namePool[r.below(6)]] = words[r.below(3)]
		}
		b := map[string]string{}
		for k, v := range a {
			b[k] = v
		}
		switch r.below(5) {
		case 0: // identical
		case 1: // rename one entry
			for k, v := range b {
				delete(b, k)
				b[namePool[r.below(6)]] = v
				break
			}
		case 2: // swap the contents of two entries
			var ks []string
			for k := range b {
				ks = append(ks, k)
			}
			sort.Strings(ks)
			if len(ks) >= 2 {
				b[ks[0]], b[ks[1]] = b[ks[1]], b[ks[0]]
			}
		case 3: // change one content
			for k := range b {
				b[k] = words[3+r.below(3)]
				break
			}
		case 4: // add an entry
			b[namePool[r.below(6)]] = words[r.below(3)]
		}
		sa, la, err := mk("a", a)
		if err != nil {
			return nil, err
		}
		sb, lb, err := mk("b", b)
		if err != nil {
			return nil, err
		}
		ans := "ne"
		if sa == sb {
			ans = "eq"
		}
		out = append(out, pair{fmt.Sprintf("sum d %s d %s", la, lb), ans})
	}
	return out, nil
}

// keyStream: labels over valid text, U+FFFD, and bytes that are not valid UTF-8 — the key a record carries for them in
// its JSON text, and whether a fresh load reads the same label back
func keyStream(r *rng, n int) []pair {
	var out []pair
	pieces := []string{"a", "source://:", "caf", ".txt", "\xe9", "\xff", "\x80", "\xc3", "\xc3\xa9", "\uFFFD", "\uFFFD--", "\uFFFDe9", "-", "e", "9", "%", " ", "\xf0\x9f", "\xf0\x9f\x98\x80"}
	for i := 0; i < n; i++ {
		var sb strings.Builder
		for k := 0; k < 1+r.below(6); k++ {
			sb.WriteString(pieces[r.below(len(pieces))])
		}
		key := sb.String()
		var items []string
		for j := 0; j < len(key); {
			c, size := utf8.DecodeRuneInString(key[j:])
			switch {
			case c == utf8.RuneError && size == 1:
				items = append(items, fmt.Sprintf("b%d", key[j]))
			case c == utf8.RuneError:
				items = append(items, "r")
			default:
				items = append(items, fmt.Sprintf("c%d", c))
			}
			j += size
		}
		jk, back, err := dawn.VerifDepKeyJSON(key)
		if err != nil {
			continue
		}
		var cps []string
		for _, c := range jk {
			cps = append(cps, fmt.Sprint(int(c)))
		}
		out = append(out, pair{"key " + strings.Join(items, ","), fmt.Sprintf("%s %d", strings.Join(cps, ","), b2i(back == key))})
	}
	return out
}

// ---------------------------------------------------------------- main

func main() {
	child := flag.String("child", "", "")
	prop := flag.String("prop", "C01", "")
	seed := flag.Uint64("seed", 1, "")
	tier := flag.String("tier", "quick", "")
	replay := flag.String("replay", "", "")
	nhist := flag.Int("n", 0, "number of histories (0 = the tier's default)")
	workers := flag.Int("workers", 0, "")
	dump := flag.Bool("dump", false, "print the generated histories instead of playing them")
	flag.Parse()
	if *child != "" {
		os.Exit(childMain(*child))
	}
	exe, err := os.Executable()
	if err != nil {
		fmt.Fprintln(os.Stderr, err)
		os.Exit(2)
	}
	base := os.Getenv("VERIF_SCRATCH")
	if base == "" {
		base = "/var/tmp/verif-scratch"
	}
	scratch := filepath.Join(base, fmt.Sprintf("build-%s-%d", *prop, os.Getpid()))
	os.MkdirAll(scratch, 0o755)
	defer os.RemoveAll(scratch)
	t0 := time.Now()
	out := os.Stdout

	if *replay != "" {
		data := []byte(*replay)
		if strings.HasPrefix(*replay, "@") {
			data, err = os.ReadFile((*replay)[1:])
			if err != nil {
				fmt.Fprintln(os.Stderr, err)
				os.Exit(2)
			}
		}
		var h History
		if err := json.Unmarshal(data, &h); err != nil {
			fmt.Fprintln(os.Stderr, "replay:", err)
			os.Exit(2)
		}
		r := &runner{exe: exe, cpu: 0, scratch: scratch}
		main, viols, st := runHistory(r, *prop, &h)
		if !h.JudgeOnly {
			for _, p := range main.pairs {
				fmt.Fprintf(out, "C\tbuild.replay\t%s\t%s\n", p.in, p.out)
			}
		}
		for _, v := range viols {
			b, _ := json.Marshal(v)
			fmt.Fprintf(out, "V\t%s\n", b)
		}
		st.Children = r.childN
		st.WallS = time.Since(t0).Seconds()
		b, _ := json.Marshal(st)
		fmt.Fprintf(out, "S\t%s\n", b)
		return
	}

	// quick: sized so that each check stays well below 90 s on a busy machine (children are processes)
	n, nops := map[string]int{"C01": 50, "C02": 100, "C03": 45, "C13": 80, "C14": 70}[*prop], 14
	if n == 0 {
		n = 60
	}
	if *tier == "thorough" {
		n, nops = 1500, 18
	}
	if *nhist > 0 {
		n = *nhist
	}
	w := *workers
	if w == 0 {
		w = runtime.NumCPU() / 2
		if w < 1 {
			w = 1
		}
		if w > 8 {
			w = 8
		}
	}
	// all randomness derives from the seed: history i uses its own stream
	hs := make([]*History, n)
	for i := range hs {
		r := &rng{s: *seed*1000003 + uint64(i)*7919 + uint64(len(*prop))*31 + uint64((*prop)[2])}
		hs[i] = genHistory(r, *prop, nops)
		if *prop == "C14" {
			// a share of the collections happen in projects reached through symbolic links
			switch i % 5 {
			case 1:
				hs[i].Layout = "rootlink"
				// observation, outside the five properties: filepath.WalkDir does not follow a symbolic link given as its
				// root, so glob() in the ROOT package returns nothing when the project root itself is a symbolic link;
				// projects with a root-package glob use the other layout
				for _, t := range hs[i].Proj.Tgts {
					if t.Glob != "" && t.Pkg == "" {
						hs[i].Layout = "dawnlink"
					}
				}
			case 3:
				hs[i].Layout = "dawnlink"
			}
		}
	}
	if *prop == "C13" {
		// same-process sequences of Run on one loaded project
		r := &rng{s: *seed*4243 + 13}
		np, n3 := 1, 35
		if *tier == "thorough" {
			np, n3 = 3, -1
		}
		hs = append(hs, multiRunHistories(r, np, n3)...)
		hs = append(hs, replHistories(r)...)
		ne := 6
		if *tier == "thorough" {
			ne = 60
		}
		hs = append(hs, editThenDryHistories(r, ne)...)
		n = len(hs)
	}
	if *prop == "C01" {
		hs = append(hs, boundaryHistories()...)
		r := &rng{s: *seed*577 + 11}
		nm := 12
		if *tier == "thorough" {
			nm = 150
		}
		hs = append(hs, multiTargetHistories(r, nm)...)
		nd := 1
		if *tier == "thorough" {
			nd = 10
		}
		hs = append(hs, dryThenRealHistories(r, nd)...)
		hs = append(hs, editReloadHistories(r, 4*nd)...)
		n = len(hs)
	}
	if *prop == "C02" {
		r := &rng{s: *seed*419 + 23}
		np := 1
		if *tier == "thorough" {
			np = 8
		}
		hs = append(hs, reloadHistories(r, np)...)
		n = len(hs)
	}
	if *prop == "C03" {
		r := &rng{s: *seed*733 + 29}
		nf, nw := 3, 4
		if *tier == "thorough" {
			nf, nw = 40, 40
		}
		hs = append(hs, failThenRepairHistories(r, nf)...)
		hs = append(hs, writeFaultHistories(r, nw)...)
		n = len(hs)
	}
	if *prop == "C14" {
		r := &rng{s: *seed*313 + 17}
		np := 2
		if *tier == "thorough" {
			np = 12
		}
		hs = append(hs, gcSameProcessHistories(r, np)...)
		n = len(hs)
	}
	if *prop == "C13" {
		r := &rng{s: *seed*911 + 5}
		nf := 4
		if *tier == "thorough" {
			nf = 40
		}
		for i := 0; i < nf; i++ {
			if h := dryFaultHistory(r); h != nil {
				hs = append(hs, h)
			}
		}
		n = len(hs)
	}
	if *prop == "C03" {
		// index.json cut at many (thorough: every) lengths, then an index-preferring load
		r := &rng{s: *seed*131 + 7}
		var lengths []int
		if *tier == "thorough" {
			for l := 0; l < 2500; l++ {
				lengths = append(lengths, l)
			}
		} else {
			lengths = []int{0, 1, 2, 3, 10, 16, 17, 31, 32, 33, 63, 64, 100, 127, 128, 200, 255, 256, 300, 400, 511, 512, 700, 1000, 1500}
		}
		hs = append(hs, truncIndexHistories(r, lengths)...)
		n = len(hs)
	}
	if *prop == "C03" {
		// the systematic part: named hook × target × {first save, replace} × {load, run}
		r := &rng{s: *seed*7777 + 3}
		np, ml := 1, 3
		if *tier == "thorough" {
			np, ml = 5, 6
		}
		hs = append(hs, enumCrashHistories(r, np, ml)...)
		n = len(hs)
	}
	if *dump {
		for _, h := range hs {
			b, _ := json.Marshal(h)
			fmt.Println(string(b))
		}
		return
	}
	type result struct {
		main  *played
		viols []violation
		st    *stats
		kids  int
	}
	results := make([]*result, n)
	var wg sync.WaitGroup
	next := make(chan int)
	for k := 0; k < w; k++ {
		wg.Add(1)
		go func(k int) {
			defer wg.Done()
			r := &runner{exe: exe, cpu: (k * 2) % runtime.NumCPU(), scratch: filepath.Join(scratch, fmt.Sprintf("w%d", k))}
			os.MkdirAll(r.scratch, 0o755)
			for i := range next {
				before := r.childN
				m, v, st := runHistory(r, *prop, hs[i])
				results[i] = &result{m, v, st, r.childN - before}
			}
		}(k)
	}
	for i := 0; i < n; i++ {
		next <- i
	}
	close(next)
	wg.Wait()

	total := newStats()
	for hi, res := range results {
		if !hs[hi].JudgeOnly {
			for _, p := range res.main.pairs {
				fmt.Fprintf(out, "C\tbuild.history\t%s\t%s\n", p.in, p.out)
			}
		}
		for _, v := range res.viols {
			b, _ := json.Marshal(v)
			fmt.Fprintf(out, "V\t%s\n", b)
		}
		total.add(res.st)
		total.Children += res.kids
	}
	// the pure functions, value by value (only the check that owns them asks for the stream)
	if *prop == "C14" {
		r := &rng{s: *seed ^ 0xC14}
		np := 400
		if *tier == "thorough" {
			np = 20000
		}
		for _, p := range pathStream(r, np) {
			fmt.Fprintf(out, "C\tbuild.path\t%s\t%s\n", p.in, p.out)
		}
	}
	if *prop == "C02" {
		r := &rng{s: *seed ^ 0xC02}
		nk := 300
		if *tier == "thorough" {
			nk = 20000
		}
		for _, p := range keyStream(r, nk) {
			fmt.Fprintf(out, "C\tbuild.keys\t%s\t%s\n", p.in, p.out)
		}
	}
	if *prop == "C13" {
		for _, p := range optionsStream() {
			fmt.Fprintf(out, "C\tbuild.options\t%s\t%s\n", p.in, p.out)
		}
	}
	if *prop == "C01" {
		r := &rng{s: *seed ^ 0xC01}
		ns := 60
		if *tier == "thorough" {
			ns = 1500
		}
		ps, err := sumStream(r, ns, scratch)
		if err != nil {
			fmt.Fprintln(os.Stderr, "sum stream:", err)
			os.Exit(2)
		}
		for _, p := range ps {
			fmt.Fprintf(out, "C\tbuild.dirsum\t%s\t%s\n", p.in, p.out)
		}
	}
	total.WallS = time.Since(t0).Seconds()
	b, _ := json.Marshal(total)
	fmt.Fprintf(out, "S\t%s\n", b)
}

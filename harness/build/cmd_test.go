// Command-line harness for C13: drives the REAL commands of cmd/dawn (`dawn -n`, `dawn build -n`, `dawn build`).
// cmd/dawn is package main, so this file is overlaid into it as zz_verif_build_test.go and built with
// `go test -c -overlay`; it is never written into /repo. The test binary plays two parts:
//
//   * TestVerifDawnMain, with $VERIF_DAWN_ARGS set: it IS the dawn command — one invocation, in a process of its own
//     (fresh flag variables, fresh workspace), with $VERIF_DAWN_DIR as working directory; the command's error goes to
//     $VERIF_DAWN_STATUS.
//   * TestVerifC13CLI, with $VERIF_CLI_OUT set: the driver. It generates a few projects (3-6 targets in a chain with
//     side branches, a source file each, one generated file each; bodies are shell commands through sh.exec that append
//     a line to an execution log outside the tree and write the generated file from the source and the dependencies'
//     outputs) and exercises each as
//         fresh tree:              dawn -n            dawn build -n            dawn build
//         edit a source:           dawn -n <target>   dawn -n    dawn build -n  dawn build
//         edit a body + a source   (index.json of the earlier builds exists)  dawn build -n   dawn build
//     Every command writes its events with `--json <file>` (never `--json -`). C13's rules judge it: around a `-n`
//     invocation no body runs (execution log), no file of the project changes (hash of every file outside .dawn), and
//     no record under .dawn/build changes: the command's LOAD may refresh records and rewrite index.json (the process
//     cannot be observed between its load and its run), so every record file that existed is byte-identical afterwards
//     and a record file that is new is an empty one (no stamp, no dependencies); the targets a `-n` run announces as
//     evaluating are those the real build that follows evaluates.
//
// Records go to $VERIF_CLI_OUT:   V <json> violation (with the project and the commands as input), S <json> statistics.
package main

import (
	"crypto/sha256"
	"encoding/hex"
	"encoding/json"
	"fmt"
	"io"
	"os"
	"os/exec"
	"path/filepath"
	"sort"
	"strconv"
	"strings"
	"testing"
	"time"
)

// ---------------------------------------------------------------- the dawn command, one invocation per process

func TestVerifDawnMain(t *testing.T) {
	raw := os.Getenv("VERIF_DAWN_ARGS")
	if raw == "" {
		t.Skip("not run as the dawn command")
	}
	var args []string
	if err := json.Unmarshal([]byte(raw), &args); err != nil {
		t.Fatal(err)
	}
	if err := os.Chdir(os.Getenv("VERIF_DAWN_DIR")); err != nil {
		t.Fatal(err)
	}
	devnull, err := os.OpenFile(os.DevNull, os.O_WRONLY, 0)
	if err != nil {
		t.Fatal(err)
	}
	stdout, stderr := os.Stdout, os.Stderr
	os.Stdout, os.Stderr = devnull, devnull
	rootCmd.SetArgs(args)
	cmdErr := rootCmd.Execute()
	os.Stdout, os.Stderr = stdout, stderr
	status := "ok"
	if cmdErr != nil {
		status = "error: " + cmdErr.Error()
	}
	if err := os.WriteFile(os.Getenv("VERIF_DAWN_STATUS"), []byte(status), 0o644); err != nil {
		t.Fatal(err)
	}
}

// ---------------------------------------------------------------- projects

type vbcTarget struct {
	Name    string   `json:"name"`
	Deps    []string `json:"deps"` // names
	Source  string   `json:"source"`
	Out     string   `json:"out"`
	Version int      `json:"version"`
	Default bool     `json:"default,omitempty"`
}

type vbcProject struct {
	Targets []*vbcTarget      `json:"targets"`
	Files   map[string]string `json:"files"`
}

type vbcRng struct{ s uint64 }

func (r *vbcRng) next() uint64 {
	r.s ^= r.s << 13
	r.s ^= r.s >> 7
	r.s ^= r.s << 17
	return r.s
}
func (r *vbcRng) below(n int) int { return int(r.next() % uint64(n)) }

func vbcGen(r *vbcRng) *vbcProject {
	n := 3 + r.below(4)
	p := &vbcProject{Files: map[string]string{}}
	for i := 0; i < n; i++ {
		t := &vbcTarget{Name: fmt.Sprintf("t%d", i), Source: fmt.Sprintf("s%d.txt", i), Out: fmt.Sprintf("t%d.out", i)}
		p.Files[t.Source] = fmt.Sprintf("source %d, %d\n", i, r.below(1000))
		if i > 0 {
			// a chain with side branches: every target depends on an earlier one, the last on its predecessor
			d := r.below(i)
			if i == n-1 {
				d = i - 1
			}
			t.Deps = append(t.Deps, fmt.Sprintf("t%d", d))
			if i > 1 && r.below(3) == 0 {
				if e := r.below(i); e != d {
					t.Deps = append(t.Deps, fmt.Sprintf("t%d", e))
				}
			}
		}
		p.Targets = append(p.Targets, t)
	}
	p.Targets[n-1].Default = true
	return p
}

func (p *vbcProject) render() string {
	var sb strings.Builder
	for _, t := range p.Targets {
		var deps, reads []string
		for _, d := range t.Deps {
			deps = append(deps, fmt.Sprintf("%q", ":"+d))
			reads = append(reads, d+".out")
		}
		def := ""
		if t.Default {
			def = ", default=True"
		}
		fmt.Fprintf(&sb, "@target(name=%q, deps=[%s], sources=[%q], generates=[%q]%s)\ndef %s_fn():\n", t.Name, strings.Join(deps, ", "), t.Source, t.Out, def, t.Name)
		cmd := fmt.Sprintf("echo 'B //:%s' >> \"$VB_EXEC_LOG\"; (echo 'version %d'; cat %s) > %s", t.Name, t.Version, strings.Join(append([]string{t.Source}, reads...), " "), t.Out)
		fmt.Fprintf(&sb, "    sh.exec(%q)\n\n", cmd)
	}
	return sb.String()
}

func (p *vbcProject) write(root string) error {
	if err := os.WriteFile(filepath.Join(root, ".dawnconfig"), nil, 0o644); err != nil {
		return err
	}
	for f, c := range p.Files {
		if err := os.WriteFile(filepath.Join(root, f), []byte(c), 0o644); err != nil {
			return err
		}
	}
	return os.WriteFile(filepath.Join(root, "BUILD.dawn"), []byte(p.render()), 0o644)
}

// closure of a target (names)
func (p *vbcProject) closure(name string) map[string]bool {
	out := map[string]bool{}
	var walk func(string)
	walk = func(n string) {
		if out[n] {
			return
		}
		out[n] = true
		for _, t := range p.Targets {
			if t.Name == n {
				for _, d := range t.Deps {
					walk(d)
				}
			}
		}
	}
	walk(name)
	return out
}

// ---------------------------------------------------------------- one command

type vbcResult struct {
	Args       []string
	Status     string
	Evaluating []string // labels with a TargetEvaluating record in the events file
	UpToDate   []string
	Executed   []string // bodies that ran (execution log)
	TreeBefore string
	TreeAfter  string
	RecBefore  map[string]string
	RecAfter   map[string]string
	Events     int
}

// vbcRecords: the record files under .dawn/build/{targets,sources}
func vbcRecords(root string) map[string]string {
	out := map[string]string{}
	for _, kd := range []string{"targets", "sources"} {
		es, _ := os.ReadDir(filepath.Join(root, ".dawn", "build", kd))
		for _, e := range es {
			b, _ := os.ReadFile(filepath.Join(root, ".dawn", "build", kd, e.Name()))
			out[kd+"/"+e.Name()] = string(b)
		}
	}
	return out
}

// vbcHashTree: every file of the project outside .dawn
func vbcHashTree(root string) string {
	h := sha256.New()
	var paths []string
	filepath.Walk(root, func(p string, info os.FileInfo, err error) error {
		if err == nil {
			if info.IsDir() && filepath.Base(p) == ".dawn" {
				return filepath.SkipDir
			}
			paths = append(paths, p)
		}
		return nil
	})
	sort.Strings(paths)
	for _, p := range paths {
		info, err := os.Lstat(p)
		if err != nil {
			continue
		}
		rel, _ := filepath.Rel(root, p)
		if info.IsDir() {
			fmt.Fprintf(h, "D %q\n", rel)
			continue
		}
		b, _ := os.ReadFile(p)
		fmt.Fprintf(h, "F %q %d %x\n", rel, len(b), sha256.Sum256(b))
	}
	return hex.EncodeToString(h.Sum(nil))
}

func vbcLogLines(path string) []string {
	b, err := os.ReadFile(path)
	if err != nil {
		return nil
	}
	var out []string
	for _, l := range strings.Split(string(b), "\n") {
		if strings.HasPrefix(l, "B ") {
			out = append(out, l[2:])
		}
	}
	return out
}

// vbcRun performs `dawn <args>` in root, in a process of its own; the events go to a file outside the tree
func vbcRun(root, scratch string, args []string) (*vbcResult, error) {
	events := filepath.Join(scratch, "events.json")
	status := filepath.Join(scratch, "status")
	execLog := filepath.Join(scratch, "exec.log")
	os.Remove(events)
	os.Remove(status)
	full := make([]string, 0, len(args)+2)
	// `--json <file>` goes right after the flags' command word (flags are not interspersed with arguments)
	i := 0
	if len(args) > 0 && args[0] == "build" {
		full = append(full, "build")
		i = 1
	}
	for ; i < len(args) && strings.HasPrefix(args[i], "-"); i++ {
		full = append(full, args[i])
	}
	full = append(full, "--json", events)
	full = append(full, args[i:]...)
	raw, _ := json.Marshal(full)
	res := &vbcResult{Args: args}
	before := vbcLogLines(execLog)
	res.TreeBefore, res.RecBefore = vbcHashTree(root), vbcRecords(root)
	cmd := exec.Command(os.Args[0], "-test.run", "^TestVerifDawnMain$", "-test.timeout", "2m")
	cmd.Env = append(os.Environ(), "VERIF_DAWN_ARGS="+string(raw), "VERIF_DAWN_DIR="+root, "VERIF_DAWN_STATUS="+status, "VB_EXEC_LOG="+execLog,
		"HOME="+filepath.Join(scratch, "home"), "VERIF_CLI_OUT=")
	done := make(chan error, 1)
	var out []byte
	go func() {
		var err error
		out, err = cmd.CombinedOutput()
		done <- err
	}()
	select {
	case <-done:
	case <-time.After(90 * time.Second):
		if cmd.Process != nil {
			cmd.Process.Kill()
		}
		return nil, fmt.Errorf("dawn %v did not return within 90 s (hang)", args)
	}
	res.TreeAfter, res.RecAfter = vbcHashTree(root), vbcRecords(root)
	st, err := os.ReadFile(status)
	if err != nil {
		return nil, fmt.Errorf("dawn %v left no status (the process died?): %s", args, strings.TrimSpace(string(out)))
	}
	res.Status = string(st)
	after := vbcLogLines(execLog)
	res.Executed = append([]string{}, after[len(before):]...)
	if f, err := os.Open(events); err == nil {
		dec := json.NewDecoder(f)
		for {
			var r struct {
				Kind  string `json:"kind"`
				Label string `json:"label"`
			}
			if err := dec.Decode(&r); err != nil {
				if err != io.EOF {
					res.Status += " (events file does not decode: " + err.Error() + ")"
				}
				break
			}
			res.Events++
			switch r.Kind {
			case "TargetEvaluating":
				res.Evaluating = append(res.Evaluating, r.Label)
			case "TargetUpToDate":
				res.UpToDate = append(res.UpToDate, r.Label)
			}
		}
		f.Close()
	}
	sort.Strings(res.Evaluating)
	sort.Strings(res.Executed)
	return res, nil
}

// ---------------------------------------------------------------- the driver

type vbcStep struct {
	Edit string   `json:"edit,omitempty"` // "source <file>" | "body <target>"
	Args []string `json:"args,omitempty"`
	Dry  bool     `json:"dry,omitempty"`
}

func TestVerifC13CLI(t *testing.T) {
	outPath := os.Getenv("VERIF_CLI_OUT")
	if outPath == "" {
		t.Skip("not run by the C13 check")
	}
	seed, _ := strconv.Atoi(os.Getenv("VERIF_CLI_SEED"))
	nproj := 3
	if os.Getenv("VERIF_CLI_TIER") == "thorough" {
		nproj = 25
	}
	out, err := os.Create(outPath)
	if err != nil {
		t.Fatal(err)
	}
	defer out.Close()
	stats := map[string]int{}
	emit := func(tag string, v any) {
		b, _ := json.Marshal(v)
		fmt.Fprintf(out, "%s\t%s\n", tag, b)
	}
	base, err := os.MkdirTemp("", "verif-c13cli-")
	if err != nil {
		t.Fatal(err)
	}
	defer os.RemoveAll(base)
	play := func(pi int, p *vbcProject, steps []vbcStep) {
		orig, _ := json.Marshal(p)
		root := filepath.Join(base, fmt.Sprintf("p%d", pi), "tree")
		scratch := filepath.Join(base, fmt.Sprintf("p%d", pi), "scratch")
		os.MkdirAll(root, 0o755)
		os.MkdirAll(filepath.Join(scratch, "home"), 0o755)
		if err := p.write(root); err != nil {
			t.Fatal(err)
		}
		var projNow json.RawMessage = orig
		input := func(upTo int) map[string]any {
			return map[string]any{"stream": "cli.c13", "project": json.RawMessage(orig), "steps": steps[:upTo+1], "project_at_violation": projNow}
		}
		viol := func(i int, kind, format string, a ...any) {
			stats["violations"]++
			emit("V", map[string]any{"kind": kind, "detail": fmt.Sprintf(format, a...), "input": input(i)})
		}
		var pendingDry []*vbcResult // dry runs since the last edit / real build, to be compared with the next real build
		broken := false
		for i, st := range steps {
			if broken {
				break
			}
			if st.Edit != "" {
				f := strings.Fields(st.Edit)
				switch f[0] {
				case "source":
					p.Files[f[1]] += fmt.Sprintf("edited in step %d\n", i)
				case "body":
					for _, t := range p.Targets {
						if t.Name == f[1] {
							t.Version++
						}
					}
				}
				if err := p.write(root); err != nil {
					t.Fatal(err)
				}
				projNow, _ = json.Marshal(p)
				pendingDry = nil
				stats["edits"]++
				continue
			}
			res, err := vbcRun(root, scratch, st.Args)
			if err != nil {
				kind := "harness"
				if strings.Contains(err.Error(), "(hang)") {
					kind = "hang"
				}
				viol(i, kind, "%v", err)
				broken = true
				break
			}
			stats["commands"]++
			name := "dawn " + strings.Join(st.Args, " ")
			if res.Status != "ok" {
				viol(i, "command-fails", "`%s` failed: %s", name, res.Status)
				broken = true
				break
			}
			if st.Dry {
				stats["dry_runs"]++
				if len(res.Executed) > 0 {
					viol(i, "dry-executes", "`%s` is a dry run and executed the bodies %v", name, res.Executed)
				}
				if res.TreeBefore != res.TreeAfter {
					viol(i, "dry-writes-tree", "`%s` is a dry run and changed a file of the project (hash of every file outside .dawn before and after differs)", name)
				}
				for f, b := range res.RecBefore {
					if a, ok := res.RecAfter[f]; !ok || a != b {
						viol(i, "dry-changes-records", "`%s` is a dry run and changed or removed the record .dawn/build/%s: %q → %q", name, f, b, res.RecAfter[f])
						break
					}
				}
				for f, a := range res.RecAfter {
					if _, was := res.RecBefore[f]; was {
						continue
					}
					var rec struct {
						Stamp string            `json:"stamp"`
						Deps  map[string]string `json:"dependencies"`
					}
					if err := json.Unmarshal([]byte(a), &rec); err != nil || rec.Stamp != "" || len(rec.Deps) > 0 {
						viol(i, "dry-changes-records", "`%s` is a dry run and wrote the record .dawn/build/%s: %q", name, f, a)
						break
					}
				}
				if res.Events == 0 {
					viol(i, "no-events", "`%s` wrote no build events to the --json file", name)
				}
				pendingDry = append(pendingDry, res)
				continue
			}
			stats["real_builds"]++
			// the real build executes exactly what it announces, and what the dry runs before it announced
			var bodies []string
			for _, l := range res.Evaluating {
				if !strings.HasPrefix(l, "source:") && !strings.HasSuffix(l, ":default") {
					bodies = append(bodies, l)
				}
			}
			if strings.Join(bodies, " ") != strings.Join(res.Executed, " ") {
				viol(i, "run-ignores-its-options", "`%s` announced %v as evaluating and executed the bodies %v", name, bodies, res.Executed)
			}
			for _, d := range pendingDry {
				stats["dry_runs_compared_with_real_build"]++
				dv := d.Evaluating
				rv := res.Evaluating
				// `dawn -n <target>` and `dawn build` (the default target) differ by the default label itself
				if len(d.Args) > 1 && strings.HasPrefix(d.Args[len(d.Args)-1], "//:") {
					var f []string
					for _, l := range rv {
						if !strings.HasSuffix(l, ":default") {
							f = append(f, l)
						}
					}
					rv = f
				}
				if strings.Join(dv, " ") != strings.Join(rv, " ") {
					viol(i, "dry-mispredicts", "`dawn %s` announced %v as evaluating; the real build of the same tree (`%s`) evaluated %v", strings.Join(d.Args, " "), dv, name, rv)
				}
			}
			pendingDry = nil
		}
		stats["projects"]++
	}
	if rp := os.Getenv("VERIF_CLI_REPLAY"); rp != "" {
		// one stored input: its project and its steps
		raw, err := os.ReadFile(rp)
		if err != nil {
			t.Fatal(err)
		}
		var in struct {
			Project *vbcProject `json:"project"`
			Steps   []vbcStep   `json:"steps"`
		}
		if err := json.Unmarshal(raw, &in); err != nil || in.Project == nil {
			t.Fatalf("replay input: %v", err)
		}
		if in.Project.Files == nil {
			in.Project.Files = map[string]string{}
		}
		play(0, in.Project, in.Steps)
		emit("S", stats)
		return
	}
	r := &vbcRng{s: uint64(seed)*2654435761 + 88172645463325252}
	for pi := 0; pi < nproj; pi++ {
		p := vbcGen(r)
		last := p.Targets[len(p.Targets)-1]
		mid := p.Targets[r.below(len(p.Targets))]
		inLast := p.Targets[0]
		cl := p.closure(last.Name)
		for _, t := range p.Targets {
			if cl[t.Name] {
				inLast = t
				break
			}
		}
		steps := []vbcStep{
			{Args: []string{"-n"}, Dry: true},
			{Args: []string{"build", "-n"}, Dry: true},
			{Args: []string{"build"}},
			{Edit: "source " + inLast.Source},
			{Args: []string{"-n", "//:" + last.Name}, Dry: true},
			{Args: []string{"-n"}, Dry: true},
			{Args: []string{"build", "-n"}, Dry: true},
			{Args: []string{"build"}},
			{Edit: "body " + inLast.Name},
			{Edit: "source " + mid.Source},
			{Args: []string{"build", "-n"}, Dry: true},
			{Args: []string{"--dry-run"}, Dry: true},
			{Args: []string{"build"}},
			{Args: []string{"build", "-n"}, Dry: true},
			{Args: []string{"build"}},
		}
		play(pi, p, steps)
	}
	emit("S", stats)
}

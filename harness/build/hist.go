// Histories: operations, running them against the real engine (one child process per build / gc), what is
// observed after each, and the lines exchanged with the Lean driver.
package main

import (
	"encoding/json"
	"fmt"
	"net/url"
	"os"
	"os/exec"
	"path/filepath"
	"sort"
	"strconv"
	"strings"
	"syscall"
	"time"
)

type Op struct {
	Kind        string   `json:"kind"` // edit | build | gc | load (a process that only loads the project: `dawn list`)
	Edit        *Edit    `json:"edit,omitempty"`
	Target      string   `json:"target,omitempty"`
	Always      bool     `json:"always,omitempty"`
	Dry         bool     `json:"dry,omitempty"`
	Fail        []string `json:"fail,omitempty"`
	CrashAt     int      `json:"crashAt,omitempty"`    // k-th hook point of CrashPhase
	CrashPhase  string   `json:"crashPhase,omitempty"` // load | run
	CrashHook   string   `json:"crashHook,omitempty"`  // alternatively: first hit of this hook for CrashLabel (run phase)
	CrashLabel  string   `json:"crashLabel,omitempty"`
	Unpinned    bool     `json:"unpinned,omitempty"` // run with every CPU (the parallel runner); crash ops are always pinned to one CPU
	PreferIndex bool     `json:"preferIndex,omitempty"`
	// build under a write fault: after the load every write beyond this many bytes fails (EFBIG) until the Run returns
	WriteLimit int `json:"writeLimit,omitempty"`
	// gc while some package's BUILD file does not load: the collection has to fail without touching a record (or keep
	// every record of what exists once the file is repaired)
	ExpectFail bool `json:"expectFail,omitempty"`
	// judge annotations
	ExpectNoExec bool   `json:"expectNoExec,omitempty"` // C02: only no-op edits since the last successful build of Target
	// C02: these targets last executed successfully against exactly the inputs they have now (the generator guarantees it
	// when every earlier build of the history succeeded): their bodies must not run in this build
	ExpectSkip []string `json:"expectSkip,omitempty"`
	Note         string `json:"note,omitempty"`
}

type History struct {
	// Layout: "" = the project root is a plain directory; "rootlink" = the root is opened through a symbolic link;
	// "dawnlink" = <root>/.dawn is a symbolic link to a directory elsewhere
	Layout   string `json:"layout,omitempty"`
	// JudgeOnly: the history contains operating-system faults the model has no notion of (a directory replaced by a
	// file, a truncated index.json): it is judged on the implementation and not compared with the model
	JudgeOnly bool `json:"judgeOnly,omitempty"`
	Template string `json:"template"`
	Proj     *Proj  `json:"proj"`
	Ops      []Op   `json:"ops"`
	// a same-process sequence (C13): Load once, then one Run of RunTarget per entry of Runs
	Runs      []RunOpt `json:"runs,omitempty"`
	RunTarget string   `json:"runTarget,omitempty"`
}

type recView struct {
	Deps  map[string]string `json:"dependencies"`
	Stamp string            `json:"stamp"`
	Rerun bool              `json:"rerun"`
	Runs  uint64            `json:"runs"`
	Doc   string            `json:"doc"`
}

type hit struct{ hook, label string }

type Obs struct {
	Exit       int
	U, V, S, F []string
	ExecStart  []string
	ExecOK     []string
	RunTrace   []hit
	LoadTrace  []hit
	Crashed    bool
	Records    map[string]recView // label → decoded record
	RawRecords map[string]string  // file relative to .dawn/build → bytes
	BadRecords []string           // record files that do not decode
	Temps      int
	Strays     []string // entries directly under .dawn/build that dawn does not keep there
	Index      string // a | t | g
	IndexLbls  []string
	Gens       map[string]string // generated path → content ("" = missing is absent from the map)
	State      map[string]string
	TreeBefore string
	TreeAfter  string
	Stderr     string
	Wall       time.Duration
	EventsRaw  []string
	ExecRaw    []string
}

type runner struct {
	exe     string
	cpu     int // CPU the pinned children run on
	scratch string
	seq     int
	childN  int
	args    []string // LoadOptions.Args of the project of the history being played
}

func (r *runner) tmp(prefix string) string {
	r.seq++
	d := filepath.Join(r.scratch, fmt.Sprintf("%s-%d", prefix, r.seq))
	os.MkdirAll(d, 0o755)
	return d
}

// runChild performs one operation in a fresh process and collects what it logged.
func (r *runner) runChild(spec childSpec, pinned bool) (*Obs, error) {
	ctlDir := r.tmp("ctl")
	defer os.RemoveAll(ctlDir)
	spec.Ctl = ctlDir
	if spec.Args == nil {
		spec.Args = r.args
	}
	os.MkdirAll(filepath.Join(ctlDir, "home"), 0o755)
	b, _ := json.Marshal(spec)
	specPath := filepath.Join(ctlDir, "spec.json")
	if err := os.WriteFile(specPath, b, 0o644); err != nil {
		return nil, err
	}
	var cmd *exec.Cmd
	if pinned {
		cmd = exec.Command("taskset", "-c", strconv.Itoa(r.cpu), r.exe, "-child", specPath)
	} else {
		cmd = exec.Command(r.exe, "-child", specPath)
	}
	var stderr strings.Builder
	cmd.Stderr = &stderr
	t0 := time.Now()
	done := make(chan error, 1)
	if err := cmd.Start(); err != nil {
		return nil, err
	}
	go func() { done <- cmd.Wait() }()
	var err error
	select {
	case err = <-done:
	case <-time.After(60 * time.Second):
		// a hang: ask the Go runtime for a goroutine dump (SIGQUIT) before killing, so that loader and runner can be told apart
		cmd.Process.Signal(syscall.SIGQUIT)
		select {
		case <-done:
		case <-time.After(10 * time.Second):
			cmd.Process.Kill()
			<-done
		}
		dump := stderr.String()
		if len(dump) > 30000 {
			dump = dump[:30000] + "\n[truncated]"
		}
		return nil, fmt.Errorf("child did not return within 60 s (hang) on %s\ngoroutine dump after SIGQUIT:\n%s", string(b), dump)
	}
	r.childN++
	o := &Obs{Wall: time.Since(t0), Stderr: stderr.String(), State: map[string]string{}}
	if err != nil {
		if ee, ok := err.(*exec.ExitError); ok {
			o.Exit = ee.ExitCode()
		} else {
			return nil, err
		}
	}
	o.EventsRaw = readLines(filepath.Join(ctlDir, "events.log"))
	o.ExecRaw = readLines(filepath.Join(ctlDir, "exec.log"))
	for _, line := range o.EventsRaw {
		f := strings.Split(line, "\t")
		if len(f) < 2 {
			continue
		}
		switch f[0] {
		case "U":
			o.U = append(o.U, f[1])
		case "V":
			o.V = append(o.V, f[1])
		case "S":
			o.S = append(o.S, f[1])
		case "F":
			o.F = append(o.F, f[1])
		}
	}
	for _, line := range readLines(filepath.Join(ctlDir, "exec.log")) {
		f := strings.Split(line, "\t")
		if f[0] == "B" && len(f) >= 2 {
			o.ExecStart = append(o.ExecStart, f[1])
		}
		if f[0] == "E" && len(f) >= 3 && f[2] == "ok" {
			o.ExecOK = append(o.ExecOK, f[1])
		}
	}
	for _, line := range readLines(filepath.Join(ctlDir, "trace.log")) {
		if line == "CRASH" {
			o.Crashed = true
			continue
		}
		f := strings.Split(line, "\t")
		if len(f) < 3 {
			continue
		}
		switch f[0] {
		case "run":
			o.RunTrace = append(o.RunTrace, hit{f[1], f[2]})
		case "load":
			o.LoadTrace = append(o.LoadTrace, hit{f[1], f[2]})
		}
	}
	for _, line := range readLines(filepath.Join(ctlDir, "fp.log")) {
		f := strings.Split(line, "\t")
		if len(f) == 2 {
			o.State["fp:"+f[0]] = f[1]
		}
	}
	for _, line := range readLines(filepath.Join(ctlDir, "state.log")) {
		f := strings.Split(line, "\t")
		if len(f) == 2 {
			o.State[f[0]] = f[1]
		}
	}
	return o, nil
}

func readLines(p string) []string {
	b, err := os.ReadFile(p)
	if err != nil {
		return nil
	}
	s := strings.TrimRight(string(b), "\n")
	if s == "" {
		return nil
	}
	return strings.Split(s, "\n")
}

// recordLabel: the label a record file belongs to (inverse of targetInfoPath).
func recordLabel(kindDir, file string) (string, bool) {
	un, err := url.PathUnescape(file)
	if err != nil {
		return "", false
	}
	i := strings.LastIndexByte(un, '/')
	if i < 0 {
		return "", false
	}
	pkg, name := un[:i], un[i+1:]
	switch kindDir {
	case "targets":
		return "//" + pkg + ":" + name, true
	case "sources":
		return "source://" + pkg + ":" + name, true
	}
	return "", false
}

// scan reads the persisted build state and the generated files.
func scan(root string, genPaths []string, o *Obs) {
	work := filepath.Join(root, ".dawn", "build")
	o.Records, o.RawRecords, o.Gens = map[string]recView{}, map[string]string{}, map[string]string{}
	for _, kd := range []string{"targets", "sources"} {
		es, _ := os.ReadDir(filepath.Join(work, kd))
		for _, e := range es {
			b, err := os.ReadFile(filepath.Join(work, kd, e.Name()))
			if err != nil {
				continue
			}
			o.RawRecords[kd+"/"+e.Name()] = string(b)
			l, ok := recordLabel(kd, e.Name())
			var rv recView
			if !ok || json.Unmarshal(b, &rv) != nil {
				o.BadRecords = append(o.BadRecords, kd+"/"+e.Name())
				continue
			}
			// dependency labels are escaped reversibly in the record (D27 repair): U+FFFD + two hex digits is a raw byte,
			// U+FFFD "--" is a genuine U+FFFD
			if len(rv.Deps) > 0 {
				un := make(map[string]string, len(rv.Deps))
				for k, v := range rv.Deps {
					un[unescapeDepKey(k)] = v
				}
				rv.Deps = un
			}
			o.Records[l] = rv
		}
	}
	es, _ := os.ReadDir(filepath.Join(work, "temp"))
	o.Temps = len(es)
	if top, err := os.ReadDir(work); err == nil {
		for _, e := range top {
			switch e.Name() {
			case "targets", "sources", "temp", "index.json":
			default:
				o.Strays = append(o.Strays, e.Name())
			}
		}
	}
	b, err := os.ReadFile(filepath.Join(work, "index.json"))
	switch {
	case err != nil:
		o.Index = "a"
	default:
		var idx struct {
			Targets []struct {
				Label string `json:"label"`
			} `json:"targets"`
		}
		if json.Unmarshal(b, &idx) != nil {
			o.Index = "t"
		} else {
			o.Index = "g"
			for _, t := range idx.Targets {
				o.IndexLbls = append(o.IndexLbls, t.Label)
			}
		}
	}
	for _, g := range genPaths {
		if b, err := os.ReadFile(fsPath(root, g)); err == nil {
			o.Gens[g] = string(b)
		}
	}
}

// ---------------------------------------------------------------- canonical answers (the Go side of tie 2)

type canon struct {
	n      *numbering
	stamps map[string]int
	gens   map[string]bool // generated paths declared to the model so far
}

func (c *canon) stampTok(data string) string {
	if data == "" {
		return "-"
	}
	if v, ok := c.stamps[data]; ok {
		return fmt.Sprintf("e%d", v)
	}
	v := len(c.stamps)
	c.stamps[data] = v
	return fmt.Sprintf("e%d", v)
}

func splitStamp(s string) (string, uint64) {
	if i := strings.LastIndexByte(s, '@'); i >= 0 {
		if n, err := strconv.ParseUint(s[i+1:], 10, 64); err == nil {
			return s[:i], n
		}
	}
	return s, 0
}

func (c *canon) labelsSorted(ls []string) string {
	var xs []int
	seen := map[int]bool{}
	for _, l := range ls {
		v := c.n.label(l)
		if !seen[v] {
			seen[v] = true
			xs = append(xs, v)
		}
	}
	sort.Ints(xs)
	return natList(xs)
}

func (c *canon) world(o *Obs) string {
	type lr struct {
		num int
		r   recView
	}
	var rs []lr
	for l, r := range o.Records {
		if len(r.Deps) == 0 && r.Stamp == "" && !r.Rerun && r.Runs == 0 {
			continue
		}
		rs = append(rs, lr{c.n.label(l), r})
	}
	sort.Slice(rs, func(i, j int) bool { return rs[i].num < rs[j].num })
	var parts []string
	for _, x := range rs {
		type dep struct {
			num int
			v   string
		}
		var ds []dep
		for k, v := range x.r.Deps {
			ds = append(ds, dep{c.n.label(k), v})
		}
		sort.Slice(ds, func(i, j int) bool { return ds[i].num < ds[j].num })
		var dparts []string
		for _, d := range ds {
			data, runs := splitStamp(d.v)
			dparts = append(dparts, fmt.Sprintf("%d:%s.%d", d.num, c.stampTok(data), runs))
		}
		rr := 0
		if x.r.Rerun {
			rr = 1
		}
		parts = append(parts, fmt.Sprintf("%d{%s|%s|%d|%d}", x.num, strings.Join(dparts, ","), c.stampTok(x.r.Stamp), rr, x.r.Runs))
	}
	R := "-"
	if len(parts) > 0 {
		R = strings.Join(parts, ";")
	}
	for _, b := range o.BadRecords {
		R += ";BAD:" + b
	}
	var gs []int
	for g := range o.Gens {
		if c.gens[g] {
			gs = append(gs, c.n.path(g))
		}
	}
	sort.Ints(gs)
	I := o.Index
	if I == "g" {
		// index.json is JSON: a label that is not valid UTF-8 is listed with U+FFFD for each invalid byte (a listing
		// file: nothing reads a record through it any more since GC reloads); map such an entry back to the label it stands for
		lbls := make([]string, len(o.IndexLbls))
		for i, l := range o.IndexLbls {
			lbls[i] = l
			if _, known := c.n.labels[l]; !known && strings.ContainsRune(l, 0xFFFD) {
				match := ""
				for k := range c.n.labels {
					if strings.ToValidUTF8(k, "\uFFFD") == l {
						if match != "" {
							match = ""
							break
						}
						match = k
					}
				}
				if match != "" {
					lbls[i] = match
				}
			}
		}
		I += c.labelsSorted(lbls)
	}
	return fmt.Sprintf("R=%s G=%s T=%d I=%s", R, natList(gs), o.Temps, I)
}

func (c *canon) buildAnswer(o *Obs) string {
	res := "ok"
	if o.Exit != exitOK {
		res = "fail"
	}
	if o.Exit != exitOK && o.Exit != exitBuildFail {
		res = fmt.Sprintf("exit%d", o.Exit)
	}
	return fmt.Sprintf("%s U=%s V=%s S=%s F=%s %s", res, c.labelsSorted(o.U), c.labelsSorted(o.V), c.labelsSorted(o.S), c.labelsSorted(o.F), c.world(o))
}

func (c *canon) crashAnswer(o *Obs) string {
	var hs []string
	for _, h := range o.RunTrace {
		hs = append(hs, fmt.Sprintf("%s:%d", h.hook, c.n.label(h.label)))
	}
	H := "-"
	if len(hs) > 0 {
		H = strings.Join(hs, ",")
	}
	res := "crashed"
	if !o.Crashed {
		res = "completed"
	}
	return fmt.Sprintf("%s H=%s %s", res, H, c.world(o))
}

// ---------------------------------------------------------------- playing a history

type pair struct{ in, out string }

type played struct {
	obs   []*Obs // per op (nil for edits)
	pairs []pair // model lines and Go's answers, in order
	proj  *Proj  // the project after the last op
	projs []*Proj
	err   error
}

func b2i(b bool) int {
	if b {
		return 1
	}
	return 0
}

func copyTree(src, dst string, skipDawn bool) error {
	if real, err := filepath.EvalSymlinks(src); err == nil {
		src = real // the root may be a symbolic link
	}
	return filepath.Walk(src, func(p string, info os.FileInfo, err error) error {
		if err != nil {
			return err
		}
		rel, _ := filepath.Rel(src, p)
		if skipDawn && (rel == ".dawn" || strings.HasPrefix(rel, ".dawn"+string(filepath.Separator))) {
			if info.IsDir() {
				return filepath.SkipDir
			}
			return nil
		}
		if info.IsDir() {
			return os.MkdirAll(filepath.Join(dst, rel), 0o755)
		}
		if info.Mode()&os.ModeSymlink != 0 {
			// a symbolic link to a directory (the `dawnlink` layout): copy what it points to
			if st, err := os.Stat(p); err == nil && st.IsDir() {
				return copyTree(p, filepath.Join(dst, rel), false)
			}
		}
		b, err := os.ReadFile(p)
		if err != nil {
			return err
		}
		return os.WriteFile(filepath.Join(dst, rel), b, 0o644)
	})
}

type playOpts struct {
	skip func(i int, op *Op) bool // twin histories: leave some ops out
	alt  func(i int, op *Op) *Op  // twin histories: replace an op
	each func(i int, op *Op, root string, p *Proj, o *Obs)
}

func allGens(p *Proj) []string {
	var gs []string
	for _, t := range p.Tgts {
		gs = append(gs, t.Gens...)
	}
	return gs
}

// play runs the history in a fresh directory. Every build and gc is a fresh child process.
func (r *runner) play(h *History, po playOpts) *played {
	root := r.tmp("proj")
	defer os.RemoveAll(root)
	switch h.Layout {
	case "rootlink":
		link := root + "-link"
		if err := os.Symlink(root, link); err != nil {
			return &played{err: err}
		}
		defer os.Remove(link)
		return r.playIn(h, po, link)
	case "dawnlink":
		elsewhere := r.tmp("dawn-elsewhere")
		defer os.RemoveAll(elsewhere)
		if err := os.Symlink(elsewhere, filepath.Join(root, ".dawn")); err != nil {
			return &played{err: err}
		}
	}
	return r.playIn(h, po, root)
}

func (r *runner) playIn(h *History, po playOpts, root string) *played {
	p := h.Proj.clone()
	r.args = p.flagArgs()
	res := &played{}
	if err := p.writeAll(root); err != nil {
		res.err = err
		return res
	}
	n := newNumbering()
	c := &canon{n: n, stamps: map[string]int{}, gens: map[string]bool{}}
	emit := func(in, out string) { res.pairs = append(res.pairs, pair{in, out}) }
	emit("reset", "ok")
	defsDirty := true
	dirty := map[string]bool{}
	markSources := func() {
		for _, t := range p.Tgts {
			for _, s := range p.srcsOf(t) {
				if !p.isGenerated(s) {
					dirty[s] = true
				}
			}
		}
	}
	markSources()
	flush := func() {
		if defsDirty {
			// the fingerprints of the function environments are taken from the real loader (their correctness is
			// C07/C08): the model's `env` of a target is the identity of its real fingerprint. The load happens on a
			// copy without build state, so it leaves no trace in the project under test.
			fps, err := r.fingerprints(root)
			if err != nil && res.err == nil {
				res.err = err
			}
			for _, l := range p.modelDefs(n, fps) {
				emit(l, "ok")
			}
			for _, t := range p.live() {
				for _, g := range t.Gens {
					c.gens[g] = true
				}
			}
			defsDirty = false
			markSources() // a source may have been declared for the first time
		}
		var ps []string
		for s := range dirty {
			ps = append(ps, s)
		}
		sort.Strings(ps)
		for _, s := range ps {
			emit(p.modelFile(n, s), "ok")
		}
		dirty = map[string]bool{}
	}
	for i := range h.Ops {
		op := &h.Ops[i]
		if po.skip != nil && po.skip(i, op) {
			res.obs = append(res.obs, nil)
			res.projs = append(res.projs, p.clone())
			continue
		}
		if po.alt != nil {
			if a := po.alt(i, op); a != nil {
				op = a
			}
		}
		var o *Obs
		switch op.Kind {
		case "edit":
			e := op.Edit
			if err := e.apply(p, root); err != nil {
				res.err = fmt.Errorf("op %d: %v", i, err)
				return res
			}
			switch e.Kind {
			case "retarget":
				for _, t := range p.Tgts {
					for _, s := range p.srcsOf(t) {
						if strings.HasPrefix(e.Path, s+"/") {
							dirty[s] = true
						}
					}
				}
			case "content", "create", "delete", "rename", "samecontent", "touch":
				// a source directory that holds a link to the edited file has to be re-read as well
				for l, ref := range p.Links {
					if ref == e.Path {
						for _, t := range p.Tgts {
							for _, s := range p.srcsOf(t) {
								if strings.HasPrefix(l, s+"/") {
									dirty[s] = true
								}
							}
						}
					}
				}
				if p.hasGlob() && e.Kind != "samecontent" && e.Kind != "touch" {
					defsDirty = true // what a glob matches, and with it the declared sources, may have changed
				}
				// the source (or the source directory above it) has to be re-read by the model
				for _, t := range p.Tgts {
					for _, s := range p.srcsOf(t) {
						if s == e.Path || strings.HasPrefix(e.Path, s+"/") || (e.To != "" && strings.HasPrefix(e.To, s+"/")) {
							dirty[s] = true
						}
					}
				}
			case "delgen":
				emit(fmt.Sprintf("file %d m", n.path(e.Path)), "ok")
			case "junkwork":
				// stray entries directly under .dawn/build: nothing the model knows of
			case "junktemp":
				emit(fmt.Sprintf("temps %d", e.Val), "ok")
			case "break", "unbreak":
				// a half-finished edit of a build file and its completion: between the two the generator places nothing
				// but collections (ExpectFail), and afterwards the tree is what it was
			case "blockdir", "unblockdir", "truncindex":
				// operating-system faults: judge-only histories
			default:
				defsDirty = true
			}
		case "load":
			flush()
			var err error
			o, err = r.runChild(childSpec{Root: root, Op: "load", PreferIndex: op.PreferIndex}, false)
			if err != nil {
				res.err = err
				return res
			}
			scan(root, allGens(p), o)
			emit(fmt.Sprintf("load %d", b2i(op.PreferIndex)), "ok "+c.world(o))
		case "gc":
			if !op.ExpectFail {
				flush()
			}
			before := hashDir(root, filepath.Join(".dawn", "build"))
			var err error
			o, err = r.runChild(childSpec{Root: root, Op: "gc", PreferIndex: op.PreferIndex}, false)
			if err != nil {
				res.err = err
				return res
			}
			o.TreeBefore, o.TreeAfter = before, hashDir(root, filepath.Join(".dawn", "build"))
			scan(root, allGens(p), o)
			if op.ExpectFail && o.Exit != exitOK {
				// the collection refused to run: nothing for the model to do; the next build shows every record again
				break
			}
			emit(fmt.Sprintf("gc %d", b2i(op.PreferIndex)), "ok "+c.world(o))
		case "build":
			flush()
			spec := childSpec{Root: root, Op: "build", Target: op.Target, Always: op.Always, Dry: op.Dry, Fail: op.Fail,
				CrashAt: op.CrashAt, CrashPhase: op.CrashPhase, WriteLimit: op.WriteLimit}
			crash := op.CrashAt > 0 || op.CrashHook != ""
			if op.CrashHook != "" && op.CrashPhase == "load" {
				// the first hit of a named hook point for a named target during the load (e.g. the very first save of a record)
				spec.CrashHook, spec.CrashLabel, spec.CrashPhase = op.CrashHook, op.CrashLabel, "load"
			} else if op.CrashHook != "" {
				// find k: the position of the first hit of (hook, label) in an uninterrupted pinned twin of this build
				k, err := r.findCrashPoint(root, spec, op.CrashHook, op.CrashLabel)
				if err != nil {
					res.err = err
					return res
				}
				if k == 0 {
					crash = false // the point is not reached by this build: it runs to completion
				}
				spec.CrashAt, spec.CrashPhase = k, "run"
			}
			before := ""
			if op.Dry {
				before = hashDir(root, ".dawn")
			}
			var err error
			o, err = r.runChild(spec, crash || !op.Unpinned)
			if err != nil {
				res.err = err
				return res
			}
			if op.Dry {
				o.TreeBefore, o.TreeAfter = before, hashDir(root, ".dawn")
			}
			scan(root, allGens(p), o)
			fails := make([]int, 0)
			for _, f := range op.Fail {
				fails = append(fails, n.label(f))
			}
			sort.Ints(fails)
			switch {
			case crash && spec.CrashPhase == "load" && !o.Crashed:
				// the point was not reached: the build ran to completion
				emit(fmt.Sprintf("build %d %d %d %s", n.label(op.Target), b2i(op.Always), b2i(op.Dry), natList(fails)), c.buildAnswer(o))
			case crash && spec.CrashPhase == "load" && spec.CrashHook != "":
				ws := c.world(o)
				ws = strings.Replace(ws, fmt.Sprintf(" T=%d ", o.Temps), " T=? ", 1)
				emit(fmt.Sprintf("crashload %d %d", len(o.LoadTrace), o.Temps), "ok "+ws)
			case crash && spec.CrashPhase == "load":
				// packages load concurrently: the number of temporaries in flight at the k-th hook point is not determined
				ws := c.world(o)
				ws = strings.Replace(ws, fmt.Sprintf(" T=%d ", o.Temps), " T=? ", 1)
				emit(fmt.Sprintf("crashload %d %d", spec.CrashAt, o.Temps), "ok "+ws)
			case crash:
				var order []int
				seen := map[string]bool{}
				for _, ht := range o.RunTrace {
					if !seen[ht.label] {
						seen[ht.label] = true
						order = append(order, n.label(ht.label))
					}
				}
				emit(fmt.Sprintf("crash %d %d %s %d %s", n.label(op.Target), b2i(op.Always), natList(fails), spec.CrashAt, natList(order)), c.crashAnswer(o))
			default:
				emit(fmt.Sprintf("build %d %d %d %s", n.label(op.Target), b2i(op.Always), b2i(op.Dry), natList(fails)), c.buildAnswer(o))
			}
		}
		if o != nil && po.each != nil {
			po.each(i, op, root, p, o)
		}
		res.obs = append(res.obs, o)
		res.projs = append(res.projs, p.clone())
	}
	res.proj = p
	return res
}

// findCrashPoint runs the build uninterrupted on a copy of the project (state included) and returns the 1-based
// index, in the run phase, of the first hit of (hook, label); 0 if it is never hit.
func (r *runner) findCrashPoint(root string, spec childSpec, hook, label string) (int, error) {
	twin := r.tmp("twin")
	defer os.RemoveAll(twin)
	if err := copyTree(root, twin, false); err != nil {
		return 0, err
	}
	spec.Root, spec.CrashAt = twin, 0
	o, err := r.runChild(spec, true)
	if err != nil {
		return 0, err
	}
	seenRS := false
	for i, h := range o.RunTrace {
		if h.label != label {
			continue
		}
		if h.hook == "rs" {
			seenRS = true
		}
		if h.hook == hook || (strings.HasSuffix(hook, "-after-rs") && h.hook == strings.TrimSuffix(hook, "-after-rs") && seenRS) {
			return i + 1, nil
		}
	}
	return 0, nil
}

// closure: the function targets reachable from a label through deps (and through generated sources).
func (p *Proj) closure(label string) map[string]bool {
	out := map[string]bool{}
	var visit func(l string)
	visit = func(l string) {
		if out[l] {
			return
		}
		t := p.tgt(l)
		if t == nil || t.Removed {
			return
		}
		out[l] = true
		for _, d := range t.Deps {
			visit(d)
		}
		for _, s := range p.srcsOf(t) {
			for _, g := range p.Tgts {
				if !g.Removed && contains(g.Gens, s) {
					visit(g.Label())
				}
			}
		}
	}
	if strings.HasSuffix(label, ":default") {
		for _, t := range p.live() {
			if t.Default && defaultLabel(t.Pkg) == label {
				visit(t.Label())
			}
		}
	} else {
		visit(label)
	}
	return out
}

// cleanBuild builds `target` from scratch in a copy of the tree (no build state) and returns the generated files.
func (r *runner) cleanBuild(root string, p *Proj, target string) (*Obs, error) {
	twin := r.tmp("clean")
	defer os.RemoveAll(twin)
	if err := copyTree(root, twin, true); err != nil {
		return nil, err
	}
	// a from-scratch build starts without generated files
	for _, g := range allGens(p) {
		os.Remove(fsPath(twin, g))
	}
	o, err := r.runChild(childSpec{Root: twin, Op: "build", Target: target}, false)
	if err != nil {
		return nil, err
	}
	scan(twin, allGens(p), o)
	return o, nil
}

// fingerprints loads a state-less copy of the tree and returns label → digest of the pickled function environment.
func (r *runner) fingerprints(root string) (map[string]string, error) {
	twin := r.tmp("fp")
	defer os.RemoveAll(twin)
	if err := copyTree(root, twin, true); err != nil {
		return nil, err
	}
	o, err := r.runChild(childSpec{Root: twin, Op: "fp"}, false)
	if err != nil {
		return nil, err
	}
	if o.Exit != exitOK {
		return nil, fmt.Errorf("fingerprint load exited %d: %s", o.Exit, o.Stderr)
	}
	out := map[string]string{}
	for k, v := range o.State {
		if strings.HasPrefix(k, "fp:") {
			out[k[3:]] = v
		}
	}
	return out, nil
}

// indexLoad loads a copy of the project (state included) preferring index.json, as `dawn gc` / `dawn list` do; returns the exit code
func (r *runner) indexLoad(root string) (int, string, error) {
	twin := r.tmp("idx")
	defer os.RemoveAll(twin)
	if err := copyTree(root, twin, false); err != nil {
		return 0, "", err
	}
	o, err := r.runChild(childSpec{Root: twin, Op: "load", PreferIndex: true}, false)
	if err != nil {
		return 0, "", err
	}
	msg := o.Stderr
	for _, l := range o.EventsRaw {
		if strings.HasPrefix(l, "LE\t") {
			msg += l
		}
	}
	return o.Exit, msg, nil
}

func unescapeDepKey(s string) string {
	const esc = "\uFFFD"
	if !strings.Contains(s, esc) {
		return s
	}
	var b strings.Builder
	for i := 0; i < len(s); {
		if strings.HasPrefix(s[i:], esc) && i+len(esc)+2 <= len(s) {
			arg := s[i+len(esc) : i+len(esc)+2]
			if arg == "--" {
				b.WriteString(esc)
				i += len(esc) + 2
				continue
			}
			if v, err := strconv.ParseUint(arg, 16, 8); err == nil {
				b.WriteByte(byte(v))
				i += len(esc) + 2
				continue
			}
		}
		b.WriteByte(s[i])
		i++
	}
	return b.String()
}

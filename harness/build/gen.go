// Project and history generators: uniform operations mixed with the templates that make staleness observable.
package main

import (
	"fmt"
	"sort"
	"strings"
)

type rng struct{ s uint64 }

func (r *rng) next() uint64 {
	r.s += 0x9E3779B97F4A7C15
	z := r.s
	z = (z ^ (z >> 30)) * 0xBF58476D1CE4E5B9
	z = (z ^ (z >> 27)) * 0x94D049BB133111EB
	return z ^ (z >> 31)
}
func (r *rng) below(n int) int {
	if n <= 0 {
		return 0
	}
	return int(r.next() % uint64(n))
}
func (r *rng) chance(pct int) bool { return r.below(100) < pct }
func (r *rng) pick(xs []string) string {
	return xs[r.below(len(xs))]
}

var words = []string{"lorem", "ipsum", "dolor", "sit", "amet", "consectetur", "adipiscing", "elit", "sed", "do"}

func (r *rng) text() string {
	n := 1 + r.below(4)
	var ws []string
	for i := 0; i < n; i++ {
		ws = append(ws, r.pick(words))
	}
	return strings.Join(ws, " ") + "\n"
}

// constants: mostly small, sometimes on the width boundaries of the pickle integer opcodes
// boundaryReps: one representative of every width class of the pickle integer opcodes (and their neighbours)
var boundaryReps = []int{0, 1, 255, 256, 257, 65535, 65536, 1<<31 - 1, 1 << 31, -1, -256}

func (r *rng) constant() int {
	if r.chance(14) {
		return boundaryReps[r.below(9)] // the non-negative ones: defaults and free variables use -1 for "none"
	}
	return r.below(200)
}

func pkgPath(pkg, name string) string {
	if pkg == "" {
		return name
	}
	return pkg + "/" + name
}

// genProj: 1–4 packages, 3–12 targets, sources, source directories, generated files consumed as sources,
// a helper module, closures / defaults / globals. `spare` extra targets start removed (added by later edits).
func genProj(r *rng, spare int) *Proj {
	allPkgs := []string{"", "a", "b", "a/c"}
	np := 1 + r.below(4)
	p := &Proj{Pkgs: allPkgs[:np], Globals: map[string]map[string]int{}, Noise: map[string]int{}, Blank: map[string]int{}, Files: map[string]string{},
		HelperK: r.below(50), HelperV: r.below(50)}
	for _, pkg := range p.Pkgs {
		p.Globals[pkg] = map[string]int{"G0": r.constant(), "G1": r.constant(), "UNUSED": r.below(100), "LA": r.below(50), "LATE": r.constant()}
	}
	// sources per package: two files, one directory (the root package gets a nested one)
	var srcPool []string
	for _, pkg := range p.Pkgs {
		for j := 0; j < 2; j++ {
			f := pkgPath(pkg, fmt.Sprintf("s%d.txt", j))
			p.Files[f] = r.text()
			srcPool = append(srcPool, f)
		}
		d := pkgPath(pkg, "d0")
		p.Dirs = append(p.Dirs, d)
		for j := 0; j < 1+r.below(3); j++ {
			p.Files[d+"/"+namePool[j]] = r.text()
		}
		if r.chance(35) {
			// an entry whose name ends in a byte that is not valid UTF-8 (reachable through the directory and through globs)
			p.Files[d+"/"+[]string{"caf" + rawByte(0xe9), rawByte(0xff)}[r.below(2)]] = r.text()
		}
		if pkg == "" && r.chance(50) {
			p.Dirs = append(p.Dirs, d+"/sub")
			p.Files[d+"/sub/a.txt"] = r.text()
		}
		srcPool = append(srcPool, d)
		// files with unusual names: the valid ones can be named as sources, the ones that are not valid UTF-8 are only
		// reachable through glob()
		if r.chance(60) {
			valid := []string{"sp ace.txt", "%2F.txt", "#h.txt", "q\"q.txt", "-d.txt", "é.txt", "at@x.txt", "dot..txt"}
			for k := 0; k < 1+r.below(2); k++ {
				f := pkgPath(pkg, valid[r.below(len(valid))])
				p.Files[f] = r.text()
				srcPool = append(srcPool, f)
			}
			if r.chance(60) {
				invalid := []string{"caf" + rawByte(0xe9) + ".txt", rawByte(0xff) + ".txt", "c" + rawByte(0x80) + ".txt"}
				p.Files[pkgPath(pkg, invalid[r.below(len(invalid))])] = r.text()
			}
		}
		if pkg == "" && r.chance(40) {
			// a source directory with an unusual name, holding entries with unusual names
			// … or with a name made of glob metacharacters (`[id]` of a file-system router): a listing obtained through a
			// pattern match on the directory's own path finds nothing there
			ud := []string{"d é%#", "p[id]"}[r.below(2)]
			p.Dirs = append(p.Dirs, ud)
			p.Files[ud+"/"+namePool[8+r.below(len(namePool)-11)]] = r.text() // (not the last three names)
			p.Files[ud+"/a.txt"] = r.text()
			srcPool = append(srcPool, ud)
		}
	}
	nt := 3 + r.below(10) + spare
	hasDefault := map[string]bool{}
	for i := 0; i < nt; i++ {
		pkg := r.pick(p.Pkgs)
		t := &Tgt{Name: fmt.Sprintf("t%d", i), Pkg: pkg, Const: r.constant(), Dflt: -1, Free: -1}
		// dependencies on earlier targets (acyclic by construction); chains are favoured so that partial builds matter
		if i > 0 {
			nd := r.below(3)
			if r.chance(60) && nd == 0 {
				nd = 1
			}
			for k := 0; k < nd; k++ {
				var d *Tgt
				if k == 0 && r.chance(60) {
					d = p.Tgts[i-1]
				} else {
					d = p.Tgts[r.below(i)]
				}
				if !contains(t.Deps, d.Label()) {
					t.Deps = append(t.Deps, d.Label())
					if len(d.Gens) > 0 && r.chance(75) {
						t.ReadDep = append(t.ReadDep, d.Label())
					}
				}
			}
		}
		for k := 0; k < r.below(3); k++ {
			s := r.pick(srcPool)
			if !contains(t.Srcs, s) {
				t.Srcs = append(t.Srcs, s)
			}
		}
		// a generated file of an earlier target consumed as a source
		if i > 0 && r.chance(25) {
			d := p.Tgts[r.below(i)]
			if len(d.Gens) > 0 {
				// any of the generator's outputs, not only the first one declared
				if g := d.Gens[r.below(len(d.Gens))]; !contains(t.Srcs, g) {
					t.Srcs = append(t.Srcs, g)
				}
			}
		}
		ng := 1
		if r.chance(15) {
			ng = 0
		} else if r.chance(35) {
			ng = 2 + r.below(2) // multi-output generators: some outputs (logs) are nobody's source
		}
		sub := ""
		if r.chance(20) {
			sub = "gen." + t.Name + "/" // outputs below a directory of their own (a fault op can replace that directory by a file)
		}
		odd := ""
		if r.chance(15) {
			odd = " é%#'" // generated files with unusual (valid) names
		}
		for k := 0; k < ng; k++ {
			t.Gens = append(t.Gens, pkgPath(pkg, fmt.Sprintf("%s%s%s.%d.out", sub, t.Name, odd, k)))
		}
		if r.chance(18) {
			// sources=glob([...]) evaluated in the package directory; the root package's `**` patterns walk the whole project
			t.Glob = []string{"**/*.txt", "*.txt", "d0/**"}[r.below(3)]
			if t.Glob == "**/*.txt" && r.chance(60) {
				t.GlobEx = "d0*" // matches the directory d0 itself, none of the files below it
			}
		}
		if t.Glob == "" && r.chance(15) {
			t.SelfLists = true // the body works on self.sources / self.dependencies / self.generates
		}
		t.Always = r.chance(4)
		switch r.below(10) {
		case 0, 1, 2:
			t.Global = []string{"G0", "G1"}[r.below(2)]
		case 3, 4:
			t.Helper = true
		case 5, 6:
			t.Dflt = r.constant()
		case 7:
			t.Free = r.constant()
		case 9:
			t.Global = "LATE" // references a global that is assigned further down in the build file
		case 8:
			t.Global = "LISTS" // references the two list globals LA and LB
		}
		// values 0 and 1 are over-represented: they have the most equal-but-distinguishable spellings (0.0, -0.0, False, 1.0, True)
		if r.chance(25) {
			t.Const = r.below(2)
		}
		if r.chance(20) && t.Global == "" {
			t.Helper = true
		}
		if i >= nt-spare {
			t.Removed = true
		}
		p.Tgts = append(p.Tgts, t)
	}
	p.ensureLinkOnlyConsumer(r)
	// one default target per package: the last live target of the package
	for i := len(p.Tgts) - 1; i >= 0; i-- {
		t := p.Tgts[i]
		if !t.Removed && !hasDefault[t.Pkg] {
			hasDefault[t.Pkg] = true
			t.Default = true
		}
	}
	if r.chance(15) {
		p.addFlag(r)
	}
	p.addLinks(r)
	if r.chance(35) {
		p.addPrefixPair(r)
	}
	return p
}

// ensureLinkOnlyConsumer: half of the projects get a consumer that reaches a multi-output generator ONLY through
// `sources=[generated file]` (no deps= edge: the dependency exists through Project.link alone), where the consumed output
// is declared after an output nobody consumes.
func (p *Proj) ensureLinkOnlyConsumer(r *rng) {
	if len(p.Tgts) < 2 || !r.chance(50) {
		return
	}
	gi := r.below(len(p.Tgts) - 1)
	g := p.Tgts[gi]
	if g.Removed {
		return
	}
	for len(g.Gens) < 2+r.below(2) {
		g.Gens = append(g.Gens, pkgPath(g.Pkg, fmt.Sprintf("%s.%d.out", g.Name, len(g.Gens))))
	}
	// the position of the consumed output: never the first; every output before it stays unconsumed by this consumer
	k := 1 + r.below(len(g.Gens)-1)
	for ci := gi + 1; ci < len(p.Tgts); ci++ {
		c := p.Tgts[ci]
		if c.Removed || contains(c.Deps, g.Label()) {
			continue
		}
		consumes := false
		for _, s := range c.Srcs {
			if contains(g.Gens, s) {
				consumes = true
			}
		}
		if consumes {
			continue
		}
		c.Srcs = append(c.Srcs, g.Gens[k])
		// the first output is a log: drop it from every consumer
		for _, t := range p.Tgts {
			t.Srcs = remove(t.Srcs, g.Gens[0])
		}
		return
	}
}

// linkOnly: (generator, consumer) pairs where the consumer reads an output of the generator and does not depend on it explicitly
func (p *Proj) linkOnly() [][2]*Tgt {
	var out [][2]*Tgt
	for _, g := range p.live() {
		for _, c := range p.live() {
			if c == g || contains(c.Deps, g.Label()) {
				continue
			}
			for _, s := range c.Srcs {
				if contains(g.Gens, s) {
					out = append(out, [2]*Tgt{g, c})
					break
				}
			}
		}
	}
	return out
}

// dependents: the live targets that list l as a dependency or consume one of its generated files
func (p *Proj) dependents(l string) []*Tgt {
	var out []*Tgt
	t := p.tgt(l)
	for _, d := range p.live() {
		if contains(d.Deps, l) {
			out = append(out, d)
			continue
		}
		if t != nil {
			for _, g := range t.Gens {
				if contains(d.Srcs, g) {
					out = append(out, d)
					break
				}
			}
		}
	}
	return out
}

// roots: labels worth building: every live target and every default label
func (p *Proj) roots() []string {
	var out []string
	for _, t := range p.live() {
		out = append(out, t.Label())
		if t.Default {
			out = append(out, defaultLabel(t.Pkg))
		}
	}
	return out
}

// topRoot: a target nothing depends on, with the largest closure
func (p *Proj) topRoot() string {
	best, bestN := "", -1
	for _, t := range p.live() {
		if n := len(p.closure(t.Label())); n > bestN {
			best, bestN = t.Label(), n
		}
	}
	return best
}

// sourceFilesOf: the plain (not generated) source files a target reads, files inside its source directories included
func (p *Proj) sourceFilesOf(t *Tgt) []string {
	var out []string
	for _, s := range p.srcsOf(t) {
		if p.isGenerated(s) {
			continue
		}
		if p.isDir(s) {
			for f := range p.Files {
				if strings.HasPrefix(f, s+"/") {
					out = append(out, f)
				}
			}
		} else if _, ok := p.Files[s]; ok {
			out = append(out, s)
		}
	}
	sort.Strings(out)
	return out
}

type gen struct {
	r *rng
	p *Proj // abstract project as the history unfolds (edits are applied to it without touching any disk)
	h *History
	// labels removed while a collection happened: never re-created (C14's exclusion)
	collected map[string]bool
	hadGC     bool
	// respell: the equal-but-distinguishable value edits (D25) are part of the C01 and C02 generators
	respell bool
}

func (g *gen) add(op Op) {
	if op.Kind == "edit" {
		op.Edit.apply(g.p, "")
	}
	if op.Kind == "gc" {
		// C14's exclusion: a label whose record a collection removed is never re-created
		used := map[string]bool{}
		for _, t := range g.p.live() {
			for _, s := range g.p.srcsOf(t) {
				used[s] = true
			}
		}
		for _, t := range g.p.Tgts {
			if t.Removed {
				g.collected[t.Label()] = true
			}
			for _, s := range g.p.srcsOf(t) {
				if !used[s] {
					g.collected[s] = true
				}
			}
		}
		for _, pkg := range g.p.Pkgs {
			for j := 0; j < 2; j++ {
				if s := pkgPath(pkg, fmt.Sprintf("s%d.txt", j)); !used[s] {
					g.collected[s] = true
				}
			}
		}
	}
	g.h.Ops = append(g.h.Ops, op)
}

func (g *gen) edit(e Edit) { g.add(Op{Kind: "edit", Edit: &e}) }

// semanticEdit: an edit that changes an input of target t (content, code, constant, global, helper, default, free)
func (g *gen) semanticEdit(t *Tgt) bool {
	r := g.r
	var opts []func() bool
	if fs := g.p.sourceFilesOf(t); len(fs) > 0 {
		opts = append(opts, func() bool {
			f := fs[r.below(len(fs))]
			nt := r.text()
			if nt == g.p.Files[f] {
				nt = nt + "x\n"
			}
			g.edit(Edit{Kind: "content", Path: f, Text: nt})
			return true
		})
	}
	if l := g.p.linkOf(t); l != "" {
		// the file behind a symbolic link in a source directory changes, or the link is pointed at another file
		opts = append(opts, func() bool {
			ref := g.p.Links[l]
			if r.chance(50) {
				g.edit(Edit{Kind: "content", Path: ref, Text: g.p.Files[ref] + "edited behind the link\n"})
			} else {
				to := "shared-b.cfg"
				if ref == to {
					to = "shared-a.cfg"
				}
				g.edit(Edit{Kind: "retarget", Path: l, To: to})
			}
			return true
		})
	}
	opts = append(opts, func() bool { g.edit(Edit{Kind: "code", Target: t.Label()}); return true })
	opts = append(opts, func() bool {
		v := r.constant()
		if v == t.Const {
			v++
		}
		g.edit(Edit{Kind: "const", Target: t.Label(), Val: v})
		return true
	})
	if t.Global != "" {
		opts = append(opts, func() bool {
			name := t.Global
			if name == "LISTS" {
				name = "LA"
			}
			v := r.constant()
			if v == g.p.Globals[t.Pkg][name] {
				v++
			}
			g.edit(Edit{Kind: "global", Pkg: t.Pkg, Name: name, Val: v})
			return true
		})
	}
	// equal-but-distinguishable respellings of a referenced value (1 ↔ 1.0, 0.0 ↔ -0.0, True ↔ 1): the values compare ==,
	// the body's output (the repr of the value) differs
	if ks := g.formKeys(t); g.respell && len(ks) > 0 {
		respell := func() bool {
			k := ks[r.below(len(ks))]
			g.edit(Edit{Kind: "form", Name: k.key, Text: g.otherForm(k.key, k.val)})
			return true
		}
		opts = append(opts, respell, respell)
	}
	if t.Helper {
		opts = append(opts, func() bool {
			if r.chance(50) {
				g.edit(Edit{Kind: "helperk", Val: g.p.HelperK + 1 + r.below(5)})
			} else {
				g.edit(Edit{Kind: "helperv", Val: g.p.HelperV + 1 + r.below(5)})
			}
			return true
		})
	}
	if t.Dflt >= 0 && g.p.form(t) == "default" {
		opts = append(opts, func() bool { g.edit(Edit{Kind: "dflt", Target: t.Label(), Val: t.Dflt + 1 + r.below(300)}); return true })
	}
	if t.Free >= 0 && g.p.form(t) == "closure" {
		opts = append(opts, func() bool { g.edit(Edit{Kind: "free", Target: t.Label(), Val: t.Free + 1 + r.below(300)}); return true })
	}
	return opts[r.below(len(opts))]()
}

type formKey struct {
	key string
	val int
}

// formKeys: the value positions target t references
func (g *gen) formKeys(t *Tgt) []formKey {
	ks := []formKey{{"const|" + t.Label(), t.Const}}
	if t.Global != "" && t.Global != "LISTS" {
		ks = append(ks, formKey{globalKey(t.Pkg, t.Global), g.p.Globals[t.Pkg][t.Global]})
	}
	if t.Helper {
		ks = append(ks, formKey{"helperk", g.p.HelperK}, formKey{"helperv", g.p.HelperV})
	}
	switch g.p.form(t) {
	case "closure":
		ks = append(ks, formKey{"free|" + t.Label(), t.Free})
	case "default":
		ks = append(ks, formKey{"dflt|" + t.Label(), t.Dflt})
	}
	return ks
}

// otherForm: a spelling different from the present one that denotes an == value
func (g *gen) otherForm(key string, v int) string {
	forms := []string{"", "float"}
	if v == 0 {
		forms = append(forms, "negzero")
	}
	if (v == 0 || v == 1) && key != "helperv" {
		forms = append(forms, "bool") // (not for the helper's addend: `x + True` is a type error in Starlark)
	}
	cur := g.p.Forms[key]
	for {
		if f := forms[g.r.below(len(forms))]; f != cur {
			return f
		}
	}
}

// noopEdits: edits that change no input of anything in the closure of `root`:
// touch, same-content rewrite, comments, whitespace, docstrings, and real edits outside the closure.
func (g *gen) noopEdit(root string) {
	r := g.r
	cl := g.p.closure(root)
	var inside []*Tgt
	var outside []*Tgt
	for _, t := range g.p.live() {
		if cl[t.Label()] {
			inside = append(inside, t)
		} else {
			outside = append(outside, t)
		}
	}
	usedFiles := map[string]bool{}
	usedPkgs := map[string]bool{}
	usesHelper := false
	for _, t := range inside {
		usedPkgs[t.Pkg] = true
		if t.Helper {
			usesHelper = true
		}
		for _, f := range g.p.sourceFilesOf(t) {
			usedFiles[f] = true
		}
		// a file behind a symbolic link in one of the target's source directories is read as well
		for l, ref := range g.p.Links {
			for _, s := range g.p.srcsOf(t) {
				if strings.HasPrefix(l, s+"/") {
					usedFiles[ref] = true
				}
			}
		}
	}
	var files []string
	for f := range g.p.Files {
		files = append(files, f)
	}
	sort.Strings(files)
	switch r.below(8) {
	case 0:
		if len(files) > 0 {
			g.edit(Edit{Kind: "touch", Path: r.pick(files), Val: r.below(1000)})
		}
	case 1:
		if len(files) > 0 {
			g.edit(Edit{Kind: "samecontent", Path: r.pick(files)})
		}
	case 2:
		g.edit(Edit{Kind: "comment", Pkg: r.pick(g.p.Pkgs)})
	case 3:
		g.edit(Edit{Kind: "whitespace", Pkg: r.pick(g.p.Pkgs)})
	case 4:
		if len(inside) > 0 {
			g.edit(Edit{Kind: "doc", Target: inside[r.below(len(inside))].Label()})
		}
	case 5:
		g.edit(Edit{Kind: "helpernoise"})
	case 6:
		// a source file no target of the closure reads
		var cands []string
		for _, f := range files {
			if !usedFiles[f] {
				cands = append(cands, f)
			}
		}
		if len(cands) > 0 {
			g.edit(Edit{Kind: "content", Path: r.pick(cands), Text: r.text() + "outside\n"})
		}
	case 7:
		// a build file of a package the closure does not touch, or a target outside the closure
		var cands []*Tgt
		for _, t := range outside {
			if !usedPkgs[t.Pkg] && !(t.Helper && usesHelper) {
				cands = append(cands, t)
			}
		}
		if len(cands) > 0 {
			t := cands[r.below(len(cands))]
			if r.chance(50) {
				g.edit(Edit{Kind: "code", Target: t.Label()})
			} else {
				g.edit(Edit{Kind: "global", Pkg: t.Pkg, Name: "UNUSED", Val: r.below(1000)})
			}
		}
	}
}

func (g *gen) uniformEdit() {
	r := g.r
	p := g.p
	live := p.live()
	if len(live) == 0 {
		return
	}
	t := live[r.below(len(live))]
	switch r.below(18) {
	case 16, 17: // the order / multiplicity of the entries of sources=, deps=, generates= (D32)
		g.listEdit(t)
	case 0, 1, 2, 3:
		g.semanticEdit(t)
	case 4:
		g.noopEdit(p.topRoot())
	case 5: // delete a source file, or re-create a deleted one
		fs := p.sourceFilesOf(t)
		if len(fs) > 0 && r.chance(60) {
			g.edit(Edit{Kind: "delete", Path: fs[r.below(len(fs))]})
		} else {
			for _, s := range p.srcsOf(t) {
				if _, ok := p.Files[s]; !ok && !p.isDir(s) && !p.isGenerated(s) {
					g.edit(Edit{Kind: "create", Path: s, Text: r.text()})
					break
				}
			}
		}
	case 6: // delete a generated file
		if len(t.Gens) > 0 {
			g.edit(Edit{Kind: "delgen", Path: t.Gens[r.below(len(t.Gens))]})
		}
	case 7: // rename / add inside a source directory
		g.dirEdit(t)
	case 8: // dependency edge add (only towards earlier targets: stays acyclic)
		idx := -1
		for i, x := range p.Tgts {
			if x == t {
				idx = i
			}
		}
		if idx > 0 {
			d := p.Tgts[r.below(idx)]
			if !d.Removed && !contains(t.Deps, d.Label()) {
				g.edit(Edit{Kind: "adddep", Target: t.Label(), Other: d.Label(), Flag: len(d.Gens) > 0 && r.chance(60)})
			}
		}
	case 9: // dependency edge remove
		if len(t.Deps) > 0 {
			g.edit(Edit{Kind: "rmdep", Target: t.Label(), Other: t.Deps[r.below(len(t.Deps))]})
		}
	case 10: // source add / remove
		if len(t.Srcs) > 0 && r.chance(50) {
			g.edit(Edit{Kind: "rmsrc", Target: t.Label(), Path: t.Srcs[r.below(len(t.Srcs))]})
		} else {
			cand := pkgPath(t.Pkg, fmt.Sprintf("s%d.txt", r.below(2)))
			if !g.collected[cand] {
				g.edit(Edit{Kind: "addsrc", Target: t.Label(), Path: cand})
			}
		}
	case 11:
		g.edit(Edit{Kind: "always", Target: t.Label(), Flag: !t.Always && r.chance(30)})
	case 12, 13: // toggle a constant between two values (changes that are later reverted)
		v := 11
		if t.Const == 11 {
			v = 12
		}
		g.edit(Edit{Kind: "const", Target: t.Label(), Val: v})
	case 14:
		if g.respell && r.chance(50) {
			// aliasing of the two list globals: one object or two equal ones (not observable by a body)
			f := "shared"
			if p.Forms["alias|"+t.Pkg] == "shared" {
				f = ""
			}
			g.edit(Edit{Kind: "form", Name: "alias|" + t.Pkg, Text: f})
		} else {
			g.edit(Edit{Kind: "comment", Pkg: t.Pkg})
		}
	case 15:
		g.edit(Edit{Kind: "doc", Target: t.Label()})
	}
}

// listEdit: reorder the entries of one of the target's lists, or repeat an entry: the sets stay what they were
func (g *gen) listEdit(t *Tgt) {
	r := g.r
	distinct := func(xs []string) bool {
		for _, x := range xs {
			if x != xs[0] {
				return true
			}
		}
		return false
	}
	var opts []Edit
	if distinct(t.Srcs) {
		opts = append(opts, Edit{Kind: "reorder", Target: t.Label(), Name: "srcs"})
	}
	if distinct(t.Deps) {
		opts = append(opts, Edit{Kind: "reorder", Target: t.Label(), Name: "deps"})
	}
	if distinct(t.Gens) {
		opts = append(opts, Edit{Kind: "reorder", Target: t.Label(), Name: "gens"})
	}
	if n := len(t.Srcs); n > 0 && n < 5 {
		opts = append(opts, Edit{Kind: "dup", Target: t.Label(), Name: "srcs", Val: r.below(n)})
	}
	if n := len(t.Deps); n > 0 && n < 5 {
		opts = append(opts, Edit{Kind: "dup", Target: t.Label(), Name: "deps", Val: r.below(n)})
	}
	if len(opts) > 0 {
		g.edit(opts[r.below(len(opts))])
	}
}

func (g *gen) dirEdit(t *Tgt) bool {
	r := g.r
	for _, s := range g.p.srcsOf(t) {
		if !g.p.isDir(s) {
			continue
		}
		var inDir []string
		for f := range g.p.Files {
			if strings.HasPrefix(f, s+"/") && !strings.Contains(f[len(s)+1:], "/") {
				inDir = append(inDir, f)
			}
		}
		sort.Strings(inDir)
		var free []string
		for _, n := range namePool {
			if n == "sub" || n == "lnk" { // (`lnk` is the name of the symbolic links)
				continue
			}
			if _, ok := g.p.Files[s+"/"+n]; !ok {
				free = append(free, n)
			}
		}
		if len(inDir) > 0 && len(free) > 0 && r.chance(70) {
			g.edit(Edit{Kind: "rename", Path: inDir[r.below(len(inDir))], To: s + "/" + r.pick(free)})
			return true
		}
		if len(free) > 0 {
			g.edit(Edit{Kind: "create", Path: s + "/" + r.pick(free), Text: r.text()})
			return true
		}
	}
	return false
}

func (g *gen) build(target string) Op {
	return Op{Kind: "build", Target: target, Unpinned: g.r.chance(30)}
}

func (g *gen) uniformBuild() {
	r := g.r
	roots := g.p.roots()
	if len(roots) == 0 {
		return
	}
	op := g.build(r.pick(roots))
	if r.chance(55) {
		op.Target = g.p.topRoot()
	}
	switch {
	case r.chance(5):
		op.Always = true
	case r.chance(8):
		op.Dry = true
	}
	g.add(op)
}

// ---------------------------------------------------------------- templates

// chainPick: a live target T with at least one generated file or source, and a dependent D of T
func (g *gen) chainPick() (*Tgt, *Tgt) {
	var cands [][2]*Tgt
	for _, t := range g.p.live() {
		for _, d := range g.p.dependents(t.Label()) {
			cands = append(cands, [2]*Tgt{t, d})
		}
	}
	if len(cands) == 0 {
		return nil, nil
	}
	c := cands[g.r.below(len(cands))]
	return c[0], c[1]
}

// rootOver: a root whose closure contains d (the top-most dependent chain)
func (g *gen) rootOver(d *Tgt) string {
	best, bestN := d.Label(), len(g.p.closure(d.Label()))
	for _, t := range g.p.live() {
		cl := g.p.closure(t.Label())
		if cl[d.Label()] && len(cl) > bestN {
			best, bestN = t.Label(), len(cl)
		}
	}
	return best
}

// tplPartial: change an input of T, build exactly T, later build the root (D8)
func (g *gen) tplPartial() {
	t, d := g.chainPick()
	if t == nil {
		g.uniformBuild()
		return
	}
	root := g.rootOver(d)
	g.add(g.build(root))
	g.semanticEdit(t)
	g.add(g.build(t.Label()))
	if g.r.chance(30) {
		g.uniformEdit()
	}
	g.add(g.build(root))
}

// tplFailFix: a body fails in a full build, then the failed target is built alone, then the root
func (g *gen) tplFailFix() {
	t, d := g.chainPick()
	if t == nil {
		g.uniformBuild()
		return
	}
	root := g.rootOver(d)
	g.semanticEdit(t)
	op := g.build(root)
	op.Fail = []string{t.Label()}
	g.add(op)
	if g.r.chance(60) {
		g.add(g.build(t.Label()))
	}
	g.add(g.build(root))
}

// tplFailThenAlone: a succeeds and its dependent b (deps=[a]) records a's stamp; an input of a other than its code
// changes and a's body fails; a ALONE is then rebuilt successfully (same environment, new output); b is built in a
// separate build: it must re-execute (the failure record has to keep a's run counter)
func (g *gen) tplFailThenAlone() {
	var cands [][2]*Tgt
	for _, t := range g.p.live() {
		if t.Always || len(g.p.sourceFilesOf(t)) == 0 {
			continue
		}
		for _, d := range g.p.live() {
			if contains(d.Deps, t.Label()) {
				cands = append(cands, [2]*Tgt{t, d})
			}
		}
	}
	if len(cands) == 0 {
		g.tplFailFix()
		return
	}
	c := cands[g.r.below(len(cands))]
	a, b := c[0], c[1]
	g.add(g.build(b.Label()))
	fs := g.p.sourceFilesOf(a)
	f := fs[g.r.below(len(fs))]
	g.edit(Edit{Kind: "content", Path: f, Text: g.p.Files[f] + "again\n"})
	op := g.build(a.Label())
	if g.r.chance(50) {
		op.Target = b.Label()
	}
	op.Fail = []string{a.Label()}
	g.add(op)
	g.add(g.build(a.Label()))
	g.add(g.build(b.Label()))
}

// tplCrashAfterRecord: the process dies right after T's record was renamed, before its dependents ran (D8, crash form)
func (g *gen) tplCrashAfterRecord() {
	t, d := g.chainPick()
	if t == nil {
		g.uniformBuild()
		return
	}
	root := g.rootOver(d)
	g.add(g.build(root))
	g.semanticEdit(t)
	op := g.build(root)
	// the rename of the record written after the body (not the in-progress marker's)
	op.CrashHook, op.CrashLabel = "sr-after-rs", t.Label()
	op.Note = "crash after the success record of " + t.Label()
	g.add(op)
	g.add(g.build(root))
}

// tplCrashInBody: edit the code of T, die between the body and the record, revert the edit, build (D18)
func (g *gen) tplCrashInBody() {
	var cands []*Tgt
	for _, t := range g.p.live() {
		if len(t.Gens) > 0 && !t.Always {
			cands = append(cands, t)
		}
	}
	if len(cands) == 0 {
		g.uniformBuild()
		return
	}
	if g.r.chance(35) {
		// forced variant: no input of T changes at all. A `-B` build re-runs everything (generators rewrite their files
		// byte-identically), the process dies inside T's body, and the next plain build finds every stamp T recorded
		// unchanged: only the interrupted build's own trace can make it re-run T (seeded change C01-r1). Consumers of
		// generated source files are preferred: their dependency is a file whose stamp is its content.
		var cons []*Tgt
		for _, t := range cands {
			for _, s := range g.p.srcsOf(t) {
				if g.p.isGenerated(s) {
					cons = append(cons, t)
					break
				}
			}
		}
		if len(cons) > 0 && !g.r.chance(25) {
			cands = cons
		}
		t := cands[g.r.below(len(cands))]
		root := g.rootOver(t)
		g.add(g.build(root))
		op := g.build(root)
		op.Always = true
		op.CrashHook, op.CrashLabel = []string{"ba", "bw", "bw"}[g.r.below(3)], t.Label()
		op.Note = "forced build, crash inside the body of " + t.Label()
		g.add(op)
		g.add(g.build(root))
		return
	}
	t := cands[g.r.below(len(cands))]
	root := g.rootOver(t)
	g.add(g.build(root))
	old := t.Const
	g.edit(Edit{Kind: "const", Target: t.Label(), Val: old + 1})
	op := g.build(root)
	op.CrashHook, op.CrashLabel = []string{"ba", "rs", "bw"}[g.r.below(3)], t.Label()
	op.Note = "crash between the body and the record of " + t.Label()
	g.add(op)
	g.edit(Edit{Kind: "const", Target: t.Label(), Val: old})
	g.add(g.build(root))
}

// tplLinkOnly: change an input of a generator, build a consumer that depends on it only through a generated source
func (g *gen) tplLinkOnly() {
	pairs := g.p.linkOnly()
	if len(pairs) == 0 {
		g.tplPartial()
		return
	}
	pr := pairs[g.r.below(len(pairs))]
	g.add(g.build(pr[1].Label()))
	g.semanticEdit(pr[0])
	g.add(g.build(pr[1].Label()))
}

// bystanders: k ∈ {1,2} processes that load the project fully without executing `t`: a build of something whose closure
// does not contain it, a load only (`dawn list`), a collection
func (g *gen) bystanders(t *Tgt) {
	for i := 0; i < 1+g.r.below(2); i++ {
		switch g.r.below(3) {
		case 0:
			var others []string
			for _, o := range g.p.live() {
				if !g.p.closure(o.Label())[t.Label()] {
					others = append(others, o.Label())
				}
			}
			if len(others) > 0 {
				g.add(g.build(g.r.pick(others)))
			} else {
				g.add(Op{Kind: "load"})
			}
		case 1:
			g.add(Op{Kind: "load", PreferIndex: g.r.chance(30)})
		case 2:
			g.add(Op{Kind: "gc", PreferIndex: g.r.chance(50)})
		}
	}
}

// tplCrashBystander: a body is interrupted (after an edit that is then reverted, under -B, or after one of its outputs was
// deleted — reasons the record does not show), other processes load the project, then the target is built: the
// persisted in-progress mark must have survived the loads in between
func (g *gen) tplCrashBystander() {
	var cands []*Tgt
	for _, t := range g.p.live() {
		if len(t.Gens) > 0 && !t.Always {
			cands = append(cands, t)
		}
	}
	if len(cands) == 0 {
		g.uniformBuild()
		return
	}
	t := cands[g.r.below(len(cands))]
	root := g.rootOver(t)
	g.add(g.build(root))
	op := g.build(root)
	op.CrashHook, op.CrashLabel = []string{"ba", "rs", "bw"}[g.r.below(3)], t.Label()
	op.Note = "crash between the body and the record of " + t.Label() + ", then bystander loads"
	old := t.Const
	variant := g.r.below(3)
	switch variant {
	case 0:
		g.edit(Edit{Kind: "const", Target: t.Label(), Val: old + 1})
	case 1:
		op.Always = true
	case 2:
		g.edit(Edit{Kind: "delgen", Path: t.Gens[g.r.below(len(t.Gens))]})
	}
	g.add(op)
	g.bystanders(t)
	if variant == 0 {
		g.edit(Edit{Kind: "const", Target: t.Label(), Val: old})
	}
	g.add(g.build(root))
}

// sharedSource: two live targets, neither in the other's closure, that read the same plain source file
func (g *gen) sharedSource() (*Tgt, *Tgt, string) {
	live := g.p.live()
	for _, i := range g.perm(len(live)) {
		a := live[i]
		if a.Always {
			continue
		}
		for _, j := range g.perm(len(live)) {
			b := live[j]
			if a == b || b.Always || !g.independent(a, b) {
				continue
			}
			for _, s := range g.p.srcsOf(a) {
				if _, plain := g.p.Files[s]; plain && contains(g.p.srcsOf(b), s) && !g.p.isGenerated(s) && g.onlyReader(b, s) {
					return a, b, s
				}
			}
		}
	}
	return nil, nil, ""
}

// independent: the closures of a and b share no function target, and nothing in b's closure is `always`
func (g *gen) independent(a, b *Tgt) bool {
	ca, cb := g.p.closure(a.Label()), g.p.closure(b.Label())
	for l := range ca {
		if cb[l] {
			return false
		}
	}
	return len(alwaysDownstream(g.p, b.Label())) == 0
}

// onlyReader: within b's closure, only b itself reads the file s (directly, through a directory or through a glob)
func (g *gen) onlyReader(b *Tgt, s string) bool {
	for l := range g.p.closure(b.Label()) {
		if l == b.Label() {
			continue
		}
		for _, f := range g.p.sourceFilesOf(g.p.tgt(l)) {
			if f == s {
				return false
			}
		}
	}
	return true
}

func (g *gen) perm(n int) []int {
	p := make([]int, n)
	for i := range p {
		p[i] = i
	}
	for i := n - 1; i > 0; i-- {
		j := g.r.below(i + 1)
		p[i], p[j] = p[j], p[i]
	}
	return p
}

// tplSharedSource (C02): a source shared by A and B. Build B; edit the source, build only A, revert the edit, build A
// again (or: build A under -B); build B: B last ran against exactly this source, it must not run again.
func (g *gen) tplSharedSource() {
	a, b, s := g.sharedSource()
	if a == nil {
		// make one: give the last two independent targets a common source
		live := g.p.live()
		for i := len(live) - 1; i > 0 && a == nil; i-- {
			for j := i - 1; j >= 0; j-- {
				x, y := live[i], live[j]
				if x.Always || y.Always || !g.independent(x, y) || !g.independent(y, x) {
					continue
				}
				src := pkgPath(x.Pkg, "s0.txt")
				if g.collected[src] {
					continue
				}
				if _, ok := g.p.Files[src]; !ok {
					continue
				}
				g.edit(Edit{Kind: "addsrc", Target: x.Label(), Path: src})
				g.edit(Edit{Kind: "addsrc", Target: y.Label(), Path: src})
				break
			}
			a, b, s = g.sharedSource()
		}
		if a == nil {
			g.tplNoop()
			return
		}
	}
	g.add(g.build(b.Label()))
	g.add(g.build(a.Label()))
	if g.r.chance(60) {
		orig := g.p.Files[s]
		g.edit(Edit{Kind: "content", Path: s, Text: orig + "changed\n"})
		g.add(g.build(a.Label()))
		g.edit(Edit{Kind: "content", Path: s, Text: orig})
		g.add(g.build(a.Label()))
	} else {
		op := g.build(a.Label())
		op.Always = true
		g.add(op)
	}
	op := g.build(b.Label())
	op.ExpectSkip = []string{b.Label()}
	op.Note = "the shared source " + s + " is what " + b.Label() + " last ran against"
	g.add(op)
}

// tplSharedRevert (C01): two independent targets read one plain source. Edit it, build only B; put the old contents
// back, build only A (the source's record goes back to the old sum); build B: it last ran against the EDITED contents.
// A dependent that records a stamp of the source other than the one the source has after its evaluation (one
// generation behind) finds that stale stamp equal to the present one here.
func (g *gen) tplSharedRevert() {
	a, b, s := g.sharedSource()
	if a == nil {
		g.tplPartial()
		return
	}
	g.add(g.build(a.Label()))
	g.add(g.build(b.Label()))
	orig := g.p.Files[s]
	g.edit(Edit{Kind: "content", Path: s, Text: orig + "edited, to be reverted\n"})
	g.add(g.build(b.Label()))
	if g.r.chance(50) {
		g.add(g.build(a.Label()))
	}
	g.edit(Edit{Kind: "content", Path: s, Text: orig})
	g.add(g.build(a.Label()))
	op := g.build(b.Label())
	op.Note = b.Label() + " last ran against the edited " + s
	g.add(op)
}

// tplLinkEdit (C01): a source directory holds a symbolic link; the file behind it changes, or the link is retargeted
func (g *gen) tplLinkEdit() {
	for _, i := range g.perm(len(g.p.live())) {
		t := g.p.live()[i]
		l := g.p.linkOf(t)
		if l == "" {
			continue
		}
		root := g.rootOver(t)
		g.add(g.build(root))
		ref := g.p.Links[l]
		if g.r.chance(50) {
			g.edit(Edit{Kind: "content", Path: ref, Text: g.p.Files[ref] + "edited behind the link\n"})
		} else {
			to := "shared-b.cfg"
			if ref == to {
				to = "shared-a.cfg"
			}
			g.edit(Edit{Kind: "retarget", Path: l, To: to})
		}
		g.add(g.build(root))
		return
	}
	g.tplRename()
}

// tplDelGen: delete a generated file, build a dependent
func (g *gen) tplDelGen() {
	t, d := g.chainPick()
	if t == nil || len(t.Gens) == 0 {
		g.uniformBuild()
		return
	}
	root := g.rootOver(d)
	g.add(g.build(root))
	g.edit(Edit{Kind: "delgen", Path: t.Gens[g.r.below(len(t.Gens))]})
	if g.r.chance(50) {
		g.add(g.build(d.Label()))
	}
	g.add(g.build(root))
}

// tplRename: rename a file inside a source directory, build (D9)
func (g *gen) tplRename() {
	for _, t := range g.p.live() {
		has := false
		for _, s := range g.p.srcsOf(t) {
			if g.p.isDir(s) {
				has = true
			}
		}
		if !has || g.r.chance(40) {
			continue
		}
		root := g.rootOver(t)
		g.add(g.build(root))
		if g.dirEdit(t) {
			g.add(g.build(root))
			return
		}
	}
	g.uniformBuild()
}

// tplNoop (C02): build L, only no-op edits, build L again: nothing may execute
func (g *gen) tplNoop() {
	roots := g.p.roots()
	if len(roots) == 0 {
		return
	}
	root := g.r.pick(roots)
	if g.r.chance(50) {
		root = g.p.topRoot()
	}
	g.add(g.build(root))
	for i := 0; i < g.r.below(4); i++ {
		g.noopEdit(root)
	}
	if g.r.chance(30) {
		// a collection changes no input either
		g.add(Op{Kind: "gc", PreferIndex: g.r.chance(50)})
	}
	op := g.build(root)
	op.ExpectNoExec = true
	g.add(op)
}

// tplDry (C13): a dry run followed by the real build it predicts
func (g *gen) tplDry() {
	roots := g.p.roots()
	if len(roots) == 0 {
		return
	}
	root := g.r.pick(roots)
	if g.r.chance(60) {
		root = g.p.topRoot()
	}
	dry := g.build(root)
	dry.Dry = true
	real := g.build(root)
	if g.r.chance(25) {
		cl := g.p.closure(root)
		var ls []string
		for l := range cl {
			ls = append(ls, l)
		}
		sort.Strings(ls)
		if len(ls) > 0 {
			real.Fail = []string{g.r.pick(ls)}
		}
	}
	if g.r.chance(10) {
		dry.Always, real.Always = true, true
	}
	g.add(dry)
	g.add(real)
}

// tplGC (C14): removal / addition of targets and sources around a collection
func (g *gen) tplGC() {
	r := g.r
	switch r.below(4) {
	case 0: // remove a target nothing depends on, collect
		for _, t := range g.p.live() {
			if len(g.p.dependents(t.Label())) == 0 && !t.Default && r.chance(50) {
				g.edit(Edit{Kind: "rmtarget", Target: t.Label()})
				break
			}
		}
	case 1: // add a spare target (never one whose record was collected)
		for _, t := range g.p.Tgts {
			if t.Removed && !g.collected[t.Label()] {
				ok := true
				for _, d := range t.Deps {
					if dt := g.p.tgt(d); dt == nil || dt.Removed {
						ok = false
					}
				}
				for _, s := range t.Srcs {
					if g.collected[s] {
						ok = false
					}
				}
				if ok {
					g.edit(Edit{Kind: "addtarget", Target: t.Label()})
					break
				}
			}
		}
	case 2: // drop a source from a target
		live := g.p.live()
		if len(live) > 0 {
			t := live[r.below(len(live))]
			if len(t.Srcs) > 0 {
				g.edit(Edit{Kind: "rmsrc", Target: t.Label(), Path: t.Srcs[r.below(len(t.Srcs))]})
			}
		}
	}
	if r.chance(50) {
		g.uniformBuild()
	}
	if r.chance(40) {
		// stray files and directories in .dawn/build/temp
		g.edit(Edit{Kind: "junktemp", Name: fmt.Sprint(len(g.h.Ops)), Val: 1 + r.below(3)})
		if r.chance(50) {
			g.edit(Edit{Kind: "junkwork", Name: fmt.Sprint(len(g.h.Ops))})
		}
	}
	g.add(Op{Kind: "gc", PreferIndex: r.chance(60)})
}

// addLinks: symbolic links inside source directories (an entry `lnk` pointing to a file outside every source directory,
// e.g. a configuration shared between packages). Not below a directory that a `d0/**` glob lists file by file.
func (p *Proj) addLinks(r *rng) {
	for _, d := range append([]string{}, p.Dirs...) {
		if strings.HasSuffix(d, "/sub") {
			continue // only the source directories themselves
		}
		if !r.chance(35) {
			continue
		}
		globbed := false
		for _, t := range p.Tgts {
			if t.Glob == "d0/**" && pkgPath(t.Pkg, "d0") == d {
				globbed = true
			}
		}
		if globbed {
			continue
		}
		if _, clash := p.Files[d+"/lnk"]; clash {
			continue
		}
		if p.Links == nil {
			p.Links = map[string]string{}
		}
		for _, ref := range []string{"shared-a.cfg", "shared-b.cfg"} {
			if _, ok := p.Files[ref]; !ok {
				p.Files[ref] = r.text()
			}
		}
		p.Links[d+"/lnk"] = "shared-a.cfg"
	}
}

// linkOf: a link inside one of t's source directories
func (p *Proj) linkOf(t *Tgt) string {
	var ls []string
	for l := range p.Links {
		for _, s := range p.srcsOf(t) {
			if strings.HasPrefix(l, s+"/") {
				ls = append(ls, l)
			}
		}
	}
	sort.Strings(ls)
	if len(ls) == 0 {
		return ""
	}
	return ls[0]
}

// addFlag: a project whose target names depend on a flag of the root package: some root-package targets are named
// "<name>_" + MODE, and every load of the history passes --mode=alt. Under the default value ("std") those targets
// have other labels, so a load that forgets the arguments sees other targets than the one the project was built with.
func (p *Proj) addFlag(r *rng) {
	const val = "alt"
	n := 0
	for _, t := range p.Tgts {
		if t.Pkg != "" || n >= 2 || !r.chance(60) {
			continue
		}
		old := t.Label()
		t.Name = t.Name + "_" + val
		t.FlagNamed = true
		n++
		for _, o := range p.Tgts {
			for i, d := range o.Deps {
				if d == old {
					o.Deps[i] = t.Label()
				}
			}
			for i, d := range o.ReadDep {
				if d == old {
					o.ReadDep[i] = t.Label()
				}
			}
		}
	}
	if n > 0 {
		p.Flag = val
	}
}

// tplGCBroken (C14): a collection while the BUILD file of a package is half-written (syntax error). `dawn gc` loads
// from index.json, so the load itself succeeds; the collection cannot learn what exists and has to refuse — or at least
// keep every record of what exists once the file is repaired. Then the file is repaired and the tree is built again.
func (g *gen) tplGCBroken() {
	pkgs := g.p.Pkgs
	pkg := pkgs[g.r.below(len(pkgs))]
	if len(pkgs) > 1 && g.r.chance(70) {
		pkg = pkgs[1+g.r.below(len(pkgs)-1)]
	}
	root := g.p.topRoot()
	g.add(g.build(root))
	if g.r.chance(50) {
		// every package built: the records of the broken package are there to lose
		for _, l := range g.p.roots() {
			if strings.HasSuffix(l, ":default") {
				g.add(g.build(l))
			}
		}
	}
	g.edit(Edit{Kind: "break", Path: pkg})
	g.add(Op{Kind: "gc", PreferIndex: true, ExpectFail: true, Note: "gc while BUILD.dawn of //" + pkg + " does not parse"})
	g.edit(Edit{Kind: "unbreak", Path: pkg})
	g.add(g.build(root))
}

// addPrefixPair: two targets of one package whose names are a proper prefix of one another (`t3` and `t3_docs`): the
// record files of such a pair are `…%2Ft3` and `…%2Ft3_docs`
func (p *Proj) addPrefixPair(r *rng) {
	for _, x := range p.Tgts {
		if x.Default || x.FlagNamed || x.Removed || len(p.dependents(x.Label())) > 0 {
			continue
		}
		for _, y := range p.Tgts {
			if y == x || y.Pkg != x.Pkg || y.FlagNamed || y.Removed || strings.HasPrefix(y.Name, x.Name) {
				continue
			}
			old := y.Label()
			y.Name = x.Name + "_docs"
			for _, o := range p.Tgts {
				for i, d := range o.Deps {
					if d == old {
						o.Deps[i] = y.Label()
					}
				}
				for i, d := range o.ReadDep {
					if d == old {
						o.ReadDep[i] = y.Label()
					}
				}
			}
			return
		}
	}
}

// tplGCNoSources (C14): every target loses its sources, so no label of kind `source` is left, then a collection: the
// records of all the former sources (a whole record directory without a live label) have to go
func (g *gen) tplGCNoSources() {
	if g.p.hasGlob() {
		g.tplGC()
		return
	}
	g.add(g.build(g.p.topRoot()))
	for _, t := range g.p.live() {
		for _, s := range append([]string{}, t.Srcs...) {
			if contains(t.Srcs, s) {
				g.edit(Edit{Kind: "rmsrc", Target: t.Label(), Path: s})
			}
		}
	}
	g.add(Op{Kind: "gc", PreferIndex: g.r.chance(50)})
	g.add(g.build(g.p.topRoot()))
}

// tplPrefixGC (C14): remove a target whose name is a proper prefix of the name of a target of the same package that
// stays (`build` next to `build_docs`), collect: the record of the removed one has to go
func (g *gen) tplPrefixGC() {
	for _, x := range g.p.live() {
		if x.Default || len(g.p.dependents(x.Label())) > 0 {
			continue
		}
		for _, y := range g.p.live() {
			if y != x && y.Pkg == x.Pkg && strings.HasPrefix(y.Name, x.Name) && y.Name != x.Name {
				g.add(g.build(x.Label()))
				g.add(g.build(y.Label()))
				g.edit(Edit{Kind: "rmtarget", Target: x.Label()})
				g.add(Op{Kind: "gc", PreferIndex: g.r.chance(50)})
				g.add(g.build(y.Label()))
				return
			}
		}
	}
	g.tplGC()
}

// writeFaultHistories (C03): one build runs under a write fault (every write beyond 16 bytes fails from the end of
// the load to the end of the Run: a full disk, a quota, a file size limit); afterwards, in a fresh process without the
// fault, the state loads and the build converges to the from-scratch outputs. Judge-only (the model has no such fault).
func writeFaultHistories(r *rng, n int) []*History {
	var out []*History
	for tries := 0; len(out) < n && tries < 10*n; tries++ {
		p := genProj(r, 0)
		g := &gen{r: r, p: p.clone(), h: &History{Proj: p, JudgeOnly: true}, collected: map[string]bool{}}
		t, d := g.chainPick()
		if t == nil || len(t.Gens) == 0 || t.Always {
			continue
		}
		root := g.rootOver(d)
		if len(alwaysDownstream(g.p, root)) > 0 {
			continue
		}
		g.add(g.build(root))
		if len(out)%2 == 0 {
			g.h.Template = "C03 write fault while results are recorded: edit, build under the fault, build"
			g.semanticEdit(t)
		} else {
			g.h.Template = "C03 write fault around a body that half-writes its output: delete the generated file, build under the fault, build"
			g.edit(Edit{Kind: "delgen", Path: t.Gens[0]})
		}
		f := g.build(root)
		f.Unpinned = false
		f.WriteLimit = 16
		f.Note = "every write beyond 16 bytes fails (EFBIG) from the end of the load to the end of the run"
		g.add(f)
		g.add(g.build(root))
		if r.chance(50) {
			g.add(g.build(root))
		}
		out = append(out, g.h)
	}
	return out
}

// tplStaleIndexGC (C14, D22): remove a built target, let a full load rewrite the index without it, put the target back,
// collect with the index-only load `dawn gc` uses, build the target: its record must still be there
func (g *gen) tplStaleIndexGC() {
	var cands []*Tgt
	for _, t := range g.p.live() {
		if len(g.p.dependents(t.Label())) == 0 && !t.Default && !t.Always {
			cands = append(cands, t)
		}
	}
	if len(cands) == 0 {
		g.tplGC()
		return
	}
	t := cands[g.r.below(len(cands))]
	g.add(g.build(t.Label()))
	g.edit(Edit{Kind: "rmtarget", Target: t.Label()})
	if others := g.p.roots(); len(others) > 0 {
		g.add(g.build(g.r.pick(others)))
	}
	g.edit(Edit{Kind: "addtarget", Target: t.Label()})
	g.add(Op{Kind: "gc", PreferIndex: true})
	g.add(g.build(t.Label()))
}

// tplFault (C03): a failing body or a crash at an arbitrary hook point, then the recovery build
func (g *gen) tplFault() {
	r := g.r
	root := g.p.topRoot()
	if r.chance(30) {
		rs := g.p.roots()
		root = r.pick(rs)
	}
	cl := g.p.closure(root)
	var ls []string
	for l := range cl {
		ls = append(ls, l)
	}
	sort.Strings(ls)
	if len(ls) == 0 {
		g.uniformBuild()
		return
	}
	if r.chance(70) {
		g.semanticEdit(g.p.tgt(r.pick(ls)))
	}
	op := g.build(root)
	switch r.below(10) {
	case 0, 1, 2:
		op.Fail = []string{r.pick(ls)}
		if r.chance(30) {
			op.Fail = append(op.Fail, r.pick(ls))
		}
	case 3:
		op.CrashAt, op.CrashPhase = 1+r.below(3*len(g.p.live())+2), "load"
	default:
		op.CrashAt, op.CrashPhase = 1+r.below(10*len(ls)), "run"
		if r.chance(20) {
			op.Fail = []string{r.pick(ls)}
		}
	}
	g.add(op)
	if r.chance(25) {
		g.uniformEdit()
	}
	g.add(g.build(root))
}

// genHistory: a project and a history for one property's check
func genHistory(r *rng, prop string, nops int) *History {
	spare := 0
	if prop == "C14" {
		spare = 2
	}
	p := genProj(r, spare)
	g := &gen{r: r, p: p.clone(), h: &History{Proj: p, Template: prop}, collected: map[string]bool{}, respell: prop == "C01" || prop == "C02"}
	// start from a built tree most of the time
	if r.chance(80) {
		g.add(g.build(g.p.topRoot()))
	}
	for len(g.h.Ops) < nops {
		x := r.below(100)
		switch prop {
		case "C01":
			switch {
			case x < 18:
				g.tplPartial()
			case x < 24:
				g.tplLinkOnly()
			case x < 30:
				g.tplFailFix()
			case x < 36:
				g.tplCrashAfterRecord()
			case x < 41:
				g.tplCrashInBody()
			case x < 46:
				g.tplCrashBystander()
			case x < 52:
				g.tplDelGen()
			case x < 57:
				g.tplRename()
			case x < 60:
				g.tplLinkEdit()
			case x < 63:
				g.tplSharedRevert()
			case x < 80:
				g.uniformEdit()
			case x < 84:
				g.add(Op{Kind: "gc", PreferIndex: r.chance(50)})
			default:
				g.uniformBuild()
			}
		case "C02":
			switch {
			case x < 40:
				g.tplNoop()
			case x < 48:
				g.tplSharedSource()
			case x < 55:
				g.tplPartial()
			case x < 80:
				g.uniformEdit()
			default:
				g.uniformBuild()
			}
		case "C03":
			switch {
			case x < 45:
				g.tplFault()
			case x < 53:
				g.tplCrashAfterRecord()
			case x < 58:
				g.tplCrashInBody()
			case x < 63:
				g.tplCrashBystander()
			case x < 66:
				g.tplFailFix()
			case x < 72:
				g.tplFailThenAlone()
			case x < 86:
				g.uniformEdit()
			case x < 89:
				g.add(Op{Kind: "gc", PreferIndex: r.chance(50)})
			default:
				g.uniformBuild()
			}
		case "C13":
			switch {
			case x < 45:
				g.tplDry()
			case x < 75:
				g.uniformEdit()
			case x < 82:
				g.tplFailFix()
			default:
				g.uniformBuild()
			}
		case "C14":
			switch {
			case x < 6:
				g.tplStaleIndexGC()
			case x < 12:
				g.tplGCBroken()
			case x < 17:
				g.tplPrefixGC()
			case x < 20:
				g.tplGCNoSources()
			case x < 35:
				g.tplGC()
			case x < 40:
				// a real temporary left by a record save that was interrupted during the load (the records themselves are
				// semantically untouched there, so the twin history without collections stays comparable)
				op := g.build(g.p.topRoot())
				op.CrashAt, op.CrashPhase = 1+r.below(3*len(g.p.live())), "load"
				g.add(op)
			case x < 45:
				g.tplPartial()
			case x < 72:
				g.uniformEdit()
			default:
				g.uniformBuild()
			}
		}
	}
	return g.h
}

// ---------------------------------------------------------------- systematic crash points (C03)

// enumCrashHistories: every named hook point × target (function targets, their default label, their sources) ×
// {the record does not exist yet, the record is being replaced} × {load phase, run phase}, each as its own short history
// ending with the recovery build; plus the load of a freshly added target and of a fresh project.
func enumCrashHistories(r *rng, nproj int, maxLabels int) []*History {
	var out []*History
	for pi := 0; pi < nproj; pi++ {
		p := genProj(r, 1)
		root := p.topRoot()
		cl := p.closure(root)
		var fns, srcs []string
		for _, t := range p.live() {
			if !cl[t.Label()] || t.Always {
				continue
			}
			fns = append(fns, t.Label())
			for _, s := range p.srcsOf(t) {
				if l := sourceLabelOf(s); !contains(srcs, l) {
					srcs = append(srcs, l)
				}
			}
		}
		sort.Strings(fns)
		sort.Strings(srcs)
		pick := func(xs []string, n int) []string {
			for len(xs) > n {
				i := r.below(len(xs))
				xs = append(xs[:i:i], xs[i+1:]...)
			}
			return xs
		}
		fns, srcs = pick(fns, maxLabels), pick(srcs, (maxLabels+1)/2)
		mk := func(note string, ops ...Op) {
			out = append(out, &History{Template: "C03-enum: " + note, Proj: p.clone(), Ops: ops})
		}
		crash := func(phase, hook, label string) Op {
			return Op{Kind: "build", Target: root, CrashPhase: phase, CrashHook: hook, CrashLabel: label,
				Note: fmt.Sprintf("crash at %s of %s (%s phase)", hook, label, phase)}
		}
		rebuild := Op{Kind: "build", Target: root}
		// an edit that makes the build re-execute (and re-save) `label`
		force := func(label string) *Op {
			if t := p.tgt(label); t != nil {
				return &Op{Kind: "edit", Edit: &Edit{Kind: "code", Target: label}}
			}
			for _, t := range p.live() {
				for _, s := range p.srcsOf(t) {
					if sourceLabelOf(s) != label {
						continue
					}
					switch {
					case p.isGenerated(s):
						for _, g := range p.live() {
							if contains(g.Gens, s) {
								return &Op{Kind: "edit", Edit: &Edit{Kind: "code", Target: g.Label()}}
							}
						}
					case p.isDir(s):
						return &Op{Kind: "edit", Edit: &Edit{Kind: "create", Path: s + "/z.txt", Text: "forced\n"}}
					default:
						return &Op{Kind: "edit", Edit: &Edit{Kind: "content", Path: s, Text: "forced\n"}}
					}
				}
			}
			return nil
		}
		fnHooks := []string{"sc", "sw", "sr", "bb", "bw", "ba", "rs", "sc-after-rs", "sw-after-rs", "sr-after-rs"}
		srcHooks := []string{"bb", "ba", "rs", "sc", "sw", "sr"}
		loadHooks := []string{"sc", "sw", "sr"}
		for _, l := range fns {
			for _, h := range loadHooks {
				mk("first load, "+h, crash("load", h, l), rebuild)
				mk("load over an existing record, "+h, rebuild, crash("load", h, l), rebuild)
			}
			for _, h := range fnHooks {
				mk("first execution, "+h, crash("run", h, l), rebuild)
				if f := force(l); f != nil {
					mk("re-execution, "+h, rebuild, *f, crash("run", h, l), rebuild)
				}
				// re-execution that no changed input of `l` explains (a forced build, `-B`): the old record still
				// matches every input afterwards, so only what the interrupted build left on disk can tell the next
				// build that the outputs of `l` are not the ones that record describes (seeded change C01-r1)
				ca := crash("run", h, l)
				ca.Always = true
				ca.Note += ", forced build"
				mk("forced re-execution, "+h, rebuild, ca, rebuild)
			}
		}
		for _, l := range srcs {
			for _, h := range srcHooks {
				mk("first evaluation of a source, "+h, crash("run", h, l), rebuild)
				if f := force(l); f != nil {
					mk("re-evaluation of a source, "+h, rebuild, *f, crash("run", h, l), rebuild)
				}
			}
		}
		// index.json is rewritten in place by every full load: cut between its creation and its encoding
		for _, h := range []string{"ic", "ie"} {
			mk("first load, saveIndex "+h, crash("load", h, ""), rebuild)
			mk("load over an existing index, saveIndex "+h, rebuild, crash("load", h, ""), rebuild)
		}
		// a target added to an existing project: its record is saved for the first time by the load
		for _, t := range p.Tgts {
			if !t.Removed {
				continue
			}
			ok := true
			for _, d := range t.Deps {
				if dt := p.tgt(d); dt == nil || dt.Removed {
					ok = false
				}
			}
			if !ok {
				continue
			}
			add := Op{Kind: "edit", Edit: &Edit{Kind: "addtarget", Target: t.Label()}}
			for _, h := range loadHooks {
				c := crash("load", h, t.Label())
				c.Target = t.Label()
				mk("load of a freshly added target, "+h, rebuild, add, c, Op{Kind: "build", Target: t.Label()})
			}
			for _, h := range fnHooks {
				c := crash("run", h, t.Label())
				c.Target = t.Label()
				mk("first execution of a freshly added target, "+h, rebuild, add, c, Op{Kind: "build", Target: t.Label()})
			}
		}
	}
	return out
}

// ---------------------------------------------------------------- integer boundaries (C01)

// boundaryHistories: one history per value position (a global, a constant) that walks an Euler circuit of the complete
// graph on `boundaryReps`: every unordered pair {a, b} — (0,256) and (0,65536) included — occurs as consecutive values
// "build with a; edit a → b; build", each build compared with a from-scratch build.
func boundaryHistories() []*History {
	// an Euler circuit of the complete graph on `reps` (odd number of vertices): Hierholzer
	euler := func(reps []int) []int {
		n := len(reps)
		used := map[[2]int]bool{}
		next := make([]int, n)
		var circuit, stack []int
		stack = append(stack, 0)
		for len(stack) > 0 {
			v := stack[len(stack)-1]
			for next[v] < n && (next[v] == v || used[[2]int{min(v, next[v]), max(v, next[v])}]) {
				next[v]++
			}
			if next[v] == n {
				circuit = append(circuit, reps[v])
				stack = stack[:len(stack)-1]
				continue
			}
			u := next[v]
			used[[2]int{min(v, u), max(v, u)}] = true
			stack = append(stack, u)
		}
		return circuit
	}
	var nonneg []int
	for _, v := range boundaryReps {
		if v >= 0 {
			nonneg = append(nonneg, v)
		}
	}
	var out []*History
	// the positions differ in what else an edit perturbs: a literal at the top of the build file (global) or inside the
	// function (constant) also shifts constant-pool indices in the function's bytecode; the helper module's constant and
	// the argument of a closure factory (written after the function) change the referenced VALUE only
	for _, pos := range []string{"helperk", "free", "global", "const"} {
		walk := euler(boundaryReps)
		t := &Tgt{Name: "t", Gens: []string{"t.out"}, Dflt: -1, Free: -1, Const: 3}
		switch pos {
		case "global":
			t.Global = "G0"
		case "helperk":
			t.Helper = true
		case "free":
			walk = euler(nonneg)
			t.Free = walk[0]
		}
		p := &Proj{Pkgs: []string{""}, Globals: map[string]map[string]int{"": {"G0": 7, "G1": 2, "UNUSED": 3, "LA": 4}},
			Noise: map[string]int{}, Blank: map[string]int{}, Files: map[string]string{}, Tgts: []*Tgt{t}, HelperK: 7, HelperV: 77}
		h := &History{Template: "C01 integer boundaries, position " + pos, Proj: p}
		for _, v := range walk {
			var e *Edit
			switch pos {
			case "global":
				e = &Edit{Kind: "global", Pkg: "", Name: "G0", Val: v}
			case "const":
				e = &Edit{Kind: "const", Target: "//:t", Val: v}
			case "helperk":
				e = &Edit{Kind: "helperk", Val: v}
			case "free":
				e = &Edit{Kind: "free", Target: "//:t", Val: v}
			}
			h.Ops = append(h.Ops, Op{Kind: "edit", Edit: e}, Op{Kind: "build", Target: "//:t"})
		}
		out = append(out, h)
	}
	return out
}

// ---------------------------------------------------------------- index.json cut at every length (C03)

// truncIndexHistories: build, cut index.json after L bytes, then a process that loads preferring the index (judge-only)
func truncIndexHistories(r *rng, lengths []int) []*History {
	p := genProj(r, 0)
	root := p.topRoot()
	var out []*History
	for _, l := range lengths {
		out = append(out, &History{Template: fmt.Sprintf("C03 index.json cut after %d bytes", l), Proj: p.clone(), JudgeOnly: true, Ops: []Op{
			{Kind: "build", Target: root},
			{Kind: "edit", Edit: &Edit{Kind: "truncindex", Val: l}},
			{Kind: "load", PreferIndex: true},
			{Kind: "build", Target: root, ExpectNoExec: true},
		}})
	}
	return out
}

// ---------------------------------------------------------------- faults during the up-to-date check (C13)

// dryFaultHistory: the directory above a target's generated files is replaced by a regular file (Stat fails with
// ENOTDIR, upToDate() returns an error), a dry run (which fails), the directory is restored, a real build: the dry run
// must not have touched the build state, so nothing executes (judge-only: the model has no notion of the fault)
func dryFaultHistory(r *rng) *History {
	for try := 0; try < 20; try++ {
		p := genProj(r, 0)
		var cands []*Tgt
		for _, t := range p.live() {
			if len(t.Gens) > 0 && strings.Contains(t.Gens[0], "gen."+t.Name+"/") && !t.Always {
				cands = append(cands, t)
			}
		}
		if len(cands) == 0 {
			continue
		}
		g := &gen{r: r, p: p.clone(), h: &History{Proj: p, Template: "C13 fault during the up-to-date check", JudgeOnly: true}, collected: map[string]bool{}}
		for round := 0; round < 3; round++ {
			t := cands[r.below(len(cands))]
			root := g.rootOver(g.p.tgt(t.Label()))
			if len(alwaysDownstream(g.p, root)) > 0 {
				root = t.Label()
				if len(alwaysDownstream(g.p, root)) > 0 {
					continue
				}
			}
			dir := pkgPath(t.Pkg, "gen."+t.Name)
			g.add(g.build(root))
			g.edit(Edit{Kind: "blockdir", Path: dir})
			dry := g.build(root)
			dry.Dry = true
			if r.chance(30) {
				dry.Always = true
			}
			g.add(dry)
			g.edit(Edit{Kind: "unblockdir", Path: dir})
			real := g.build(root)
			real.ExpectNoExec = true
			g.add(real)
			if r.chance(50) {
				g.uniformEdit()
			}
		}
		if len(g.h.Ops) > 0 {
			return g.h
		}
	}
	return nil
}

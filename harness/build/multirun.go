// Same-process sequences (C13): Load once, then several Runs on ONE *Project with options in
// {nil, {}, {DryRun}, {Always}, {Always, DryRun}}. DESIGN §4 fixes "every build follows a fresh load" for the
// history-level theorems; library, REPL and watch users call Run repeatedly on one Project, and RunOptions.apply has an
// explicit reset path for nil options. Judged on the implementation: a run whose options are not dry executes exactly
// the bodies its own Evaluating events announce and persists their records; a dry run executes none; a run whose
// options do not say Always never gives "always" as the reason for evaluating.
package main

import (
	"fmt"
	"os"
	"reflect"
	"strings"

	"github.com/pgavlin/dawn"
)

var runOptChoices = []RunOpt{{Nil: true}, {}, {Dry: true}, {Always: true}, {Always: true, Dry: true}}

func (o RunOpt) String() string {
	switch {
	case o.Nil:
		return "nil"
	case o.Always && o.Dry:
		return "{Always,DryRun}"
	case o.Always:
		return "{Always}"
	case o.Dry:
		return "{DryRun}"
	}
	return "{}"
}

// multiRunHistories: all sequences of length 2, and `n3` (all if n3 < 0) of length 3, each on a fresh project
func multiRunHistories(r *rng, nproj, n3 int) []*History {
	var out []*History
	for pi := 0; pi < nproj; pi++ {
		p := genProj(r, 0)
		root := p.topRoot()
		add := func(seq []RunOpt) {
			var names []string
			for _, o := range seq {
				names = append(names, o.String())
			}
			out = append(out, &History{Template: "C13 same process: " + strings.Join(names, " then "), Proj: p.clone(), Runs: seq, RunTarget: root})
		}
		for _, a := range runOptChoices {
			for _, b := range runOptChoices {
				add([]RunOpt{a, b})
			}
		}
		var threes [][]RunOpt
		for _, a := range runOptChoices {
			for _, b := range runOptChoices {
				for _, c := range runOptChoices {
					threes = append(threes, []RunOpt{a, b, c})
				}
			}
		}
		if n3 >= 0 {
			for len(threes) > n3 {
				i := r.below(len(threes))
				threes = append(threes[:i:i], threes[i+1:]...)
			}
		}
		for _, s := range threes {
			add(s)
		}
	}
	return out
}

type runSeg struct {
	V, VReason, S, Exec []string
	Rec                 map[string]string
	Err                 string
}

func splitRuns(o *Obs, n int) []runSeg {
	segs := make([]runSeg, n)
	for i := range segs {
		segs[i].Rec = map[string]string{}
	}
	cur := -1
	for _, line := range o.EventsRaw {
		f := strings.Split(line, "\t")
		if f[0] == "RUN" {
			cur++
			continue
		}
		if cur < 0 || cur >= n || len(f) < 2 {
			continue
		}
		switch f[0] {
		case "V":
			segs[cur].V = append(segs[cur].V, f[1])
			reason := ""
			if len(f) > 2 {
				reason = f[2]
			}
			segs[cur].VReason = append(segs[cur].VReason, reason)
		case "S":
			segs[cur].S = append(segs[cur].S, f[1])
		case "REC":
			if len(f) > 2 {
				segs[cur].Rec[f[1]] = f[2]
			}
		case "RR":
			segs[cur].Err = f[1]
		}
	}
	cur = -1
	for _, line := range o.ExecRaw {
		f := strings.Split(line, "\t")
		if f[0] == "RUN" {
			cur++
			continue
		}
		if cur >= 0 && cur < n && f[0] == "B" && len(f) >= 2 {
			segs[cur].Exec = append(segs[cur].Exec, f[1])
		}
	}
	return segs
}

// runMulti plays one same-process sequence and judges it
func runMulti(r *runner, h *History) ([]violation, *stats) {
	st := newStats()
	st.Histories++
	st.MultiRuns++
	var viols []violation
	viol := func(kind string, op int, format string, a ...any) {
		if len(viols) < 3 {
			viols = append(viols, violation{Kind: kind, Detail: fmt.Sprintf(format, a...), Op: op, Input: h})
		}
	}
	root := r.tmp("proj")
	defer os.RemoveAll(root)
	p := h.Proj.clone()
	if err := p.writeAll(root); err != nil {
		viol("harness", 0, "%v", err)
		return viols, st
	}
	o, err := r.runChild(childSpec{Root: root, Op: "multirun", Target: h.RunTarget, Runs: h.Runs}, false)
	if err != nil {
		kind := "harness"
		if strings.Contains(err.Error(), "(hang)") {
			kind = "hang"
		}
		viol(kind, 0, "%v", err)
		return viols, st
	}
	if o.Exit != exitOK {
		viol("process", 0, "child exited %d: %s", o.Exit, o.Stderr)
		return viols, st
	}
	bodies := map[string]bool{}
	for _, t := range p.live() {
		bodies[t.Label()] = true
	}
	for i, seg := range splitRuns(o, len(h.Runs)) {
		ro := h.Runs[i]
		st.Builds++
		st.Executed += len(seg.Exec)
		var announced []string
		for _, l := range seg.V {
			if bodies[l] {
				announced = append(announced, l)
			}
		}
		if seg.Err != "ok" {
			viol("same-process-run-fails", i, "run %d (%v) of the sequence failed", i, ro)
		}
		if ro.Dry {
			st.DryRuns++
			if len(seg.Exec) > 0 {
				viol("dry-executes", i, "run %d has options %v and executed bodies: %v", i, ro, seg.Exec)
			}
			continue
		}
		if !reflect.DeepEqual(sortedCopy(seg.Exec), sortedCopy(announced)) {
			viol("run-ignores-its-options", i, "run %d has options %v (not a dry run) on the same loaded project after %v: it announced %v as evaluating and executed the bodies %v",
				i, ro, h.Runs[:i], sortedCopy(announced), sortedCopy(seg.Exec))
		}
		for _, l := range seg.S {
			if seg.Rec[l] != "good" {
				viol("record-not-persisted", i, "run %d (%v) reported %s as succeeded but its record is not a success record afterwards", i, ro, l)
			}
		}
		if !ro.Always {
			for k, reason := range seg.VReason {
				if reason == "always" {
					viol("always-not-reset", i, "run %d has options %v, yet %s was evaluated for the reason \"always\"", i, ro, seg.V[k])
				}
			}
		}
	}
	return viols, st
}

// optionsStream: RunOptions.apply value by value — previous flags × options
func optionsStream() []pair {
	var out []pair
	for _, pa := range []bool{false, true} {
		for _, pd := range []bool{false, true} {
			for _, ro := range runOptChoices {
				var opts *dawn.RunOptions
				in := fmt.Sprintf("opts %d %d nil", b2i(pa), b2i(pd))
				if !ro.Nil {
					opts = &dawn.RunOptions{Always: ro.Always, DryRun: ro.Dry}
					in = fmt.Sprintf("opts %d %d %d %d", b2i(pa), b2i(pd), b2i(ro.Always), b2i(ro.Dry))
				}
				a, d := dawn.VerifApplyOptions(pa, pd, opts)
				out = append(out, pair{in, fmt.Sprintf("%d %d", b2i(a), b2i(d))})
			}
		}
	}
	return out
}

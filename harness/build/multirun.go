// Same-process sequences (C13): Load once, then several Runs on ONE *Project with options in
// {nil, {}, {DryRun}, {Always}, {Always, DryRun}}. DESIGN §4 fixes "every build follows a fresh load" for the
// history-level theorems; library, REPL and watch users call Run repeatedly on one Project, and RunOptions.apply has an
// explicit reset path for nil options. Judged on the implementation: a run whose options are not dry executes exactly
// the bodies its own Evaluating events announce and persists their records; a dry run executes none; a run whose
// options do not say Always never gives "always" as the reason for evaluating.
package main

import (
	"fmt"
	"os"
	"reflect"
	"strings"

	"github.com/pgavlin/dawn"
)

var runOptChoices = []RunOpt{{Nil: true}, {}, {Dry: true}, {Always: true}, {Always: true, Dry: true}}

func (o RunOpt) String() string {
	if o.GC {
		return "GC()"
	}
	if o.Reload {
		return "Reload()"
	}
	if o.Write != "" {
		return "edit " + o.Write
	}
	if len(o.Fail) > 0 {
		b := o
		b.Fail = nil
		return b.String() + fmt.Sprintf(" with failing %v", o.Fail)
	}
	if o.Repl {
		kw := ""
		if o.AlwaysSet {
			kw += fmt.Sprintf(", always=%v", o.Always)
		}
		if o.DrySet {
			kw += fmt.Sprintf(", dry_run=%v", o.Dry)
		}
		return "run(" + o.Target + kw + ")"
	}
	if o.Target != "" {
		b := o
		b.Target = ""
		return "Run(" + o.Target + ", " + b.String() + ")"
	}
	switch {
	case o.Nil:
		return "nil"
	case o.Always && o.Dry:
		return "{Always,DryRun}"
	case o.Always:
		return "{Always}"
	case o.Dry:
		return "{DryRun}"
	}
	return "{}"
}

// multiRunHistories: all sequences of length 2, and `n3` (all if n3 < 0) of length 3, each on a fresh project
func multiRunHistories(r *rng, nproj, n3 int) []*History {
	var out []*History
	for pi := 0; pi < nproj; pi++ {
		p := genProj(r, 0)
		root := p.topRoot()
		add := func(seq []RunOpt) {
			var names []string
			for _, o := range seq {
				names = append(names, o.String())
			}
			out = append(out, &History{Template: "C13 same process: " + strings.Join(names, " then "), Proj: p.clone(), Runs: seq, RunTarget: root})
		}
		for _, a := range runOptChoices {
			for _, b := range runOptChoices {
				add([]RunOpt{a, b})
			}
		}
		var threes [][]RunOpt
		for _, a := range runOptChoices {
			for _, b := range runOptChoices {
				for _, c := range runOptChoices {
					threes = append(threes, []RunOpt{a, b, c})
				}
			}
		}
		if n3 >= 0 {
			for len(threes) > n3 {
				i := r.below(len(threes))
				threes = append(threes[:i:i], threes[i+1:]...)
			}
		}
		for _, s := range threes {
			add(s)
		}
	}
	return out
}

type runSeg struct {
	V, VReason, S, U, Exec []string
	Rec, Rec2              map[string]string
	Err                    string
}

func splitRuns(o *Obs, n int) []runSeg {
	segs := make([]runSeg, n)
	for i := range segs {
		segs[i].Rec, segs[i].Rec2 = map[string]string{}, map[string]string{}
	}
	cur := -1
	for _, line := range o.EventsRaw {
		f := strings.Split(line, "\t")
		if f[0] == "RUN" {
			cur++
			continue
		}
		if cur < 0 || cur >= n || len(f) < 2 {
			continue
		}
		switch f[0] {
		case "V":
			segs[cur].V = append(segs[cur].V, f[1])
			reason := ""
			if len(f) > 2 {
				reason = f[2]
			}
			segs[cur].VReason = append(segs[cur].VReason, reason)
		case "S":
			segs[cur].S = append(segs[cur].S, f[1])
		case "U":
			segs[cur].U = append(segs[cur].U, f[1])
		case "REC2":
			if len(f) > 2 {
				segs[cur].Rec2[f[1]] = f[2]
			}
		case "REC":
			if len(f) > 2 {
				segs[cur].Rec[f[1]] = f[2]
			}
		case "RR":
			segs[cur].Err = f[1]
		}
	}
	cur = -1
	for _, line := range o.ExecRaw {
		f := strings.Split(line, "\t")
		if f[0] == "RUN" {
			cur++
			continue
		}
		if cur >= 0 && cur < n && f[0] == "B" && len(f) >= 2 {
			segs[cur].Exec = append(segs[cur].Exec, f[1])
		}
	}
	return segs
}

// runMulti plays the history's operations (fresh process each), then ONE process that loads the project once and
// performs the sequence h.Runs on it, and judges that process
func runMulti(r *runner, prop string, h *History) ([]violation, *stats) {
	st := newStats()
	st.Histories++
	st.MultiRuns++
	var viols []violation
	viol := func(kind string, op int, format string, a ...any) {
		if len(viols) < 3 {
			viols = append(viols, violation{Kind: kind, Detail: fmt.Sprintf(format, a...), Op: len(h.Ops) + op, Input: h})
		}
	}
	root := r.tmp("proj")
	defer os.RemoveAll(root)
	p := h.Proj.clone()
	r.args = p.flagArgs()
	if len(h.Ops) > 0 {
		pre := *h
		pre.Runs = nil
		main := r.playIn(&pre, playOpts{}, root)
		if main.err != nil {
			viol("harness", 0, "%v", main.err)
			return viols, st
		}
		p = main.proj
	} else if err := p.writeAll(root); err != nil {
		viol("harness", 0, "%v", err)
		return viols, st
	}
	o, err := r.runChild(childSpec{Root: root, Op: "multirun", Target: h.RunTarget, Runs: h.Runs}, false)
	if err != nil {
		kind := "harness"
		if strings.Contains(err.Error(), "(hang)") {
			kind = "hang"
		}
		viol(kind, 0, "%v", err)
		return viols, st
	}
	if o.Exit != exitOK {
		viol("process", 0, "child exited %d: %s", o.Exit, o.Stderr)
		return viols, st
	}
	bodies := map[string]bool{}
	for _, t := range p.live() {
		bodies[t.Label()] = true
	}
	executedBefore := map[string]bool{} // bodies executed by earlier runs of this process
	hadGC := false
	var failedBefore []string // bodies that failed in the previous real run (for a reason that is no tracked input)
	settled := false          // the previous real run succeeded and the project was reloaded since: nothing is out of date
	lastRealOK := false
	var dryV []string // what the previous run announced, if it was a dry run without Always of the same target
	haveDry := false
	for i, seg := range splitRuns(o, len(h.Runs)) {
		ro := h.Runs[i]
		if ro.Write != "" {
			if seg.Err != "ok" {
				viol("harness", i, "edit of %s: %s", ro.Write, seg.Err)
			}
			p.Files[ro.Write] = ro.Text
			settled, lastRealOK, haveDry = false, false, false
			continue
		}
		if ro.Reload {
			if seg.Err != "ok" {
				viol("reload-fails", i, "Reload() on the loaded project failed: %s", seg.Err)
			}
			settled = lastRealOK
			executedBefore = map[string]bool{}
			continue
		}
		if ro.GC {
			hadGC = true
			st.GCs++
			if seg.Err != "ok" {
				viol("gc-fails", i, "GC() on the loaded project failed")
			}
			for l, good := range seg.Rec2 {
				if good != "good" {
					viol("gc-loses-live-record", i, "GC() on the same loaded project after %v removed or damaged the record of %s, which an earlier Run of this process had just written", h.Runs[:i], l)
				}
			}
			continue
		}
		st.Builds++
		st.Executed += len(seg.Exec)
		always, dry := ro.effective()
		var announced []string
		for _, l := range seg.V {
			if bodies[l] {
				announced = append(announced, l)
			}
		}
		if seg.Err != "ok" && len(ro.Fail) == 0 {
			viol("same-process-run-fails", i, "run %d (%v) of the sequence failed", i, ro)
		}
		if !dry {
			// C03: what failed in the previous run of this process is executed again once the cause is gone
			if len(ro.Fail) == 0 && seg.Err == "ok" {
				ex := setOf(seg.Exec)
				for _, l := range failedBefore {
					if !ex[l] {
						viol("unfinished-not-rerun", i, "the body of %s failed in the previous run of this process (a cause that is no tracked input, repaired since); run %d (%v) on the same loaded project succeeded without executing it", l, i, ro)
					}
				}
			}
			failedBefore = nil
			for _, l := range ro.Fail {
				if setOf(seg.Exec)[l] {
					failedBefore = append(failedBefore, l)
				}
			}
			// C02: after a successful run and a Reload nothing is out of date
			if settled && !always {
				allowed := alwaysDownstream(p, h.RunTarget)
				for _, l := range seg.Exec {
					if !allowed[l] {
						viol("spurious-rebuild", i, "run %d (%v) follows a successful run and a Reload() of the unchanged project, yet the body of %s executed", i, ro, l)
					}
				}
			}
			settled = false
			lastRealOK = seg.Err == "ok"
		}
		if dry {
			st.DryRuns++
			if len(seg.Exec) > 0 {
				viol("dry-executes", i, "run %d is %v (a dry run) and executed bodies: %v", i, ro, seg.Exec)
			}
			dryV, haveDry = sortedCopy(seg.V), !always && ro.Target == "" && seg.Err == "ok"
			continue
		}
		// C13: the real run right after a dry run, on the same loaded project, attempts what the dry run announced
		if prop == "C13" && haveDry && !always && ro.Target == "" && len(ro.Fail) == 0 && seg.Err == "ok" {
			st.DryPredicted++
			if rv := sortedCopy(seg.V); !reflect.DeepEqual(dryV, rv) {
				viol("dry-mispredicts", i, "run %d (a dry run) announced %v as evaluating; run %d (%v), the real run that follows it on the same loaded project, evaluated %v", i-1, dryV, i, ro, rv)
			}
		}
		haveDry = false
		if !reflect.DeepEqual(sortedCopy(seg.Exec), sortedCopy(announced)) {
			viol("run-ignores-its-options", i, "run %d is %v (not a dry run) on the same loaded project after %v: it announced %v as evaluating and executed the bodies %v",
				i, ro, h.Runs[:i], sortedCopy(announced), sortedCopy(seg.Exec))
		}
		for _, l := range seg.S {
			if seg.Rec[l] != "good" {
				viol("record-not-persisted", i, "run %d (%v) reported %s as succeeded but its record is not a success record afterwards", i, ro, l)
			}
		}
		if !always {
			for k, reason := range seg.VReason {
				if reason == "always" {
					viol("always-not-reset", i, "run %d is %v, yet %s was evaluated for the reason \"always\"", i, ro, seg.V[k])
				}
			}
		} else {
			tl := h.RunTarget
			if ro.Target != "" {
				tl = ro.Target
			}
			ev := setOf(seg.V)
			for l := range p.closure(tl) {
				if !ev[l] {
					viol("always-ignored", i, "run %d is %v, yet %s of its closure was not evaluated", i, ro, l)
				}
			}
		}
		// a dependent of something executed earlier in this process is not skipped
		for _, l := range seg.U {
			t := p.tgt(l)
			if t == nil {
				continue
			}
			for _, d := range t.Deps {
				if executedBefore[d] {
					viol("stale-skip-same-process", i, "run %d (%v) reported %s up to date although its dependency %s executed earlier in this process", i, ro, l, d)
				}
			}
		}
		for _, l := range seg.Exec {
			executedBefore[l] = true
		}
	}
	// C01: at the end of the process the generated files are those of a from-scratch build
	if (prop == "C01" || prop == "C03" || (prop == "C13" && len(h.Ops) > 0)) && len(viols) == 0 && lastRealOK {
		targets := map[string]bool{}
		for _, ro := range h.Runs {
			if _, dry := ro.effective(); dry || ro.GC {
				continue
			}
			if ro.Target != "" {
				targets[ro.Target] = true
			} else {
				targets[h.RunTarget] = true
			}
		}
		now := &Obs{}
		scan(root, allGens(p), now)
		for tl := range targets {
			clean, err := r.cleanBuild(root, p, tl)
			if err != nil || clean.Exit != exitOK {
				viol("harness", len(h.Runs), "clean build of %s: %v", tl, err)
				continue
			}
			st.CleanCompares++
			for l := range p.closure(tl) {
				for _, g := range p.tgt(l).Gens {
					st.FilesCompared++
					if now.Gens[g] != clean.Gens[g] {
						viol("stale", len(h.Runs)-1, "after the sequence %v on one loaded project the generated file %s of %s differs from a from-scratch build of the same tree",
							h.Runs, g, l)
					}
				}
			}
		}
	}
	// C14: a fresh process afterwards finds everything up to date (the collection kept what the runs had written)
	if prop == "C14" && hadGC && len(viols) == 0 {
		// (only after exactly ONE real run: a second real Run on the same Project works from load-time records and is
		// outside what DESIGN §4 fixes for the history-level claims — see the observation in the report)
		realRuns := 0
		for _, ro := range h.Runs {
			if _, dry := ro.effective(); !ro.GC && !dry {
				realRuns++
			}
		}
		if realRuns == 1 {
			o2, err := r.runChild(childSpec{Root: root, Op: "build", Target: h.RunTarget}, false)
			if err != nil {
				viol("harness", len(h.Runs), "%v", err)
			} else {
				st.TwinBuilds++
				allowed := alwaysDownstream(p, h.RunTarget)
				for _, l := range o2.ExecStart {
					if !allowed[l] {
						viol("twin-differs", len(h.Runs), "after %v on one loaded project a fresh build of %s executed %s; without the collection nothing would execute", h.Runs, h.RunTarget, l)
					}
				}
			}
		}
	}
	return viols, st
}

// optionsStream: RunOptions.apply value by value — previous flags × options
func optionsStream() []pair {
	var out []pair
	for _, pa := range []bool{false, true} {
		for _, pd := range []bool{false, true} {
			for _, ro := range runOptChoices {
				var opts *dawn.RunOptions
				in := fmt.Sprintf("opts %d %d nil", b2i(pa), b2i(pd))
				if !ro.Nil {
					opts = &dawn.RunOptions{Always: ro.Always, DryRun: ro.Dry}
					in = fmt.Sprintf("opts %d %d %d %d", b2i(pa), b2i(pd), b2i(ro.Always), b2i(ro.Dry))
				}
				a, d := dawn.VerifApplyOptions(pa, pd, opts)
				out = append(out, pair{in, fmt.Sprintf("%d %d", b2i(a), b2i(d))})
			}
		}
	}
	return out
}

// replHistories (C13): the REPL builtin run(label, always=…, dry_run=…) with every keyword combination, alone and
// followed by a Run with nil options
func replHistories(r *rng) []*History {
	p := genProj(r, 0)
	root := p.topRoot()
	var out []*History
	tri := []struct{ set, val bool }{{false, false}, {true, false}, {true, true}}
	for _, a := range tri {
		for _, d := range tri {
			ro := RunOpt{Repl: true, Target: root, AlwaysSet: a.set, Always: a.val, DrySet: d.set, Dry: d.val}
			out = append(out, &History{Template: "C13 REPL: " + ro.String(), Proj: p.clone(), Runs: []RunOpt{ro}, RunTarget: root})
			out = append(out, &History{Template: "C13 REPL: " + ro.String() + " then Run(nil)", Proj: p.clone(), Runs: []RunOpt{ro, {Nil: true}}, RunTarget: root})
		}
	}
	return out
}

// dryThenRealHistories (C01): one loaded project, a dry run (or a forced one) and then a run with nil / empty options,
// on a fresh project and after an edit that leaves targets out of date: the last real run must leave the generated files
// a from-scratch build leaves (a Run that silently inherits the previous Run's options does not)
func dryThenRealHistories(r *rng, nproj int) []*History {
	var out []*History
	seqs := [][]RunOpt{
		{{Dry: true}, {Nil: true}},
		{{Always: true, Dry: true}, {Nil: true}},
		{{Dry: true}, {}},
		{{Repl: true, DrySet: true, Dry: true}, {Nil: true}},
	}
	for pi := 0; pi < nproj; pi++ {
		p := genProj(r, 0)
		root := p.topRoot()
		for _, s := range seqs {
			seq := append([]RunOpt{}, s...)
			if seq[0].Repl {
				seq[0].Target = root
			}
			out = append(out, &History{Template: "C01 same process (fresh project): " + fmt.Sprint(seq), Proj: p.clone(), Runs: seq, RunTarget: root})
		}
		// after an earlier build and an edit
		g := &gen{r: r, p: p.clone(), h: &History{Proj: p.clone(), Template: "C01 same process (after a build and an edit): [{DryRun} nil]"}, collected: map[string]bool{}}
		g.add(g.build(root))
		if t := g.p.tgt(root); t != nil {
			g.semanticEdit(t)
		}
		g.h.Runs, g.h.RunTarget = []RunOpt{{Dry: true}, {Nil: true}}, root
		out = append(out, g.h)
	}
	return out
}

// editThenDryHistories (C13): earlier processes build the root; an input changes; then ONE process makes a dry run and a
// real run: the real run attempts what the dry run announced and leaves the from-scratch outputs (a dry run that marks
// what it looked at as seen makes the real run skip it)
func editThenDryHistories(r *rng, n int) []*History {
	var out []*History
	for tries := 0; len(out) < n && tries < 10*n; tries++ {
		p := genProj(r, 0)
		g := &gen{r: r, p: p.clone(), h: &History{Proj: p, Template: "C13 same process after an edit: dry run, then the real run"}, collected: map[string]bool{}}
		t, d := g.chainPick()
		if t == nil || t.Always {
			continue
		}
		root := g.rootOver(d)
		g.add(g.build(root))
		fs := g.p.sourceFilesOf(t)
		if len(fs) > 0 && len(out)%3 != 2 {
			f := fs[r.below(len(fs))]
			g.edit(Edit{Kind: "content", Path: f, Text: g.p.Files[f] + "edited before the dry run\n"})
		} else {
			g.semanticEdit(t)
		}
		second := RunOpt{Nil: true}
		if len(out)%2 == 1 {
			second = RunOpt{}
		}
		g.h.Runs, g.h.RunTarget = []RunOpt{{Dry: true}, second}, root
		out = append(out, g.h)
	}
	return out
}

// editReloadHistories (C01): watch mode with an edit: Load, Run, the user edits a source, Reload(), Run(nil), all in one
// process: the last run leaves the from-scratch outputs (anything remembered across Reload about a file is stale)
func editReloadHistories(r *rng, n int) []*History {
	var out []*History
	for tries := 0; len(out) < n && tries < 10*n; tries++ {
		p := genProj(r, 0)
		g := &gen{r: r, p: p.clone(), collected: map[string]bool{}}
		t, d := g.chainPick()
		if t == nil || t.Always {
			continue
		}
		var plain []string
		for _, f := range p.sourceFilesOf(t) {
			if _, ok := p.Files[f]; ok && !p.isGenerated(f) {
				plain = append(plain, f)
			}
		}
		if len(plain) == 0 {
			continue
		}
		f := plain[r.below(len(plain))]
		root := g.rootOver(d)
		seq := []RunOpt{{Nil: true}, {Write: f, Text: p.Files[f] + "edited while the process lives\n"}, {Reload: true}, {Nil: true}}
		if len(out)%2 == 1 {
			seq = append(seq, RunOpt{Write: f, Text: p.Files[f]}, RunOpt{Reload: true}, RunOpt{})
		}
		out = append(out, &History{Template: "C01 same process (watch mode with an edit): " + fmt.Sprint(seq), Proj: p, Runs: seq, RunTarget: root})
	}
	return out
}

// reloadHistories (C02): the watch-mode sequence on one loaded project — a run, Reload(), a run with nil options — on an
// unchanged tree: the run after the reload executes nothing and is not a forced one
func reloadHistories(r *rng, nproj int) []*History {
	var out []*History
	for pi := 0; pi < nproj; pi++ {
		p := genProj(r, 0)
		root := p.topRoot()
		for _, s := range [][]RunOpt{
			{{Always: true}, {Reload: true}, {Nil: true}},
			{{Nil: true}, {Reload: true}, {Nil: true}, {Reload: true}, {}},
			{{Repl: true, Target: root, AlwaysSet: true, Always: true}, {Reload: true}, {Nil: true}},
		} {
			out = append(out, &History{Template: "C02 same process (watch mode): " + fmt.Sprint(s), Proj: p.clone(), Runs: s, RunTarget: root})
		}
	}
	return out
}

// failThenRepairHistories (C03): earlier processes build the root; an input of T changes; then ONE process runs the
// root while T's body fails for a reason that is no tracked input, and runs it again after the cause is gone
func failThenRepairHistories(r *rng, n int) []*History {
	var out []*History
	for tries := 0; len(out) < n && tries < 10*n; tries++ {
		p := genProj(r, 0)
		g := &gen{r: r, p: p.clone(), h: &History{Proj: p, Template: "C03 same process: a body fails, the cause is repaired, run again"}, collected: map[string]bool{}}
		t, d := g.chainPick()
		if t == nil || len(t.Gens) == 0 || t.Always {
			continue
		}
		root := g.rootOver(d)
		g.add(g.build(root))
		g.semanticEdit(t)
		g.h.Runs, g.h.RunTarget = []RunOpt{{Nil: true, Fail: []string{t.Label()}}, {Nil: true}}, root
		out = append(out, g.h)
	}
	return out
}

// multiTargetHistories (C01): earlier processes build the root; an input of a dependency changes; then ONE process
// runs the dependency alone and afterwards the dependent (or the root)
func multiTargetHistories(r *rng, n int) []*History {
	var out []*History
	for tries := 0; len(out) < n && tries < 10*n; tries++ {
		p := genProj(r, 0)
		g := &gen{r: r, p: p.clone(), h: &History{Proj: p, Template: "C01 same process: dependency then dependent"}, collected: map[string]bool{}}
		t, d := g.chainPick()
		if t == nil || len(t.Gens) == 0 || t.Always {
			continue
		}
		root := g.rootOver(d)
		g.add(g.build(root))
		g.semanticEdit(t)
		seq := []RunOpt{{Nil: true, Target: t.Label()}, {Nil: true, Target: d.Label()}}
		if root != d.Label() && r.chance(50) {
			seq = append(seq, RunOpt{Target: root})
		}
		g.h.Runs, g.h.RunTarget = seq, root
		out = append(out, g.h)
	}
	return out
}

// gcSameProcessHistories (C14): Load → Run… → GC (→ Run) on ONE project object, fresh and after an earlier build
func gcSameProcessHistories(r *rng, nproj int) []*History {
	var out []*History
	for pi := 0; pi < nproj; pi++ {
		p := genProj(r, 0)
		root := p.topRoot()
		seqs := [][]RunOpt{
			{{}, {GC: true}},
			{{Nil: true}, {GC: true}, {}},
			{{Always: true}, {GC: true}},
			{{Dry: true}, {GC: true}, {}},
			{{}, {}, {GC: true}, {GC: true}},
		}
		for _, s := range seqs {
			out = append(out, &History{Template: "C14 same process (fresh project)", Proj: p.clone(), Runs: s, RunTarget: root})
			out = append(out, &History{Template: "C14 same process (after an earlier build)", Proj: p.clone(), Ops: []Op{{Kind: "build", Target: root}},
				Runs: append([]RunOpt{{Always: true}}, s[1:]...), RunTarget: root})
		}
	}
	return out
}

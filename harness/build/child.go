// One operation against the real engine, in a process of its own (Load → GC | Run, as the CLI does).
// Everything observable is appended to files in the control directory as it happens, so that it survives
// the os.Exit with which a crash is simulated.
package main

import (
	"io"
	"crypto/sha256"
	"encoding/hex"
	"encoding/json"
	"fmt"
	"os"
	"os/signal"
	"path/filepath"
	"sort"
	"strings"
	"sync"
	"syscall"

	"github.com/pgavlin/dawn"
	"github.com/pgavlin/dawn/diff"
	"github.com/pgavlin/dawn/label"
	"go.starlark.net/starlark"
	"go.starlark.net/starlarkstruct"
)

// exit codes of a child
const (
	exitOK        = 0
	exitBuildFail = 1
	exitCrash     = 3
	exitLoadFail  = 4
	exitUsage     = 5
	exitGCFail    = 6
)

type childSpec struct {
	Root        string   `json:"root"`
	Ctl         string   `json:"ctl"`
	Op          string   `json:"op"` // build | gc | load
	Target      string   `json:"target"`
	Always      bool     `json:"always"`
	Dry         bool     `json:"dry"`
	Fail        []string `json:"fail"`
	CrashAt     int      `json:"crashAt"`    // k-th hook point (1-based); 0 = never
	CrashPhase  string   `json:"crashPhase"` // load | run
	CrashHook   string   `json:"crashHook"`  // alternatively: the first hit of this hook point for CrashLabel in CrashPhase
	CrashLabel  string   `json:"crashLabel"`
	PreferIndex bool     `json:"preferIndex"`
	Args        []string `json:"args"` // LoadOptions.Args: the project's flags, the same for every load of a history
	// WriteLimit: after the load, RLIMIT_FSIZE is lowered to this many bytes for the duration of the Run (0 = no fault):
	// every write beyond it fails with EFBIG (Go ignores SIGXFSZ) — a full disk / quota / file size limit
	WriteLimit int `json:"writeLimit,omitempty"`
	Runs        []RunOpt `json:"runs"` // op multirun: several Runs on ONE loaded project
}

// RunOpt: the options of one Run; Nil = a nil *RunOptions
type RunOpt struct {
	Nil    bool `json:"nil,omitempty"`
	Always bool `json:"always,omitempty"`
	Dry    bool `json:"dry,omitempty"`
	// Target: the label to run (default: the sequence's RunTarget)
	Target string `json:"target,omitempty"`
	// GC: not a Run but Project.GC() on the same loaded project
	GC bool `json:"gc,omitempty"`
	// Reload: not a Run but Project.Reload() (what watch mode does before it runs again with nil options)
	Reload bool `json:"reload,omitempty"`
	// Fail: the bodies that fail in this run for a reason that is no tracked input (a missing tool)
	Fail []string `json:"fail,omitempty"`
	// Write: not a Run: the user edits a source file (root-relative path, new contents) while the process lives
	Write string `json:"write,omitempty"`
	Text  string `json:"text,omitempty"`
	// Repl: go through the REPL builtin run(label, always=…, dry_run=…); a keyword is passed only when its *Set flag is on
	Repl      bool `json:"repl,omitempty"`
	AlwaysSet bool `json:"alwaysSet,omitempty"`
	DrySet    bool `json:"drySet,omitempty"`
}

// effective: the options the run is meant to execute with
func (o RunOpt) effective() (always, dry bool) {
	if o.Repl {
		return o.AlwaysSet && o.Always, o.DrySet && o.Dry
	}
	if o.Nil {
		return false, false
	}
	return o.Always, o.Dry
}

var (
	succM     sync.Mutex
	succeeded []string
)

type ctlFiles struct {
	m     sync.Mutex
	dir   string
	phase string
	spec  *childSpec
	hits  int
	// while the process's file size limit is lowered the log lines are kept in memory
	hm   sync.Mutex
	hold bool
	held [][2]string
}

// writeFault lowers RLIMIT_FSIZE to n bytes and returns the function that restores it and writes the held log lines
func (c *ctlFiles) writeFault(n int) func() {
	var old syscall.Rlimit
	if err := syscall.Getrlimit(syscall.RLIMIT_FSIZE, &old); err != nil {
		fmt.Fprintln(os.Stderr, "getrlimit:", err)
		os.Exit(exitUsage)
	}
	signal.Ignore(syscall.SIGXFSZ)
	c.hm.Lock()
	c.hold = true
	c.hm.Unlock()
	if err := syscall.Setrlimit(syscall.RLIMIT_FSIZE, &syscall.Rlimit{Cur: uint64(n), Max: old.Max}); err != nil {
		fmt.Fprintln(os.Stderr, "setrlimit:", err)
		os.Exit(exitUsage)
	}
	return func() {
		syscall.Setrlimit(syscall.RLIMIT_FSIZE, &old)
		c.hm.Lock()
		held := c.held
		c.hold, c.held = false, nil
		c.hm.Unlock()
		for _, fl := range held {
			c.appendLine(fl[0], fl[1])
		}
	}
}

var ctl *ctlFiles

func (c *ctlFiles) appendLine(file, line string) {
	c.hm.Lock()
	if c.hold {
		c.held = append(c.held, [2]string{file, line})
		c.hm.Unlock()
		return
	}
	c.hm.Unlock()
	f, err := os.OpenFile(filepath.Join(c.dir, file), os.O_APPEND|os.O_CREATE|os.O_WRONLY, 0o644)
	if err != nil {
		fmt.Fprintln(os.Stderr, "ctl:", err)
		os.Exit(exitUsage)
	}
	f.WriteString(line + "\n")
	f.Close()
}

var hookShort = map[string]string{
	"target.body.before":      "bb",
	"vb.body.wrote":           "bw",
	"target.body.after":       "ba",
	"target.record.failure":   "rf",
	"target.record.success":   "rs",
	"saveTargetInfo.created":  "sc",
	"saveTargetInfo.written":  "sw",
	"saveTargetInfo.renamed":  "sr",
	"saveIndex.created":       "ic",
	"saveIndex.encoded":       "ie",
	"target.progress.before":  "pb",
}

// hook is dawn.VerifHook: it logs the point and, at the k-th point of the chosen phase, kills the process.
func (c *ctlFiles) hook(name string, arg any) {
	c.m.Lock()
	defer c.m.Unlock()
	short, ok := hookShort[name]
	if !ok {
		return // a hook point of another area (loader, cache): not a persistent-effect boundary of the engine
	}
	l, _ := arg.(string)
	c.appendLine("trace.log", c.phase+"\t"+short+"\t"+l)
	if c.spec.CrashHook != "" && c.phase == c.spec.CrashPhase && short == c.spec.CrashHook && l == c.spec.CrashLabel {
		c.appendLine("trace.log", "CRASH")
		os.Exit(exitCrash)
	}
	if c.spec.CrashAt > 0 && c.phase == c.spec.CrashPhase {
		c.hits++
		if c.hits == c.spec.CrashAt {
			c.appendLine("trace.log", "CRASH")
			os.Exit(exitCrash)
		}
	}
}

// ---- events

type childEvents struct{}

func lbl(l *label.Label) string {
	if l == nil {
		return ""
	}
	return l.String()
}
func errStr(err error) string {
	if err == nil {
		return "ok"
	}
	return "err"
}

func (childEvents) Print(l *label.Label, line string)                           {}
func (childEvents) RequirementLoading(l *label.Label, version string)           {}
func (childEvents) RequirementLoaded(l *label.Label, version string)            {}
func (childEvents) RequirementLoadFailed(l *label.Label, v string, err error)   {}
func (childEvents) ModuleLoading(l *label.Label)                                {}
func (childEvents) ModuleLoaded(l *label.Label)                                 {}
func (childEvents) ModuleLoadFailed(l *label.Label, err error)                  { ctl.appendLine("events.log", "M\t"+lbl(l)+"\t"+strings.ReplaceAll(err.Error(), "\n", " ")) }
func (childEvents) LoadDone(err error)                                          { ctl.appendLine("events.log", "L\t"+errStr(err)) }
func (childEvents) TargetUpToDate(l *label.Label)                               { ctl.appendLine("events.log", "U\t"+lbl(l)) }
func (childEvents) TargetEvaluating(l *label.Label, reason string, d diff.ValueDiff) {
	ctl.appendLine("events.log", "V\t"+lbl(l)+"\t"+strings.ReplaceAll(reason, "\n", " "))
}
func (childEvents) TargetFailed(l *label.Label, err error) {
	ctl.appendLine("events.log", "F\t"+lbl(l)+"\t"+strings.ReplaceAll(err.Error(), "\n", " "))
}
func (childEvents) TargetSucceeded(l *label.Label, changed bool) {
	succM.Lock()
	succeeded = append(succeeded, lbl(l))
	succM.Unlock()
	ctl.appendLine("events.log", "S\t"+lbl(l))
}
func (childEvents) RunDone(err error)                            { ctl.appendLine("events.log", "R\t"+errStr(err)) }
func (childEvents) FileChanged(l *label.Label)                   {}

// ---- the body builtin: vb.body(label, reads, writes, vals)

// readTree is the canonical text of what a body sees at a path: a file's bytes, or a directory's sorted
// entries with their names, recursively.
func readTree(p string) string {
	st, err := os.Stat(p)
	if err != nil {
		return "<missing>"
	}
	if !st.IsDir() {
		b, err := os.ReadFile(p)
		if err != nil {
			return "<unreadable>"
		}
		return "F" + fmt.Sprint(len(b)) + ":" + string(b)
	}
	es, err := os.ReadDir(p)
	if err != nil {
		return "<unreadable>"
	}
	var sb strings.Builder
	sb.WriteString("D{")
	for _, e := range es { // os.ReadDir sorts by name
		sb.WriteString(fmt.Sprintf("%q=", e.Name()))
		sb.WriteString(readTree(filepath.Join(p, e.Name())))
		sb.WriteString(";")
	}
	sb.WriteString("}")
	return sb.String()
}

func stringList(v starlark.Value) ([]string, error) {
	it, ok := v.(starlark.Iterable)
	if !ok {
		return nil, fmt.Errorf("expected a list of strings")
	}
	var out []string
	iter := it.Iterate()
	defer iter.Done()
	var x starlark.Value
	for iter.Next(&x) {
		s, ok := starlark.AsString(x)
		if !ok {
			return nil, fmt.Errorf("expected a string")
		}
		out = append(out, s)
	}
	return out, nil
}

func vbBody(thread *starlark.Thread, fn *starlark.Builtin, args starlark.Tuple, kwargs []starlark.Tuple) (starlark.Value, error) {
	var lab string
	var readsV, writesV, vals, listsV starlark.Value
	if err := starlark.UnpackPositionalArgs("body", args, kwargs, 4, &lab, &readsV, &writesV, &vals, &listsV); err != nil {
		return nil, err
	}
	reads, err := stringList(readsV)
	if err != nil {
		return nil, err
	}
	writes, err := stringList(writesV)
	if err != nil {
		return nil, err
	}
	root := ctl.spec.Root
	// paths the engine hands a body (self.sources, self.generates) are absolute host paths: what is used is the path
	// relative to the project root
	rel := func(p string) string {
		if filepath.IsAbs(p) {
			return filepath.ToSlash(strings.TrimPrefix(p, root+string(filepath.Separator)))
		}
		return p
	}
	for i := range writes {
		writes[i] = rel(writes[i])
	}
	ctl.appendLine("exec.log", "B\t"+lab)
	for _, f := range ctl.spec.Fail {
		if f == lab {
			if len(writes) > 0 {
				p := filepath.Join(root, filepath.FromSlash(writes[0]))
				os.MkdirAll(filepath.Dir(p), 0o755)
				os.WriteFile(p, []byte("garbage\n"), 0o644)
				ctl.hook("vb.body.wrote", lab)
			}
			ctl.appendLine("exec.log", "E\t"+lab+"\tfail")
			return nil, fmt.Errorf("body of %v fails by instruction of the harness", lab)
		}
	}
	h := sha256.New()
	fmt.Fprintf(h, "label %q\nvals %s\nwrites %q\n", lab, vals.String(), writes)
	// The lists a body reads through `self` (self.dependencies, self.sources, self.generates), in order and with
	// multiplicity: a body may depend on them as on any other input (D32)
	if listsV != nil {
		if it, ok := listsV.(starlark.Iterable); ok {
			iter := it.Iterate()
			var lv starlark.Value
			for iter.Next(&lv) {
				ls, err := stringList(lv)
				if err != nil {
					iter.Done()
					return nil, err
				}
				fmt.Fprintf(h, "list")
				for _, x := range ls {
					fmt.Fprintf(h, " %q", rel(x))
				}
				fmt.Fprintf(h, "\n")
			}
			iter.Done()
		}
	}
	for _, r := range reads {
		p := filepath.Join(root, filepath.FromSlash(r))
		if filepath.IsAbs(r) {
			// self.sources: absolute host paths; what is hashed is the path relative to the project root
			p, r = r, strings.TrimPrefix(r, root+string(filepath.Separator))
		}
		fmt.Fprintf(h, "read %q %s\n", r, readTree(p))
	}
	base := h.Sum(nil)
	for _, w := range writes {
		hw := sha256.New()
		hw.Write(base)
		fmt.Fprintf(hw, "write %q\n", w)
		p := filepath.Join(root, filepath.FromSlash(w))
		if err := os.MkdirAll(filepath.Dir(p), 0o755); err != nil {
			return nil, err
		}
		if err := os.WriteFile(p, []byte("out "+hex.EncodeToString(hw.Sum(nil))+"\n"), 0o644); err != nil {
			return nil, err
		}
		ctl.hook("vb.body.wrote", lab)
	}
	ctl.appendLine("exec.log", "E\t"+lab+"\tok")
	return starlark.None, nil
}

var vbModule = &starlarkstruct.Module{
	Name:    "vb",
	Members: starlark.StringDict{"body": starlark.NewBuiltin("body", vbBody)},
}

// hashDir is a digest of every file under dir (relative path, mode bits that matter, bytes), skipping `skip`.
func hashDir(dir string, skip string) string {
	if real, err := filepath.EvalSymlinks(dir); err == nil {
		dir = real // the root may be a symbolic link
	}
	h := sha256.New()
	var paths []string
	filepath.Walk(dir, func(p string, info os.FileInfo, err error) error {
		if err != nil {
			return nil
		}
		rel, _ := filepath.Rel(dir, p)
		if rel == ".dawn" {
			return nil // the directory itself is created by the first load
		}
		if skip != "" && (rel == skip || strings.HasPrefix(rel, skip+string(filepath.Separator))) {
			if info.IsDir() {
				return filepath.SkipDir
			}
			return nil
		}
		paths = append(paths, rel)
		return nil
	})
	sort.Strings(paths)
	for _, rel := range paths {
		p := filepath.Join(dir, rel)
		st, err := os.Lstat(p)
		if err != nil {
			continue
		}
		if st.IsDir() {
			fmt.Fprintf(h, "D %q\n", rel)
			continue
		}
		b, _ := os.ReadFile(p)
		fmt.Fprintf(h, "F %q %d %x\n", rel, len(b), sha256.Sum256(b))
	}
	return hex.EncodeToString(h.Sum(nil))
}

func childMain(specPath string) int {
	b, err := os.ReadFile(specPath)
	if err != nil {
		fmt.Fprintln(os.Stderr, err)
		return exitUsage
	}
	var spec childSpec
	if err := json.Unmarshal(b, &spec); err != nil {
		fmt.Fprintln(os.Stderr, err)
		return exitUsage
	}
	ctl = &ctlFiles{dir: spec.Ctl, spec: &spec, phase: "load"}
	os.Setenv("HOME", filepath.Join(spec.Ctl, "home"))
	dawn.VerifHook = ctl.hook

	proj, err := dawn.Load(spec.Root, &dawn.LoadOptions{
		Events:      childEvents{},
		Builtins:    starlark.StringDict{"vb": vbModule},
		PreferIndex: spec.PreferIndex,
		Args:        spec.Args,
	})
	if err != nil {
		ctl.appendLine("events.log", "LE\t"+strings.ReplaceAll(err.Error(), "\n", " "))
		return exitLoadFail
	}
	work := filepath.Join(spec.Root, ".dawn", "build")
	switch spec.Op {
	case "load":
		return exitOK
	case "fp":
		fps, err := dawn.VerifFingerprints(proj)
		if err != nil {
			ctl.appendLine("events.log", "FE\t"+err.Error())
			return exitUsage
		}
		for l, fp := range fps {
			ctl.appendLine("fp.log", l+"\t"+fp)
		}
		return exitOK
	case "gc":
		ctl.phase = "gc"
		if err := proj.GC(); err != nil {
			ctl.appendLine("events.log", "GE\t"+err.Error())
			return exitGCFail
		}
		return exitOK
	case "multirun":
		l, err := label.Parse(spec.Target)
		if err != nil {
			return exitUsage
		}
		ever := map[string]bool{}
		for i, ro := range spec.Runs {
			ctl.appendLine("events.log", fmt.Sprintf("RUN\t%d", i))
			ctl.appendLine("exec.log", fmt.Sprintf("RUN\t%d", i))
			succM.Lock()
			succeeded = nil
			succM.Unlock()
			ctl.phase = "run"
			ctl.spec.Fail = ro.Fail
			if ro.Write != "" {
				err := os.WriteFile(fsPath(spec.Root, ro.Write), []byte(ro.Text), 0o644)
				ctl.appendLine("events.log", "RR\t"+errStr(err))
				continue
			}
			if ro.Reload {
				err := proj.Reload()
				ctl.appendLine("events.log", "RR\t"+errStr(err))
				continue
			}
			if ro.GC {
				err := proj.GC()
				ctl.appendLine("events.log", "RR\t"+errStr(err))
				var ls []string
				for sl := range ever {
					ls = append(ls, sl)
				}
				sort.Strings(ls)
				for _, sl := range ls {
					stamp, rerun, ok := dawn.VerifRecord(proj, sl)
					good := "bad"
					if ok && !rerun && stamp != "" {
						good = "good"
					}
					ctl.appendLine("events.log", "REC2\t"+sl+"\t"+good)
				}
				continue
			}
			tl := l
			if ro.Target != "" {
				if tl, err = label.Parse(ro.Target); err != nil {
					return exitUsage
				}
			}
			var err error
			if ro.Repl {
				thread, globals := proj.REPLEnv(io.Discard, &label.Label{Package: "//"})
				var kwargs []starlark.Tuple
				if ro.AlwaysSet {
					kwargs = append(kwargs, starlark.Tuple{starlark.String("always"), starlark.Bool(ro.Always)})
				}
				if ro.DrySet {
					kwargs = append(kwargs, starlark.Tuple{starlark.String("dry_run"), starlark.Bool(ro.Dry)})
				}
				_, err = starlark.Call(thread, globals["run"], starlark.Tuple{starlark.String(tl.String())}, kwargs)
			} else {
				var opts *dawn.RunOptions
				if !ro.Nil {
					opts = &dawn.RunOptions{Always: ro.Always, DryRun: ro.Dry}
				}
				err = proj.Run(tl, opts)
			}
			ctl.appendLine("events.log", "RR\t"+errStr(err))
			succM.Lock()
			ss := append([]string{}, succeeded...)
			succM.Unlock()
			if _, dry := ro.effective(); !dry {
				for _, sl := range ss {
					ever[sl] = true
				}
			}
			for _, sl := range ss {
				stamp, rerun, ok := dawn.VerifRecord(proj, sl)
				good := "bad"
				if ok && !rerun && stamp != "" {
					good = "good"
				}
				ctl.appendLine("events.log", "REC\t"+sl+"\t"+good)
			}
		}
		return exitOK
	case "build":
		l, err := label.Parse(spec.Target)
		if err != nil {
			return exitUsage
		}
		if spec.Dry {
			ctl.appendLine("state.log", "work-after-load\t"+hashDir(work, ""))
			ctl.appendLine("state.log", "tree-after-load\t"+hashDir(spec.Root, ".dawn"))
		}
		ctl.phase = "run"
		restore := func() {}
		if spec.WriteLimit > 0 {
			restore = ctl.writeFault(spec.WriteLimit)
		}
		err = proj.Run(l, &dawn.RunOptions{Always: spec.Always, DryRun: spec.Dry})
		restore()
		ctl.phase = "done"
		if spec.Dry {
			ctl.appendLine("state.log", "work-after-run\t"+hashDir(work, ""))
			ctl.appendLine("state.log", "tree-after-run\t"+hashDir(spec.Root, ".dawn"))
		}
		if err != nil {
			ctl.appendLine("events.log", "RE\t"+strings.ReplaceAll(err.Error(), "\n", " "))
			return exitBuildFail
		}
		return exitOK
	}
	return exitUsage
}

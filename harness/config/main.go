// Correspondence + judge harness for C19 (internal/project: WriteConfigFile, LoadConfigBytes, CleanPath).
// Built INTO the repo's module with `go build -overlay` as package github.com/pgavlin/dawn/cmd/verif_config;
// not part of /repo.
//
// Output, one record per line, tab separated:
//   C <stream> <driver input> <Go's canonical answer>     correspondence pair (tie 2)
//   J <configuration> <outcome>                          what Load(Write(c)) and Write(Load(Write(c))) did for c: the check
//                                                        judges it a violation when the MODEL says c is valid (inside
//                                                        C19's quantifier) and the outcome is not `same`
//   V <json>                                             a failure whatever the configuration (panic, write error)
//   S <json>                                             statistics of this run
package main

import (
	"bufio"
	"bytes"
	"encoding/hex"
	"encoding/json"
	"flag"
	"fmt"
	"os"
	"path/filepath"
	"sort"
	"strings"
	"time"
	"unicode/utf8"

	"github.com/pelletier/go-toml/v2"
	"github.com/pgavlin/dawn/internal/project"
	"golang.org/x/mod/semver"
)

type rng struct{ s uint64 }

func (r *rng) next() uint64 {
	r.s += 0x9E3779B97F4A7C15
	z := r.s
	z = (z ^ (z >> 30)) * 0xBF58476D1CE4E5B9
	z = (z ^ (z >> 27)) * 0x94D049BB133111EB
	return z ^ (z >> 31)
}
func (r *rng) below(n int) int        { return int(r.next() % uint64(n)) }
func (r *rng) pick(xs []string) string { return xs[r.below(len(xs))] }

func hx(s string) string {
	if s == "" {
		return "-"
	}
	return hex.EncodeToString([]byte(s))
}

func unhx(s string) string {
	if s == "-" || s == "" {
		return ""
	}
	b, err := hex.DecodeString(s)
	if err != nil {
		fmt.Fprintln(os.Stderr, "bad hex", s)
		os.Exit(2)
	}
	return string(b)
}

// canonical text of a configuration: the requirements map in ascending key order
func cfgStr(c *project.Config) string {
	ig := "."
	if len(c.Ignore) != 0 {
		h := make([]string, len(c.Ignore))
		for i, s := range c.Ignore {
			h[i] = hx(s)
		}
		ig = strings.Join(h, ",")
	}
	rq := "."
	if len(c.Requirements) != 0 {
		keys := make([]string, 0, len(c.Requirements))
		for k := range c.Requirements {
			keys = append(keys, k)
		}
		sort.Strings(keys)
		h := make([]string, len(keys))
		for i, k := range keys {
			h[i] = hx(k) + ":" + hx(c.Requirements[k].Path) + ":" + hx(c.Requirements[k].Version)
		}
		rq = strings.Join(h, ",")
	}
	return hx(c.Name) + " " + hx(c.Version) + " " + ig + " " + rq
}

func parseCfg(s string) *project.Config {
	f := strings.Split(s, " ")
	if len(f) != 4 {
		fmt.Fprintln(os.Stderr, "bad config", s)
		os.Exit(2)
	}
	c := &project.Config{Name: unhx(f[0]), Version: unhx(f[1])}
	if f[2] != "." {
		for _, h := range strings.Split(f[2], ",") {
			c.Ignore = append(c.Ignore, unhx(h))
		}
	}
	if f[3] != "." {
		c.Requirements = map[string]project.RequirementConfig{}
		for _, r := range strings.Split(f[3], ",") {
			g := strings.Split(r, ":")
			c.Requirements[unhx(g[0])] = project.RequirementConfig{Path: unhx(g[1]), Version: unhx(g[2])}
		}
	}
	return c
}

var (
	out   = bufio.NewWriterSize(os.Stdout, 1<<20)
	stats = map[string]int{}
	nviol = 0
	dir   string
)

var corrOff = false

func emit(stream, in, res string) {
	if corrOff {
		return
	}
	fmt.Fprintf(out, "C\t%s\t%s\t%s\n", stream, in, res)
	stats["pairs_"+stream]++
}

func violation(kind string, c *project.Config, detail string) {
	nviol++
	stats["violation_"+kind]++
	if nviol > 20 {
		return
	}
	b, _ := json.Marshal(map[string]any{"kind": kind, "detail": detail, "config": fmt.Sprintf("%+q", *c), "input": cfgStr(c)})
	fmt.Fprintf(out, "V\t%s\n", b)
}

func safe(f func()) (pan any) {
	defer func() { pan = recover() }()
	f()
	return nil
}

// write: the bytes WriteConfigFile produces
func write(c *project.Config) ([]byte, error) {
	p := filepath.Join(dir, "dawn.toml")
	if err := project.WriteConfigFile(p, c); err != nil {
		return nil, err
	}
	return os.ReadFile(p)
}

func loadRes(text []byte) (*project.Config, string) {
	var c *project.Config
	var err error
	if pan := safe(func() { c, err = project.LoadConfigBytes(text) }); pan != nil {
		return nil, "panic"
	}
	if err != nil {
		if strings.Contains(err.Error(), "invalid version") {
			return nil, "err badVersion"
		}
		return nil, "outside" // a TOML syntax / type error: what the model calls "not in the sub-language"
	}
	return c, "ok " + cfgStr(c)
}

// loadFile: what LoadConfigFile makes of the file write() left behind (the judge goes through the file, as get/tidy and
// project loading do; LoadConfigBytes on the same bytes is the correspondence stream config.load)
func loadFile() (*project.Config, string) {
	var c *project.Config
	var err error
	if pan := safe(func() { c, err = project.LoadConfigFile(filepath.Join(dir, "dawn.toml")) }); pan != nil {
		return nil, "panic"
	}
	if err != nil {
		if strings.Contains(err.Error(), "invalid version") {
			return nil, "err badVersion"
		}
		return nil, "outside: " + err.Error()
	}
	return c, "ok"
}

// utf8ok: all strings valid UTF-8 (the rest of C19's quantifier — canonical versions, paths in clean form — is decided by
// the model, not here and not by the implementation's own CleanPath)
func utf8ok(c *project.Config) bool {
	ok := utf8.ValidString(c.Name) && utf8.ValidString(c.Version)
	for _, s := range c.Ignore {
		ok = ok && utf8.ValidString(s)
	}
	for k, r := range c.Requirements {
		ok = ok && utf8.ValidString(k) && utf8.ValidString(r.Path) && utf8.ValidString(r.Version)
	}
	return ok
}

func judged(in, outcome string) {
	fmt.Fprintf(out, "J\t%s\t%s\n", in, outcome)
	stats["judge_records"]++
	stats["judge_outcome_"+strings.SplitN(outcome, " ", 2)[0]]++
}

func oneConfig(c *project.Config, r *rng) {
	stats["configs"]++
	in := cfgStr(c)
	stats[fmt.Sprintf("configs_with_%d_requirements", len(c.Requirements))]++
	for _, rq := range c.Requirements {
		if i := strings.LastIndexByte(rq.Path, '@'); i >= 0 && !strings.Contains(rq.Path[i:], "/") {
			stats["requirement_paths_with_at_in_last_element"]++
		}
	}
	text, err := write(c)
	if err != nil {
		violation("write-failed", c, err.Error())
		return
	}
	emit("config.emit", "emit "+in, hx(string(text)))
	c2, res := loadRes(text)
	emit("config.load", "load "+hx(string(text)), res)
	if res == "panic" {
		violation("panic", c, "LoadConfigBytes panicked on a written file")
		return
	}
	// ---- C19 on the implementation: the outcome is recorded for every configuration; whether the configuration is
	// inside the quantifier is the model's decision (checks/C19.py)
	if utf8ok(c) {
		cf, fres := loadFile()
		if fres == "panic" {
			violation("panic", c, "LoadConfigFile panicked on a written file")
			return
		}
		if (cf == nil) != (c2 == nil) || (cf != nil && cfgStr(cf) != cfgStr(c2)) {
			stats["file_and_bytes_loads_differ"]++
			c2, res = cf, fres // the file is what counts
		}
		switch {
		case c2 == nil:
			judged(in, "noload "+hx(fmt.Sprintf("%s; file: %s", res, text)))
		case cfgStr(c2) != in:
			judged(in, "differs "+hx(fmt.Sprintf("loaded %+q; file: %s", *c2, text)))
		default:
			text2, err := write(c2)
			if err != nil {
				violation("write-failed", c, err.Error())
			} else if !bytes.Equal(text, text2) {
				judged(in, "unstable "+hx(fmt.Sprintf("first: %s second: %s", text, text2)))
			} else {
				judged(in, "same")
			}
		}
	}
	// ---- the same configuration in another layout (blanks, blank lines, key order): correspondence only
	if r != nil && c2 != nil {
		for k := 0; k < 2; k++ {
			vt := variant(c, r)
			_, vres := loadRes([]byte(vt))
			emit("config.load.variant", "load "+hx(vt), vres)
			if vres == "ok "+in {
				stats["variants_loading_to_the_same_configuration"]++
			}
		}
	}
}

// encodeValue exactly as internal/project does it (the same go-toml encoder, the same options)
func enc(s string) string {
	var b strings.Builder
	if err := toml.NewEncoder(&b).SetTablesInline(true).Encode(s); err != nil {
		panic(err)
	}
	return b.String()
}

func ws(r *rng) string { return r.pick([]string{"", "", " ", "  ", "\t", " \t "}) }

func variant(c *project.Config, r *rng) string {
	var top []string
	if c.Name != "" {
		top = append(top, ws(r)+"name"+ws(r)+"="+ws(r)+enc(c.Name)+ws(r))
	}
	if c.Version != "" {
		top = append(top, ws(r)+"version"+ws(r)+"="+ws(r)+enc(c.Version)+ws(r))
	}
	if len(c.Ignore) != 0 || r.below(4) == 0 {
		items := make([]string, len(c.Ignore))
		for i, s := range c.Ignore {
			items[i] = enc(s)
		}
		top = append(top, ws(r)+"ignore"+ws(r)+"="+ws(r)+"["+ws(r)+strings.Join(items, ws(r)+","+ws(r))+ws(r)+"]"+ws(r))
	}
	for i := len(top) - 1; i > 0; i-- {
		j := r.below(i + 1)
		top[i], top[j] = top[j], top[i]
	}
	var b strings.Builder
	for _, l := range top {
		if r.below(3) == 0 {
			b.WriteString(ws(r) + "\n")
		}
		b.WriteString(l + "\n")
	}
	if len(c.Requirements) != 0 || r.below(4) == 0 {
		b.WriteString(ws(r) + "[requirements]" + ws(r) + "\n")
		keys := make([]string, 0, len(c.Requirements))
		for k := range c.Requirements {
			keys = append(keys, k)
		}
		sort.Strings(keys)
		for i := len(keys) - 1; i > 0; i-- {
			j := r.below(i + 1)
			keys[i], keys[j] = keys[j], keys[i]
		}
		for _, k := range keys {
			req := c.Requirements[k]
			key := enc(k)
			if isPlain(k) && r.below(2) == 0 {
				key = k
			}
			f1 := "path" + ws(r) + "=" + ws(r) + enc(req.Path)
			f2 := "version" + ws(r) + "=" + ws(r) + enc(req.Version)
			if r.below(2) == 0 {
				f1, f2 = f2, f1
			}
			if r.below(4) == 0 {
				b.WriteString("\n")
			}
			b.WriteString(ws(r) + key + ws(r) + "=" + ws(r) + "{" + ws(r) + f1 + ws(r) + "," + ws(r) + f2 + ws(r) + "}" + ws(r) + "\n")
		}
	}
	s := b.String()
	if r.below(5) == 0 {
		s = strings.TrimSuffix(s, "\n")
	}
	return s
}

func isPlain(k string) bool {
	if k == "" {
		return false
	}
	for _, r := range k {
		if !(r >= 'A' && r <= 'Z' || r >= 'a' && r <= 'z' || r >= '0' && r <= '9' || r == '_' || r == '-') {
			return false
		}
	}
	return true
}

// ---- size classes: valid configurations (plain names, canonical versions, clean paths without `@`, by construction)
// whose encoding has a chosen size. Judged on the implementation only: WriteConfigFile, LoadConfigFile, and again.

func sizeConfig(kind string, n int, pad int) *project.Config {
	c := &project.Config{Name: "size-" + strings.Repeat("n", pad), Version: "1"}
	switch kind {
	case "reqs": // n requirements with long paths
		c.Ignore = []string{"*.tmp"}
		c.Requirements = make(map[string]project.RequirementConfig, n)
		for i := 0; i < n; i++ {
			c.Requirements[fmt.Sprintf("lib%07d", i)] = project.RequirementConfig{
				Path: fmt.Sprintf("example.com/organisation/repository/some/long/path/lib%07d", i), Version: "v1.2.3"}
		}
	case "strings": // a few huge strings: n bytes spread over the version, three ignore entries and one requirement path
		q := n / 5
		c.Version = strings.Repeat("v", q)
		c.Ignore = []string{strings.Repeat("a", q), "it's " + strings.Repeat("\"\\\t", q/6), strings.Repeat("\u00e9", q/2)}
		c.Requirements = map[string]project.RequirementConfig{"big": {Path: strings.Repeat("p/", q/2) + "p", Version: "v1.2.3"}}
	}
	return c
}

func encodedSize(c *project.Config) int {
	t, err := write(c)
	if err != nil {
		return -1
	}
	return len(t)
}

// sized: a configuration of the given kind whose encoding is exactly target bytes (the name is padded)
func sized(kind string, target int) *project.Config {
	n := target / 98
	if kind == "strings" {
		n = target - 200
	}
	for try := 0; try < 6; try++ {
		got := encodedSize(sizeConfig(kind, n, 0))
		if got < 0 {
			return nil
		}
		if got <= target {
			if c := sizeConfig(kind, n, target-got); encodedSize(c) == target {
				return c
			}
		}
		if kind == "reqs" {
			n -= 1 + (got-target)/98
		} else {
			n -= 64 + (got - target)
		}
		if n < 0 {
			n = 0
		}
	}
	return nil
}

// aligned: many requirements, the name padded so that byte offset `at` of the file is the first byte of a line
func aligned(at int) *project.Config {
	n := at/98 + 40
	t, err := write(sizeConfig("reqs", n, 0))
	if err != nil || len(t) <= at {
		return nil
	}
	j := bytes.LastIndexByte(t[:at], '\n') // last line end before the mark
	return sizeConfig("reqs", n, at-1-j)
}

func sizeCase(desc string, c *project.Config) {
	if c == nil {
		stats["size_cases_not_constructible"]++
		return
	}
	stats["size_cases"]++
	fail := func(kind, detail string) {
		nviol++
		stats["violation_"+kind]++
		b, _ := json.Marshal(map[string]any{"kind": kind, "detail": detail, "config": desc, "input": "size:" + desc})
		fmt.Fprintf(out, "V\t%s\n", b)
	}
	text, err := write(c)
	if err != nil {
		fail("write-failed", err.Error())
		return
	}
	stats["size_largest_file_bytes"] = max(stats["size_largest_file_bytes"], len(text))
	if strings.HasPrefix(desc, "aligned:") {
		var at int
		fmt.Sscanf(desc, "aligned:%d", &at)
		if at >= len(text) || text[at-1] != '\n' {
			stats["size_cases_not_constructible"]++
			return
		}
	}
	c2, res := loadFile()
	want := cfgStr(c)
	switch {
	case res == "panic":
		fail("panic", "LoadConfigFile panicked")
	case c2 == nil:
		fail("written-file-does-not-load", fmt.Sprintf("%d-byte file with %d requirements: %s", len(text), len(c.Requirements), res))
	case cfgStr(c2) != want:
		fail("loaded-configuration-differs", fmt.Sprintf("%d-byte file: wrote %d requirements, %d ignore entries, version of %d bytes; loaded %d requirements, %d ignore entries, version of %d bytes",
			len(text), len(c.Requirements), len(c.Ignore), len(c.Version), len(c2.Requirements), len(c2.Ignore), len(c2.Version)))
	default:
		text2, err := write(c2)
		if err != nil {
			fail("write-failed", err.Error())
		} else if !bytes.Equal(text, text2) {
			fail("rewrite-not-stable", fmt.Sprintf("%d bytes, then %d bytes", len(text), len(text2)))
		}
	}
}

func sizeByDesc(desc string) *project.Config {
	var kind string
	var n int
	f := strings.Split(desc, ":")
	if len(f) != 2 {
		return nil
	}
	kind = f[0]
	fmt.Sscanf(f[1], "%d", &n)
	if kind == "aligned" {
		return aligned(n)
	}
	return sized(kind, n)
}

func sizeClasses(thorough bool) {
	marks := []int{1 << 16, 1 << 20}
	var descs []string
	for _, m := range marks {
		for _, kind := range []string{"reqs", "strings"} {
			descs = append(descs, fmt.Sprintf("%s:%d", kind, m-1), fmt.Sprintf("%s:%d", kind, m+1), fmt.Sprintf("%s:%d", kind, m+m/8))
		}
		descs = append(descs, fmt.Sprintf("aligned:%d", m))
	}
	descs = append(descs, "reqs:3200000", "aligned:2097152")
	if thorough {
		descs = append(descs, "strings:3200000", "aligned:4194304", "reqs:4194305", "reqs:16800000", "strings:16800000", "aligned:16777216",
			"reqs:131073", "strings:262145", "aligned:131072", "aligned:262144", "aligned:524288", "aligned:8388608")
	}
	for _, d := range descs {
		sizeCase(d, sizeByDesc(d))
	}
}

// ---- generators

var special []string

func init() {
	for b := 0; b < 0x20; b++ {
		special = append(special, string(rune(b)))
	}
	special = append(special, "\x7f", "\u0085", "\u2028", "\u2029", "\ufeff", "\U0001F600", "\U0001D518", "'", "\"", "\\", "\\\\", "'''", "\"\"\"",
		"\\u0041", "\\n", "#", "=", ",", "[", "]", "{", "}", ".", " ", "\u00e9", "\u4e16\u754c", "\u00a0", "\u200b", "\ufffd", "$", "%v", "%!", "\U0010FFFF", "\u0080", "\u07ff", "\u0800")
}

func genStr(r *rng) string {
	switch r.below(10) {
	case 0:
		return ""
	case 1:
		return r.pick([]string{"dawn", "my-project", "a_b", "A1", "name", "version", "ignore", "requirements", "path", "true", "1", "-", "_"})
	case 2:
		return r.pick(special)
	}
	var b strings.Builder
	for k, l := 0, 1+r.below(8); k < l; k++ {
		if r.below(3) == 0 {
			b.WriteString(r.pick(special))
		} else {
			b.WriteString(r.pick([]string{"a", "b", "Z", "0", "-", "_", ".", "/", "*", " ", "x"}))
		}
	}
	return b.String()
}

func genVersion(r *rng) string {
	num := func() string { return r.pick([]string{"0", "1", "2", "10", "123", "9999999999"}) }
	v := "v" + num() + "." + num() + "." + num()
	switch r.below(5) {
	case 0:
		v += "-" + r.pick([]string{"alpha", "rc.1", "0", "pre-release", "a.b.c", "x-1.0", "0.3.7", "-", "20210101000000-abcdef123456", "0.20210101000000-abcdef123456", "beta.11"})
	case 1:
		v = r.pick([]string{"v0.0.0-20210101000000-abcdef123456", "v1.2.4-0.20210101000000-abcdef123456", "v2.0.0-rc.1.0.20210101000000-abcdef123456"})
	}
	return v
}

// versions LoadConfigBytes rejects, or accepts only after canonicalisation (outside the quantifier; correspondence only)
func genBadVersion(r *rng) string {
	return r.pick([]string{"", "v1", "v1.2", "1.2.3", "v01.2.3", "v1.2.3+build", "v1.2.3-", "v1.2.3-01", "v1.2.3-a..b", "v1.2.3 ", "V1.2.3", "v1.2.3-é", "latest", "v1.2.3-a+b", "v1.02.3", "v1.2.3.4", "v-1.2.3", "v1.2.3-a_b"})
}

// suffixes after an `@` in the last element: majors that are dropped (v0, v1, empty), majors that are kept, and things
// that are not majors at all — all of the latter two are fixed points of CleanPath
var atSuffixes = []string{"v2", "v3", "v10", "v0", "v1", "", "x", "main", "dev", "v03", "v1.2", "v2.0.0", "latest", "V2", "v", "2", "v2@dev", "b@c", "v1@v1", "dev@v2", "@", "é"}

// genPath: a path in clean form *by construction* (non-empty elements other than `.` and `..`, single slashes, an
// optional `@suffix` on the last element and sometimes on inner elements), never passed through the implementation's
// CleanPath. Whether it is a fixed point (it is unless the suffix is one that is dropped) is the model's decision.
func genPath(r *rng) string {
	elems := []string{"github.com", "a", "b", "dawn", "x.y", "é", "世", "a b", "a'b", "a\"b", "a\\b", "\t", "\x01", "v2", "-", "...", "..a", "user@host", "git@example.com", "a@v2", "@", "x@dev", "\U0001F600"}
	var b strings.Builder
	if r.below(8) == 0 {
		b.WriteString("/")
	}
	for k, l := 0, 1+r.below(4); k < l; k++ {
		if k > 0 {
			b.WriteString("/")
		}
		b.WriteString(r.pick(elems))
	}
	if r.below(2) == 0 {
		b.WriteString("@" + r.pick(atSuffixes))
	}
	return b.String()
}

// paths that are not in clean form (for the tie only)
var uncleanPaths = []string{"", "a/../b", "a//b", "a/", "./a", "a@v1", "a@", "a@v0", "a/b/..@v2", "a@v1@v1", "../x/..", "a/./b@v3", "a/@v2", "x@dev/", "a@b@"}

var atPaths = []string{"x@dev", "reqs/devlib@dev", "x@v03", "x@v1.2", "user@host/x", "git@example.com/a/b", "x@", "x@v2@dev", "a@b@c",
	"a@@b", "@", "@v2", "a/@v2", "a@v2/b", "a@v2/b@v3", "a@v1/b", "a@dev/b@dev", "x@v2", "x@v10", "x@v0", "x@v1", "x@v1@v1", "x@v2@v1", "x@V2",
	"x@v2.0.0", "x@2", "x@latest", "x@main", "a/b@é", "a.b/c-d@v3", "/abs@dev", "x@v", "x@vv2", "x@v2 ", "x@ v2", "x@-"}

func genConfig(r *rng, wantValid bool) *project.Config {
	c := &project.Config{}
	if r.below(4) != 0 {
		c.Name = genStr(r)
	}
	if r.below(2) == 0 {
		c.Version = genStr(r)
	}
	for k, l := 0, r.below(4); k < l; k++ {
		c.Ignore = append(c.Ignore, genStr(r))
	}
	if n := r.below(5); n > 0 || r.below(6) == 0 {
		c.Requirements = map[string]project.RequirementConfig{}
		for k := 0; k < n; k++ {
			p := genPath(r)
			v := genVersion(r)
			if !wantValid {
				switch r.below(3) {
				case 0:
					v = genBadVersion(r)
				case 1:
					p = r.pick(uncleanPaths)
				}
			}
			c.Requirements[genStr(r)] = project.RequirementConfig{Path: p, Version: v}
		}
	}
	return c
}

func main() {
	seed := flag.Uint64("seed", 1, "")
	tier := flag.String("tier", "quick", "")
	rp := flag.String("replay", "", "canonical text of a configuration (the input of a violation)")
	flag.Parse()
	defer out.Flush()
	time.AfterFunc(20*time.Minute, func() {
		out.Flush()
		fmt.Fprintln(os.Stderr, "watchdog: harness did not finish")
		os.Exit(3)
	})
	var err error
	dir, err = os.MkdirTemp("", "verif-config-")
	if err != nil {
		fmt.Fprintln(os.Stderr, err)
		os.Exit(2)
	}
	defer os.RemoveAll(dir)

	if *rp != "" {
		corrOff = true
		if strings.HasPrefix(*rp, "size:") {
			d := strings.TrimPrefix(*rp, "size:")
			sizeCase(d, sizeByDesc(d))
			return
		}
		oneConfig(parseCfg(*rp), nil)
		return
	}
	r := &rng{*seed}
	thorough := *tier == "thorough"

	// ---------------------------------------------------------------- 1. directed: every special string in every position
	oneConfig(&project.Config{}, r)
	for _, s := range append([]string{"", "plain", "needs quoting", "a.b", "ünï"}, special...) {
		oneConfig(&project.Config{Name: s}, r)
		oneConfig(&project.Config{Version: s}, r)
		oneConfig(&project.Config{Ignore: []string{s}}, r)
		oneConfig(&project.Config{Name: "n", Ignore: []string{"a", s, s + s}}, r)
		oneConfig(&project.Config{Requirements: map[string]project.RequirementConfig{s: {Path: "github.com/a/b", Version: "v1.2.3"}}}, r)
		oneConfig(&project.Config{Name: s, Requirements: map[string]project.RequirementConfig{
			s:       {Path: "github.com/a/b@v2", Version: "v2.0.0"},
			s + "z": {Path: "x", Version: "v0.0.0-20210101000000-abcdef123456"},
			"a" + s: {Path: ".", Version: "v1.0.0-rc.1"}}}, r)
		oneConfig(&project.Config{Requirements: map[string]project.RequirementConfig{"k": {Path: "p/" + s + "x", Version: "v1.2.3"}}}, r)
	}
	// requirement paths whose last (or another) element contains an `@`: kept majors, non-majors, several `@`
	for _, p := range atPaths {
		oneConfig(&project.Config{Name: "n", Ignore: []string{"i"}, Requirements: map[string]project.RequirementConfig{
			"k": {Path: p, Version: "v1.2.3"}, "other": {Path: "github.com/a/b", Version: "v0.1.0"}}}, r)
	}
	stats["directed_configs"] = stats["configs"]

	// ---------------------------------------------------------------- 2. random valid configurations, and invalid ones for the tie
	n := 3000
	if thorough {
		n = 60000
	}
	for i := 0; i < n; i++ {
		oneConfig(genConfig(r, true), r)
	}
	for i := 0; i < n/5; i++ {
		oneConfig(genConfig(r, false), r)
	}
	stats["random_configs"] = n + n/5

	// ---------------------------------------------------------------- size classes (implementation only)
	sizeClasses(thorough)

	// ---------------------------------------------------------------- 3. CleanPath and the version test on their own
	for _, p := range append(append([]string{}, atPaths...), uncleanPaths...) {
		emit("config.cleanpath", "cleanpath "+hx(p), hx(project.CleanPath(p)))
		for _, q := range []string{p + "/", "a/" + p, p + "/b", p + "@v2", p + "@v1", p + "@dev", "./" + p, p + "/..", p + "//" + p} {
			emit("config.cleanpath", "cleanpath "+hx(q), hx(project.CleanPath(q)))
		}
	}
	for i := 0; i < n; i++ {
		var b strings.Builder
		for k, l := 0, r.below(7); k < l; k++ {
			b.WriteString(r.pick([]string{"a", "b", "/", "/", ".", "..", "@", "@v1", "@v2", "@v0", "v2", "é", "//", "/./", "@@", "\x00", "@dev", "@v03", "@v1.2", "@v2@dev", "user@host", "@b@c", "@v10", "@V2"}))
		}
		p := b.String()
		if i%3 == 0 {
			p = genPath(r)
		}
		emit("config.cleanpath", "cleanpath "+hx(p), hx(project.CleanPath(p)))
		var v string
		if r.below(2) == 0 {
			v = genVersion(r)
		} else {
			v = genBadVersion(r)
		}
		if r.below(4) == 0 && len(v) > 0 {
			q := r.below(len(v))
			v = v[:q] + r.pick([]string{"0", ".", "-", "+", "v", "a", "00", ""}) + v[q+r.below(2):]
		}
		ok := "0"
		if semver.IsValid(v) && semver.Canonical(v) == v {
			ok = "1"
			stats["semver_canonical"]++
		}
		emit("config.semver", "semver "+hx(v), ok)
	}

	stats["violations"] = nviol
	b, _ := json.Marshal(stats)
	fmt.Fprintf(out, "S\t%s\n", b)
}

// Command-layer harness for C19: runs the real `dawn tidy` and `dawn get -u` (cmd/dawn is package main, so this file
// is overlaid into it as zz_verif_test.go and built with `go test -c -overlay`; it is never written into /repo).
//
// For every generated project: a dawn.toml (special names, versions, non-empty ignore lists, several requirements,
// sometimes with comments and an unusual layout), a module cache under a temporary HOME that holds every project the
// resolver will ask for (so nothing is dialled), then the command through rootCmd.Execute() with the project as working
// directory. Output goes to $VERIF_CMD_OUT in the usual record format:
//   C config.rewrite  rewrite <hex old file> <requirements the resolver returns>   ok <hex new file>
//   V <json>          name / version / ignore changed, requirements are not the resolver's, bytes are not
//                     WriteConfigFile of that, the command failed or hung although the resolver succeeds, …
//   S <json>          statistics
package main

import (
	"bufio"
	"bytes"
	"context"
	"encoding/hex"
	"encoding/json"
	"fmt"
	"os"
	"path/filepath"
	"sort"
	"strconv"
	"strings"
	"testing"
	"time"

	"github.com/mitchellh/go-homedir"
	"github.com/pelletier/go-toml/v2"
	"github.com/pgavlin/dawn/internal/mvs"
	"github.com/pgavlin/dawn/internal/project"
)

type vrng struct{ s uint64 }

func (r *vrng) next() uint64 {
	r.s += 0x9E3779B97F4A7C15
	z := r.s
	z = (z ^ (z >> 30)) * 0xBF58476D1CE4E5B9
	z = (z ^ (z >> 27)) * 0x94D049BB133111EB
	return z ^ (z >> 31)
}
func (r *vrng) below(n int) int        { return int(r.next() % uint64(n)) }
func (r *vrng) pick(xs []string) string { return xs[r.below(len(xs))] }

func vhx(s string) string {
	if s == "" {
		return "-"
	}
	return hex.EncodeToString([]byte(s))
}

func vunhx(s string) string {
	if s == "-" || s == "" {
		return ""
	}
	b, _ := hex.DecodeString(s)
	return string(b)
}

func vreqs(m map[string]project.RequirementConfig) string {
	if len(m) == 0 {
		return "."
	}
	keys := make([]string, 0, len(m))
	for k := range m {
		keys = append(keys, k)
	}
	sort.Strings(keys)
	h := make([]string, len(keys))
	for i, k := range keys {
		h[i] = vhx(k) + ":" + vhx(m[k].Path) + ":" + vhx(m[k].Version)
	}
	return strings.Join(h, ",")
}

func vcfg(c *project.Config) string {
	ig := "."
	if len(c.Ignore) != 0 {
		h := make([]string, len(c.Ignore))
		for i, s := range c.Ignore {
			h[i] = vhx(s)
		}
		ig = strings.Join(h, ",")
	}
	return vhx(c.Name) + " " + vhx(c.Version) + " " + ig + " " + vreqs(c.Requirements)
}

func vparse(s string) *project.Config {
	f := strings.Split(s, " ")
	c := &project.Config{Name: vunhx(f[0]), Version: vunhx(f[1])}
	if f[2] != "." {
		for _, h := range strings.Split(f[2], ",") {
			c.Ignore = append(c.Ignore, vunhx(h))
		}
	}
	if f[3] != "." {
		c.Requirements = map[string]project.RequirementConfig{}
		for _, r := range strings.Split(f[3], ",") {
			g := strings.Split(r, ":")
			c.Requirements[vunhx(g[0])] = project.RequirementConfig{Path: vunhx(g[1]), Version: vunhx(g[2])}
		}
	}
	return c
}

// one project of the fake universe: what the module cache holds for path@version
type vproj struct {
	Path    string `json:"path"`    // hex
	Version string `json:"version"` // hex
	Config  string `json:"config"`  // vcfg
}

type vcase struct {
	Op       string  `json:"op"`     // tidy | get-u
	Root     string  `json:"root"`   // vcfg of the project's configuration
	Layout   uint64  `json:"layout"` // 0: the file is WriteConfigFile's; otherwise the seed of a re-formatting with comments
	Universe []vproj `json:"universe"`
}

var (
	vout   *bufio.Writer
	vstats = map[string]int{}
	vnviol = 0
)

func vviolation(kind string, cs *vcase, detail string) {
	vnviol++
	vstats["violation_"+kind]++
	if vnviol > 20 {
		return
	}
	b, _ := json.Marshal(map[string]any{"kind": kind, "detail": detail, "input": cs})
	fmt.Fprintf(vout, "V\t%s\n", b)
}

// refTrim: the path without its @version suffix, by the documented rule (last `@` after the last `/`)
func refTrim(p string) string {
	for i := len(p) - 1; i >= 0 && p[i] != '/'; i-- {
		if p[i] == '@' {
			return p[:i]
		}
	}
	return p
}

var vspecial = []string{"", "dawn", "my project", "it's", "say \"hi\"", "back\\slash", "tab\there", "line\nbreak", "\x00", "\x01\x1f\x7f", "\u0085\u2028", "\ufeffbom",
	"\U0001F600", "\u00e9\u4e16", "# not a comment", "a = b", "[requirements]", "'''", "name", "*.go", "**/node_modules", ".dawn/", "a,b", "]", "v1.2.3"}

func vstr(r *vrng) string {
	if r.below(3) == 0 {
		return r.pick(vspecial)
	}
	var b strings.Builder
	for k, l := 0, 1+r.below(6); k < l; k++ {
		if r.below(4) == 0 {
			b.WriteString(r.pick(vspecial))
		} else {
			b.WriteString(r.pick([]string{"a", "b", "Z", "0", "-", "_", ".", "/", "*", " "}))
		}
	}
	return b.String()
}

func vversion(r *vrng) string {
	num := func() string { return r.pick([]string{"0", "1", "2", "10"}) }
	v := "v" + num() + "." + num() + "." + num()
	switch r.below(5) {
	case 0:
		v += "-" + r.pick([]string{"alpha", "rc.1", "0", "pre-release"})
	case 1:
		v = "v0.0.0-20210101000000-abcdef123456"
	}
	return v
}

// requirement paths: clean by construction, usable as directory names, distinct per case
func vpath(r *vrng, i int) string {
	base := r.pick([]string{"github.com/acme/lib", "example.com/x", "reqs/devlib", "user@host/x", "a b/c", "\u00e9/\u4e16", "x.y/z-w", "it's/ok", "p"}) + strconv.Itoa(i)
	if r.below(2) == 0 {
		base += "@" + r.pick([]string{"v2", "v3", "v10", "dev", "v03", "v1.2", "main", "v2@dev", "b@c"})
	}
	return base
}

func vgen(r *vrng, op string) *vcase {
	root := &project.Config{}
	if r.below(5) != 0 {
		root.Name = vstr(r)
	}
	if r.below(2) == 0 {
		root.Version = vstr(r)
	}
	for k, l := 0, r.below(4); k < l || (k == 0 && r.below(3) != 0); k++ {
		root.Ignore = append(root.Ignore, vstr(r))
	}
	cs := &vcase{Op: op}
	if op == "tidy" {
		// universe: n projects, each possibly in two versions; project i may require projects j > i
		n := r.below(7)
		type pv struct{ path, version string }
		var all []pv
		paths := make([]string, n)
		vers := make([][]string, n)
		for i := 0; i < n; i++ {
			paths[i] = vpath(r, i)
			vers[i] = []string{vversion(r)}
			if r.below(3) == 0 {
				if v2 := vversion(r); v2 != vers[i][0] {
					vers[i] = append(vers[i], v2)
				}
			}
			for _, v := range vers[i] {
				all = append(all, pv{paths[i], v})
			}
		}
		for i := 0; i < n; i++ {
			for _, v := range vers[i] {
				pc := &project.Config{Name: r.pick([]string{"", "lib", "x y", "\u00e9"}), Requirements: map[string]project.RequirementConfig{}}
				for j := i + 1; j < n; j++ {
					if r.below(3) == 0 {
						pc.Requirements[vstr(r)+strconv.Itoa(j)] = project.RequirementConfig{Path: paths[j], Version: r.pick(vers[j])}
					}
				}
				cs.Universe = append(cs.Universe, vproj{vhx(paths[i]), vhx(v), vcfg(pc)})
			}
		}
		// the root requires a subset, each path under one name
		root.Requirements = map[string]project.RequirementConfig{}
		for i := 0; i < n; i++ {
			if r.below(3) != 0 {
				name := vstr(r)
				if _, dup := root.Requirements[name]; dup {
					name += strconv.Itoa(i)
				}
				root.Requirements[name] = project.RequirementConfig{Path: paths[i], Version: r.pick(vers[i])}
			}
		}
		if len(root.Requirements) == 0 && r.below(2) == 0 {
			root.Requirements = nil
		}
	}
	if r.below(2) == 0 {
		cs.Layout = r.next() | 1
	}
	cs.Root = vcfg(root)
	return cs
}

// encodeValue exactly as internal/project does it
func venc(s string) string {
	var b strings.Builder
	if err := toml.NewEncoder(&b).SetTablesInline(true).Encode(s); err != nil {
		panic(err)
	}
	return b.String()
}

// relayout: the same configuration with comments, blank lines and another key order (what a hand-written file looks like)
func relayout(c *project.Config, seed uint64) string {
	r := &vrng{seed}
	ws := func() string { return r.pick([]string{"", " ", "  ", "\t"}) }
	var top []string
	if c.Name != "" {
		top = append(top, "name"+ws()+"="+ws()+venc(c.Name))
	}
	if c.Version != "" {
		top = append(top, "version"+ws()+"="+ws()+venc(c.Version)+ws()+"# the version")
	}
	if len(c.Ignore) != 0 {
		items := make([]string, len(c.Ignore))
		for i, s := range c.Ignore {
			items[i] = venc(s)
		}
		top = append(top, "ignore = [\n  "+strings.Join(items, ",\n  ")+",\n]")
	}
	for i := len(top) - 1; i > 0; i-- {
		j := r.below(i + 1)
		top[i], top[j] = top[j], top[i]
	}
	var b strings.Builder
	b.WriteString("# project file\n\n")
	for _, l := range top {
		b.WriteString(l + "\n")
		if r.below(2) == 0 {
			b.WriteString("\n")
		}
	}
	if len(c.Requirements) != 0 {
		b.WriteString("# what we need\n[requirements]\n")
		keys := make([]string, 0, len(c.Requirements))
		for k := range c.Requirements {
			keys = append(keys, k)
		}
		sort.Strings(keys)
		for i := len(keys) - 1; i > 0; i-- {
			j := r.below(i + 1)
			keys[i], keys[j] = keys[j], keys[i]
		}
		for _, k := range keys {
			rq := c.Requirements[k]
			if r.below(2) == 0 {
				b.WriteString(venc(k) + " = { version = " + venc(rq.Version) + ", path = " + venc(rq.Path) + " } # pinned\n")
			} else {
				b.WriteString("[requirements." + venc(k) + "]\n")
				return b.String() + "path = " + venc(rq.Path) + "\nversion = " + venc(rq.Version) + "\n" + restTables(c, keys, k)
			}
		}
	}
	return b.String()
}

// restTables: the remaining requirements as sub-tables (once one is written as a table, the rest must follow suit)
func restTables(c *project.Config, keys []string, after string) string {
	var b strings.Builder
	seen := false
	for _, k := range keys {
		if k == after {
			seen = true
			continue
		}
		if !seen {
			continue
		}
		rq := c.Requirements[k]
		b.WriteString("\n[requirements." + venc(k) + "]\nversion = " + venc(rq.Version) + "\npath = " + venc(rq.Path) + "\n")
	}
	return b.String()
}

func sameIgnore(a, b []string) bool {
	if len(a) != len(b) {
		return false
	}
	for i := range a {
		if a[i] != b[i] {
			return false
		}
	}
	return true
}

func runCase(cs *vcase, base string, n int) {
	vstats["commands"]++
	vstats["commands_"+cs.Op]++
	root := vparse(cs.Root)
	home := filepath.Join(base, fmt.Sprintf("home-%d", n))
	proj := filepath.Join(base, fmt.Sprintf("proj-%d", n), "sub")
	cache := filepath.Join(home, ".dawn", "modules", "cache")
	if err := os.MkdirAll(proj, 0o755); err != nil {
		panic(err)
	}
	os.MkdirAll(cache, 0o755)
	defer os.RemoveAll(home)
	defer os.RemoveAll(filepath.Dir(proj))
	os.Setenv("HOME", home)
	for _, u := range cs.Universe {
		d := filepath.Join(cache, fmt.Sprintf("%v@%v", refTrim(vunhx(u.Path)), vunhx(u.Version)))
		if err := os.MkdirAll(d, 0o755); err != nil {
			vstats["universe_directory_not_creatable"]++
			return
		}
		if err := project.WriteConfigFile(filepath.Join(d, "dawn.toml"), vparse(u.Config)); err != nil {
			panic(err)
		}
	}
	file := filepath.Join(filepath.Dir(proj), "dawn.toml") // the command runs in a sub-directory and has to find it
	if cs.Layout == 0 {
		if err := project.WriteConfigFile(file, root); err != nil {
			panic(err)
		}
	} else {
		os.WriteFile(file, []byte(relayout(root, cs.Layout)), 0o644)
		vstats["files_with_comments_and_layout"]++
	}
	old, _ := os.ReadFile(file)
	before, err := project.LoadConfigFile(file)
	if err != nil {
		vstats["generated_file_does_not_load"]++
		return
	}
	if vcfg(before) != cs.Root {
		vstats["generated_file_loads_to_another_configuration"]++ // C19 proper; judged by the other harness
	}
	if len(before.Ignore) != 0 {
		vstats["files_with_ignore_list"]++
	}
	vstats[fmt.Sprintf("files_with_%d_requirements", len(before.Requirements))]++
	// what the resolver returns for this file (a second, fresh resolver over the same cache)
	copyOf := *before
	resolver := mvs.NewResolver(cache, mvs.DefaultDialer, nil)
	var want map[string]project.RequirementConfig
	var werr error
	switch cs.Op {
	case "tidy":
		want, werr = mvs.Tidy(context.Background(), &copyOf, resolver)
	case "get-u":
		want, werr = mvs.UpgradeAll(context.Background(), &copyOf, resolver)
	}
	// the real command
	if err := os.Chdir(proj); err != nil {
		panic(err)
	}
	args := []string{"tidy"}
	if cs.Op == "get-u" {
		args = []string{"get", "-u"}
	}
	done := make(chan error, 1)
	go func() {
		rootCmd.SetArgs(args)
		done <- rootCmd.Execute()
	}()
	var cerr error
	select {
	case cerr = <-done:
	case <-time.After(60 * time.Second):
		vviolation("command-hung", cs, strings.Join(args, " ")+" did not return within 60 s")
		vfinish()
		os.Exit(0)
	}
	os.Chdir(base)
	after, _ := os.ReadFile(file)
	if werr != nil {
		vstats["resolver_failed"]++
		if cerr == nil {
			vviolation("command-succeeds-although-the-resolver-fails", cs, werr.Error())
		} else if !bytes.Equal(old, after) {
			vviolation("failed-command-changed-the-file", cs, fmt.Sprintf("old:\n%s\nnew:\n%s", old, after))
		}
		return
	}
	if cerr != nil {
		vviolation("command-failed", cs, cerr.Error())
		return
	}
	vstats["commands_judged"]++
	if len(want) != len(before.Requirements) {
		vstats["commands_that_changed_the_requirement_set"]++
	}
	fmt.Fprintf(vout, "C\tconfig.rewrite\trewrite %s %s\tok %s\n", vhx(string(old)), vreqs(want), vhx(string(after)))
	vstats["pairs_config.rewrite"]++
	got, err := project.LoadConfigBytes(after)
	if err != nil {
		vviolation("rewritten-file-does-not-load", cs, fmt.Sprintf("%v; file:\n%s", err, after))
		return
	}
	if got.Name != before.Name || got.Version != before.Version || !sameIgnore(got.Ignore, before.Ignore) {
		vviolation("rewrite-lost-or-changed-name-version-or-ignore", cs,
			fmt.Sprintf("before %+q after %+q; old file:\n%s\nnew file:\n%s", *before, *got, old, after))
		return
	}
	if vreqs(got.Requirements) != vreqs(want) {
		vviolation("rewritten-requirements-are-not-the-resolvers", cs,
			fmt.Sprintf("resolver %+q file %+q", want, got.Requirements))
		return
	}
	exp := filepath.Join(base, "expected.toml")
	wantCfg := *before
	wantCfg.Requirements = want
	if err := project.WriteConfigFile(exp, &wantCfg); err != nil {
		panic(err)
	}
	if eb, _ := os.ReadFile(exp); !bytes.Equal(eb, after) {
		vviolation("rewritten-bytes-differ-from-writing-the-loaded-configuration", cs, fmt.Sprintf("expected:\n%s\ngot:\n%s", eb, after))
	}
}

func vfinish() {
	vstats["violations"] = vnviol
	b, _ := json.Marshal(vstats)
	fmt.Fprintf(vout, "S\t%s\n", b)
	vout.Flush()
}

func TestVerifRewrite(t *testing.T) {
	outPath := os.Getenv("VERIF_CMD_OUT")
	if outPath == "" {
		t.Skip("driven by /verif/bin/check C19")
	}
	f, err := os.Create(outPath)
	if err != nil {
		t.Fatal(err)
	}
	defer f.Close()
	vout = bufio.NewWriterSize(f, 1<<20)
	homedir.DisableCache = true
	base, err := os.MkdirTemp("", "verif-configcmd-")
	if err != nil {
		t.Fatal(err)
	}
	defer os.RemoveAll(base)
	// the commands print progress to os.Stdout; keep it out of the way
	if null, err := os.OpenFile(os.DevNull, os.O_WRONLY, 0); err == nil {
		os.Stdout = null
	}

	if rp := os.Getenv("VERIF_CMD_REPLAY"); rp != "" {
		var cs vcase
		if err := json.Unmarshal([]byte(rp), &cs); err != nil {
			t.Fatal(err)
		}
		runCase(&cs, base, 0)
		vfinish()
		return
	}
	seed, _ := strconv.ParseUint(os.Getenv("VERIF_CMD_SEED"), 10, 64)
	r := &vrng{seed*7919 + 17}
	n := 1000
	if os.Getenv("VERIF_CMD_TIER") == "thorough" {
		n = 15000
	}
	// directed: the smallest files that have everything a rewrite could lose
	simple := &project.Config{Name: "n", Version: "v", Ignore: []string{"*.tmp"}}
	withReq := &project.Config{Name: "it's", Version: "1", Ignore: []string{"a b", ""},
		Requirements: map[string]project.RequirementConfig{"": {Path: "x@dev", Version: "v1.0.0"}, "lib": {Path: "reqs/lib", Version: "v0.1.0"}}}
	uni := []vproj{{vhx("x@dev"), vhx("v1.0.0"), vcfg(&project.Config{Name: "x"})}, {vhx("reqs/lib"), vhx("v0.1.0"), vcfg(&project.Config{})}}
	directed := []*vcase{
		{Op: "tidy", Root: vcfg(simple)}, {Op: "get-u", Root: vcfg(simple)},
		{Op: "tidy", Root: vcfg(simple), Layout: 3}, {Op: "get-u", Root: vcfg(simple), Layout: 5},
		{Op: "tidy", Root: vcfg(withReq), Universe: uni}, {Op: "tidy", Root: vcfg(withReq), Universe: uni, Layout: 7},
		{Op: "tidy", Root: vcfg(&project.Config{Ignore: []string{"only"}})}, {Op: "get-u", Root: vcfg(&project.Config{Version: "only"})},
	}
	for i, cs := range directed {
		runCase(cs, base, 1000000+i)
	}
	vstats["directed_commands"] = len(directed)
	for i := 0; i < n; i++ {
		op := "tidy"
		if i%5 == 4 {
			op = "get-u"
		}
		runCase(vgen(r, op), base, i)
	}
	vfinish()
}

// Overlaid into package diff (as diff/verif_export_diff.go) by the C16 harness build only; NOT part of /repo.
// It exposes the sequence diff with a chosen routeSize so that the restart path of compose (taken when the
// route list outgrows routeSize, 2 000 000 points in production) can be exercised on small inputs. The body
// repeats diffSlice's preamble; compose, snake, recordSeq and extend are the real ones.
package diff

import "go.starlark.net/starlark"

func VerifDiffSliceRoute(a, b starlark.Sliceable, depth, routeSize int) (ValueDiff, error) {
	old, new := a, b
	m, n := a.Len(), b.Len()
	reverse := false
	if m >= n {
		a, b = b, a
		m, n = n, m
		reverse = true
	}
	d := differ{a: a, b: b, m: m, n: n, reverse: reverse, depth: depth, routeSize: routeSize}
	edits, err := d.compose()
	if err != nil {
		return nil, err
	}
	return &SliceableDiff{valueDiff: valueDiff{old: old, new: new}, edits: edits}, nil
}

// VerifDefaultRouteSize is the constant the model's defaultRouteSize must equal.
const VerifDefaultRouteSize = defaultRouteSize

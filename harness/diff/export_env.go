// Overlaid into package dawn (as verif_export_diffenv.go) by the C16 harness build only; NOT part of /repo.
package dawn

import (
	"fmt"
	"reflect"
	"unsafe"

	"github.com/pgavlin/dawn/diff"
	"go.starlark.net/starlark"
)

// VerifDiffEnv runs (*function).diffEnv on the given old and new environments. sameEncoding stands for the
// two environments having the same pickled text (fields oldData/newData, set through reflection so that this
// file also compiles against a tree that does not have them; supported reports whether they exist).
func VerifDiffEnv(oldEnv, newEnv starlark.Value, sameEncoding bool) (eq bool, reason string, d diff.ValueDiff, err error, panicked string, supported bool) {
	defer func() {
		if r := recover(); r != nil {
			panicked = fmt.Sprint(r)
		}
	}()
	f := &function{oldEnv: oldEnv, newEnv: newEnv}
	set := func(name, v string) bool {
		fld := reflect.ValueOf(f).Elem().FieldByName(name)
		if !fld.IsValid() || fld.Kind() != reflect.String {
			return false
		}
		reflect.NewAt(fld.Type(), unsafe.Pointer(fld.UnsafeAddr())).Elem().SetString(v)
		return true
	}
	supported = true
	if sameEncoding {
		supported = set("oldData", "same") && set("newData", "same")
	} else if set("oldData", "old") {
		set("newData", "new")
	}
	if !supported {
		return
	}
	eq, reason, d, err = f.diffEnv()
	return
}

// VerifFunctionEnvKeys is the list the reason is built from.
func VerifFunctionEnvKeys() []string {
	out := make([]string, len(functionEnvKeys))
	for i, k := range functionEnvKeys {
		out[i] = string(k)
	}
	return out
}

// Overlaid into package dawn (as verif_export_diffenv.go) by the C16 harness build only; NOT part of /repo.
package dawn

import (
	"fmt"

	"github.com/pgavlin/dawn/diff"
	"go.starlark.net/starlark"
)

// VerifDiffEnv runs (*function).diffEnv on the given old and new environments.
func VerifDiffEnv(oldEnv, newEnv starlark.Value) (eq bool, reason string, d diff.ValueDiff, err error, panicked string) {
	defer func() {
		if r := recover(); r != nil {
			panicked = fmt.Sprint(r)
		}
	}()
	f := &function{oldEnv: oldEnv, newEnv: newEnv}
	eq, reason, d, err = f.diffEnv()
	return
}

// VerifFunctionEnvKeys is the list the reason is built from.
func VerifFunctionEnvKeys() []string {
	out := make([]string, len(functionEnvKeys))
	for i, k := range functionEnvKeys {
		out[i] = string(k)
	}
	return out
}

// Overlaid into package dawn (as verif_export_diffenv.go) by the C16 harness build only; NOT part of /repo.
package dawn

import (
	"bytes"
	"encoding/base64"
	"fmt"

	"github.com/pgavlin/dawn/diff"
	"github.com/pgavlin/dawn/pickle"
	"go.starlark.net/starlark"
)

// VerifEncodeEnv is the encoding the code keeps next to a decoded environment (function.oldData / newData):
// the value pickled with the pickler functionEnv uses, in base64.
func VerifEncodeEnv(v starlark.Value) (string, error) {
	var buf bytes.Buffer
	if err := pickle.NewEncoder(&buf, newEnvPickler()).Encode(v); err != nil {
		return "", err
	}
	return base64.StdEncoding.EncodeToString(buf.Bytes()), nil
}

// VerifDiffEnv runs (*function).diffEnv on the given old and new environments and their encodings.
func VerifDiffEnv(oldEnv, newEnv starlark.Value, oldData, newData string) (eq bool, reason string, d diff.ValueDiff, err error, panicked string) {
	defer func() {
		if r := recover(); r != nil {
			panicked = fmt.Sprint(r)
		}
	}()
	f := &function{oldEnv: oldEnv, newEnv: newEnv, oldData: oldData, newData: newData}
	eq, reason, d, err = f.diffEnv()
	return
}

// VerifFunctionEnvKeys is the list the reason is built from.
func VerifFunctionEnvKeys() []string {
	out := make([]string, len(functionEnvKeys))
	for i, k := range functionEnvKeys {
		out[i] = string(k)
	}
	return out
}

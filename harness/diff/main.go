// Correspondence + judge harness for C16 (diff.DiffDepth, diffSlice, diffMapping, (*function).diffEnv). Built INTO
// the repo's module with `go build -overlay` as package github.com/pgavlin/dawn/cmd/verif_diff; not part of /repo.
//
// Output, one record per line, tab separated:
//
//	C <stream> <driver input> <Go's canonical answer>     correspondence pair (tie 2)
//	V <json>                                             the property's own predicate failed on the implementation
//	S <json>                                             statistics of this run
//
// Value syntax (shared with lean/Driver/Diff.lean): s<hex> string, b<hex> bytes (s-, b- empty), t(v,…) tuple,
// l(v,…) list, d(k:v,…) dict in insertion order, n None, T/F booleans, i<decimal> int.
package main

import (
	"bufio"
	"encoding/hex"
	"encoding/json"
	"flag"
	"fmt"
	"os"
	"reflect"
	"strconv"
	"strings"
	"sync/atomic"
	"time"

	"github.com/pgavlin/dawn"
	"github.com/pgavlin/dawn/diff"
	"go.starlark.net/starlark"
)

type rng struct{ s uint64 }

func (r *rng) next() uint64 {
	r.s += 0x9E3779B97F4A7C15
	z := r.s
	z = (z ^ (z >> 30)) * 0xBF58476D1CE4E5B9
	z = (z ^ (z >> 27)) * 0x94D049BB133111EB
	return z ^ (z >> 31)
}
func (r *rng) below(n int) int     { return int(r.next() % uint64(n)) }
func (r *rng) chance(pct int) bool { return r.below(100) < pct }

var (
	out   = bufio.NewWriterSize(os.Stdout, 1<<20)
	stats = map[string]int{}
)

func emitC(stream, in, ans string) {
	fmt.Fprintf(out, "C\t%s\t%s\t%s\n", stream, in, ans)
	stats["pairs."+stream]++
}

func emitV(v map[string]any) {
	b, _ := json.Marshal(v)
	fmt.Fprintf(out, "V\t%s\n", b)
	stats["violations"]++
}

// ---------------------------------------------------------------- value syntax

func hx(b string) string {
	if b == "" {
		return "-"
	}
	return hex.EncodeToString([]byte(b))
}

func show(v starlark.Value) string {
	switch v := v.(type) {
	case starlark.String:
		return "s" + hx(string(v))
	case starlark.Bytes:
		return "b" + hx(string(v))
	case starlark.Tuple:
		parts := make([]string, len(v))
		for i, e := range v {
			parts[i] = show(e)
		}
		return "t(" + strings.Join(parts, ",") + ")"
	case *starlark.List:
		parts := make([]string, v.Len())
		for i := range parts {
			parts[i] = show(v.Index(i))
		}
		return "l(" + strings.Join(parts, ",") + ")"
	case *starlark.Dict:
		var parts []string
		for _, kv := range v.Items() {
			parts = append(parts, show(kv[0])+":"+show(kv[1]))
		}
		return "d(" + strings.Join(parts, ",") + ")"
	case starlark.NoneType:
		return "n"
	case starlark.Bool:
		if v {
			return "T"
		}
		return "F"
	case starlark.Int:
		return "i" + v.String()
	case starlark.Float:
		return "f" + v.String() // outside the Lean model's universe: judged on the implementation only
	}
	return fmt.Sprintf("?%s", v.Type())
}

type parser struct {
	s string
	i int
}

func (p *parser) fail(msg string) {
	panic(fmt.Sprintf("bad value syntax at %d in %q: %s", p.i, p.s, msg))
}

func (p *parser) hexRun() string {
	if p.i < len(p.s) && p.s[p.i] == '-' {
		p.i++
		return ""
	}
	j := p.i
	for j < len(p.s) && strings.IndexByte("0123456789abcdef", p.s[j]) >= 0 {
		j++
	}
	b, err := hex.DecodeString(p.s[p.i:j])
	if err != nil || j == p.i {
		p.fail("hex")
	}
	p.i = j
	return string(b)
}

func (p *parser) list() []starlark.Value {
	var vs []starlark.Value
	if p.s[p.i] == ')' {
		p.i++
		return vs
	}
	for {
		vs = append(vs, p.value())
		if p.s[p.i] == ',' {
			p.i++
			continue
		}
		if p.s[p.i] == ')' {
			p.i++
			return vs
		}
		p.fail("list")
	}
}

func (p *parser) value() starlark.Value {
	c := p.s[p.i]
	p.i++
	switch c {
	case 'n':
		return starlark.None
	case 'T':
		return starlark.True
	case 'F':
		return starlark.False
	case 'i':
		j := p.i
		if j < len(p.s) && p.s[j] == '-' {
			j++
		}
		for j < len(p.s) && p.s[j] >= '0' && p.s[j] <= '9' {
			j++
		}
		n, err := strconv.ParseInt(p.s[p.i:j], 10, 64)
		if err != nil {
			p.fail("int")
		}
		p.i = j
		return starlark.MakeInt64(n)
	case 'f':
		j := p.i
		for j < len(p.s) && strings.IndexByte("+-0123456789.einfa", p.s[j]) >= 0 {
			j++
		}
		x, err := strconv.ParseFloat(p.s[p.i:j], 64)
		if err != nil {
			p.fail("float")
		}
		p.i = j
		return starlark.Float(x)
	case 's':
		return starlark.String(p.hexRun())
	case 'b':
		return starlark.Bytes(p.hexRun())
	case 't', 'l':
		if p.s[p.i] != '(' {
			p.fail("(")
		}
		p.i++
		vs := p.list()
		if c == 't' {
			return starlark.Tuple(vs)
		}
		return starlark.NewList(vs)
	case 'd':
		if p.s[p.i] != '(' {
			p.fail("(")
		}
		p.i++
		d := starlark.NewDict(0)
		if p.s[p.i] == ')' {
			p.i++
			return d
		}
		for {
			k := p.value()
			if p.s[p.i] != ':' {
				p.fail(":")
			}
			p.i++
			v := p.value()
			if err := d.SetKey(k, v); err != nil {
				p.fail(err.Error())
			}
			if p.s[p.i] == ',' {
				p.i++
				continue
			}
			if p.s[p.i] == ')' {
				p.i++
				return d
			}
			p.fail("dict")
		}
	}
	p.fail("value")
	return nil
}

func parse(s string) starlark.Value {
	if s == "none" {
		return starlark.None
	}
	p := &parser{s: s}
	v := p.value()
	if p.i != len(s) {
		p.fail("trailing")
	}
	return v
}

// ---------------------------------------------------------------- rendering Go's diff in the model's canonical text

func showDiff(d diff.ValueDiff) string {
	switch d := d.(type) {
	case nil:
		return "nil"
	case *diff.LiteralDiff:
		return "L(" + show(d.Old()) + "," + show(d.New()) + ")"
	case *diff.SliceableDiff:
		var parts []string
		for _, e := range d.Edits() {
			parts = append(parts, showEdit(e))
		}
		return "S(" + show(d.Old()) + "," + show(d.New()) + ",[" + strings.Join(parts, ";") + "])"
	case *diff.MappingDiff:
		var parts []string
		it := d.Edits().Iterate()
		var k starlark.Value
		for it.Next(&k) {
			e, _, _ := d.Edits().Get(k)
			parts = append(parts, show(k)+">"+showEdit(e))
		}
		it.Done()
		return "M(" + show(d.Old()) + "," + show(d.New()) + ",{" + strings.Join(parts, ";") + "})"
	}
	return fmt.Sprintf("?diff %T", d)
}

func showEdit(v starlark.Value) string {
	e, ok := v.(*diff.Edit)
	if !ok {
		return fmt.Sprintf("?edit %T", v)
	}
	switch e.Kind() {
	case diff.EditKindDelete:
		return "-" + show(e.Sliceable)
	case diff.EditKindCommon:
		return "=" + show(e.Sliceable)
	case diff.EditKindAdd:
		return "+" + show(e.Sliceable)
	case diff.EditKindReplace:
		t, ok := e.Sliceable.(starlark.Tuple)
		if !ok {
			return fmt.Sprintf("?replace %T", e.Sliceable)
		}
		parts := make([]string, len(t))
		for i, x := range t {
			if x == starlark.None {
				parts[i] = "N"
			} else if vd, ok := x.(diff.ValueDiff); ok {
				parts[i] = showDiff(vd)
			} else {
				parts[i] = fmt.Sprintf("?%T", x)
			}
		}
		return "~(" + strings.Join(parts, ",") + ")"
	}
	return "?kind " + string(e.Kind())
}

func errKind(err error) string {
	if strings.Contains(err.Error(), "maximum recursion depth") {
		return "err depth"
	}
	return "err other: " + err.Error()
}

// runDiff calls the real DiffDepth (or the sequence diff with a chosen routeSize) under recover.
func runDiff(a, b starlark.Value, depth, routeSize int) (d diff.ValueDiff, err error, panicked string) {
	defer func() {
		if r := recover(); r != nil {
			panicked = fmt.Sprint(r)
		}
	}()
	if routeSize > 0 {
		d, err = diff.VerifDiffSliceRoute(a.(starlark.Sliceable), b.(starlark.Sliceable), depth-1, routeSize)
		return
	}
	d, err = diff.DiffDepth(a, b, depth)
	return
}

// ---------------------------------------------------------------- the property's own predicate, on the implementation

func height(v starlark.Value) int {
	h := 0
	switch v := v.(type) {
	case starlark.Tuple:
		for _, e := range v {
			if x := height(e); x > h {
				h = x
			}
		}
	case *starlark.List:
		for i := 0; i < v.Len(); i++ {
			if x := height(v.Index(i)); x > h {
				h = x
			}
		}
	case *starlark.Dict:
		for _, kv := range v.Items() {
			if x := height(kv[1]); x > h {
				h = x
			}
		}
	}
	return h + 1
}

func equal(x, y starlark.Value) bool {
	eq, err := starlark.EqualDepth(x, y, 2000)
	return err == nil && eq
}

// sameVal: the very value that was given, as far as a program can tell: same Go type, equal content, and the
// same printed form all the way down (== identifies 1 and 1.0, 0.0 and -0.0; a diff that hands back the one for the
// other does not reproduce the value)
func sameVal(x, y starlark.Value) bool {
	return reflect.TypeOf(x) == reflect.TypeOf(y) && equal(x, y) && x.String() == y.String()
}

func isSliceLike(v starlark.Value) bool {
	switch v.(type) {
	case starlark.String, starlark.Bytes:
		return true
	}
	return false
}

func elems(s starlark.Sliceable) []starlark.Value {
	out := make([]starlark.Value, s.Len())
	for i := range out {
		out[i] = s.Index(i)
	}
	return out
}

// judge checks that d is a faithful diff of (a, b); returns "" or what is wrong.
func judge(d diff.ValueDiff, a, b starlark.Value, depth int) string {
	eq, err := starlark.EqualDepth(a, b, depth)
	if err != nil {
		return "" // the comparison itself is refused at this depth; nothing to judge
	}
	if (d == nil) != eq {
		return fmt.Sprintf("diff is %s but equal(old,new) = %v", map[bool]string{true: "empty", false: "not empty"}[d == nil], eq)
	}
	if d == nil {
		return ""
	}
	if !sameVal(d.Old(), a) {
		return fmt.Sprintf("Old() is %s, the old value is %s", show(d.Old()), show(a))
	}
	if !sameVal(d.New(), b) {
		return fmt.Sprintf("New() is %s, the new value is %s", show(d.New()), show(b))
	}
	as, aSl := a.(starlark.Sliceable)
	bs, bSl := b.(starlark.Sliceable)
	am, aMap := a.(*starlark.Dict)
	bm, bMap := b.(*starlark.Dict)
	switch d := d.(type) {
	case *diff.LiteralDiff:
		if (aSl && bSl) || (aMap && bMap) {
			return "literal diff of two sequences or two mappings"
		}
		return ""
	case *diff.SliceableDiff:
		if !aSl || !bSl {
			return "sequence diff of values that are not both sequences"
		}
		return judgeSlice(d, as, bs, depth-1)
	case *diff.MappingDiff:
		if !aMap || !bMap {
			return "mapping diff of values that are not both mappings"
		}
		return judgeMapping(d, am, bm, depth-1)
	}
	return fmt.Sprintf("unknown diff type %T", d)
}

func judgeSlice(d *diff.SliceableDiff, a, b starlark.Sliceable, depth int) string {
	ae, be := elems(a), elems(b)
	i, j := 0, 0
	lit := isSliceLike(a) && isSliceLike(b)
	for _, ev := range d.Edits() {
		e, ok := ev.(*diff.Edit)
		if !ok {
			return fmt.Sprintf("edit of type %T", ev)
		}
		switch e.Kind() {
		case diff.EditKindCommon, diff.EditKindDelete, diff.EditKindAdd:
			for _, v := range elems(e.Sliceable) {
				if e.Kind() != diff.EditKindAdd {
					if i >= len(ae) || !sameVal(v, ae[i]) {
						return fmt.Sprintf("%s element %s is not element %d of the old sequence", e.Kind(), show(v), i)
					}
				}
				if e.Kind() == diff.EditKindAdd {
					if j >= len(be) || !sameVal(v, be[j]) {
						return fmt.Sprintf("added element %s is not element %d of the new sequence", show(v), j)
					}
				}
				if e.Kind() == diff.EditKindCommon {
					if j >= len(be) || !equal(v, be[j]) {
						return fmt.Sprintf("common element %s is not equal to element %d of the new sequence", show(v), j)
					}
				}
				if e.Kind() != diff.EditKindAdd {
					i++
				}
				if e.Kind() != diff.EditKindDelete {
					j++
				}
			}
			if e.Len() == 0 {
				return "empty edit"
			}
		case diff.EditKindReplace:
			t, ok := e.Sliceable.(starlark.Tuple)
			if !ok || len(t) == 0 {
				return "replace edit without element diffs"
			}
			if ld, ok := t[0].(*diff.LiteralDiff); ok && lit && len(t) == 1 {
				o, okO := ld.Old().(starlark.Sliceable)
				n, okN := ld.New().(starlark.Sliceable)
				if !okO || !okN || o.Len() != n.Len() || o.Len() == 0 {
					return "replace of string pieces of different or zero length"
				}
				if i+o.Len() > len(ae) || !sameVal(o, a.Slice(i, i+o.Len(), 1)) {
					return fmt.Sprintf("old side %s of a replace is not the old sequence at %d", show(o), i)
				}
				if j+n.Len() > len(be) || !sameVal(n, b.Slice(j, j+n.Len(), 1)) {
					return fmt.Sprintf("new side %s of a replace is not the new sequence at %d", show(n), j)
				}
				i, j = i+o.Len(), j+n.Len()
				continue
			}
			for _, x := range t {
				if i >= len(ae) || j >= len(be) {
					return "replace runs past the end of a sequence"
				}
				if x == starlark.None {
					// a None inside a replace stands for a pair of equal elements (DESIGN.md §5) and is checked as such;
					// it only arises when compose restarts on long inputs (route list above routeSize)
					if !equal(ae[i], be[j]) {
						return fmt.Sprintf("None inside a replace for the unequal elements %d/%d", i, j)
					}
					stats["none_in_replace"]++
					i, j = i+1, j+1
					continue
				}
				vd, ok := x.(diff.ValueDiff)
				if !ok {
					return fmt.Sprintf("replace entry of type %T", x)
				}
				if msg := judge(vd, ae[i], be[j], depth); msg != "" {
					return fmt.Sprintf("in replace of elements %d/%d: %s", i, j, msg)
				}
				i, j = i+1, j+1
			}
		default:
			return "edit of unknown kind " + string(e.Kind())
		}
	}
	if i != len(ae) || j != len(be) {
		return fmt.Sprintf("the edits cover %d of %d old and %d of %d new elements", i, len(ae), j, len(be))
	}
	return ""
}

func judgeMapping(d *diff.MappingDiff, a, b *starlark.Dict, depth int) string {
	want := 0
	check := func(k starlark.Value, kind starlark.String, f func(e *diff.Edit) string) string {
		ev, has, _ := d.Edits().Get(k)
		if !has {
			return fmt.Sprintf("no edit for key %s (%s expected)", show(k), kind)
		}
		e, ok := ev.(*diff.Edit)
		if !ok || e.Kind() != kind || e.Len() != 1 {
			return fmt.Sprintf("edit for key %s is not a single-element %s", show(k), kind)
		}
		want++
		return f(e)
	}
	for _, kv := range a.Items() {
		k, ov := kv[0], kv[1]
		nv, has, _ := b.Get(k)
		var msg string
		switch {
		case !has:
			msg = check(k, diff.EditKindDelete, func(e *diff.Edit) string {
				if !sameVal(e.Index(0), ov) {
					return "deleted value is not the old value of key " + show(k)
				}
				return ""
			})
		case !equal(ov, nv):
			msg = check(k, diff.EditKindReplace, func(e *diff.Edit) string {
				vd, ok := e.Index(0).(diff.ValueDiff)
				if !ok {
					return "replace without a diff for key " + show(k)
				}
				return judge(vd, ov, nv, depth)
			})
		default:
			if _, has, _ := d.Edits().Get(k); has {
				msg = "edit for unchanged key " + show(k)
			}
		}
		if msg != "" {
			return msg
		}
	}
	for _, kv := range b.Items() {
		k, nv := kv[0], kv[1]
		if _, has, _ := a.Get(k); !has {
			if msg := check(k, diff.EditKindAdd, func(e *diff.Edit) string {
				if !sameVal(e.Index(0), nv) {
					return "added value is not the new value of key " + show(k)
				}
				return ""
			}); msg != "" {
				return msg
			}
		}
	}
	if n := d.Edits().(*starlark.Dict).Len(); n != want {
		return fmt.Sprintf("%d edits for %d keys added, removed or changed", n, want)
	}
	return ""
}

// ---------------------------------------------------------------- one case

type caseIn struct {
	Stream    string `json:"stream"`
	Old       string `json:"old"`
	New       string `json:"new"`
	Depth     int    `json:"depth"`
	RouteSize int    `json:"routeSize,omitempty"`
	Alias     string `json:"alias,omitempty"`
}

// progress of the harness, watched by main: the case being run and how many have been started
var (
	progress  atomic.Int64
	currentIn atomic.Value
)

func diffCase(stream string, a, b starlark.Value, depth, routeSize int) {
	in := caseIn{Stream: stream, Old: show(a), New: show(b), Depth: depth, RouteSize: routeSize}
	currentIn.Store(in)
	progress.Add(1)
	d, err, panicked := runDiff(a, b, depth, routeSize)
	var ans string
	switch {
	case panicked != "":
		ans = "err panic"
		emitV(map[string]any{"kind": "panic", "detail": "DiffDepth panicked: " + panicked, "input": in})
	case err != nil:
		ans = errKind(err)
		if height(a) <= depth && height(b) <= depth && depth <= 1000 {
			emitV(map[string]any{"kind": "error", "detail": "DiffDepth failed on comparable values: " + err.Error(), "input": in})
		}
	default:
		ans = showDiff(d)
		if msg := judge(d, a, b, depth); msg != "" {
			kind := "unfaithful"
			if strings.Contains(msg, "Old() is") || strings.Contains(msg, "New() is") {
				kind = "sides"
			} else if strings.Contains(msg, "None inside") {
				kind = "none-in-replace"
			} else if strings.Contains(msg, "equal(old,new)") {
				kind = "empty-iff-equal"
			}
			emitV(map[string]any{"kind": kind, "detail": msg + "; diff = " + ans, "input": in})
		}
	}
	stats["judged"]++
	if d != nil {
		stats["nonempty"]++
	}
	if !modelable(a) || !modelable(b) {
		stats["judge_only"]++
	} else if routeSize > 0 {
		emitC(stream, fmt.Sprintf("diffr %d %d %s %s", routeSize, depth, in.Old, in.New), ans)
	} else {
		emitC(stream, fmt.Sprintf("diff %d %s %s", depth, in.Old, in.New), ans)
	}
}

func eqCase(a, b starlark.Value, depth int) {
	eq, err := starlark.EqualDepth(a, b, depth)
	ans := fmt.Sprint(eq)
	if err != nil {
		ans = errKind(err)
	}
	emitC("diff.equal", fmt.Sprintf("eq %d %s %s", depth, show(a), show(b)), ans)
}

// ---------------------------------------------------------------- diffEnv

func canonEnvErr(err error) string {
	m := err.Error()
	switch {
	case strings.HasPrefix(m, "comparing function environments"):
		return "comparing function environments"
	case strings.HasPrefix(m, "diffing environments"):
		return "diffing environments"
	case strings.HasPrefix(m, "old environment is not a dict"):
		return "old environment is not a dict"
	case strings.HasPrefix(m, "new environment is not a dict"):
		return "new environment is not a dict"
	}
	return m
}

// modelable: the value lies in the universe of the Lean model (no floats)
func modelable(v starlark.Value) bool {
	switch v := v.(type) {
	case starlark.Float:
		return false
	case starlark.Tuple:
		for _, e := range v {
			if !modelable(e) {
				return false
			}
		}
	case *starlark.List:
		for i := 0; i < v.Len(); i++ {
			if !modelable(v.Index(i)) {
				return false
			}
		}
	case *starlark.Dict:
		for _, kv := range v.Items() {
			if !modelable(kv[0]) || !modelable(kv[1]) {
				return false
			}
		}
	}
	return true
}

// envCase drives (*function).diffEnv with the two environments and their REAL encodings (the pickle text the
// code keeps next to each decoded environment). alias names a built-in pair that the value syntax cannot express
// (sharing, floats); it is what a replay needs to rebuild the pair.
func envCase(oldEnv, newEnv starlark.Value, alias string) {
	in := map[string]any{"stream": "diff.env", "old": show(oldEnv), "new": show(newEnv)}
	if alias != "" {
		in["alias"] = alias
	}
	var oldData, newData string
	var err error
	if oldEnv != starlark.None {
		if oldData, err = dawn.VerifEncodeEnv(oldEnv); err != nil {
			panic(err)
		}
	}
	if newData, err = dawn.VerifEncodeEnv(newEnv); err != nil {
		panic(err)
	}
	sameEncoding := oldEnv != starlark.None && oldData == newData
	eq, reason, d, err, panicked := dawn.VerifDiffEnv(oldEnv, newEnv, oldData, newData)
	se := "0"
	if sameEncoding {
		se = "1"
		stats["env.same_encoding"]++
	}
	var ans string
	switch {
	case panicked != "":
		ans = "panic"
	case err != nil:
		ans = "error " + hx(canonEnvErr(err))
	case eq:
		ans = "same"
	case reason == "environment changed" && d == nil:
		ans = "changed-opaque"
	case oldEnv == starlark.None:
		ans = "never"
		if reason != "target has never been run" {
			emitV(map[string]any{"kind": "reason", "detail": "reason for a target without a record: " + reason, "input": in})
		}
	default:
		ans = "changed " + hx(reason) + " " + showDiff(d)
	}
	if modelable(oldEnv) && modelable(newEnv) {
		oldText := show(oldEnv)
		if oldEnv == starlark.None {
			oldText = "none" // no record: the target has never been run
		}
		emitC("diff.env", "env "+se+" "+oldText+" "+show(newEnv), ans)
	} else {
		stats["env.judge_only"]++
	}
	stats["env.judged"]++
	if oldEnv == starlark.None || panicked != "" {
		if panicked != "" {
			emitV(map[string]any{"kind": "reason", "detail": "diffEnv panicked: " + panicked, "input": in})
		}
		return
	}
	// up to date exactly when the encodings are equal
	if eq != sameEncoding {
		emitV(map[string]any{"kind": "reason", "detail": fmt.Sprintf("reported up to date = %v, encodings equal = %v", eq, sameEncoding), "input": in})
		return
	}
	// equal encodings decode to equal environments
	if sameEncoding && !equal(oldEnv, newEnv) {
		emitV(map[string]any{"kind": "encoding", "detail": "two environments that are not == have the same encoding", "input": in})
	}
	if sameEncoding {
		return
	}
	od, ok1 := oldEnv.(*starlark.Dict)
	nd, ok2 := newEnv.(*starlark.Dict)
	if !ok1 || !ok2 {
		if equal(oldEnv, newEnv) && ans != "changed-opaque" {
			emitV(map[string]any{"kind": "reason", "detail": "environments that compare equal but are encoded differently: " + ans, "input": in})
		}
		return
	}
	if err != nil {
		emitV(map[string]any{"kind": "reason", "detail": "diffEnv failed on two environment dicts: " + ans, "input": in})
		return
	}
	// the parts that differ by ==
	var differ []string
	for _, k := range dawn.VerifFunctionEnvKeys() {
		ov, oh, _ := od.Get(starlark.String(k))
		nv, nh, _ := nd.Get(starlark.String(k))
		if oh != nh || (oh && !equal(ov, nv)) {
			differ = append(differ, k)
		}
	}
	if equal(oldEnv, newEnv) {
		// no part differs by == although the encodings differ (1 and 1.0, 0.0 and -0.0, sharing): the generic
		// reason, and no diff
		stats["env.equal_but_distinguishable"]++
		if ans != "changed-opaque" {
			emitV(map[string]any{"kind": "reason", "detail": fmt.Sprintf("the environments are == and encoded differently; expected (false, \"environment changed\", no diff), got %s", ans), "input": in})
		}
		return
	}
	if len(differ) == 0 {
		// the environments differ only in a key outside functionEnvKeys: nothing the reason could name; the generic
		// reason, with the (faithful) diff
		stats["env.differs_outside_keys"]++
		if reason != "environment changed" || d == nil {
			emitV(map[string]any{"kind": "reason", "detail": fmt.Sprintf("the environments differ in no listed part; expected (false, \"environment changed\", diff), got %s", ans), "input": in})
		} else if msg := judge(d, oldEnv, newEnv, 1000); msg != "" {
			emitV(map[string]any{"kind": "unfaithful", "detail": "diff shown with the generic reason: " + msg, "input": in})
		}
		return
	}
	var want string
	switch len(differ) {
	case 1:
		want = differ[0]
	case 2:
		want = differ[0] + " and " + differ[1]
	default:
		want = strings.Join(differ[:len(differ)-1], ", ") + ", and " + differ[len(differ)-1]
	}
	want += " changed"
	stats[fmt.Sprintf("env.parts.%d", len(differ))]++
	if reason != want {
		emitV(map[string]any{"kind": "reason", "detail": fmt.Sprintf("reason %q, the parts that differ give %q", reason, want), "input": in})
	}
	if d == nil {
		emitV(map[string]any{"kind": "reason", "detail": "no diff shown with a reason that names parts", "input": in})
	} else if msg := judge(d, oldEnv, newEnv, 1000); msg != "" {
		emitV(map[string]any{"kind": "unfaithful", "detail": "diff shown with the reason: " + msg, "input": in})
	}
}

func mustJSON(v any) string {
	b, _ := json.Marshal(v)
	return string(b)
}

func main() {
	seed := flag.Uint64("seed", 1, "")
	tier := flag.String("tier", "quick", "")
	replay := flag.String("replay", "", "")
	flag.Parse()
	done := make(chan struct{})
	go func() {
		defer close(done)
		if *replay != "" {
			var in caseIn
			if err := json.Unmarshal([]byte(*replay), &in); err != nil {
				fmt.Fprintln(os.Stderr, "bad replay input:", err)
				os.Exit(2)
			}
			if in.Stream == "diff.env" {
				if in.Alias != "" {
					for _, ac := range envAliasCases() {
						if ac.name == in.Alias {
							envCase(ac.old, ac.new, ac.name)
						}
					}
				} else {
					envCase(parse(in.Old), parse(in.New), "")
				}
			} else {
				diffCase(in.Stream, parse(in.Old), parse(in.New), in.Depth, in.RouteSize)
			}
			return
		}
		streams(&rng{s: *seed}, *tier)
	}()
	// watchdog: a single diff that makes no progress for 60 s is reported as a hang with its input
	last, lastAt := int64(-1), time.Now()
wait:
	for {
		select {
		case <-done:
			break wait
		case <-time.After(2 * time.Second):
			if p := progress.Load(); p != last {
				last, lastAt = p, time.Now()
			} else if time.Since(lastAt) > 60*time.Second {
				fmt.Fprintf(out, "V\t%s\n", mustJSON(map[string]any{"kind": "hang", "detail": "no progress for 60 s", "input": currentIn.Load()}))
				out.Flush()
				os.Exit(3)
			}
		}
	}
	b, _ := json.Marshal(stats)
	fmt.Fprintf(out, "S\t%s\n", b)
	out.Flush()
}

package main

import (
	"math"

	"github.com/pgavlin/dawn"
	"go.starlark.net/starlark"
)

func dawn_keys() []string { return dawn.VerifFunctionEnvKeys() }

var letters = []byte{'a', 'b', 'c'}

// allWords: every word over the 3-letter alphabet of length 0..max, shortest first
func allWords(max int) [][]byte {
	out := [][]byte{{}}
	prev := [][]byte{{}}
	for l := 1; l <= max; l++ {
		var cur [][]byte
		for _, w := range prev {
			for _, c := range letters {
				cur = append(cur, append(append([]byte{}, w...), c))
			}
		}
		out = append(out, cur...)
		prev = cur
	}
	return out
}

// mk builds a sequence of the given kind from a word: s string, b bytes, t tuple of one-letter strings, l list
func mk(kind byte, w []byte) starlark.Value {
	switch kind {
	case 's':
		return starlark.String(w)
	case 'b':
		return starlark.Bytes(w)
	}
	vs := make([]starlark.Value, len(w))
	for i, c := range w {
		vs[i] = starlark.String([]byte{c})
	}
	if kind == 't' {
		return starlark.Tuple(vs)
	}
	return starlark.NewList(vs)
}

func randWord(r *rng, n int) []byte {
	w := make([]byte, n)
	for i := range w {
		w[i] = letters[r.below(3)]
	}
	return w
}

// mutateWord applies k random single-element edits
func mutateWord(r *rng, w []byte, k int) []byte {
	w = append([]byte{}, w...)
	for ; k > 0; k-- {
		switch r.below(3) {
		case 0: // insert
			at := r.below(len(w) + 1)
			w = append(w[:at], append([]byte{letters[r.below(3)]}, w[at:]...)...)
		case 1: // delete
			if len(w) > 0 {
				at := r.below(len(w))
				w = append(w[:at], w[at+1:]...)
			}
		default: // substitute
			if len(w) > 0 {
				w[r.below(len(w))] = letters[r.below(3)]
			}
		}
	}
	return w
}

var dictKeys = []starlark.Value{starlark.String("a"), starlark.String("b"), starlark.Bytes("c"),
	starlark.Tuple{starlark.String("a")}, starlark.String(""), starlark.Tuple{},
	starlark.None, starlark.False, starlark.MakeInt(0), starlark.MakeInt(1), starlark.Tuple{starlark.None}}

// zero-like and other atomic values: as dict values, dict keys (where hashable) and sequence elements
func atom(r *rng) starlark.Value {
	switch r.below(10) {
	case 0, 1:
		return starlark.None
	case 2:
		return starlark.False
	case 3:
		return starlark.True
	case 4:
		return starlark.MakeInt(0)
	case 5:
		return starlark.MakeInt(r.below(3) - 1)
	case 6:
		return starlark.String("")
	case 7:
		return starlark.Tuple{}
	case 8:
		return starlark.NewList(nil)
	}
	return starlark.Bytes("")
}

// the zero-like values the exhaustive small enumerations are built from
func zeros() []starlark.Value {
	return []starlark.Value{starlark.None, starlark.False, starlark.MakeInt(0), starlark.String(""), starlark.Tuple{}, starlark.NewList(nil)}
}

// randVal: a random nested value of height at most h
func randVal(r *rng, h int) starlark.Value {
	if r.chance(22) {
		return atom(r)
	}
	if h <= 1 || r.chance(30) {
		w := randWord(r, r.below(4))
		if r.chance(70) {
			return starlark.String(w)
		}
		return starlark.Bytes(w)
	}
	switch r.below(3) {
	case 0, 1:
		n := r.below(5)
		vs := make([]starlark.Value, n)
		for i := range vs {
			vs[i] = randVal(r, h-1)
		}
		if r.chance(50) {
			return starlark.Tuple(vs)
		}
		return starlark.NewList(vs)
	default:
		d := starlark.NewDict(0)
		for n := r.below(4); n > 0; n-- {
			d.SetKey(dictKeys[r.below(len(dictKeys))], randVal(r, h-1))
		}
		return d
	}
}

func clone(v starlark.Value) starlark.Value {
	switch v := v.(type) {
	case starlark.Tuple:
		out := make(starlark.Tuple, len(v))
		for i, e := range v {
			out[i] = clone(e)
		}
		return out
	case *starlark.List:
		out := make([]starlark.Value, v.Len())
		for i := range out {
			out[i] = clone(v.Index(i))
		}
		return starlark.NewList(out)
	case *starlark.Dict:
		d := starlark.NewDict(v.Len())
		for _, kv := range v.Items() {
			d.SetKey(kv[0], clone(kv[1]))
		}
		return d
	}
	return v
}

// mutate returns a changed copy of v: somewhere inside, an element is inserted, removed, replaced, a container
// changes its kind, a dict gains, loses or reorders a key
func mutate(r *rng, v starlark.Value, h int) starlark.Value {
	switch v := v.(type) {
	case starlark.NoneType, starlark.Bool, starlark.Int:
		if r.chance(50) {
			return atom(r)
		}
		return randVal(r, h)
	case starlark.String:
		if r.chance(15) {
			return atom(r)
		}
		return starlark.String(mutateWord(r, []byte(v), 1+r.below(2)))
	case starlark.Bytes:
		if r.chance(20) {
			return starlark.String(v)
		}
		return starlark.Bytes(mutateWord(r, []byte(v), 1+r.below(2)))
	case starlark.Tuple, *starlark.List:
		var es []starlark.Value
		if t, ok := v.(starlark.Tuple); ok {
			es = append(es, t...)
		} else {
			l := v.(*starlark.List)
			for i := 0; i < l.Len(); i++ {
				es = append(es, l.Index(i))
			}
		}
		_, isTuple := v.(starlark.Tuple)
		switch c := r.below(10); {
		case c == 0:
			isTuple = !isTuple
		case c <= 2 || len(es) == 0:
			at := r.below(len(es) + 1)
			es = append(es[:at:at], append([]starlark.Value{randVal(r, h-1)}, es[at:]...)...)
		case c <= 4:
			at := r.below(len(es))
			es = append(es[:at:at], es[at+1:]...)
		case c <= 5:
			at := r.below(len(es))
			es[at] = randVal(r, h-1)
		default:
			at := r.below(len(es))
			es[at] = mutate(r, es[at], h-1)
		}
		if isTuple {
			return starlark.Tuple(es)
		}
		return starlark.NewList(es)
	case *starlark.Dict:
		items := v.Items()
		d := starlark.NewDict(len(items))
		switch c := r.below(10); {
		case c <= 1 && len(items) > 1: // same content, other insertion order
			for i := len(items) - 1; i >= 0; i-- {
				d.SetKey(items[i][0], items[i][1])
			}
		case c <= 3 || len(items) == 0:
			for _, kv := range items {
				d.SetKey(kv[0], kv[1])
			}
			d.SetKey(dictKeys[r.below(len(dictKeys))], randVal(r, h-1))
		case c <= 5:
			drop := r.below(len(items))
			for i, kv := range items {
				if i != drop {
					d.SetKey(kv[0], kv[1])
				}
			}
		default:
			ch := r.below(len(items))
			for i, kv := range items {
				if i == ch {
					d.SetKey(kv[0], mutate(r, kv[1], h-1))
				} else {
					d.SetKey(kv[0], kv[1])
				}
			}
		}
		return d
	}
	return v
}

func streams(r *rng, tier string) {
	thorough := tier == "thorough"
	// 1. strings: every pair of words up to length 5 (6 thorough) over {a,b,c}: all relative lengths
	maxS := 5
	if thorough {
		maxS = 6
	}
	ws := allWords(maxS)
	for _, x := range ws {
		for _, y := range ws {
			diffCase("diff.strings", starlark.String(x), starlark.String(y), 10, 0)
		}
	}
	// 2. the other kinds and every mix of kinds: every pair of words up to length 3 (4); and, for each pair of
	//    lengths up to 5 (6), random words of those lengths
	maxK := 3
	if thorough {
		maxK = 4
	}
	wk := allWords(maxK)
	kinds := []byte{'s', 'b', 't', 'l'}
	for _, ka := range kinds {
		for _, kb := range kinds {
			if ka == 's' && kb == 's' {
				continue
			}
			for _, x := range wk {
				for _, y := range wk {
					diffCase("diff.kinds", mk(ka, x), mk(kb, y), 10, 0)
				}
			}
			reps := 3
			if thorough {
				reps = 25
			}
			for la := 0; la <= maxS; la++ {
				for lb := 0; lb <= maxS; lb++ {
					for i := 0; i < reps; i++ {
						diffCase("diff.kinds", mk(ka, randWord(r, la)), mk(kb, randWord(r, lb)), 10, 0)
					}
				}
			}
		}
	}
	// 3. long sequences, up to 200 elements: a word and an edited copy, and unrelated words
	nLong := 300
	if thorough {
		nLong = 8000
	}
	for i := 0; i < nLong; i++ {
		n := 1 + r.below(200)
		if r.chance(30) {
			n = 150 + r.below(51)
		}
		x := randWord(r, n)
		var y []byte
		if r.chance(75) {
			y = mutateWord(r, x, 1+r.below(20))
		} else {
			y = randWord(r, r.below(201))
		}
		ka, kb := kinds[r.below(4)], kinds[r.below(4)]
		if r.chance(70) {
			kb = ka
		}
		diffCase("diff.long", mk(ka, x), mk(kb, y), 10, 0)
	}
	// 4. nested values: tuples, lists and dicts of strings, bytes and each other; a value and a mutated copy,
	//    unrelated values, and the same value twice
	nNested := 6000
	if thorough {
		nNested = 250000
	}
	for i := 0; i < nNested; i++ {
		h := 2 + r.below(3)
		a := randVal(r, h)
		var b starlark.Value
		switch c := r.below(10); {
		case c == 0:
			b = clone(a)
		case c <= 2:
			b = randVal(r, h)
		case c <= 6:
			b = mutate(r, clone(a), h)
		default:
			b = mutate(r, mutate(r, clone(a), h), h)
		}
		diffCase("diff.nested", a, b, 10, 0)
		if i%4 == 0 {
			eqCase(a, b, 10)
			eqCase(a, b, 1+r.below(4))
		}
	}
	// 4b. zero-like values, exhaustively: None, False, 0, "", (), [] as sequence elements (all tuples and lists of
	//     up to 2 of them, every pair) and as dict values and keys (all dicts of up to 2 entries over 3 (6 thorough)
	//     hashable keys and the 6 values, every ordered pair)
	zs := zeros()
	var zseqs [][]starlark.Value
	zseqs = append(zseqs, nil)
	for _, x := range zs {
		zseqs = append(zseqs, []starlark.Value{x})
		for _, y := range zs {
			zseqs = append(zseqs, []starlark.Value{x, y})
		}
	}
	mkSeq := func(kind byte, es []starlark.Value) starlark.Value {
		c := make([]starlark.Value, len(es))
		for i, e := range es {
			c[i] = clone(e)
		}
		if kind == 't' {
			return starlark.Tuple(c)
		}
		return starlark.NewList(c)
	}
	for _, kk := range [][2]byte{{'t', 't'}, {'l', 'l'}, {'t', 'l'}} {
		for _, x := range zseqs {
			for _, y := range zseqs {
				diffCase("diff.zero", mkSeq(kk[0], x), mkSeq(kk[1], y), 10, 0)
			}
		}
	}
	zkeys := []starlark.Value{starlark.None, starlark.MakeInt(0), starlark.String("a")}
	if thorough {
		zkeys = append(zkeys, starlark.False, starlark.String(""), starlark.Tuple{})
	}
	type entry struct{ k, v starlark.Value }
	var zdicts [][]entry
	zdicts = append(zdicts, nil)
	for _, k1 := range zkeys {
		for _, v1 := range zs {
			zdicts = append(zdicts, []entry{{k1, v1}})
			for _, k2 := range zkeys {
				if equal(k1, k2) {
					continue
				}
				for _, v2 := range zs {
					zdicts = append(zdicts, []entry{{k1, v1}, {k2, v2}})
				}
			}
		}
	}
	mkDict := func(es []entry) starlark.Value {
		d := starlark.NewDict(len(es))
		for _, e := range es {
			d.SetKey(e.k, clone(e.v))
		}
		return d
	}
	for i, x := range zdicts {
		for j, y := range zdicts {
			if thorough && (i*31+j)%4 != 0 { // 859 dicts: every fourth pair
				continue
			}
			diffCase("diff.zerodict", mkDict(x), mkDict(y), 10, 0)
		}
	}
	// 4c. elements that are == but that a program can tell apart (1 and 1.0, 2 and 2.0, 0.0 and -0.0, 0 and -0.0): all
	//     tuples and lists of up to 3 (4 thorough) elements over {1, 1.0, 2, 2.0, 0.0, -0.0, "a"}, the old one against the
	//     new one with each number in its other form, shortened, lengthened and as it is: the kept elements must be
	//     the OLD value's, whichever side is longer (judged on the implementation; floats are not in the Lean model)
	nums := []starlark.Value{starlark.MakeInt(1), starlark.Float(1), starlark.MakeInt(2), starlark.Float(2),
		starlark.Float(0), starlark.Float(math.Copysign(0, -1)), starlark.String("a")}
	twin := func(v starlark.Value) starlark.Value {
		switch v := v.(type) {
		case starlark.Int:
			x, _ := starlark.AsFloat(v)
			return starlark.Float(x)
		case starlark.Float:
			if v == 0 {
				if math.Signbit(float64(v)) {
					return starlark.Float(0)
				}
				return starlark.Float(math.Copysign(0, -1))
			}
			return starlark.MakeInt(int(v))
		}
		return v
	}
	maxN := 3
	if thorough {
		maxN = 4
	}
	var numSeqs [][]starlark.Value
	var build func(prefix []starlark.Value)
	build = func(prefix []starlark.Value) {
		numSeqs = append(numSeqs, append([]starlark.Value(nil), prefix...))
		if len(prefix) == maxN {
			return
		}
		for _, x := range nums {
			build(append(prefix, x))
		}
	}
	build(nil)
	for si, xs := range numSeqs {
		tw := make([]starlark.Value, len(xs))
		for i, x := range xs {
			tw[i] = twin(x)
		}
		variants := [][]starlark.Value{tw, xs}
		if len(tw) > 0 {
			variants = append(variants, tw[:len(tw)-1], tw[1:], append(append([]starlark.Value(nil), tw...), starlark.String("z")),
				append([]starlark.Value{starlark.String("z")}, tw...))
		}
		for vi, ys := range variants {
			ka, kb := byte('t'), byte('t')
			if (si+vi)%3 == 1 {
				ka, kb = 'l', 'l'
			} else if (si+vi)%3 == 2 {
				kb = 'l'
			}
			diffCase("diff.numeric", mkSeq(ka, xs), mkSeq(kb, ys), 10, 0)
		}
	}
	// 5. the depth limit: small depths against values of height 1..5
	nDepth := 1500
	if thorough {
		nDepth = 40000
	}
	for i := 0; i < nDepth; i++ {
		h := 1 + r.below(5)
		a := randVal(r, h)
		b := mutate(r, clone(a), h)
		diffCase("diff.depth", a, b, r.below(6), 0)
	}
	// 6. the restart path of compose: a small routeSize, unequal sequences of any kind
	nRestart := 3000
	if thorough {
		nRestart = 120000
	}
	sizes := []int{1, 2, 3, 4, 5, 8, 13, 30}
	for i := 0; i < nRestart; i++ {
		x := randWord(r, r.below(13))
		var y []byte
		if r.chance(50) {
			y = mutateWord(r, x, 1+r.below(5))
		} else {
			y = randWord(r, r.below(13))
		}
		ka := kinds[r.below(4)]
		a, b := mk(ka, x), mk(ka, y)
		if equal(a, b) {
			continue
		}
		diffCase("diff.restart", a, b, 10, sizes[r.below(len(sizes))])
	}
	for _, x := range wk {
		for _, y := range wk {
			if string(x) != string(y) {
				diffCase("diff.restart", starlark.String(x), starlark.String(y), 10, 1+r.below(3))
			}
		}
	}
	// 7. the rebuild reason: pairs of environment dicts over the keys of functionEnvKeys
	envStream(r, thorough)
}

var envVals = []func() starlark.Value{
	func() starlark.Value { return starlark.None },
	func() starlark.Value { return starlark.False },
	func() starlark.Value { return starlark.MakeInt(0) },
	func() starlark.Value { return starlark.String("") },
	func() starlark.Value { return starlark.NewList(nil) },
	func() starlark.Value { return starlark.String("x") },
	func() starlark.Value { return starlark.String("y") },
	func() starlark.Value { return starlark.Tuple{} },
	func() starlark.Value { return starlark.Tuple{starlark.String("x"), starlark.Bytes("\x01")} },
	func() starlark.Value { return starlark.Bytes("\x01\x02") },
	func() starlark.Value { d := starlark.NewDict(0); return d },
	func() starlark.Value {
		d := starlark.NewDict(1)
		d.SetKey(starlark.String("k"), starlark.String("v"))
		return d
	},
	func() starlark.Value {
		d := starlark.NewDict(1)
		d.SetKey(starlark.String("k"), starlark.NewList([]starlark.Value{starlark.String("w")}))
		return d
	},
}

func envStream(r *rng, thorough bool) {
	keys := dawn_keys()
	n := 3000
	if thorough {
		n = 100000
	}
	for i := 0; i < n; i++ {
		old := starlark.NewDict(0)
		for _, k := range keys {
			if r.chance(75) {
				old.SetKey(starlark.String(k), envVals[r.below(len(envVals))]())
			}
		}
		if r.chance(6) {
			old.SetKey(starlark.String("something else"), starlark.String("x"))
		}
		nw := starlark.NewDict(0)
		changes := r.below(4)
		if r.chance(10) {
			changes = 4 + r.below(6)
		}
		items := old.Items()
		if r.chance(15) { // another insertion order
			for a, b := 0, len(items)-1; a < b; a, b = a+1, b-1 {
				items[a], items[b] = items[b], items[a]
			}
		}
		for _, kv := range items {
			nw.SetKey(kv[0], clone(kv[1]))
		}
		if r.chance(4) { // differ only in a part that is not listed
			changes = 0
			nw.SetKey(starlark.String("something else"), starlark.String("z"))
		}
		for ; changes > 0; changes-- {
			k := starlark.String(keys[r.below(len(keys))])
			switch r.below(3) {
			case 0:
				nw.Delete(k)
			default:
				nw.SetKey(k, envVals[r.below(len(envVals))]())
			}
		}
		var o, nn starlark.Value = old, nw
		switch c := r.below(100); {
		case c < 4:
			o = starlark.None
		case c < 6:
			o = starlark.Tuple{starlark.String("x")}
		case c < 8:
			nn = starlark.String("x")
		}
		envCase(o, nn, "")
		if i%10 == 0 && o != starlark.None {
			// the same environment again (a structurally identical copy has the same encoding)
			envCase(o, clone(o), "")
		}
	}
	for _, ac := range envAliasCases() {
		envCase(ac.old, ac.new, ac.name)
	}
	// deeply nested parts (depth 6..40, far below the limit 1000 diffEnv compares and diffs with, far above
	// CompareLimit = 10): an unchanged deep part next to a changed shallow one, and a changed deep part; the reason
	// must still name exactly the differing parts and come with a faithful diff
	for n := 6; n <= 40; n++ {
		for kind := 0; kind < 3; kind++ {
			mkEnv := func(leaf string, code string, extra bool) *starlark.Dict {
				d := starlark.NewDict(4)
				g := starlark.NewDict(1)
				g.SetKey(starlark.String("D"), deepVal(n, kind, leaf))
				d.SetKey(starlark.String("names"), starlark.Tuple{starlark.String("n")})
				d.SetKey(starlark.String("global values"), g)
				if extra {
					d.SetKey(starlark.String("constant values"), starlark.Tuple{deepVal(n/2, (kind+1)%3, "k")})
				}
				d.SetKey(starlark.String("code"), starlark.Bytes(code))
				return d
			}
			extra := r.chance(50)
			envCase(mkEnv("x", "c", extra), mkEnv("x", "d", extra), "")  // deep part unchanged, code changed
			envCase(mkEnv("x", "c", extra), mkEnv("y", "c", extra), "")  // deep part changed at its leaf
			envCase(mkEnv("x", "c", extra), mkEnv("y", "d", !extra), "") // deep part, code and a part added/removed
			envCase(mkEnv("x", "c", extra), mkEnv("x", "c", extra), "")  // nothing changed
			stats["env.deep"] += 4
		}
	}
}

type aliasCase struct {
	name     string
	old, new starlark.Value
}

// envAliasCases: pairs of environments that are == but that a function can tell apart, so that their encodings
// differ (1 and 1.0, 0.0 and -0.0, one shared list and two equal lists), each alone and next to a real change;
// and the same pairs the other way round.
func envAliasCases() []aliasCase {
	env := func(kvs ...any) *starlark.Dict {
		d := starlark.NewDict(len(kvs) / 2)
		for i := 0; i < len(kvs); i += 2 {
			d.SetKey(starlark.String(kvs[i].(string)), kvs[i+1].(starlark.Value))
		}
		return d
	}
	lst := func(vs ...starlark.Value) *starlark.List { return starlark.NewList(vs) }
	shared := lst(starlark.String("x"))
	negZero := starlark.Float(math.Copysign(0, -1))
	var out []aliasCase
	add := func(name string, a, b starlark.Value) {
		out = append(out, aliasCase{name, a, b}, aliasCase{name + ".rev", b, a})
	}
	add("int-float", env("constant values", starlark.Tuple{starlark.MakeInt(1)}, "code", starlark.Bytes("c")),
		env("constant values", starlark.Tuple{starlark.Float(1)}, "code", starlark.Bytes("c")))
	add("int-float-global", env("global values", env("X", starlark.MakeInt(1))), env("global values", env("X", starlark.Float(1))))
	add("zero-negzero", env("constant values", starlark.Tuple{starlark.Float(0)}), env("constant values", starlark.Tuple{negZero}))
	add("int0-negzero", env("default parameter values", env("p", starlark.MakeInt(0))), env("default parameter values", env("p", negZero)))
	add("sharing", env("global values", env("A", shared, "B", shared)),
		env("global values", env("A", lst(starlark.String("x")), "B", lst(starlark.String("x")))))
	add("sharing-across-parts", env("global values", env("A", shared), "free variables", env("f", shared)),
		env("global values", env("A", lst(starlark.String("x"))), "free variables", env("f", lst(starlark.String("x")))))
	add("sharing-tuple", starlark.Tuple{shared, shared}, starlark.Tuple{lst(starlark.String("x")), lst(starlark.String("x"))})
	// next to a real change: the reason names the part that differs by ==, not the aliasing
	add("int-float-and-code", env("constant values", starlark.Tuple{starlark.MakeInt(1)}, "code", starlark.Bytes("c")),
		env("constant values", starlark.Tuple{starlark.Float(1)}, "code", starlark.Bytes("d")))
	add("sharing-and-names", env("global values", env("A", shared, "B", shared), "names", starlark.Tuple{starlark.String("n")}),
		env("global values", env("A", lst(starlark.String("x")), "B", lst(starlark.String("x"))), "names", starlark.Tuple{}))
	// float against float, really different
	add("float-change", env("constant values", starlark.Tuple{starlark.Float(1)}), env("constant values", starlark.Tuple{starlark.Float(2)}))
	return out
}

// deepVal: a value nested n levels deep (kind 0: lists, 1: tuples, 2: lists, tuples and dicts in turn) around a leaf
func deepVal(n, kind int, leaf string) starlark.Value {
	var v starlark.Value = starlark.String(leaf)
	for i := 0; i < n; i++ {
		k := kind
		if kind == 2 {
			k = i % 3
		}
		switch k {
		case 0:
			v = starlark.NewList([]starlark.Value{starlark.String("a"), v})
		case 1:
			v = starlark.Tuple{v, starlark.MakeInt(i)}
		default:
			d := starlark.NewDict(1)
			d.SetKey(starlark.String("k"), v)
			v = d
		}
	}
	return v
}

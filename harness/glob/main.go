// Correspondence + judge harness for C17 (util.CompileGlobs). Built INTO the repo's module with
// `go build -overlay` as package github.com/pgavlin/dawn/cmd/verif_glob; not part of /repo.
//
// Output, one record per line, tab separated:
//   C <stream> <driver input> <Go's canonical answer>     correspondence pair (tie 2)
//   V <json>                                             the property's own predicate failed on the implementation
//   S <json>                                             statistics of this run
package main

import (
	"bufio"
	"encoding/hex"
	"encoding/json"
	"flag"
	"fmt"
	"os"
	"regexp/syntax"
	"strings"
	"unicode/utf8"

	"io/fs"
	"path/filepath"
	"sort"
	"sync"
	"time"

	"github.com/pgavlin/dawn"
	"github.com/pgavlin/dawn/label"
	starlark_os "github.com/pgavlin/dawn/lib/os"
	"github.com/pgavlin/dawn/util"
	"go.starlark.net/starlark"
)

type rng struct{ s uint64 }

func (r *rng) next() uint64 {
	r.s += 0x9E3779B97F4A7C15
	z := r.s
	z = (z ^ (z >> 30)) * 0xBF58476D1CE4E5B9
	z = (z ^ (z >> 27)) * 0x94D049BB133111EB
	return z ^ (z >> 31)
}
func (r *rng) below(n int) int { return int(r.next() % uint64(n)) }

func hx(s string) string {
	if s == "" {
		return "-"
	}
	return hex.EncodeToString([]byte(s))
}

func pats(gs []string) string {
	if len(gs) == 0 {
		return "."
	}
	h := make([]string, len(gs))
	for i, g := range gs {
		h[i] = hx(g)
	}
	return strings.Join(h, ",")
}

// ---- independent reference: the documented meaning of one glob, whole-path match (no regexp involved)
type tok struct {
	kind byte // '*' star, 'D' dstar, '?' q, 'c' literal
	r    rune
}

func lexRef(g string) ([]tok, string) {
	var out []tok
	rs := []rune(g)
	for i := 0; i < len(rs); i++ {
		switch rs[i] {
		case '\\':
			if i == len(rs)-1 {
				return nil, "trailing"
			}
			switch rs[i+1] {
			case '\\', '*', '?', '[', ']':
				out = append(out, tok{'c', rs[i+1]})
				i++
			default:
				return nil, "bad"
			}
		case '*':
			if i+1 < len(rs) && rs[i+1] == '*' {
				out = append(out, tok{'D', 0})
				i++
			} else {
				out = append(out, tok{'*', 0})
			}
		case '?':
			out = append(out, tok{'?', 0})
		default:
			out = append(out, tok{'c', rs[i]})
		}
	}
	return out, ""
}

func refMatch(ts []tok, p []rune) bool {
	if len(ts) == 0 {
		return len(p) == 0
	}
	switch ts[0].kind {
	case '*':
		for n := 0; n <= len(p); n++ {
			if n > 0 && p[n-1] == '/' {
				break
			}
			if refMatch(ts[1:], p[n:]) {
				return true
			}
		}
		return false
	case 'D':
		for n := 0; n <= len(p); n++ {
			if refMatch(ts[1:], p[n:]) {
				return true
			}
		}
		return false
	case '?':
		return len(p) > 0 && refMatch(ts[1:], p[1:])
	default:
		return len(p) > 0 && p[0] == ts[0].r && refMatch(ts[1:], p[1:])
	}
}

// ---- Go's own parse tree of the emitted text, in the model's canonical s-expression form
func items(re *syntax.Regexp) []string {
	switch re.Op {
	case syntax.OpEmptyMatch:
		return nil
	case syntax.OpConcat:
		var out []string
		for _, s := range re.Sub {
			out = append(out, items(s)...)
		}
		return out
	case syntax.OpLiteral:
		var out []string
		for _, r := range re.Rune {
			if re.Flags&syntax.FoldCase != 0 {
				out = append(out, fmt.Sprintf("(foldlit %d)", r))
			} else {
				out = append(out, fmt.Sprintf("(lit %d)", r))
			}
		}
		return out
	}
	return []string{node(re)}
}

func seq(re *syntax.Regexp) string {
	it := items(re)
	if len(it) == 1 {
		return it[0]
	}
	if len(it) == 0 {
		return "(cat)"
	}
	return "(cat " + strings.Join(it, " ") + ")"
}

func class(re *syntax.Regexp) string {
	r := re.Rune
	if len(r) == 4 && r[0] == 0 && r[1] == '/'-1 && r[2] == '/'+1 && r[3] == utf8.MaxRune {
		return "(notslash)"
	}
	return fmt.Sprintf("(class %v)", r)
}

func node(re *syntax.Regexp) string {
	switch re.Op {
	case syntax.OpNoMatch:
		return "(nomatch)"
	case syntax.OpEmptyMatch, syntax.OpConcat, syntax.OpLiteral:
		return seq(re)
	case syntax.OpAnyChar:
		return "(any)"
	case syntax.OpAnyCharNotNL:
		return "(anynotnl)"
	case syntax.OpCharClass:
		return class(re)
	case syntax.OpStar:
		if re.Flags&syntax.NonGreedy != 0 {
			return "(lazystar " + node(re.Sub[0]) + ")"
		}
		return "(star " + node(re.Sub[0]) + ")"
	case syntax.OpAlternate:
		var out []string
		for _, s := range re.Sub {
			out = append(out, node(s))
		}
		return "(alt " + strings.Join(out, " ") + ")"
	case syntax.OpCapture:
		return "(cap " + node(re.Sub[0]) + ")"
	case syntax.OpBeginText:
		return "(bot)"
	case syntax.OpEndText:
		return "(eot)"
	case syntax.OpBeginLine:
		return "(bol)"
	case syntax.OpEndLine:
		return "(eol)"
	}
	return fmt.Sprintf("(op%d %s)", re.Op, re.String())
}

func errKind(err error, gs []string) string {
	// the model distinguishes the two causes; the Go message does not, so classify by the reference lexer
	for _, g := range gs {
		if _, e := lexRef(g); e != "" {
			return "err " + e
		}
	}
	return "err other:" + hx(err.Error())
}

var (
	out   = bufio.NewWriterSize(os.Stdout, 1<<20)
	stats = map[string]int{}
	nviol = 0
)

func emit(stream, in, res string) { fmt.Fprintf(out, "C\t%s\t%s\t%s\n", stream, in, res) }

func violation(kind string, gs []string, path string, detail string) {
	nviol++
	if nviol > 20 {
		return
	}
	b, _ := json.Marshal(map[string]any{"kind": kind, "patterns": gs, "path": path, "detail": detail,
		"input": map[string]any{"patterns": gs, "path": path}})
	fmt.Fprintf(out, "V\t%s\n", b)
}

func oneSet(gs []string, paths []string, corr bool) {
	re, err := util.CompileGlobs(gs)
	in := pats(gs)
	if err != nil {
		stats["sets_rejected"]++
		k := errKind(err, gs)
		if strings.HasPrefix(k, "err other") {
			// accepted by the documented escape rule but rejected by CompileGlobs
			violation("compile-rejects-valid-set", gs, "", err.Error())
		}
		if corr {
			emit("glob.text", "text "+in, k)
		}
		return
	}
	stats["sets_compiled"]++
	stats[fmt.Sprintf("sets_with_%d_patterns", len(gs))]++
	if corr {
		emit("glob.text", "text "+in, "ok "+hx(re.String()))
		tree, perr := syntax.Parse(re.String(), syntax.Perl)
		if perr != nil {
			emit("glob.tree", "tree "+in, "parse-error")
		} else {
			emit("glob.tree", "tree "+in, "ok "+seq(tree))
		}
	}
	var tss [][]tok
	for _, g := range gs {
		ts, e := lexRef(g)
		if e != "" {
			violation("compile-accepts-invalid-escape", gs, "", e)
			return
		}
		tss = append(tss, ts)
	}
	for _, p := range paths {
		m := re.MatchString(p)
		u := false
		for _, ts := range tss {
			if refMatch(ts, []rune(p)) {
				u = true
				break
			}
		}
		stats["match_evaluations"]++
		if m {
			stats["matched"]++
		}
		b := func(x bool) string {
			if x {
				return "1"
			}
			return "0"
		}
		if corr {
			emit("glob.match", "match "+in+" "+hx(p), "ok "+b(m)+" "+b(u))
		}
		if m != u && len(gs) > 0 {
			violation("set-differs-from-union", gs, p, fmt.Sprintf("set matches=%v, union of patterns=%v", m, u))
		}
		if len(gs) == 0 {
			stats["empty_set_evaluations"]++
			if m && p != "" {
				violation("empty-set-matches-nonempty-path", gs, p, "")
			}
		}
	}
}

// ---- use of glob sets: the glob() builtin, os.glob() and the ignore list, on generated trees ----------------

func slist(ss []string) string {
	qs := make([]string, len(ss))
	for i, s := range ss {
		qs[i] = fmt.Sprintf("%q", s)
	}
	return "[" + strings.Join(qs, ", ") + "]"
}

func hxs(ss []string) string {
	if len(ss) == 0 {
		return "."
	}
	h := make([]string, len(ss))
	for i, s := range ss {
		h[i] = hx(s)
	}
	return strings.Join(h, ";")
}

func refSet(gs []string, p string) bool {
	for _, g := range gs {
		ts, e := lexRef(g)
		if e == "" && refMatch(ts, []rune(p)) {
			return true
		}
	}
	return false
}

func genName(r *rng) string {
	names := []string{"a", "b", "ab", "a.go", "b.go", "a.md", "x", "src", "gen", "vendor", "lib", "a[1]", "é", "a b", ".hid", "g.o"}
	return names[r.below(len(names))]
}

func genSetPattern(r *rng) string {
	pats := []string{"*", "**", "*.go", "**/*.go", "src/**", "src/*", "a*", "?", "??", "*/*", "vendor", "src/gen*", "**/a", "a.go", "\\*", "*.md", "g.?", "a[1]", ".*", "**/gen/**", "src", "x/**", "lib/?*", "é",
		// `?` opposite a separator, escapes without any wildcard, patterns that differ only in spelling
		"src?a", "a?b", "?/?", "src?*", "lib?x?a.go", "???", "a\\[1\\]", "a\\[1]", "x|y", "a b", "src?gen?a"}
	if r.below(4) == 0 {
		return genName(r) + "/" + pats[r.below(len(pats))]
	}
	return pats[r.below(len(pats))]
}

func selectTree(r *rng, tmp string, idx int) {
	root := filepath.Join(tmp, fmt.Sprintf("t%d", idx))
	os.MkdirAll(root, 0o755)
	defer os.RemoveAll(root)
	// tree
	nfiles := 3 + r.below(12)
	for i := 0; i < nfiles; i++ {
		depth := r.below(4)
		parts := []string{}
		for d := 0; d < depth; d++ {
			parts = append(parts, genName(r))
		}
		parts = append(parts, genName(r))
		p := filepath.Join(append([]string{root}, parts...)...)
		if st, err := os.Stat(p); err == nil && st.IsDir() {
			continue
		}
		if err := os.MkdirAll(filepath.Dir(p), 0o755); err != nil {
			continue // a file is in the way
		}
		os.WriteFile(p, []byte("x"), 0o644)
	}
	type q struct{ inc, exc []string }
	var qs []q
	for i := 0; i < 6; i++ {
		var c q
		for j, n := 0, r.below(3)+boolInt(r.below(5) != 0); j < n; j++ {
			c.inc = append(c.inc, genSetPattern(r))
		}
		for j, n := 0, r.below(3); j < n; j++ {
			c.exc = append(c.exc, genSetPattern(r))
		}
		qs = append(qs, c)
	}
	// directed queries derived from the files that exist, so that matches across separators are not rare:
	// a nested file's own path with its separators (or other characters) replaced by `?`, and no `**` in the list
	var nested []string
	filepath.WalkDir(root, func(path string, d fs.DirEntry, err error) error {
		if err == nil && !d.IsDir() && strings.Contains(path[len(root)+1:], "/") {
			nested = append(nested, filepath.ToSlash(path[len(root)+1:]))
		}
		return nil
	})
	sort.Strings(nested)
	for i := 0; i < 3 && len(nested) > 0; i++ {
		f := nested[r.below(len(nested))]
		g := strings.NewReplacer("\\", "\\\\", "[", "\\[", "]", "\\]", "*", "\\*").Replace(f)
		switch i {
		case 0:
			g = strings.ReplaceAll(g, "/", "?")
		case 1:
			g = strings.Replace(g, "/", "?", 1)
		default:
			if k := strings.LastIndex(g, "/"); k >= 0 {
				g = g[:k] + "?*"
			}
		}
		c := q{inc: []string{g}}
		if r.below(2) == 0 {
			c.inc = append(c.inc, genName(r))
		}
		qs = append(qs, c)
	}
	var src strings.Builder
	src.WriteString("out = []\n")
	for _, c := range qs {
		fmt.Fprintf(&src, "out.append(\"\\x1f\".join(glob(%s, exclude=%s)))\n", slist(c.inc), slist(c.exc))
		fmt.Fprintf(&src, "out.append(\"\\x1f\".join(os.glob(%s, exclude=%s)))\n", slist(c.inc), slist(c.exc))
	}
	src.WriteString("fail(\"GLOB=\" + \"\\x1e\".join(out) + \"=END\")\n")
	os.WriteFile(filepath.Join(root, ".dawnconfig"), nil, 0o644)
	os.WriteFile(filepath.Join(root, "BUILD.dawn"), []byte(src.String()), 0o644)
	// what an earlier build leaves behind: glob() must never return any of it
	os.MkdirAll(filepath.Join(root, ".dawn", "build", "sources"), 0o755)
	os.WriteFile(filepath.Join(root, ".dawn", "build", "index.json"), []byte("{}"), 0o644)
	os.WriteFile(filepath.Join(root, ".dawn", "build", "sources", "%2Fa.go"), []byte("{}"), 0o644)
	// what is on disk
	var files, entries []string
	filepath.WalkDir(root, func(path string, d fs.DirEntry, err error) error {
		if err != nil || path == root {
			return nil
		}
		rel := filepath.ToSlash(path[len(root)+1:])
		if rel == ".dawn" {
			return fs.SkipDir
		}
		entries = append(entries, rel)
		if !d.IsDir() {
			files = append(files, rel)
		}
		return nil
	})
	_, err := dawn.Load(root, &dawn.LoadOptions{Builtins: starlark.StringDict{"os": starlark_os.Module}})
	if err == nil {
		violation("glob-builtin-harness", nil, "", "Load did not fail as arranged")
		return
	}
	msg := err.Error()
	a, b := strings.Index(msg, "GLOB="), strings.LastIndex(msg, "=END")
	if a < 0 || b < a {
		stats["select_load_errors"]++
		if stats["select_load_errors"] < 3 {
			fmt.Fprintf(os.Stderr, "select: unexpected load error: %s\n", msg)
		}
		return
	}
	res := strings.Split(msg[a+5:b], "\x1e")
	if len(res) != 2*len(qs) {
		violation("glob-builtin-harness", nil, "", "unexpected result count")
		return
	}
	for i, c := range qs {
		for k, universe := range [][]string{files, entries} {
			which := []string{"glob", "os.glob"}[k]
			var got []string
			if res[2*i+k] != "" {
				got = strings.Split(res[2*i+k], "\x1f")
			}
			// dawn's own work directory may appear under os.glob's walk (a plain directory walk); it is not part of
			// the generated tree. The project's glob() builtin, however, must never return anything of the build
			// state directory .dawn/build: those files change with every build and would become sources.
			var g2 []string
			for _, p := range got {
				if k == 0 && (p == ".dawn/build" || strings.HasPrefix(p, ".dawn/build/")) {
					nviol++
					bb, _ := json.Marshal(map[string]any{"kind": "glob-returns-build-state", "detail": p, "patterns": c.inc, "path": p,
						"input": map[string]any{"builtin": which, "include": c.inc, "exclude": c.exc, "tree": universe}})
					if nviol <= 20 {
						fmt.Fprintf(out, "V\t%s\n", bb)
					}
				}
				if p != ".dawn" && !strings.HasPrefix(p, ".dawn/") {
					g2 = append(g2, p)
				}
			}
			got = g2
			sort.Strings(got)
			var want []string
			for _, p := range universe {
				if refSet(c.inc, p) && !refSet(c.exc, p) {
					want = append(want, p)
				}
			}
			sort.Strings(want)
			stats["select_queries"]++
			stats["select_selected"] += len(got)
			u := append([]string(nil), universe...)
			sort.Strings(u)
			emit("glob.select", "select "+pats(c.inc)+" "+pats(c.exc)+" "+hxs(u), "ok "+hxs(got))
			if strings.Join(got, "\x00") != strings.Join(want, "\x00") {
				nviol++
				bb, _ := json.Marshal(map[string]any{"kind": which + "-selection-differs", "detail": fmt.Sprintf("got %q want %q", got, want),
					"patterns": c.inc, "path": "", "input": map[string]any{"builtin": which, "include": c.inc, "exclude": c.exc, "tree": universe}})
				if nviol <= 20 {
					fmt.Fprintf(out, "V\t%s\n", bb)
				}
			}
		}
	}
}

func boolInt(b bool) int {
	if b {
		return 1
	}
	return 0
}

// ignore lists: dawn.toml `ignore = [...]`; a package is loaded iff neither its directory nor an ancestor matches
func ignoreTree(r *rng, tmp string, idx int) {
	root := filepath.Join(tmp, fmt.Sprintf("i%d", idx))
	os.MkdirAll(root, 0o755)
	defer os.RemoveAll(root)
	dirs := map[string]bool{"": true}
	for i, n := 0, 3+r.below(8); i < n; i++ {
		depth := 1 + r.below(3)
		parts := []string{}
		for d := 0; d < depth; d++ {
			parts = append(parts, []string{"a", "b", "src", "gen", "vendor", "x.d", "lib", "s[1]", "we\\ird"}[r.below(9)])
			dirs[strings.Join(parts, "/")] = true
		}
	}
	var ign []string
	for j, n := 0, 1+r.below(3); j < n; j++ {
		igs := []string{"vendor", "*", "**/gen", "src/*", "a", "?", "lib/**", "*/b", "x.d", "**", "a/b", "src", "s\\[1\\]", "a\\[1]", "we\\\\ird", "src?s[1]", "a?b", "s[1]",
			// patterns that are not in clean path form: they match exactly what they spell, nothing else
			"gen/", "./src", "a//b", "vendor/.", "a/*/", "lib/../a", "/a", "src/./gen"}
		ign = append(ign, igs[r.below(len(igs))])
	}
	var all []string
	for d := range dirs {
		all = append(all, d)
		os.MkdirAll(filepath.Join(root, filepath.FromSlash(d)), 0o755)
		os.WriteFile(filepath.Join(root, filepath.FromSlash(d), "BUILD.dawn"), []byte("@target()\ndef t():\n    pass\n"), 0o644)
	}
	sort.Strings(all)
	os.WriteFile(filepath.Join(root, "dawn.toml"), []byte("name = \"p\"\nignore = "+slist(ign)+"\n"), 0o644)
	proj, err := dawn.Load(root, &dawn.LoadOptions{})
	if err != nil {
		stats["ignore_load_errors"]++
		if stats["ignore_load_errors"] < 3 {
			fmt.Fprintf(os.Stderr, "ignore: load error: %v\n", err)
		}
		return
	}
	loaded := map[string]bool{}
	for _, t := range proj.Targets() {
		l := t.Label()
		if l.Kind == "" && l.Name == "t" {
			loaded[strings.TrimPrefix(l.Package, "//")] = true
		}
	}
	var got, want []string
	for _, d := range all {
		if loaded[d] {
			got = append(got, d)
		}
		ok := true
		parts := strings.Split(d, "/")
		if d == "" {
			parts = nil
		}
		for k := 0; k <= len(parts); k++ {
			if refSet(ign, strings.Join(parts[:k], "/")) {
				ok = false
			}
		}
		if ok {
			want = append(want, d)
		}
	}
	stats["ignore_queries"]++
	stats["ignore_loaded"] += len(got)
	emit("glob.ignore", "loaded "+pats(ign)+" "+hxs(all), "ok "+hxs(got))
	if strings.Join(got, "\x00") != strings.Join(want, "\x00") {
		nviol++
		bb, _ := json.Marshal(map[string]any{"kind": "ignore-list-selection-differs", "detail": fmt.Sprintf("loaded %q want %q", got, want),
			"patterns": ign, "path": "", "input": map[string]any{"ignore": ign, "dirs": all}})
		if nviol <= 20 {
			fmt.Fprintf(out, "V\t%s\n", bb)
		}
	}
}

// ---- os.glob() called from target BODIES (the thread's working directory is the package directory) and the
// ---- ignore list as used by watch mode ------------------------------------------------------------------

type recEvents struct {
	dawn.Events
	m       sync.Mutex
	prints  map[string][]string
	changed map[string]bool
}

func newRec() *recEvents {
	return &recEvents{Events: dawn.DiscardEvents, prints: map[string][]string{}, changed: map[string]bool{}}
}

func (e *recEvents) Print(l *label.Label, line string) {
	e.m.Lock()
	defer e.m.Unlock()
	e.prints[l.String()] = append(e.prints[l.String()], line)
}

func (e *recEvents) FileChanged(l *label.Label) {
	e.m.Lock()
	defer e.m.Unlock()
	e.changed[l.String()] = true
}

func (e *recEvents) has(l string) bool {
	e.m.Lock()
	defer e.m.Unlock()
	return e.changed[l]
}

func listEntries(dir string) []string {
	var entries []string
	filepath.WalkDir(dir, func(path string, d fs.DirEntry, err error) error {
		if err != nil || path == dir {
			return nil
		}
		rel := filepath.ToSlash(path[len(dir)+1:])
		if rel == ".dawn" {
			return fs.SkipDir
		}
		entries = append(entries, rel)
		return nil
	})
	sort.Strings(entries)
	return entries
}

func bodyGlobTree(r *rng, tmp string, idx int) {
	root := filepath.Join(tmp, fmt.Sprintf("b%d", idx))
	os.MkdirAll(filepath.Join(root, "sub"), 0o755)
	defer os.RemoveAll(root)
	for i, n := 0, 4+r.below(10); i < n; i++ {
		parts := []string{}
		if r.below(2) == 0 {
			parts = append(parts, "sub")
		}
		for d, depth := 0, r.below(3); d < depth; d++ {
			parts = append(parts, genName(r))
		}
		parts = append(parts, genName(r))
		p := filepath.Join(append([]string{root}, parts...)...)
		if st, err := os.Stat(p); err == nil && st.IsDir() {
			continue
		}
		if os.MkdirAll(filepath.Dir(p), 0o755) != nil {
			continue
		}
		os.WriteFile(p, []byte("x"), 0o644)
	}
	type q struct{ inc, exc []string }
	mk := func() []q {
		var qs []q
		for i := 0; i < 3; i++ {
			var c q
			for j, n := 0, 1+r.below(2); j < n; j++ {
				c.inc = append(c.inc, genSetPattern(r))
			}
			for j, n := 0, r.below(2); j < n; j++ {
				c.exc = append(c.exc, genSetPattern(r))
			}
			qs = append(qs, c)
		}
		return qs
	}
	body := func(name string, qs []q) string {
		var b strings.Builder
		fmt.Fprintf(&b, "@target()\ndef %s():\n", name)
		for i, c := range qs {
			fmt.Fprintf(&b, "    print(\"OSG%d=\" + \"\\x1f\".join(os.glob(%s, exclude=%s)))\n", i, slist(c.inc), slist(c.exc))
		}
		return b.String()
	}
	rootQs, subQs := mk(), mk()
	os.WriteFile(filepath.Join(root, ".dawnconfig"), nil, 0o644)
	os.WriteFile(filepath.Join(root, "BUILD.dawn"), []byte(body("t", rootQs)+"\n@target(deps=[t, \"//sub:s\"])\ndef default():\n    pass\n"), 0o644)
	os.WriteFile(filepath.Join(root, "sub", "BUILD.dawn"), []byte(body("s", subQs)), 0o644)
	rootEntries, subEntries := listEntries(root), listEntries(filepath.Join(root, "sub"))
	rec := newRec()
	proj, err := dawn.Load(root, &dawn.LoadOptions{Events: rec, Builtins: starlark.StringDict{"os": starlark_os.Module}})
	if err != nil {
		stats["bodyglob_load_errors"]++
		if stats["bodyglob_load_errors"] < 3 {
			fmt.Fprintf(os.Stderr, "bodyglob: load error: %v\n", err)
		}
		return
	}
	def, _ := label.Parse("//:default")
	if err := proj.Run(def, nil); err != nil {
		stats["bodyglob_run_errors"]++
		if stats["bodyglob_run_errors"] < 3 {
			fmt.Fprintf(os.Stderr, "bodyglob: run error: %v\n", err)
		}
		return
	}
	check := func(lbl string, qs []q, universe []string) {
		rec.m.Lock()
		lines := append([]string(nil), rec.prints[lbl]...)
		rec.m.Unlock()
		for i, c := range qs {
			prefix := fmt.Sprintf("OSG%d=", i)
			var got []string
			found := false
			for _, l := range lines {
				if strings.HasPrefix(l, prefix) {
					found = true
					if rest := l[len(prefix):]; rest != "" {
						got = strings.Split(rest, "\x1f")
					}
				}
			}
			if !found {
				violation("glob-builtin-harness", c.inc, "", "no output of os.glob from the body of "+lbl)
				continue
			}
			var g2 []string
			for _, p := range got {
				if p != ".dawn" && !strings.HasPrefix(p, ".dawn/") {
					g2 = append(g2, p)
				}
			}
			sort.Strings(g2)
			var want []string
			for _, p := range universe {
				if refSet(c.inc, p) && !refSet(c.exc, p) {
					want = append(want, p)
				}
			}
			stats["bodyglob_queries"]++
			stats["bodyglob_selected"] += len(g2)
			emit("glob.bodyselect", "select "+pats(c.inc)+" "+pats(c.exc)+" "+hxs(universe), "ok "+hxs(g2))
			if strings.Join(g2, "\x00") != strings.Join(want, "\x00") {
				nviol++
				bb, _ := json.Marshal(map[string]any{"kind": "os.glob-in-target-body-selection-differs", "detail": fmt.Sprintf("target %s: got %q want %q", lbl, g2, want),
					"patterns": c.inc, "path": "", "input": map[string]any{"builtin": "os.glob in the body of " + lbl, "include": c.inc, "exclude": c.exc, "tree": universe}})
				if nviol <= 20 {
					fmt.Fprintf(out, "V\t%s\n", bb)
				}
			}
		}
	}
	check("//:t", rootQs, rootEntries)
	check("//sub:s", subQs, subEntries)
}

// glob() after Reload on the same Project: the sources of a glob()-sourced target must follow the tree
func reloadGlobTree(r *rng, tmp string, idx int) {
	root := filepath.Join(tmp, fmt.Sprintf("r%d", idx))
	os.MkdirAll(root, 0o755)
	defer os.RemoveAll(root)
	write := func(rel string) {
		p := filepath.Join(root, filepath.FromSlash(rel))
		if st, err := os.Stat(p); err == nil && st.IsDir() {
			return
		}
		if os.MkdirAll(filepath.Dir(p), 0o755) == nil {
			os.WriteFile(p, []byte("x"), 0o644)
		}
	}
	randPath := func() string {
		parts := []string{}
		for d, depth := 0, r.below(3); d < depth; d++ {
			parts = append(parts, genName(r))
		}
		return strings.Join(append(parts, genName(r)), "/")
	}
	for i, n := 0, 3+r.below(6); i < n; i++ {
		write(randPath())
	}
	var inc, exc []string
	for j, n := 0, 1+r.below(2); j < n; j++ {
		inc = append(inc, genSetPattern(r))
	}
	if r.below(2) == 0 {
		inc = append(inc, "**")
	}
	for j, n := 0, r.below(2); j < n; j++ {
		exc = append(exc, genSetPattern(r))
	}
	exc = append(exc, "BUILD.dawn", ".dawnconfig")
	os.WriteFile(filepath.Join(root, ".dawnconfig"), nil, 0o644)
	os.WriteFile(filepath.Join(root, "BUILD.dawn"), []byte(fmt.Sprintf("@target(sources=glob(%s, exclude=%s))\ndef t():\n    pass\n", slist(inc), slist(exc))), 0o644)
	proj, err := dawn.Load(root, &dawn.LoadOptions{})
	if err != nil {
		stats["reloadglob_load_errors"]++
		return
	}
	for step := 0; step < 3; step++ {
		if step > 0 {
			// change the tree: add files, remove files
			for i, n := 0, 1+r.below(3); i < n; i++ {
				write(randPath())
			}
			if fs := listEntries(root); len(fs) > 0 {
				victim := fs[r.below(len(fs))]
				if victim != "BUILD.dawn" && victim != ".dawnconfig" {
					os.RemoveAll(filepath.Join(root, filepath.FromSlash(victim)))
				}
			}
			if err := proj.Reload(); err != nil {
				stats["reloadglob_reload_errors"]++
				return
			}
		}
		var files []string
		filepath.WalkDir(root, func(path string, d fs.DirEntry, err error) error {
			if err != nil || path == root {
				return nil
			}
			rel := filepath.ToSlash(path[len(root)+1:])
			if rel == ".dawn" {
				return fs.SkipDir
			}
			if !d.IsDir() {
				files = append(files, rel)
			}
			return nil
		})
		sort.Strings(files)
		var got []string
		for _, t := range proj.Targets() {
			if l := t.Label(); l.Kind == "" && l.Name == "t" {
				for _, d := range t.Dependencies() {
					if d.Kind == "source" {
						p := strings.TrimPrefix(d.Package, "//")
						if p != "" {
							p += "/"
						}
						got = append(got, p+d.Name)
					}
				}
			}
		}
		sort.Strings(got)
		var want []string
		for _, p := range files {
			if refSet(inc, p) && !refSet(exc, p) {
				want = append(want, p)
			}
		}
		stats["reloadglob_queries"]++
		emit("glob.reloadselect", "select "+pats(inc)+" "+pats(exc)+" "+hxs(files), "ok "+hxs(got))
		if strings.Join(got, "\x00") != strings.Join(want, "\x00") {
			nviol++
			bb, _ := json.Marshal(map[string]any{"kind": "glob-after-reload-selection-differs", "detail": fmt.Sprintf("after %d reload(s): got %q want %q", step, got, want),
				"patterns": inc, "path": "", "input": map[string]any{"builtin": "glob as sources, after Reload", "include": inc, "exclude": exc, "tree": files}})
			if nviol <= 20 {
				fmt.Fprintf(out, "V\t%s\n", bb)
			}
		}
	}
}

func watchTree(r *rng, tmp string, idx int) {
	root := filepath.Join(tmp, fmt.Sprintf("w%d", idx))
	os.MkdirAll(root, 0o755)
	defer os.RemoveAll(root)
	if rr, err := filepath.EvalSymlinks(root); err == nil {
		root = rr
	}
	dirs := []string{"", "src", "gen", "gen/deep", "scratch", "src/cache", "src/cache/sub", "lib", "s[1]"}
	for _, d := range dirs {
		os.MkdirAll(filepath.Join(root, filepath.FromSlash(d)), 0o755)
		os.WriteFile(filepath.Join(root, filepath.FromSlash(d), "seed"), nil, 0o644)
	}
	all := []string{"gen/**", "scratch", "*/cache/*.bin", "src", "src/*", "**/*.txt", "lib/?", "*", "gen/*", "s\\[1\\]/*", "??p.txt", "scratch/*", "**/deep/**", "src?main.txt", "*.bin"}
	var ign []string
	for {
		ign = nil
		for j, n := 0, 1+r.below(3); j < n; j++ {
			ign = append(ign, all[r.below(len(all))])
		}
		if !refSet(ign, "zz_ready") && !refSet(ign, "zz_done") && !refSet(ign, "") {
			break
		}
	}
	os.WriteFile(filepath.Join(root, "dawn.toml"), []byte("ignore = "+slist(ign)+"\n"), 0o644)
	os.WriteFile(filepath.Join(root, "BUILD.dawn"), []byte("@target(default=True)\ndef all():\n    pass\n"), 0o644)
	rec := newRec()
	proj, err := dawn.Load(root, &dawn.LoadOptions{Events: rec})
	if err != nil {
		stats["watch_load_errors"]++
		fmt.Fprintf(os.Stderr, "watch: load error: %v\n", err)
		return
	}
	def, _ := label.Parse("//:default")
	werr := make(chan error, 1)
	go func() { werr <- proj.Watch(def) }()
	touch := func(rel string) {
		os.WriteFile(filepath.Join(root, filepath.FromSlash(rel)), []byte(time.Now().String()), 0o644)
	}
	waitFor := func(rel string) bool {
		l := "source://:" + rel
		deadline := time.Now().Add(15 * time.Second)
		for !rec.has(l) {
			select {
			case e := <-werr:
				fmt.Fprintf(os.Stderr, "watch: %v\n", e)
				return false
			default:
			}
			if time.Now().After(deadline) {
				return false
			}
			touch(rel)
			time.Sleep(40 * time.Millisecond)
		}
		return true
	}
	if !waitFor("zz_ready") {
		stats["watch_not_started"]++
		return
	}
	names := []string{"out.txt", "blob.bin", "main.txt", "x", "top.txt", "a", "notes.txt"}
	var touched []string
	for i := 0; i < 14; i++ {
		d := dirs[r.below(len(dirs))]
		p := names[r.below(len(names))]
		if d != "" {
			p = d + "/" + p
		}
		touched = append(touched, p)
		touch(p)
	}
	if !waitFor("zz_done") {
		stats["watch_no_sentinel"]++
		return
	}
	b := func(x bool) string {
		if x {
			return "1"
		}
		return "0"
	}
	seen := map[string]bool{}
	for _, p := range touched {
		if seen[p] {
			continue
		}
		seen[p] = true
		dir, base := "", p
		if k := strings.LastIndex(p, "/"); k >= 0 {
			dir, base = p[:k], p[k+1:]
		}
		reported := rec.has("source://" + dir + ":" + base)
		ignored := refSet(ign, p)
		stats["watch_paths"]++
		if ignored {
			stats["watch_ignored"]++
		}
		emit("glob.watch", "match "+pats(ign)+" "+hx(p), "ok "+b(!reported)+" "+b(ignored))
		if reported == ignored {
			nviol++
			bb, _ := json.Marshal(map[string]any{"kind": "watch-ignore-list-differs", "detail": fmt.Sprintf("%s: matched by the ignore list = %v, FileChanged reported = %v", p, ignored, reported),
				"patterns": ign, "path": p, "input": map[string]any{"watch": true, "ignore": ign, "changed": p}})
			if nviol <= 20 {
				fmt.Fprintf(out, "V\t%s\n", bb)
			}
		}
	}
}

func enumerate(alpha []string, maxLen int, f func(string)) {
	var rec func(prefix string, n int)
	rec = func(prefix string, n int) {
		f(prefix)
		if n == maxLen {
			return
		}
		for _, a := range alpha {
			rec(prefix+a, n+1)
		}
	}
	rec("", 0)
}

func main() {
	seed := flag.Uint64("seed", 1, "")
	tier := flag.String("tier", "quick", "")
	replay := flag.String("replay", "", "json {patterns, path}")
	flag.Parse()
	defer out.Flush()

	if *replay != "" {
		var c struct {
			Patterns []string `json:"patterns"`
			Path     string   `json:"path"`
		}
		if err := json.Unmarshal([]byte(*replay), &c); err != nil {
			fmt.Fprintln(os.Stderr, err)
			os.Exit(2)
		}
		oneSet(c.Patterns, []string{c.Path}, true)
		return
	}

	r := &rng{*seed}
	patAlpha := []string{"a", "b", "/", ".", "*", "?", "\\", "[", "]", "(", ")", "|", "$", "^", "+", "{", "}", "é", "\n", "-", "世"}
	pathAlpha := []string{"a", "b", "/", ".", "[", "]", "é", "\n", "*", "\\", "|", "("}

	// 1. exhaustive small: single patterns and pairs over a reduced alphabet, all short paths
	small := []string{"a", "/", ".", "*", "?", "\\", "["}
	spaths := []string{}
	plen, slen := 3, 4
	if *tier == "thorough" {
		plen, slen = 4, 5
	}
	enumerate([]string{"a", "/", ".", "["}, slen, func(s string) { spaths = append(spaths, s) })
	var singles []string
	enumerate(small, plen, func(g string) { singles = append(singles, g) })
	for _, g := range singles {
		oneSet([]string{g}, spaths, len(g) <= 2)
	}
	stats["exhaustive_single_patterns"] = len(singles)
	// pairs and triples of short patterns: this is where anchoring of an alternation shows
	var shorts []string
	enumerate([]string{"a", "/", "*", "?", "."}, 2, func(g string) { shorts = append(shorts, g) })
	for _, g1 := range shorts {
		for _, g2 := range shorts {
			oneSet([]string{g1, g2}, spaths, len(g1)+len(g2) <= 2)
		}
	}
	stats["exhaustive_pairs"] = len(shorts) * len(shorts)
	oneSet(nil, spaths, true)

	// 2. random sets of 0..4 patterns, longer paths, full alphabets (incl. newline, non-ASCII, brackets)
	n := 3000
	if *tier == "thorough" {
		n = 60000
	}
	for i := 0; i < n; i++ {
		k := r.below(5)
		gs := make([]string, k)
		for j := range gs {
			l := r.below(6)
			var b strings.Builder
			for x := 0; x < l; x++ {
				if r.below(3) == 0 {
					b.WriteString([]string{"*", "**", "?", "\\*", "\\[", "/", "."}[r.below(7)])
				} else {
					b.WriteString(patAlpha[r.below(len(patAlpha))])
				}
			}
			gs[j] = b.String()
		}
		var ps []string
		for x := 0; x < 6; x++ {
			l := r.below(7)
			var b strings.Builder
			for y := 0; y < l; y++ {
				b.WriteString(pathAlpha[r.below(len(pathAlpha))])
			}
			ps = append(ps, b.String())
		}
		// paths derived from the patterns, so that matches are not rare
		for _, g := range gs {
			p := strings.NewReplacer("**", "a/b", "*", "ab", "?", "b", "\\", "").Replace(g)
			ps = append(ps, p, p+"/x", "x/"+p)
		}
		oneSet(gs, ps, true)
	}
	stats["random_sets"] = n

	// 2b. the users of glob sets on generated trees
	tmp, _ := os.MkdirTemp("", "verif-glob")
	defer os.RemoveAll(tmp)
	nt := 40
	if *tier == "thorough" {
		nt = 600
	}
	for i := 0; i < nt; i++ {
		selectTree(r, tmp, i)
		ignoreTree(r, tmp, i)
		if i%2 == 0 {
			bodyGlobTree(r, tmp, i)
		} else {
			reloadGlobTree(r, tmp, i)
		}
	}
	nw := 3
	if *tier == "thorough" {
		nw = 30
	}
	for i := 0; i < nw; i++ {
		watchTree(r, tmp, i)
	}

	// 3. invalid UTF-8 and NUL: outside the model, must not crash
	for _, g := range []string{"\xff", "a\xc3", "\x00*", "\\\xff", "*\xe4\xb8"} {
		func() {
			defer func() {
				if e := recover(); e != nil {
					violation("panic", []string{g}, "", fmt.Sprint(e))
				}
			}()
			if re, err := util.CompileGlobs([]string{g, "a"}); err == nil {
				re.MatchString("a\xff")
			}
			stats["invalid_utf8_probes"]++
		}()
	}
	stats["violations"] = nviol
	b, _ := json.Marshal(stats)
	fmt.Fprintf(out, "S\t%s\n", b)
}
